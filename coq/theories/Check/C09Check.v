(* Executable comparison functions for the C09 correspondence: the harness tabulates the rule bodies (direct OPA
   evaluation of rules[c][t].aggregate per file and .aggregate_report per list of entries) and records what the
   real pipeline did (linter.Lint one-shot / collect / WithAggregates, cache.Cache); the model recomputes the
   pipeline's results from the tables.  No theorems here. *)
From Regal Require Export Model.AggPipeline Model.AggCache Check.C06Check.

(* aggregate entries are numbered by the harness (canonical JSON -> id) *)
Record cfile := {
  cf_id : N; cf_name : str; cf_comments : list comment;
  cf_b : list (str * list N);                 (* bundled rule key -> entries *)
  cf_c : list (str * option (list N)) }.      (* custom rule key -> None (no `aggregate`) | Some entries *)

Definition report_table := list (str * list N * list violation).

Record workspace := {
  w_files : list cfile;
  w_brules : list str; w_ckeys : list str;
  w_btable : report_table; w_ctable : report_table;
  w_src : list (N * str); w_ikey : list (N * str) }.

Fixpoint insert_sorted (x : N) (l : list N) {struct l} : list N :=
  match l with
  | [] => [x]
  | y :: l' => if x <=? y then x :: l else y :: insert_sorted x l'
  end.
Definition sort_ids (l : list N) : list N := fold_right insert_sorted [] l.

Fixpoint ids_eqb (a b : list N) {struct a} : bool :=
  match a, b with
  | [], [] => true
  | x :: a', y :: b' => (x =? y) && ids_eqb a' b'
  | _, _ => false
  end.

(* a missing table row is a harness bug: it must show up as a mismatch, not as "no violations" *)
Definition POISON : violation :=
  {| v_cat := [63]; v_title := [63]; v_file := [63]; v_row := None; v_col := 0 |}.

Fixpoint table_lookup (t : report_table) (r : str) (ids : list N) {struct t} : list violation :=
  match t with
  | [] => [POISON]
  | (r', ids', vs) :: t' => if str_eqb r' r && ids_eqb ids' ids then vs else table_lookup t' r ids
  end.

Definition oracle_report (t : report_table) (r : str) (aggs : list N) : list violation :=
  table_lookup t r (sort_ids aggs).

Fixpoint assoc_str {A} (l : list (str * A)) (k : str) {struct l} : option A :=
  match l with
  | [] => None
  | (k', v) :: l' => if str_eqb k' k then Some v else assoc_str l' k
  end.

Definition b_aggregate (r : str) (f : cfile) : list N :=
  match assoc_str (cf_b f) r with Some es => es | None => [] end.
Definition c_aggregate (k : str) (f : cfile) : option (list N) :=
  match assoc_str (cf_c f) k with Some o => o | None => None end.

Fixpoint file_by_id (fs : list cfile) (id : N) {struct fs} : option cfile :=
  match fs with
  | [] => None
  | f :: fs' => if cf_id f =? id then Some f else file_by_id fs' id
  end.

Definition files_of (w : workspace) (ids : list N) : option (list cfile) :=
  fold_right (fun id acc => match file_by_id (w_files w) id, acc with
                            | Some f, Some l => Some (f :: l)
                            | _, _ => None
                            end) (Some []) ids.

Definition parts_of (w : workspace) (ps : list (list N)) : option (list (list cfile)) :=
  fold_right (fun p acc => match files_of w p, acc with
                           | Some l, Some ls => Some (l :: ls)
                           | _, _ => None
                           end) (Some []) ps.

(* ---- the pipeline instantiated with the tables ---- *)
Definition m_one_shot (w : workspace) (fs : list cfile) : list violation :=
  one_shot cfile N cf_name cf_comments (w_brules w) (w_ckeys w) b_aggregate c_aggregate
           (oracle_report (w_btable w)) (oracle_report (w_ctable w)) fs.
Definition m_two_phase (w : workspace) (ps : list (list cfile)) : list violation :=
  two_phase cfile N cf_name cf_comments (w_brules w) (w_ckeys w) b_aggregate c_aggregate
            (oracle_report (w_btable w)) (oracle_report (w_ctable w)) ps.
Definition m_two_phase_nodirs (w : workspace) (ps : list (list cfile)) : list violation :=
  two_phase_no_directives cfile N (w_brules w) (w_ckeys w) b_aggregate c_aggregate
            (oracle_report (w_btable w)) (oracle_report (w_ctable w)) ps.
Definition m_collect (w : workspace) (use_collect : bool) (fs : list cfile) : aggmap N :=
  collect cfile N (w_brules w) (w_ckeys w) b_aggregate c_aggregate use_collect fs.

Inductive run_mode := OneShot | TwoPhase | TwoPhaseNoDirs.
Record run_case := { rc_mode : run_mode; rc_parts : list (list N); rc_obs : list violation }.

Definition run_model (w : workspace) (c : run_case) : option (list violation) :=
  match parts_of w (rc_parts c) with
  | None => None
  | Some ps =>
    Some match rc_mode c with
         | OneShot => m_one_shot w (concat ps)
         | TwoPhase => m_two_phase w ps
         | TwoPhaseNoDirs => m_two_phase_nodirs w ps
         end
  end.

Definition run_agrees (w : workspace) (c : run_case) : bool :=
  match run_model w c with
  | Some vs => same_violations vs (rc_obs c)
  | None => false
  end.

(* the property itself on the model side: what the model says for two-phase equals what it says for one-shot
   over the same files (for more than one file) -- redundant with the proof, evaluated on the real tables *)
Definition run_model_consistent (w : workspace) (c : run_case) : bool :=
  match parts_of w (rc_parts c), rc_mode c with
  | Some ps, TwoPhase =>
      (Nat.leb (length (concat ps)) 1) || same_violations (m_two_phase w ps) (m_one_shot w (concat ps))
  | Some _, _ => true
  | None, _ => false
  end.

(* ---- exported aggregates of a collect run: key -> entries (a key without entries is the marker) ---- *)
Record collect_case := { cc_part : list N; cc_use : bool; cc_keys : list (str * list N); cc_obs : list violation;
                         cc_dirs : gomap }.     (* Report.IgnoreDirectives of the run: file -> row key -> names *)


Definition same_ids (a b : list N) : bool := ids_eqb (sort_ids a) (sort_ids b).

Definition aggmap_matches (m : aggmap N) (obs : list (str * list N)) : bool :=
  forallb (fun kv => am_mem (fst kv) m && same_ids (am_get (fst kv) m) (snd kv)) obs &&
  forallb (fun kv => match assoc_str obs (fst kv) with Some _ => true | None => false end) m.

Definition collect_agrees (w : workspace) (c : collect_case) : bool :=
  match files_of w (cc_part c) with
  | Some fs => aggmap_matches (m_collect w (cc_use c) fs) (cc_keys c)
  | None => false
  end.

(* the directives a run exports: one entry per linted file, also for a file without directives *)
Definition collect_dirs_agrees (w : workspace) (c : collect_case) : bool :=
  match files_of w (cc_part c) with
  | Some fs => gomap_same (exported_dirs cfile cf_name cf_comments fs) (cc_dirs c)
  | None => false
  end.

(* the aggregate violations a collect run reports itself (none for a single file, those of its part otherwise) *)
Definition collect_report_agrees (w : workspace) (c : collect_case) : bool :=
  match files_of w (cc_part c) with
  | Some fs =>
      same_violations
        (lint_aggregate_violations N (w_brules w) (w_ckeys w) (oracle_report (w_btable w)) (oracle_report (w_ctable w))
           (m_collect w (cc_use c) fs) (length fs) None (carry (results_of cfile cf_name cf_comments fs)))
        (cc_obs c)
  | None => false
  end.

(* ---- the cache: aggregates and directives, driven through the history model of Model/AggCache.v ---- *)
Inductive cache_op := OpSetAll (ids : list N) | OpSetFile (id : N) | OpDelete (name : str).

Definition lookup_n (t : list (N * str)) (a : N) : str :=
  match find (fun kv => fst kv =? a) t with Some kv => snd kv | None => [] end.

Definition m_lsp_init (w : workspace) (fs : list cfile) : lsp_state N :=
  lsp_init cfile N cf_name cf_comments (w_brules w) (w_ckeys w) b_aggregate c_aggregate (lookup_n (w_src w)) fs.
Definition m_lsp_replace (w : workspace) (st : lsp_state N) (f : cfile) : lsp_state N :=
  lsp_replace cfile N cf_name cf_comments (w_brules w) (w_ckeys w) b_aggregate c_aggregate (lookup_n (w_src w)) st f.
Definition m_lsp_report (w : workspace) (st : lsp_state N) : list violation :=
  lsp_report cfile N cf_name cf_comments (w_brules w) (w_ckeys w)
             (oracle_report (w_btable w)) (oracle_report (w_ctable w)) (lookup_n (w_ikey w)) st.

Definition apply_op (w : workspace) (c : option (lsp_state N)) (op : cache_op) : option (lsp_state N) :=
  match c with
  | None => None
  | Some st =>
    match op with
    | OpSetAll ids =>
        match files_of w ids with
        | Some fs => Some (m_lsp_init w fs)
        | None => None
        end
    | OpSetFile id =>
        match file_by_id (w_files w) id with
        | Some f => Some (m_lsp_replace w st f)
        | None => None
        end
    | OpDelete name => Some (lsp_delete N st name)
    end
  end.

Record cache_case := {
  kc_ops : list cache_op;
  kc_state : list N;                       (* the files the workspace consists of after the operations *)
  kc_dump : list (str * list N);           (* GetFileAggregates() *)
  kc_dirs : gomap;                         (* GetIgnoreDirectives() *)
  kc_report : list violation;              (* WithAggregates(dump).WithIgnoreDirectives(cache) *)
  kc_fresh : list violation }.             (* one-shot over the current files *)

Definition cache_model (w : workspace) (c : cache_case) : option (lsp_state N) :=
  fold_left (apply_op w) (kc_ops c) (Some ([], [])).

Definition cache_dump_agrees (w : workspace) (c : cache_case) : bool :=
  match cache_model w c with
  | Some st => aggmap_matches (get_file_aggregates N (lookup_n (w_ikey w)) (fst st)) (kc_dump c)
  | None => false
  end.

(* the directive cache after every step: an explicit map, a re-linted file's entry replaced also by "none" *)
Definition cache_dirs_agrees (w : workspace) (c : cache_case) : bool :=
  match cache_model w c with
  | Some st => gomap_same (snd st) (kc_dirs c)
  | None => false
  end.

(* the report computed from the cached aggregates AND the cached directives (the model's own state after the
   history, not the directives of the current files) *)
Definition cache_report_model (w : workspace) (c : cache_case) : option (list violation) :=
  match cache_model w c with
  | Some st => Some (m_lsp_report w st)
  | None => None
  end.

Definition cache_report_agrees (w : workspace) (c : cache_case) : bool :=
  match cache_report_model w c with
  | Some vs => same_violations vs (kc_report c)
  | None => false
  end.

Definition cache_fresh_agrees (w : workspace) (c : cache_case) : bool :=
  match files_of w (kc_state c) with
  | Some fs => same_violations (m_one_shot w fs) (kc_fresh c)
  | None => false
  end.

(* ---- the language server's own functions: bundled rules only (custom rules are not loaded) ---- *)
Definition lsp_ws_of (w : workspace) (brules : list str) : workspace :=
  {| w_files := w_files w; w_brules := brules; w_ckeys := []; w_btable := w_btable w; w_ctable := [];
     w_src := w_src w; w_ikey := w_ikey w |}.

Record lsp_case := {
  lc_brules : list str;                    (* the bundled aggregate rules enabled in the server's configuration *)
  lc_ops : list cache_op; lc_state : list N;
  lc_dirs : gomap;                         (* GetIgnoreDirectives(), URIs made relative *)
  lc_incr : list violation;                (* aggregate diagnostics of the incrementally updated cache *)
  lc_fresh : list violation }.             (* ... of a cache linted from scratch *)

Definition lsp_ws (w : workspace) (c : lsp_case) : workspace := lsp_ws_of w (lc_brules c).

Definition lsp_model (w : workspace) (c : lsp_case) : option (lsp_state N) :=
  fold_left (apply_op (lsp_ws w c)) (lc_ops c) (Some ([], [])).

Definition lsp_dirs_agrees (w : workspace) (c : lsp_case) : bool :=
  match lsp_model w c with
  | Some st => gomap_same (snd st) (lc_dirs c)
  | None => false
  end.

(* updateAllDiagnostics stores diagnostics per file of the workspace: a violation that names no file (e.g.
   no-defined-entrypoint) is not observable in the per-file diagnostics the harness reads back *)
Definition located (vs : list violation) : list violation :=
  filter (fun v => match v_file v with [] => false | _ => true end) vs.

Definition lsp_report_agrees (w : workspace) (c : lsp_case) : bool :=
  match lsp_model w c with
  | Some st => same_violations (located (m_lsp_report (lsp_ws w c) st)) (lc_incr c)
  | None => false
  end.

(* the statement of incremental_directives_eq_fresh evaluated on the model with the real tables (no custom rules
   here, so no bare marker): the model's incremental report = the model's one-shot over the current files *)
Definition lsp_model_consistent (w : workspace) (c : lsp_case) : bool :=
  match lsp_model w c, files_of w (lc_state c) with
  | Some st, Some fs =>
      Nat.leb (length fs) 1 || same_violations (m_lsp_report (lsp_ws w c) st) (m_one_shot (lsp_ws w c) fs)
  | _, _ => false
  end.

Definition lsp_fresh_agrees (w : workspace) (c : lsp_case) : bool :=
  match files_of w (lc_state c) with
  | Some fs => Nat.leb (length fs) 1 || same_violations (located (m_one_shot (lsp_ws w c) fs)) (lc_fresh c)
  | None => false
  end.

(* ---- a client of the public API along a history: per-file exports, ONE directive map updated from every run ---- *)
Record client_case := {
  cl_ops : list cache_op;                  (* OpSetFile per (re-)linted file, OpDelete per removed file, in order *)
  cl_state : list N;                       (* current files, in the order their exports were merged *)
  cl_mixed : option N;                     (* Some id: the last re-linted file is linted by the reporting run itself,
                                              which is handed the directive map of before that step *)
  cl_obs : list violation }.

Definition api_apply (w : workspace) (st : option (api_state cfile)) (op : cache_op) : option (api_state cfile) :=
  match st with
  | None => None
  | Some st =>
    match op with
    | OpSetAll ids =>
        match files_of w ids with
        | Some fs => Some (api_init cfile cf_name cf_comments fs)
        | None => None
        end
    | OpSetFile id =>
        match file_by_id (w_files w) id with
        | Some f => Some (api_replace cfile cf_name cf_comments st f)
        | None => None
        end
    | OpDelete name => Some (api_delete cfile cf_name st name)
    end
  end.

Definition m_api_report (w : workspace) (st : api_state cfile) : list violation :=
  api_report cfile N cf_name cf_comments (w_brules w) (w_ckeys w) b_aggregate c_aggregate
             (oracle_report (w_btable w)) (oracle_report (w_ctable w)) st.

Definition client_model (w : workspace) (c : client_case) : option (list violation) :=
  match cl_mixed c with
  | None =>
    match fold_left (api_apply w) (cl_ops c) (Some ([], [])), files_of w (cl_state c) with
    | Some st, Some fs =>
        if same_ids (map cf_id (fst st)) (cl_state c) then Some (m_api_report w (fs, snd st)) else None
    | _, _ => None
    end
  | Some id =>
    (* all operations but the last one make the provided map; the last one must be the re-lint of file id *)
    match fold_left (api_apply w) (removelast (cl_ops c)) (Some ([], [])), file_by_id (w_files w) id,
          files_of w (cl_state c) with
    | Some st, Some f, Some fs =>
        Some (lint_aggregate_violations N (w_brules w) (w_ckeys w) (oracle_report (w_btable w)) (oracle_report (w_ctable w))
                (m_collect w false [f]) 1
                (Some (api_aggs cfile N (w_brules w) (w_ckeys w) b_aggregate c_aggregate fs))
                (lint_dirs cfile cf_name cf_comments (snd st) [f]))
    | _, _, _ => None
    end
  end.

Definition client_agrees (w : workspace) (c : client_case) : bool :=
  match client_model w c with
  | Some vs => same_violations vs (cl_obs c)
  | None => false
  end.

Definition client_model_consistent (w : workspace) (c : client_case) : bool :=
  match client_model w c, files_of w (cl_state c) with
  | Some vs, Some fs => Nat.leb (length fs) 1 || same_violations vs (m_one_shot w fs)
  | _, _ => false
  end.
