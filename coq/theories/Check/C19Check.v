(* Executable comparison functions for the C19 correspondence.  The harness writes what /repo did
   (capabilities as loaded, regal's capability predicates, every rule's notices evaluated directly,
   Linter.Lint's violations / notices / rules_skipped) as data; these functions compare it with
   Model/Notices.v driven by the regenerated table Gen/GatedRules.v, and with the needs specification.
   No theorems here. *)
From Coq Require Import String Ascii.
From Regal Require Export Model.Notices.
From Regal Require Import Gen.GatedRules.

Fixpoint b (s : string) : str :=
  match s with EmptyString => [] | String a s' => N_of_ascii a :: b s' end.

Fixpoint failing {A} (p : A -> bool) (i : nat) (l : list A) : list nat :=
  match l with
  | [] => []
  | x :: l' => if p x then failing p (S i) l' else i :: failing p (S i) l'
  end.

Fixpoint nodup_notices (l : list notice) : bool :=
  match l with
  | [] => true
  | x :: l' => negb (notice_in x l') && nodup_notices l'
  end.

Definition notices_subset (a b : list notice) : bool := forallb (fun n => notice_in n b) a.
Definition notices_same_set (a b : list notice) : bool :=
  notices_subset a b && notices_subset b a && Nat.eqb (length a) (length b).

Fixpoint rule_in (r : rule_id) (l : list rule_id) : bool :=
  match l with [] => false | x :: l' => rule_eqb r x || rule_in r l' end.

Fixpoint distinct_rules (l : list rule_id) : list rule_id :=
  match l with
  | [] => []
  | x :: l' => if rule_in x l' then distinct_rules l' else x :: distinct_rules l'
  end.

(* the rules that have a `notices` rule at all *)
Definition gated_ids : list rule_id :=
  Eval vm_compute in distinct_rules (map (fun g => (g_cat g, g_title g)) gated_rules).

(* ---------------------------------------------------------------------------------------------- *)
(* function level: one target, one file                                                           *)
Record fcase := mkF {
  fc_caps : caps;
  fc_file : file_info;
  fc_preds : list bool;        (* has_object_keys, has_strings_count, has_if, has_contains, has_rego_v1_feature, is_opa_v1 *)
  fc_notices : list notice }.  (* [n | n in data.regal.rules[c][t].notices] over all rules *)

Definition all_preds : list cap_pred :=
  [PHasObjectKeys; PHasStringsCount; PHasIf; PHasContains; PHasRegoV1Feature; PIsOpaV1].

Fixpoint bools_eqb (a b : list bool) : bool :=
  match a, b with
  | [], [] => true
  | x :: a', y :: b' => Bool.eqb x y && bools_eqb a' b'
  | _, _ => false
  end.

Definition model_notices (c : caps) (f : file_info) : list notice :=
  flat_map (fun r => table_notices gated_rules c r f) gated_ids.

Definition fcase_agrees (x : fcase) : bool :=
  bools_eqb (fc_preds x) (map (fun p => eval_pred p (fc_caps x)) all_preds)
  && notices_same_set (fc_notices x) (model_notices (fc_caps x) (fc_file x)).

(* the needs specification on what was observed: a notice of (category, title, severity) exactly for
   the unmet needs *)
Definition has_triple (c t s : str) (l : list notice) : bool :=
  existsb (fun n => str_eqb (n_category n) c && str_eqb (n_title n) t && str_eqb (n_severity n) s) l.

Definition fcase_meets_needs (x : fcase) : bool :=
  forallb (fun nd => Bool.eqb (has_triple (nd_cat nd) (nd_title nd) (nd_severity nd) (fc_notices x))
                              (need_unmet (nd_need nd) (fc_caps x) (fc_file x))) needs_table
  && forallb (fun n => existsb (fun nd => str_eqb (nd_cat nd) (n_category n) && str_eqb (nd_title nd) (n_title n)
                                          && str_eqb (nd_severity nd) (n_severity n)) needs_table
                       && str_eqb (n_level n) s_notice) (fc_notices x).

(* ---------------------------------------------------------------------------------------------- *)
(* Lint level                                                                                      *)
Record lfile := mkLF { lf_info : file_info; lf_kind : nat }.   (* kind: column of the oracle table *)

Record lcase := mkL {
  lc_caps : caps;
  lc_disabled : list rule_id;                  (* gated rules the configuration switches off (level: ignore)   *)
  lc_files : list lfile;
  lc_oracle : list (rule_id * list nat);       (* count(data.regal.rules[c][t].report) per file kind, no gate *)
  lc_viol : list (nat * rule_id * nat);        (* (file index, rule, number of violations) reported by Lint  *)
  lc_notices : list notice;                    (* report.Notices                                             *)
  lc_skipped : nat }.                          (* report.Summary.RulesSkipped                                *)

Fixpoint oracle_count (o : list (rule_id * list nat)) (r : rule_id) (kind : nat) : nat :=
  match o with
  | [] => O
  | (r', counts) :: o' => if rule_eqb r r' then nth kind counts O else oracle_count o' r kind
  end.

(* _rules_to_run restricted to the gated rules *)
Definition l_to_run (l : lcase) : list rule_id := filter (fun r => negb (rule_in r (lc_disabled l))) gated_ids.

Definition l_notices_of (l : lcase) (r : rule_id) (f : lfile) : list notice :=
  table_notices gated_rules (lc_caps l) r (lf_info f).

Definition l_report_of (l : lcase) (r : rule_id) (f : lfile) : list nat :=
  seq 0 (oracle_count (lc_oracle l) r (lf_kind f)).

(* what the model's main.rego lets through for file f, computed once per file *)
Definition model_file_violations (l : lcase) (f : lfile) : list (rule_id * nat) :=
  file_violations lfile nat (l_notices_of l) (l_report_of l) (fun _ _ => []) (l_to_run l) [] f.

Definition count_rule (r : rule_id) (fv : list (rule_id * nat)) : nat :=
  length (filter (fun rv => rule_eqb (fst rv) r) fv).

Fixpoint observed_count (v : list (nat * rule_id * nat)) (i : nat) (r : rule_id) : nat :=
  match v with
  | [] => O
  | (i', r', n) :: v' => (if Nat.eqb i i' && rule_eqb r r' then n else O) + observed_count v' i r
  end.

Fixpoint indexed {A} (i : nat) (l : list A) : list (nat * A) :=
  match l with [] => [] | x :: l' => (i, x) :: indexed (S i) l' end.

Definition viol_agrees (l : lcase) : bool :=
  forallb (fun ifl => let fv := model_file_violations l (snd ifl) in
                      forallb (fun r => Nat.eqb (observed_count (lc_viol l) (fst ifl) r) (count_rule r fv)) gated_ids)
          (indexed 0 (lc_files l)).

Definition notices_agree (l : lcase) : bool :=
  nodup_notices (lc_notices l)
  && notices_same_set (lc_notices l) (lint_notices lfile (l_notices_of l) (l_to_run l) (lc_files l)).

Definition skipped_agrees (l : lcase) : bool :=
  Nat.eqb (lc_skipped l) (rules_skipped lfile (l_notices_of l) (l_to_run l) (lc_files l)).

Definition lcase_agrees (l : lcase) : bool := viol_agrees l && notices_agree l && skipped_agrees l.

(* the property on the observed report alone *)
Definition skipped_is_count (l : lcase) : bool :=
  Nat.eqb (lc_skipped l) (length (filter counted (lc_notices l))) && nodup_notices (lc_notices l).

(* a rule whose need is unmet for a file reports nothing for it and is listed; a rule without any notice
   for a file reports what its body reports *)
Definition needs_respected (l : lcase) : bool :=
  forallb (fun ifl =>
    let f := snd ifl in
    forallb (fun nd =>
               rule_in (nd_cat nd, nd_title nd) (lc_disabled l)
               || negb (need_unmet (nd_need nd) (lc_caps l) (lf_info f))
               || (Nat.eqb (observed_count (lc_viol l) (fst ifl) (nd_cat nd, nd_title nd)) 0
                   && has_triple (nd_cat nd) (nd_title nd) (nd_severity nd) (lc_notices l))) needs_table
    && forallb (fun r =>
                  if rule_in r (lc_disabled l)
                  then Nat.eqb (observed_count (lc_viol l) (fst ifl) r) 0
                  else existsb (fun nd => rule_eqb (nd_cat nd, nd_title nd) r
                                          && need_unmet (nd_need nd) (lc_caps l) (lf_info f)) needs_table
                       || Nat.eqb (observed_count (lc_viol l) (fst ifl) r) (oracle_count (lc_oracle l) r (lf_kind f)))
               gated_ids)
  (indexed 0 (lc_files l))
  (* a rule that is switched off is not listed as skipped *)
  && forallb (fun n => negb (rule_in (n_category n, n_title n) (lc_disabled l))) (lc_notices l).

(* ---------------------------------------------------------------------------------------------- *)
(* plus / minus: the interesting builtin names present after loading vs the model's edit           *)
Record pcase := mkP {
  pc_base : list str;          (* interesting names present in the base capabilities *)
  pc_minus : list str;
  pc_plus : list str;
  pc_names : list str;         (* the interesting names *)
  pc_result : list str }.      (* interesting names present after Config.UnmarshalYAML *)

Definition pcase_agrees (p : pcase) : bool :=
  let m := edit_builtins unit (map (fun n => (n, tt)) (pc_base p)) (pc_minus p) (map (fun n => (n, tt)) (pc_plus p)) in
  forallb (fun n => Bool.eqb (str_in n (pc_result p))
                             (match b_lookup unit n m with Some _ => true | None => false end)) (pc_names p).

(* resulting builtins = (base \ minus) U plus, evaluated on the observation alone *)
Definition pcase_meets_spec (p : pcase) : bool :=
  forallb (fun n => Bool.eqb (str_in n (pc_result p))
                             (str_in n (pc_plus p) || (str_in n (pc_base p) && negb (str_in n (pc_minus p)))))
          (pc_names p).

(* ---------------------------------------------------------------------------------------------- *)
(* the configuration pipeline: capabilities of the configuration handed to evaluation (GetConfig of *)
(* the fully configured linter) vs Model/Notices.v get_config                                      *)
Fixpoint strs_eqb (a b : list str) : bool :=
  match a, b with
  | [], [] => true
  | x :: a', y :: b' => str_eqb x y && strs_eqb a' b'
  | _, _ => false
  end.

Definition caps_eqb (a b : caps) : bool :=
  strs_eqb (cap_builtins a) (cap_builtins b)
  && strs_eqb (cap_future_keywords a) (cap_future_keywords b)
  && strs_eqb (cap_features a) (cap_features b).

Record pipe_case := mkPipe {
  pp_user : nat;            (* 0: no WithUserConfig; 1: a configuration without capabilities; 2: with capabilities *)
  pp_user_caps : caps;      (* capabilities of the user configuration as loaded (pp_user = 2)                      *)
  pp_this : caps;           (* config.CapabilitiesForThisVersion()                                               *)
  pp_custom : nat;          (* custom rule modules loaded                                                         *)
  pp_eval : caps }.         (* capabilities of GetConfig() of the configured linter = data.internal.combined_config *)

Definition pipe_opts (p : pipe_case) : lopts unit unit unit :=
  mkOpts unit unit unit
    (match pp_user p with
     | O => None
     | S O => Some (mkUC unit unit tt tt None)
     | _ => Some (mkUC unit unit tt tt (Some (pp_user_caps p)))
     end)
    (repeat ([], []) (pp_custom p)) tt.

Definition pipeline_agrees (p : pipe_case) : bool :=
  caps_eqb (pp_eval p)
    (rego_capabilities unit unit unit
       (data_bundle unit unit unit (pp_this p) tt tt (fun _ _ => tt) (fun _ _ => tt) (fun r _ => r) (pipe_opts p))).

(* the statement itself on the observation: evaluation sees the configured target *)
Definition pipeline_meets_spec (p : pipe_case) : bool :=
  caps_eqb (pp_eval p) (match pp_user p with S (S _) => pp_user_caps p | _ => pp_this p end).
