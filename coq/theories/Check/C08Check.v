(* C08 — executable comparison of what the harness did with the layout model (Model/Layout.v).
   One case = one file of one lint under one embedding:
     e_orig   text of the example as taken from the docs / fixture (LF line ends)
     e_ops    the embedding, in model terms
     e_got    the text the Go harness produced with strings functions and handed to the linter
     e_id     (row, col, end row, end col) of the violations of the enabled rule in the identity run
     e_emb    the same for the run on e_got
     e_texts  (row, location.text) of the violations of the run on e_got *)
From Regal Require Export Base.Str Base.Packed Model.Layout.
From Coq Require Import List NArith Bool Arith Uint63.
Import ListNotations.
Local Open Scope N_scope.

Definition loc := (N * N * N * N)%type.

Record emb_case := { e_orig : str; e_ops : list op; e_got : str;
                     e_id : list loc; e_emb : list loc; e_texts : list (N * str) }.

Definition orig_ldoc (c : emb_case) : ldoc := mk_ldoc (regal_lines (e_orig c)) EolLF.

(* hypotheses of the layout theorems hold for the case, and the harness text is the model's text *)
Definition text_agrees (c : emb_case) : bool :=
  clean_doc (l_lines (orig_ldoc c)) && forallb op_clean (e_ops c)
  && str_eqb (text_of (apply_ops (e_ops c) (orig_ldoc c))) (e_got c)
  && str_eqb (text_of (orig_ldoc c)) (e_orig c).

(* a reported row (1-based; 0 = no location) moved through the index map of the embedding *)
Definition map_row (c : emb_case) (r : N) : option N :=
  if r =? 0 then Some 0
  else let i := (N.to_nat r - 1)%nat in
       if Nat.ltb i (length (l_lines (orig_ldoc c)))
       then Some (N.of_nat (S (ops_index (e_ops c) (orig_ldoc c) i)))
       else None.

Definition has_crlf (ops : list op) : bool :=
  existsb (fun o => match o with OCrlf => true | _ => false end) ops.

(* end columns are compared only when line ends are untouched: OPA includes the CR in comment texts, so
   comment-based rules report an end column one further right under CRLF *)
Definition loc_agrees (c : emb_case) (a b : loc) : bool :=
  let '(r, cl, er, ec) := a in
  let '(r', cl', er', ec') := b in
  match map_row c r, map_row c er with
  | Some mr, Some mer => (mr =? r') && (cl =? cl') && (mer =? er') && (has_crlf (e_ops c) || (ec =? ec'))
  | _, _ => false
  end.

Fixpoint locs_agree (c : emb_case) (a b : list loc) {struct a} : bool :=
  match a, b with
  | [], [] => true
  | x :: a', y :: b' => loc_agrees c x y && locs_agree c a' b'
  | _, _ => false
  end.

Definition rows_agree (c : emb_case) : bool := locs_agree c (e_id c) (e_emb c).

(* location.text is (part of) the line regal holds for that row: in particular it carries no CR *)
Definition texts_agree (c : emb_case) : bool :=
  let lines := regal_lines (e_got c) in
  forallb (fun rt => match nth_error lines (N.to_nat (fst rt) - 1) with
                     | Some l => contains l (snd rt) && clean_line (snd rt)
                     | None => false
                     end) (e_texts c).

Fixpoint failing {A : Type} (f : A -> bool) (n : nat) (l : list A) {struct l} : list nat :=
  match l with
  | [] => []
  | x :: l' => if f x then failing f (S n) l' else n :: failing f (S n) l'
  end.

(* the line table parse.PrepareAST built for a text is the model's *)
Fixpoint lines_eqb (a b : list str) {struct a} : bool :=
  match a, b with
  | [], [] => true
  | x :: a', y :: b' => str_eqb x y && lines_eqb a' b'
  | _, _ => false
  end.

Definition lines_agree (p : str * list str) : bool := lines_eqb (regal_lines (fst p)) (snd p).

(* ---- boundary-shift cases.  There are thousands of them, and Coq reads literals slowly: the text the harness
   linted is sent as (length, digest) and compared with the length and digest of the model's text; the line table
   for [texts_agree] is then the model's.  The digest is Base/Packed.v [digest] (63-bit multiplicative, primitive
   integers; this file is not in the closure of Props/C08.v). *)
Record dig_case := { d_orig : str; d_ops : list op; d_len : N; d_hash : int;
                     d_id : list loc; d_emb : list loc; d_texts : list (N * str) }.

Definition dig_ldoc (c : dig_case) : ldoc := mk_ldoc (regal_lines (d_orig c)) EolLF.
Definition dig_model_text (c : dig_case) : str := text_of (apply_ops (d_ops c) (dig_ldoc c)).

Definition dig_as_emb (c : dig_case) (got : str) : emb_case :=
  {| e_orig := d_orig c; e_ops := d_ops c; e_got := got; e_id := d_id c; e_emb := d_emb c; e_texts := d_texts c |}.

Definition dig_text_agrees (c : dig_case) : bool :=
  let t := dig_model_text c in
  clean_doc (l_lines (dig_ldoc c)) && forallb op_clean (d_ops c)
  && (N.of_nat (length t) =? d_len c) && Uint63.eqb (digest t) (d_hash c)
  && str_eqb (text_of (dig_ldoc c)) (d_orig c).

Definition dig_rows_agree (c : dig_case) : bool := rows_agree (dig_as_emb c []).
Definition dig_texts_agree (c : dig_case) : bool := texts_agree (dig_as_emb c (dig_model_text c)).

(* the shift amounts the harness used for a text include the model's boundary shifts for every target row *)
Definition nat_in (k : nat) (l : list nat) : bool := existsb (Nat.eqb k) l.

Record cover_case := { c_text : str; c_nonblank : bool; c_targets : list nat; c_used : list nat }.

Definition shifts_cover (c : cover_case) : bool :=
  forallb (fun t => forallb (fun k => nat_in k (c_used c))
                            (boundary_shifts (c_nonblank c) t (regal_lines (c_text c)))) (c_targets c).

(* ... and every row of the text that can reach a target row is really put there (the covering lemma, recomputed) *)
Definition rows_reach (c : cover_case) : bool :=
  forallb (fun t =>
    forallb (fun il => let '(i, l) := il in
                       (c_nonblank c && blank_line l) || Nat.ltb t (S i)
                       || existsb (fun k => Nat.eqb (S (i + k)) t) (c_used c))
            (combine (seq 0 (length (regal_lines (c_text c)))) (regal_lines (c_text c)))) (c_targets c).
