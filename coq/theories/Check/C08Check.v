(* C08 — executable comparison of what the harness did with the layout model (Model/Layout.v).
   One case = one file of one lint under one embedding:
     e_orig   text of the example as taken from the docs / fixture (LF line ends)
     e_ops    the embedding, in model terms
     e_got    the text the Go harness produced with strings functions and handed to the linter
     e_id     (row, col, end row, end col) of the violations of the enabled rule in the identity run
     e_emb    the same for the run on e_got
     e_texts  (row, location.text) of the violations of the run on e_got *)
From Regal Require Export Base.Str Model.Layout.
From Coq Require Import List NArith Bool Arith.
Import ListNotations.
Local Open Scope N_scope.

Definition loc := (N * N * N * N)%type.

Record emb_case := { e_orig : str; e_ops : list op; e_got : str;
                     e_id : list loc; e_emb : list loc; e_texts : list (N * str) }.

Definition orig_ldoc (c : emb_case) : ldoc := mk_ldoc (regal_lines (e_orig c)) EolLF.

(* hypotheses of the layout theorems hold for the case, and the harness text is the model's text *)
Definition text_agrees (c : emb_case) : bool :=
  clean_doc (l_lines (orig_ldoc c)) && forallb op_clean (e_ops c)
  && str_eqb (text_of (apply_ops (e_ops c) (orig_ldoc c))) (e_got c)
  && str_eqb (text_of (orig_ldoc c)) (e_orig c).

(* a reported row (1-based; 0 = no location) moved through the index map of the embedding *)
Definition map_row (c : emb_case) (r : N) : option N :=
  if r =? 0 then Some 0
  else let i := (N.to_nat r - 1)%nat in
       if Nat.ltb i (length (l_lines (orig_ldoc c)))
       then Some (N.of_nat (S (ops_index (e_ops c) (orig_ldoc c) i)))
       else None.

Definition has_crlf (ops : list op) : bool :=
  existsb (fun o => match o with OCrlf => true | _ => false end) ops.

(* end columns are compared only when line ends are untouched: OPA includes the CR in comment texts, so
   comment-based rules report an end column one further right under CRLF *)
Definition loc_agrees (c : emb_case) (a b : loc) : bool :=
  let '(r, cl, er, ec) := a in
  let '(r', cl', er', ec') := b in
  match map_row c r, map_row c er with
  | Some mr, Some mer => (mr =? r') && (cl =? cl') && (mer =? er') && (has_crlf (e_ops c) || (ec =? ec'))
  | _, _ => false
  end.

Fixpoint locs_agree (c : emb_case) (a b : list loc) {struct a} : bool :=
  match a, b with
  | [], [] => true
  | x :: a', y :: b' => loc_agrees c x y && locs_agree c a' b'
  | _, _ => false
  end.

Definition rows_agree (c : emb_case) : bool := locs_agree c (e_id c) (e_emb c).

(* location.text is (part of) the line regal holds for that row: in particular it carries no CR *)
Definition texts_agree (c : emb_case) : bool :=
  let lines := regal_lines (e_got c) in
  forallb (fun rt => match nth_error lines (N.to_nat (fst rt) - 1) with
                     | Some l => contains l (snd rt) && clean_line (snd rt)
                     | None => false
                     end) (e_texts c).

Fixpoint failing {A : Type} (f : A -> bool) (n : nat) (l : list A) {struct l} : list nat :=
  match l with
  | [] => []
  | x :: l' => if f x then failing f (S n) l' else n :: failing f (S n) l'
  end.

(* the line table parse.PrepareAST built for a text is the model's *)
Fixpoint lines_eqb (a b : list str) {struct a} : bool :=
  match a, b with
  | [], [] => true
  | x :: a', y :: b' => str_eqb x y && lines_eqb a' b'
  | _, _ => false
  end.

Definition lines_agree (p : str * list str) : bool := lines_eqb (regal_lines (fst p)) (snd p).
