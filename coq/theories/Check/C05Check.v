(* Executable comparison functions for the C05 correspondence: the harness writes what /repo did
   (FilterIgnoredPaths, the Rego helpers through OPA, linter.Lint) and what gobwas/glob says
   (the oracle table) as data; these functions run the model of Model/Exclude.v on the same inputs
   with the table as glob engine and list the cases that differ.  No theorems here. *)
From Regal Require Export Model.Exclude.

(* ------------------------------------------------------------------ helpers *)

Fixpoint index_of_str (s : str) (l : list str) (i : N) : option N :=
  match l with
  | [] => None
  | x :: l' => if str_eqb s x then Some i else index_of_str s l' (i + 1)
  end.

Definition set_eq (a b : list str) : bool :=
  forallb (fun x => str_in x b) a && forallb (fun x => str_in x a) b.

Fixpoint list_str_eqb (a b : list str) : bool :=
  match a, b with
  | [], [] => true
  | x :: a', y :: b' => str_eqb x y && list_str_eqb a' b'
  | _, _ => false
  end.

Definition opt_eqb {A} (eqb : A -> A -> bool) (a b : option A) : bool :=
  match a, b with
  | Some x, Some y => eqb x y
  | None, None => true
  | _, _ => false
  end.

Fixpoint nat_list_eqb (a b : list nat) : bool :=
  match a, b with
  | [], [] => true
  | x :: a', y :: b' => Nat.eqb x y && nat_list_eqb a' b'
  | _, _ => false
  end.

Fixpoint indices_where {A} (p : A -> bool) (l : list A) (i : nat) : list nat :=
  match l with
  | [] => []
  | x :: l' => if p x then i :: indices_where p l' (S i) else indices_where p l' (S i)
  end.

(* ------------------------------------------------------------------ bulk: one pattern, all shapes *)

(* a row of the oracle table: the pattern does not compile, or the bit set of matching columns *)
Inductive row := RBad | ROk (m : N).

Record shape := { sh_prefix : str; sh_files : list str; sh_rego_rel : list str }.

Record pcase := {
  pc_pat : str;
  pc_compiler : list str;           (* data.regal.config._pattern_compiler(p), observed *)
  pc_rows : list (str * row);       (* gobwas/glob on every candidate expansion x column universe *)
  pc_go : list (option N);          (* per shape: files excluded by FilterIgnoredPaths; None = error *)
  pc_rego : list N }.               (* per shape: files with _exclude(p, _file_name_relative_to_root(f, prefix)) *)

Inductive rres := RMiss | RRow (r : row).

Fixpoint resolve (rows : list (str * row)) (e : str) : rres :=
  match rows with
  | [] => RMiss
  | (k, r) :: rows' => if str_eqb k e then RRow r else resolve rows' e
  end.

Definition r_ok (r : rres) : bool := match r with RRow (ROk _) => true | _ => false end.
Definition r_match (r : rres) (k : N) : bool := match r with RRow (ROk m) => N.testbit m k | _ => false end.
Definition r_miss (r : rres) : bool := match r with RMiss => true | _ => false end.

(* columns of the (relativised) file names of a shape in the universe *)
Definition cols_of (universe : list str) (rel : str -> str -> str) (s : shape) : list (option N) :=
  map (fun f => index_of_str (rel f (sh_prefix s)) universe 0) (sh_files s).

(* Go: files in order, first error aborts; same loop as excludeFile (go_match_loop) on resolved rows *)
Fixpoint go_mask (p : str) (rs : list rres) (cs : list (option N)) (i : N) (acc : N) : option N :=
  match cs with
  | [] => Some acc
  | None :: _ => None
  | Some k :: cs' =>
      match p with
      | [] => None
      | _ => match go_match_loop r_ok r_match rs k with
             | GOk true => go_mask p rs cs' (i + 1) (N.setbit acc i)
             | GOk false => go_mask p rs cs' (i + 1) acc
             | _ => None
             end
      end
  end.

Fixpoint rego_mask (p : str) (rs : list rres) (cs : list (option N)) (i : N) (acc : N) : N :=
  match cs with
  | [] => acc
  | None :: cs' => rego_mask p rs cs' (i + 1) acc
  | Some k :: cs' =>
      if negb (str_eqb p []) && rego_match_any r_ok r_match rs k
      then rego_mask p rs cs' (i + 1) (N.setbit acc i)
      else rego_mask p rs cs' (i + 1) acc
  end.

Record prepared := { pr_go_cols : list (list (option N)); pr_rego_cols : list (list (option N));
                     pr_rel_ok : list bool }.

Definition prepare (universe : list str) (shapes : list shape) : prepared :=
  {| pr_go_cols := map (cols_of universe go_rel) shapes;
     pr_rego_cols := map (cols_of universe rego_rel) shapes;
     pr_rel_ok := map (fun s => list_str_eqb (map (fun f => rego_rel f (sh_prefix s)) (sh_files s))
                                             (sh_rego_rel s)) shapes |}.

Definition has_none {A} (l : list (option A)) : bool := existsb (fun x => match x with None => true | _ => false end) l.

(* failure codes of one case: 1 = _pattern_compiler differs from rego_expand, 2 = the table lacks
   something the model asks for, 1000+s = Go differs for shape s, 2000+s = Rego differs for shape s *)
Fixpoint shape_codes (base : N) (s : N) (ok : list bool) : list N :=
  match ok with
  | [] => []
  | b :: ok' => if b then shape_codes base (s + 1) ok' else (base + s) :: shape_codes base (s + 1) ok'
  end.

Fixpoint zip3 {A B C} (a : list A) (b : list B) (c : list C) : list (A * B * C) :=
  match a, b, c with
  | x :: a', y :: b', z :: c' => (x, y, z) :: zip3 a' b' c'
  | _, _, _ => []
  end.

Definition case_codes (pr : prepared) (c : pcase) : list N :=
  let p := pc_pat c in
  let gr := map (resolve (pc_rows c)) (go_expand p) in
  let rr := map (resolve (pc_rows c)) (rego_expand p) in
  let miss := existsb r_miss gr || existsb r_miss rr
              || existsb has_none (pr_go_cols pr) || existsb has_none (pr_rego_cols pr) in
  (if set_eq (rego_expand p) (pc_compiler c) then [] else [1]) ++
  (if miss then [2] else
     shape_codes 1000 0 (map (fun '(cs, obs) => opt_eqb N.eqb (go_mask p gr cs 0 0) obs)
                             (combine (pr_go_cols pr) (pc_go c))) ++
     shape_codes 2000 0 (map (fun '(cs, obs) => N.eqb (rego_mask p rr cs 0 0) obs)
                             (combine (pr_rego_cols pr) (pc_rego c)))).

Fixpoint bulk_failures (pr : prepared) (cases : list pcase) (i : N) : list N :=
  match cases with
  | [] => []
  | c :: cases' => map (fun code => i * 10000 + code) (case_codes pr c) ++ bulk_failures pr cases' (i + 1)
  end.

(* shapes whose observed _file_name_relative_to_root differs from rego_rel *)
Definition rel_failures (pr : prepared) : list N := shape_codes 0 0 (pr_rel_ok pr).

(* how many (pattern, shape, file) triples were decided, and how many of them "excluded" *)
Definition bulk_volume (pr : prepared) (cases : list pcase) : N :=
  N.of_nat (length cases) * fold_left (fun a cs => a + N.of_nat (length cs)) (pr_go_cols pr) 0.

(* ------------------------------------------------------------------ small self-contained cases *)

Definition table := list (str * option (list str)).   (* expansion -> None (bad) | matching names *)

Fixpoint tbl_find (t : table) (e : str) : option (option (list str)) :=
  match t with
  | [] => None
  | (k, v) :: t' => if str_eqb k e then Some v else tbl_find t' e
  end.

Definition tbl_ok (t : table) (e : str) : bool :=
  match tbl_find t e with Some (Some _) => true | _ => false end.

Definition tbl_match (t : table) (e f : str) : bool :=
  match tbl_find t e with Some (Some names) => str_in f names | _ => false end.

Definition tbl_has (t : table) (e : str) : bool :=
  match tbl_find t e with Some _ => true | None => false end.

Definition tbl_covers (t : table) (cols : list str) (pats : list str) (names : list str) : bool :=
  forallb (fun p => str_eqb p [] || forallb (tbl_has t) (go_expand p ++ rego_expand p)) pats &&
  forallb (fun n => str_in n cols) names.

Record scase := {
  sc_prefix : str; sc_files : list str;
  sc_cli : list str; sc_cfg : option (list str); sc_rule : list str;
  sc_cols : list str; sc_table : table;
  sc_go_kept : option (list str);            (* FilterIgnoredPaths(files, selected, false, prefix) *)
  sc_rego_global : option (list str);        (* _global_ignore_patterns *)
  sc_rego_rel : list str;                    (* _file_name_relative_to_root per file *)
  sc_rego_excl : list nat;                   (* files with excluded_file(cat, rule, rel) *)
  sc_rego_excl_global : list nat }.          (* same with an empty rule list *)

(* 1 Go kept list, 2 _global_ignore_patterns, 3 relative names, 4 excluded_file, 5 excluded_file
   (global part), 9 table lacks something *)
Definition small_codes (c : scase) : list N :=
  let t := sc_table c in
  let ok := tbl_ok t in let m := tbl_match t in
  let pre := sc_prefix c in
  let rels := map (fun f => rego_rel f pre) (sc_files c) in
  let gorels := map (fun f => go_rel f pre) (sc_files c) in
  if negb (tbl_covers t (sc_cols c) (sc_cli c ++ (match sc_cfg c with Some l => l | None => [] end) ++ sc_rule c)
                      (rels ++ gorels ++ sc_rego_rel c))
  then [9] else
  (if opt_eqb list_str_eqb (go_filter_ignored_paths ok m (sc_files c) (go_select (sc_cli c) (sc_cfg c)) pre)
              (sc_go_kept c) then [] else [1]) ++
  (if opt_eqb list_str_eqb (rego_global (sc_cli c) (sc_cfg c)) (sc_rego_global c) then [] else [2]) ++
  (if list_str_eqb rels (sc_rego_rel c) then [] else [3]) ++
  (if nat_list_eqb (indices_where (rego_excluded_file ok m (sc_cli c) (sc_cfg c) (sc_rule c)) (sc_rego_rel c) 0)
                   (sc_rego_excl c) then [] else [4]) ++
  (if nat_list_eqb (indices_where (rego_excluded_file ok m (sc_cli c) (sc_cfg c) []) (sc_rego_rel c) 0)
                   (sc_rego_excl_global c) then [] else [5]).

Fixpoint small_failures (cases : list scase) (i : N) : list N :=
  match cases with
  | [] => []
  | c :: cases' => map (fun code => i * 10000 + code) (small_codes c) ++ small_failures cases' (i + 1)
  end.

(* ------------------------------------------------------------------ linter.Lint runs *)

Record lcase := {
  lc_prefix : str; lc_files : list str;
  lc_cli : list str; lc_cfg : option (list str);
  lc_ign_builtin : list str; lc_ign_custom : list str; lc_ign_agg : list str;
  lc_cols : list str; lc_table : table;
  lc_err : bool; lc_scanned : nat;
  lc_hit_builtin : list str; lc_hit_custom : list str; lc_hit_agg : list str }.

Definition lc_in (c : lcase) : lint_in :=
  {| li_files := lc_files c; li_prefix := lc_prefix c; li_cli := lc_cli c; li_cfg := lc_cfg c;
     li_rule_ignore := fun k => match k with KBuiltin => lc_ign_builtin c | KCustom => lc_ign_custom c
                                        | KCustomAgg => lc_ign_agg c end |}.

(* every rule of the harness fires in every file *)
Definition always (k : rule_kind) (f : str) : bool := true.

Definition hits_agree (exp : option (list str)) (obs : list str) : bool :=
  match exp with
  | Some l => set_eq l obs && Nat.eqb (length l) (length obs)
  | None => false
  end.

(* 1 error/no error, 2 files_scanned, 3/4/5 files with a violation of the built-in / custom /
   custom aggregate rule, 9 table lacks something *)
Definition lint_codes (c : lcase) : list N :=
  let t := lc_table c in
  let ok := tbl_ok t in let m := tbl_match t in
  let li := lc_in c in
  let pre := lc_prefix c in
  if negb (tbl_covers t (lc_cols c)
                      (lc_cli c ++ (match lc_cfg c with Some l => l | None => [] end)
                              ++ lc_ign_builtin c ++ lc_ign_custom c ++ lc_ign_agg c)
                      (aggregate_report_name :: map (fun f => go_rel f pre) (lc_files c)))
  then [9] else
  match lint_scanned ok m li with
  | None => if lc_err c then [] else [1]
  | Some sc =>
      if lc_err c then [1] else
      (if Nat.eqb (length sc) (lc_scanned c) then [] else [2]) ++
      (if hits_agree (lint_hits ok m always li KBuiltin) (lc_hit_builtin c) then [] else [3]) ++
      (if hits_agree (lint_hits ok m always li KCustom) (lc_hit_custom c) then [] else [4]) ++
      (if hits_agree (lint_hits ok m always li KCustomAgg) (lc_hit_agg c) then [] else [5])
  end.

Fixpoint lint_failures (cases : list lcase) (i : N) : list N :=
  match cases with
  | [] => []
  | c :: cases' => map (fun code => i * 10000 + code) (lint_codes c) ++ lint_failures cases' (i + 1)
  end.
