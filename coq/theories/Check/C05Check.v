(* Executable comparison functions for the C05 correspondence: the harness writes what /repo did
   (FilterIgnoredPaths, the Rego helpers through OPA, linter.Lint) and what gobwas/glob says
   (the oracle table) as data; these functions run the model of Model/Exclude.v on the same inputs
   with the table as glob engine and list the cases that differ.  No theorems here. *)
From Regal Require Export Model.Exclude Model.ExcludeWalk.
From Coq Require Import FMapPositive Uint63.

(* ------------------------------------------------------------------ helpers *)

Fixpoint index_of_str (s : str) (l : list str) (i : N) : option N :=
  match l with
  | [] => None
  | x :: l' => if str_eqb s x then Some i else index_of_str s l' (i + 1)
  end.

Definition set_eq (a b : list str) : bool :=
  forallb (fun x => str_in x b) a && forallb (fun x => str_in x a) b.

Fixpoint list_str_eqb (a b : list str) : bool :=
  match a, b with
  | [], [] => true
  | x :: a', y :: b' => str_eqb x y && list_str_eqb a' b'
  | _, _ => false
  end.

Definition opt_eqb {A} (eqb : A -> A -> bool) (a b : option A) : bool :=
  match a, b with
  | Some x, Some y => eqb x y
  | None, None => true
  | _, _ => false
  end.

Fixpoint nat_list_eqb (a b : list nat) : bool :=
  match a, b with
  | [], [] => true
  | x :: a', y :: b' => Nat.eqb x y && nat_list_eqb a' b'
  | _, _ => false
  end.

Fixpoint indices_where {A} (p : A -> bool) (l : list A) (i : nat) : list nat :=
  match l with
  | [] => []
  | x :: l' => if p x then i :: indices_where p l' (S i) else indices_where p l' (S i)
  end.

(* ------------------------------------------------------------------ bulk: one pattern, all shapes *)

(* a row of the oracle table: the pattern does not compile, or the bit set (least significant
   first) of the columns of the universe it matches *)
Inductive row := RBad | ROk (bits : list bool).

Record shape := { sh_prefix : str; sh_files : list str; sh_rego_rel : list str }.

Record pcase := {
  pc_pat : str;
  pc_compiler : list str;             (* data.regal.config._pattern_compiler(p), observed *)
  pc_rows : list (str * row);         (* gobwas/glob on every candidate expansion x column universe *)
  pc_go : list (option (list bool));  (* per shape: files excluded by FilterIgnoredPaths; None = error *)
  pc_rego : list (list bool) }.       (* per shape: files with _exclude(p, _file_name_relative_to_root(f, prefix)) *)

Inductive rres := RMiss | RRow (r : row).

Fixpoint resolve (rows : list (str * row)) (e : str) : rres :=
  match rows with
  | [] => RMiss
  | (k, r) :: rows' => if str_eqb k e then RRow r else resolve rows' e
  end.

Definition r_miss (r : rres) : bool := match r with RMiss => true | _ => false end.

(* one expansion seen from one column: (compiles, matches the column) *)
Definition cell := (bool * bool)%type.
Definition cell_ok (c : cell) : bool := fst c.
Definition cell_match (c : cell) (_ : unit) : bool := snd c.

Definition head_bit (l : list bool) : bool := match l with b :: _ => b | [] => false end.

Definition row_head (r : rres) : cell :=
  match r with RRow (ROk bits) => (true, head_bit bits) | _ => (false, false) end.
Definition row_tail (r : rres) : rres :=
  match r with RRow (ROk bits) => RRow (ROk (tl bits)) | _ => r end.

(* the answer of each side for every column of the universe, rows consumed in lockstep; the loops
   are the model's own go_match_loop / rego_match_any *)
Fixpoint go_columns (n : nat) (rs : list rres) : list gres :=
  match n with
  | O => []
  | S n' => go_match_loop cell_ok cell_match (map row_head rs) tt :: go_columns n' (map row_tail rs)
  end.

Fixpoint rego_columns (n : nat) (rs : list rres) : list bool :=
  match n with
  | O => []
  | S n' => rego_match_any cell_ok cell_match (map row_head rs) tt :: rego_columns n' (map row_tail rs)
  end.

Fixpoint to_map {A} (l : list A) (k : positive) (m : PositiveMap.t A) : PositiveMap.t A :=
  match l with
  | [] => m
  | x :: l' => to_map l' (Pos.succ k) (PositiveMap.add k x m)
  end.

Fixpoint index_of_pos (s : str) (l : list str) (i : positive) : option positive :=
  match l with
  | [] => None
  | x :: l' => if str_eqb s x then Some i else index_of_pos s l' (Pos.succ i)
  end.

(* columns of the (relativised) file names of a shape in the universe *)
Definition cols_of (universe : list str) (rel : str -> str -> str) (s : shape) : list (option positive) :=
  map (fun f => index_of_pos (rel f (sh_prefix s)) universe 1%positive) (sh_files s).

(* Go: files in order, the first error aborts the whole call *)
Fixpoint go_shape (p : str) (m : PositiveMap.t gres) (cs : list (option positive)) : option (list bool) :=
  match cs with
  | [] => Some []
  | None :: _ => None
  | Some k :: cs' =>
      match p, PositiveMap.find k m with
      | _ :: _, Some (GOk b) => option_map (cons b) (go_shape p m cs')
      | _, _ => None
      end
  end.

Fixpoint rego_shape (p : str) (m : PositiveMap.t bool) (cs : list (option positive)) : list bool :=
  match cs with
  | [] => []
  | None :: cs' => false :: rego_shape p m cs'
  | Some k :: cs' =>
      (negb (str_eqb p []) && match PositiveMap.find k m with Some b => b | None => false end)
        :: rego_shape p m cs'
  end.

(* bit lists are compared up to trailing zeros (the wire format pads to whole bytes) *)
Fixpoint bits_eqb (a b : list bool) : bool :=
  match a, b with
  | [], _ => negb (existsb (fun x => x) b)
  | _, [] => negb (existsb (fun x => x) a)
  | x :: a', y :: b' => Bool.eqb x y && bits_eqb a' b'
  end.

Record prepared := { pr_n : nat;
                     pr_go_cols : list (list (option positive)); pr_rego_cols : list (list (option positive));
                     pr_rel_ok : list bool }.

Definition prepare (universe : list str) (shapes : list shape) : prepared :=
  {| pr_n := length universe;
     pr_go_cols := map (cols_of universe go_rel) shapes;
     pr_rego_cols := map (cols_of universe rego_rel) shapes;
     pr_rel_ok := map (fun s => list_str_eqb (map (fun f => rego_rel f (sh_prefix s)) (sh_files s))
                                             (sh_rego_rel s)) shapes |}.

Definition has_none {A} (l : list (option A)) : bool := existsb (fun x => match x with None => true | _ => false end) l.

(* failure codes of one case: 1 = _pattern_compiler differs from rego_expand, 2 = the table lacks
   something the model asks for, 1000+s = Go differs for shape s, 2000+s = Rego differs for shape s *)
Fixpoint shape_codes (base : N) (s : N) (ok : list bool) : list N :=
  match ok with
  | [] => []
  | b :: ok' => if b then shape_codes base (s + 1) ok' else (base + s) :: shape_codes base (s + 1) ok'
  end.

Definition case_codes (pr : prepared) (c : pcase) : list N :=
  let p := pc_pat c in
  let gr := map (resolve (pc_rows c)) (go_expand p) in
  let rr := map (resolve (pc_rows c)) (rego_expand p) in
  let miss := existsb r_miss gr || existsb r_miss rr
              || existsb has_none (pr_go_cols pr) || existsb has_none (pr_rego_cols pr) in
  (if set_eq (rego_expand p) (pc_compiler c) then [] else [1]) ++
  (if miss then [2] else
     let gm := to_map (go_columns (pr_n pr) gr) 1%positive (PositiveMap.empty _) in
     let rm := to_map (rego_columns (pr_n pr) rr) 1%positive (PositiveMap.empty _) in
     shape_codes 1000 0 (map (fun '(cs, obs) => opt_eqb bits_eqb (go_shape p gm cs) obs)
                             (combine (pr_go_cols pr) (pc_go c))) ++
     shape_codes 2000 0 (map (fun '(cs, obs) => bits_eqb (rego_shape p rm cs) obs)
                             (combine (pr_rego_cols pr) (pc_rego c)))).

Fixpoint bulk_failures (pr : prepared) (cases : list pcase) (i : N) : list N :=
  match cases with
  | [] => []
  | c :: cases' => map (fun code => i * 10000 + code) (case_codes pr c) ++ bulk_failures pr cases' (i + 1)
  end.

(* shapes whose observed _file_name_relative_to_root differs from rego_rel *)
Definition rel_failures (pr : prepared) : list N := shape_codes 0 0 (pr_rel_ok pr).

(* ------------------------------------------------------------------ small self-contained cases *)

Definition table := list (str * option (list str)).   (* expansion -> None (bad) | matching names *)

Fixpoint tbl_find (t : table) (e : str) : option (option (list str)) :=
  match t with
  | [] => None
  | (k, v) :: t' => if str_eqb k e then Some v else tbl_find t' e
  end.

Definition tbl_ok (t : table) (e : str) : bool :=
  match tbl_find t e with Some (Some _) => true | _ => false end.

Definition tbl_match (t : table) (e f : str) : bool :=
  match tbl_find t e with Some (Some names) => str_in f names | _ => false end.

Definition tbl_has (t : table) (e : str) : bool :=
  match tbl_find t e with Some _ => true | None => false end.

Definition tbl_covers (t : table) (cols : list str) (pats : list str) (names : list str) : bool :=
  forallb (fun p => str_eqb p [] || forallb (tbl_has t) (go_expand p ++ rego_expand p)) pats &&
  forallb (fun n => str_in n cols) names.

Record scase := {
  sc_prefix : str; sc_files : list str;
  sc_cli : list str; sc_cfg : option (list str); sc_rule : list str;
  sc_cols : list str; sc_table : table;
  sc_go_kept : option (list str);            (* FilterIgnoredPaths(files, selected, false, prefix) *)
  sc_rego_global : option (list str);        (* _global_ignore_patterns *)
  sc_rego_rel : list str;                    (* _file_name_relative_to_root per file *)
  sc_rego_excl : list nat;                   (* files with excluded_file(cat, rule, rel) *)
  sc_rego_excl_global : list nat }.          (* same with an empty rule list *)

(* 1 Go kept list, 2 _global_ignore_patterns, 3 relative names, 4 excluded_file, 5 excluded_file
   (global part), 9 table lacks something *)
Definition small_codes (c : scase) : list N :=
  let t := sc_table c in
  let ok := tbl_ok t in let m := tbl_match t in
  let pre := sc_prefix c in
  let rels := map (fun f => rego_rel f pre) (sc_files c) in
  let gorels := map (fun f => go_rel f pre) (sc_files c) in
  if negb (tbl_covers t (sc_cols c) (sc_cli c ++ (match sc_cfg c with Some l => l | None => [] end) ++ sc_rule c)
                      (rels ++ gorels ++ sc_rego_rel c))
  then [9] else
  (if opt_eqb list_str_eqb (go_filter_ignored_paths ok m (sc_files c) (go_select (sc_cli c) (sc_cfg c)) pre)
              (sc_go_kept c) then [] else [1]) ++
  (if opt_eqb list_str_eqb (rego_global (sc_cli c) (sc_cfg c)) (sc_rego_global c) then [] else [2]) ++
  (if list_str_eqb rels (sc_rego_rel c) then [] else [3]) ++
  (if nat_list_eqb (indices_where (rego_excluded_file ok m (sc_cli c) (sc_cfg c) (sc_rule c)) (sc_rego_rel c) 0)
                   (sc_rego_excl c) then [] else [4]) ++
  (if nat_list_eqb (indices_where (rego_excluded_file ok m (sc_cli c) (sc_cfg c) []) (sc_rego_rel c) 0)
                   (sc_rego_excl_global c) then [] else [5]).

Fixpoint small_failures (cases : list scase) (i : N) : list N :=
  match cases with
  | [] => []
  | c :: cases' => map (fun code => i * 10000 + code) (small_codes c) ++ small_failures cases' (i + 1)
  end.

(* ------------------------------------------------------------------ linter.Lint runs *)

Record lcase := {
  lc_prefix : str; lc_files : list str;
  lc_cli : list str; lc_cfg : option (list str);
  lc_ign_builtin : list str; lc_ign_custom : list str; lc_ign_agg : list str;
  lc_cols : list str; lc_table : table;
  lc_err : bool; lc_scanned : nat;
  lc_hit_builtin : list str; lc_hit_custom : list str; lc_hit_agg : list str }.

Definition lc_in (c : lcase) : lint_in :=
  {| li_files := lc_files c; li_prefix := lc_prefix c; li_cli := lc_cli c; li_cfg := lc_cfg c;
     li_rule_ignore := fun k => match k with KBuiltin => lc_ign_builtin c | KCustom => lc_ign_custom c
                                        | KCustomAgg => lc_ign_agg c end |}.

(* every rule of the harness fires in every file *)
Definition always (k : rule_kind) (f : str) : bool := true.

Definition hits_agree (exp : option (list str)) (obs : list str) : bool :=
  match exp with
  | Some l => set_eq l obs && Nat.eqb (length l) (length obs)
  | None => false
  end.

(* 1 error/no error, 2 files_scanned, 3/4/5 files with a violation of the built-in / custom /
   custom aggregate rule, 9 table lacks something *)
Definition lint_codes (c : lcase) : list N :=
  let t := lc_table c in
  let ok := tbl_ok t in let m := tbl_match t in
  let li := lc_in c in
  let pre := lc_prefix c in
  if negb (tbl_covers t (lc_cols c)
                      (lc_cli c ++ (match lc_cfg c with Some l => l | None => [] end)
                              ++ lc_ign_builtin c ++ lc_ign_custom c ++ lc_ign_agg c)
                      (aggregate_report_name :: map (fun f => go_rel f pre) (lc_files c)))
  then [9] else
  match lint_scanned ok m li with
  | None => if lc_err c then [] else [1]
  | Some sc =>
      if lc_err c then [1] else
      (if Nat.eqb (length sc) (lc_scanned c) then [] else [2]) ++
      (if hits_agree (lint_hits ok m always li KBuiltin) (lc_hit_builtin c) then [] else [3]) ++
      (if hits_agree (lint_hits ok m always li KCustom) (lc_hit_custom c) then [] else [4]) ++
      (if hits_agree (lint_hits ok m always li KCustomAgg) (lc_hit_agg c) then [] else [5])
  end.

Fixpoint lint_failures (cases : list lcase) (i : N) : list N :=
  match cases with
  | [] => []
  | c :: cases' => map (fun code => i * 10000 + code) (lint_codes c) ++ lint_failures cases' (i + 1)
  end.

(* ------------------------------------------------------------------ wire format
   Case data arrive as primitive integers (7 bytes each, little endian) because Coq elaborates
   those quickly; the readers below turn the byte stream back into the records above.
   u8; u16 = 2 bytes big endian; str = u16 length + bytes; list = u16 count + items;
   option = u8 tag + item; bits = str, least significant bit of each byte first. *)

Definition int_bytes (x : int) : list N :=
  map (fun k => Z.to_N (Uint63.to_Z (Uint63.land (Uint63.lsr x k) 255%uint63)))
      [0; 8; 16; 24; 32; 40; 48]%uint63.

Definition unpack (chunks : list (list int)) : list N := flat_map (flat_map int_bytes) chunks.

Definition rd (A : Type) := list N -> option (A * list N).
Definition ret {A} (x : A) : rd A := fun s => Some (x, s).
Definition bind {A B} (r : rd A) (f : A -> rd B) : rd B :=
  fun s => match r s with Some (x, s') => f x s' | None => None end.
Notation "x <- r ;; k" := (bind r (fun x => k)) (at level 61, r at next level, right associativity).

Definition rd_u8 : rd N := fun s => match s with b :: s' => Some (b, s') | [] => None end.
Definition rd_u16 : rd N := fun s => match s with a :: b :: s' => Some (a * 256 + b, s') | _ => None end.

Fixpoint take (n : nat) (s : list N) : option (list N * list N) :=
  match n with
  | O => Some ([], s)
  | S n' => match s with
            | [] => None
            | b :: s' => match take n' s' with Some (l, r) => Some (b :: l, r) | None => None end
            end
  end.

Definition rd_str : rd str := n <- rd_u16 ;; take (N.to_nat n).

Fixpoint rd_many {A} (r : rd A) (n : nat) : rd (list A) :=
  match n with
  | O => ret []
  | S n' => x <- r ;; xs <- rd_many r n' ;; ret (x :: xs)
  end.

Definition rd_list {A} (r : rd A) : rd (list A) := n <- rd_u16 ;; rd_many r (N.to_nat n).
Definition rd_opt {A} (r : rd A) : rd (option A) :=
  t <- rd_u8 ;; if N.eqb t 0 then ret None else (x <- r ;; ret (Some x)).
Definition rd_bool : rd bool := t <- rd_u8 ;; ret (negb (N.eqb t 0)).
Definition rd_nat : rd nat := n <- rd_u16 ;; ret (N.to_nat n).

Definition byte_bits (b : N) : list bool := map (N.testbit b) [0; 1; 2; 3; 4; 5; 6; 7].
Definition rd_bits : rd (list bool) := bs <- rd_str ;; ret (flat_map byte_bits bs).

Definition rd_row : rd (str * row) :=
  e <- rd_str ;; ok <- rd_bool ;; bits <- rd_bits ;; ret (e, if ok then ROk bits else RBad).

Definition rd_shape : rd shape :=
  p <- rd_str ;; fs <- rd_list rd_str ;; rr <- rd_list rd_str ;;
  ret {| sh_prefix := p; sh_files := fs; sh_rego_rel := rr |}.

Definition rd_pcase : rd pcase :=
  p <- rd_str ;; comp <- rd_list rd_str ;; rows <- rd_list rd_row ;;
  go <- rd_list (rd_opt rd_bits) ;; rego <- rd_list rd_bits ;;
  ret {| pc_pat := p; pc_compiler := comp; pc_rows := rows; pc_go := go; pc_rego := rego |}.

Definition rd_table : rd table :=
  rd_list (e <- rd_str ;; v <- rd_opt (rd_list rd_str) ;; ret (e, v)).

Definition rd_scase : rd scase :=
  pre <- rd_str ;; files <- rd_list rd_str ;; cli <- rd_list rd_str ;; cfg <- rd_opt (rd_list rd_str) ;;
  rule <- rd_list rd_str ;; cols <- rd_list rd_str ;; t <- rd_table ;;
  kept <- rd_opt (rd_list rd_str) ;; glob <- rd_opt (rd_list rd_str) ;; rel <- rd_list rd_str ;;
  ex <- rd_list rd_nat ;; exg <- rd_list rd_nat ;;
  ret {| sc_prefix := pre; sc_files := files; sc_cli := cli; sc_cfg := cfg; sc_rule := rule;
         sc_cols := cols; sc_table := t; sc_go_kept := kept; sc_rego_global := glob;
         sc_rego_rel := rel; sc_rego_excl := ex; sc_rego_excl_global := exg |}.

Definition rd_lcase : rd lcase :=
  pre <- rd_str ;; files <- rd_list rd_str ;; cli <- rd_list rd_str ;; cfg <- rd_opt (rd_list rd_str) ;;
  ib <- rd_list rd_str ;; ic <- rd_list rd_str ;; ia <- rd_list rd_str ;;
  cols <- rd_list rd_str ;; t <- rd_table ;; err <- rd_bool ;; sc <- rd_nat ;;
  hb <- rd_list rd_str ;; hc <- rd_list rd_str ;; ha <- rd_list rd_str ;;
  ret {| lc_prefix := pre; lc_files := files; lc_cli := cli; lc_cfg := cfg;
         lc_ign_builtin := ib; lc_ign_custom := ic; lc_ign_agg := ia; lc_cols := cols; lc_table := t;
         lc_err := err; lc_scanned := sc; lc_hit_builtin := hb; lc_hit_custom := hc; lc_hit_agg := ha |}.

Definition decode_error : list N := [99999999].

(* (number of cases decoded, failures, shapes with a relativisation mismatch) *)
Definition pat_report (data : list (list int)) : N * list N * list N :=
  match (u <- rd_list rd_str ;; sh <- rd_list rd_shape ;; cs <- rd_list rd_pcase ;; ret (u, sh, cs)) (unpack data) with
  | Some ((u, sh, cs), _) =>
      let pr := prepare u sh in (N.of_nat (length cs), bulk_failures pr cs 0, rel_failures pr)
  | None => (0, decode_error, decode_error)
  end.

Definition small_report (data : list (list int)) : N * list N :=
  match rd_list rd_scase (unpack data) with
  | Some (cs, _) => (N.of_nat (length cs), small_failures cs 0)
  | None => (0, decode_error)
  end.

Definition lint_report (data : list (list int)) : N * list N :=
  match rd_list rd_lcase (unpack data) with
  | Some (cs, _) => (N.of_nat (length cs), lint_failures cs 0)
  | None => (0, decode_error)
  end.

(* ------------------------------------------------------------------ language server call sites *)

Record wcase := {
  wc_kind : N;                          (* 0 = call sites; 1 = documents opened / workspace loaded, then linted *)
  wc_client : N;                        (* 0 = generic, 1 = VS Code *)
  wc_root : str; wc_uris : list str; wc_ignore : list str;
  wc_cols : list str; wc_table : table;
  wc_root_path : str;                   (* LanguageServer.workspacePath() = uri.ToPath(client, root) *)
  wc_paths : list str;                  (* uri.ToPath(client, uri) per URI *)
  wc_ignored : list bool;               (* kind 0: LanguageServer.ignoreURI per URI; kind 1: NOT among the files to lint *)
  wc_modules : option (list str) }.     (* kind 0: keys of LanguageServer.getFilteredModules (sorted), None = error *)

Fixpoint bool_list_eqb (a b : list bool) : bool :=
  match a, b with
  | [], [] => true
  | x :: a', y :: b' => Bool.eqb x y && bool_list_eqb a' b'
  | _, _ => false
  end.

Definition wc_cl (c : wcase) : lsp_client := if N.eqb (wc_client c) 0 then ClientGeneric else ClientVSCode.

(* 3 = uri_to_path vs uri.ToPath, 1 = lsp_ignore_uri vs ignoreURI / the files to lint, 2 = lsp_filtered_modules vs
   getFilteredModules, 9 = table lacks something *)
Definition lsp_codes (c : wcase) : list N :=
  let t := wc_table c in
  let ok := tbl_ok t in let m := tbl_match t in
  let root := wc_root c in
  let cl := wc_cl c in
  if negb (tbl_covers t (wc_cols c) (wc_ignore c)
                      (map (fun u => go_rel (uri_to_path cl u) (uri_to_path cl root)) (wc_uris c)))
  then [9] else
  (if str_eqb (uri_to_path cl root) (wc_root_path c) && list_str_eqb (map (uri_to_path cl) (wc_uris c)) (wc_paths c)
   then [] else [3]) ++
  (if bool_list_eqb (map (lsp_ignore_uri ok m cl root (wc_ignore c)) (wc_uris c)) (wc_ignored c) then [] else [1]) ++
  (if N.eqb (wc_kind c) 0 then
     if opt_eqb (fun a b => set_eq a b && Nat.eqb (length a) (length b))
                (lsp_filtered_modules ok m cl root (wc_ignore c) (wc_uris c)) (wc_modules c) then [] else [2]
   else []).

Fixpoint lsp_failures (cases : list wcase) (i : N) : list N :=
  match cases with
  | [] => []
  | c :: cases' => map (fun code => i * 10000 + code) (lsp_codes c) ++ lsp_failures cases' (i + 1)
  end.

Definition rd_wcase : rd wcase :=
  kind <- rd_u8 ;; client <- rd_u8 ;;
  root <- rd_str ;; uris <- rd_list rd_str ;; ign <- rd_list rd_str ;; cols <- rd_list rd_str ;;
  t <- rd_table ;; rp <- rd_str ;; paths <- rd_list rd_str ;;
  ig <- rd_list rd_bool ;; mods <- rd_opt (rd_list rd_str) ;;
  ret {| wc_kind := kind; wc_client := client;
         wc_root := root; wc_uris := uris; wc_ignore := ign; wc_cols := cols; wc_table := t;
         wc_root_path := rp; wc_paths := paths; wc_ignored := ig; wc_modules := mods |}.

Definition lsp_report (data : list (list int)) : N * list N :=
  match rd_list rd_wcase (unpack data) with
  | Some (cs, _) => (N.of_nat (length cs), lsp_failures cs 0)
  | None => (0, decode_error)
  end.

(* ------------------------------------------------------------------ directory arguments (walk layer)
   The case carries the argument as spelled, the tree it denotes, the prefix, the ignore lists and the
   observation.  The model walks the tree itself (Model/Discover.v [walk] with the pinned constants) and
   filters (Model/ExcludeWalk.v [go_walk_filter]); nothing of the file list comes from the harness. *)

Record tcase := {
  tc_l : lcase;                         (* lc_files is not used: the model walks [tc_tree] *)
  tc_arg : str;
  tc_tree : node;
  tc_filter : bool;                     (* true: direct FilterIgnoredPaths call, [tc_kept] is its result *)
  tc_kept : option (list str) }.

Definition tc_files (c : tcase) : list str :=
  walk spec_skips spec_ext (tc_arg c) (os_basename (tc_arg c)) (tc_tree c).

Definition with_files (l : lcase) (fs : list str) : lcase :=
  {| lc_prefix := lc_prefix l; lc_files := fs; lc_cli := lc_cli l; lc_cfg := lc_cfg l;
     lc_ign_builtin := lc_ign_builtin l; lc_ign_custom := lc_ign_custom l; lc_ign_agg := lc_ign_agg l;
     lc_cols := lc_cols l; lc_table := lc_table l; lc_err := lc_err l; lc_scanned := lc_scanned l;
     lc_hit_builtin := lc_hit_builtin l; lc_hit_custom := lc_hit_custom l; lc_hit_agg := lc_hit_agg l |}.

(* filter mode: 1 error/no error, 7 kept list (in order), 9 table; other modes: the codes of lint_codes *)
Definition walk_codes (c : tcase) : list N :=
  let l := with_files (tc_l c) (tc_files c) in
  if tc_filter c then
    let t := lc_table l in
    if negb (tbl_covers t (lc_cols l) (lc_cli l ++ (match lc_cfg l with Some x => x | None => [] end))
                        (map (fun f => go_rel f (lc_prefix l)) (lc_files l)))
    then [9] else
    match go_walk_filter (tbl_ok t) (tbl_match t) spec_skips spec_ext (tc_arg c) (os_basename (tc_arg c))
                         (tc_tree c) (go_select (lc_cli l) (lc_cfg l)) (lc_prefix l), tc_kept c with
    | None, None => []
    | Some k, Some k' => if list_str_eqb k k' then [] else [7]
    | _, _ => [1]
    end
  else lint_codes l.

Fixpoint walk_failures (cases : list tcase) (i : N) : list N :=
  match cases with
  | [] => []
  | c :: cases' => map (fun code => i * 10000 + code) (walk_codes c) ++ walk_failures cases' (i + 1)
  end.

(* node = u8 tag (0 file, 1 directory) + for a directory the list of (name, node), in ReadDir order *)
Fixpoint rd_node (fuel : nat) : rd node :=
  match fuel with
  | O => fun _ => None
  | S fuel' =>
      t <- rd_u8 ;;
      if N.eqb t 0 then ret File
      else (cs <- rd_list (nm <- rd_str ;; c <- rd_node fuel' ;; ret (nm, c)) ;; ret (Dir cs))
  end.

Definition rd_tcase : rd tcase :=
  l <- rd_lcase ;; arg <- rd_str ;; t <- rd_node 40 ;; fm <- rd_bool ;; kept <- rd_opt (rd_list rd_str) ;;
  ret {| tc_l := l; tc_arg := arg; tc_tree := t; tc_filter := fm; tc_kept := kept |}.

Definition walk_report (data : list (list int)) : N * list N :=
  match rd_list rd_tcase (unpack data) with
  | Some (cs, _) => (N.of_nat (length cs), walk_failures cs 0)
  | None => (0, decode_error)
  end.
