(* Executable comparison functions for the C03 correspondence: what OPA (regal's real bundle) answered for the
   framework's multi-body functions — a value, undefined, or eval_conflict_error — against Model/Framework.v.
   The location helpers are compared through Check/C07Check.v.  No theorems here. *)
From Regal Require Export Model.Framework Model.LintErr Check.C07Check.
From Coq Require Import ZArith.
Import ListNotations.

(* jv_eqb: Model/Framework.v *)

Inductive cls := KUndef | KVal | KConflict.
Definition cls_eqb (a b : cls) : bool :=
  match a, b with KUndef, KUndef | KVal, KVal | KConflict, KConflict => true | _, _ => false end.

Definition classify {V} (eqb : V -> V -> bool) (outs : list V) : cls :=
  match outs with
  | [] => KUndef
  | v :: rest => if forallb (eqb v) rest then KVal else KConflict
  end.

Definition pair_jv_eqb (a b : jv * jv) : bool := jv_eqb (fst a) (fst b) && jv_eqb (snd a) (snd b).

(* symbolic result of _fail_annotated / _fail_annotated_custom / fallback: which body, category, title *)
Definition sym := (nat * jv * jv)%type.
Definition sym_eqb (a b : sym) : bool :=
  Nat.eqb (fst (fst a)) (fst (fst b)) && jv_eqb (snd (fst a)) (snd (fst b)) && jv_eqb (snd a) (snd b).

Definition s_title : str := [116; 105; 116; 108; 101]%N.
Definition s_category : str := [99; 97; 116; 101; 103; 111; 114; 121]%N.

(* definedness of the oracles on the generated shapes: object.union(metadata, details) needs an object *)
Definition o_annotated (link c t d : jv) : option sym := if is_object d then Some (1%nat, c, t) else None.
Definition o_custom (link c t d : jv) : option sym := if is_object d then Some (2%nat, c, t) else None.
Definition o_fallback (m d : jv) : option sym :=
  let has k := match field k m with Some _ => true | None => false end in
  let cat := match field s_custom m with Some c => match field s_category c with Some _ => true | None => false end
                                      | None => false end in
  if is_object d && has s_title && cat && match field s_related_resources m with Some (JArr _) => true | _ => false end
  then Some (3%nat, JNull, JNull) else None.

Definition members (x : jv) : option (list jv) :=
  match x with
  | JArr l | JSet l => Some l
  | JObj kv => Some (map snd kv)
  | _ => None
  end.

Inductive rr_obs := RUndef | RGiven | RGenerated | RConflict.
Definition rr_obs_eqb a b :=
  match a, b with RUndef, RUndef | RGiven, RGiven | RGenerated, RGenerated | RConflict, RConflict => true | _, _ => false end.

Definition GEN : jv := JStr [71%N].    (* stands for the generated documentation link *)

Definition rr_model (ann : jv) : rr_obs :=
  let outs := related_resources GEN ann in
  match classify jv_eqb outs with
  | KUndef => RUndef
  | KConflict => RConflict
  | KVal => match outs with v :: _ => if jv_eqb v GEN then RGenerated else RGiven | [] => RUndef end
  end.

Definition entry_eqb (a b : Z * list str) : bool :=
  Z.eqb (fst a) (fst b) && list_eqb str_eqb (snd a) (snd b).

Definition keyed_ok (es : list (Z * list str)) : bool :=
  forallb (fun a => forallb (fun b => negb (Z.eqb (fst a) (fst b)) || entry_eqb a b) es) es.

Definition subset_entries (a b : list (Z * list str)) : bool :=
  forallb (fun x => existsb (entry_eqb x) b) a.

Inductive c03case :=
| FCTP (path : jv) (got : obs (jv * jv))
| FRR (ann : jv) (got : rr_obs)
| FFail (meta details : jv) (got : cls)
| FFNR (f root : str) (got : obs str)
| FID (comments : list (Z * option (list str))) (got : option (list (Z * list str)))   (* None = conflict error *)
| FToSet (x : jv) (got : cls) (is_set_got : bool)
| FToArray (x : jv) (got : cls) (is_array_got : bool)
| FImp (imports : list import) (got_ids : option (list jv)) (got_res : option (list (jv * list str)))   (* None = conflict error *)
| FDecl (rules : list rule_sig) (got : option (list (str * nat)))                                       (* None = conflict error *)
| FLoc (c : c07case)
| FProp (singles : list bool) (got_ok : bool).   (* per-file outcomes observed alone; outcome of the batch *)

Definition obs_cls {A} (o : obs A) : cls := match o with OUndef => KUndef | OVal _ => KVal | OError => KConflict end.

(* Model/LintErr.v with the per-file oracle given by the table of single-file outcomes, main waiting in the
   select: does Lint return a report? *)
Definition prop_model (singles : list bool) : bool :=
  match lint nat nat nat nat nat nat (Ok tt)
             (fun f => if nth f singles false then Ok f else Err 1%nat) (fun i => Ok i) (fun r => Ok r)
             (fun ps => Nat.ltb 1 (length ps)) (fun _ => Ok 0%nat)
             (seq 0 (length singles)) MainWaiting with
  | Ok _ => true
  | Err _ => false
  end.

(* ast/imports.rego, evaluated as OPA does: a conflict inside a call of _imported_identifier aborts the rule that
   calls it (imported_identifiers calls it for eligible imports, resolved_imports for ALL imports once there is an
   identifier at all) *)
Definition ii_ok (i : import) : bool :=
  match classify jv_eqb (imported_identifier i) with KConflict => false | _ => true end.
Definition ids_model (imports : list import) : option (list jv) :=
  if forallb (fun i => negb (eligible i) || ii_ok i) imports then Some (imported_identifiers imports) else None.
Definition res_entry_eqb (a b : jv * list str) : bool :=
  jv_eqb (fst a) (fst b) && list_eqb str_eqb (snd a) (snd b).
Definition res_keyed_ok (es : list (jv * list str)) : bool :=
  forallb (fun a => forallb (fun b => negb (jv_eqb (fst a) (fst b)) || res_entry_eqb a b) es) es.
Definition res_model (imports : list import) : option (list (jv * list str)) :=
  match ids_model imports with
  | None => None
  | Some [] => Some []
  | Some _ => if forallb ii_ok imports && res_keyed_ok (resolved_imports imports)
              then Some (resolved_imports imports) else None
  end.
Definition same_set {A} (eqb : A -> A -> bool) (a b : list A) : bool :=
  forallb (fun x => existsb (eqb x) b) a && forallb (fun x => existsb (eqb x) a) b.
Definition opt_same_set {A} (eqb : A -> A -> bool) (a b : option (list A)) : bool :=
  match a, b with
  | None, None => true
  | Some x, Some y => same_set eqb x y
  | _, _ => false
  end.
Definition decl_entry_eqb (a b : str * nat) : bool := str_eqb (fst a) (fst b) && Nat.eqb (snd a) (snd b).
Definition decl_model (rules : list rule_sig) : option (list (str * nat)) :=
  let es := function_decls rules in
  if forallb (fun a => forallb (fun b => negb (str_eqb (fst a) (fst b)) || decl_entry_eqb a b) es) es
  then Some es else None.

Definition fcase_agrees (c : c03case) : bool :=
  match c with
  | FCTP path got =>
      let outs := category_title_from_path path in
      cls_eqb (classify pair_jv_eqb outs) (obs_cls got) &&
      match outs, got with v :: _, OVal w => pair_jv_eqb v w | _, _ => true end
  | FRR ann got => rr_obs_eqb (rr_model ann) got
  | FFail meta details got =>
      cls_eqb (classify sym_eqb (fail sym o_annotated o_custom o_fallback details meta)) got
  | FFNR f root got =>
      let outs := file_name_relative_to_root f root in
      cls_eqb (classify str_eqb outs) (obs_cls got) &&
      match outs, got with v :: _, OVal w => str_eqb v w | _, _ => true end
  | FID comments got =>
      let es := directive_entries comments in
      match got with
      | None => negb (keyed_ok es)
      | Some g => keyed_ok es && subset_entries es g && subset_entries g es
      end
  | FToSet x got flag =>
      let outs := to_set members x in
      cls_eqb (classify jv_eqb outs) got &&
      match outs with v :: _ => Bool.eqb (is_set v) flag | [] => true end
  | FToArray x got flag =>
      let outs := to_array members x in
      cls_eqb (classify jv_eqb outs) got &&
      match outs with v :: _ => Bool.eqb (is_array v) flag | [] => true end
  | FImp imports got_ids got_res =>
      opt_same_set jv_eqb (ids_model imports) got_ids && opt_same_set res_entry_eqb (res_model imports) got_res
  | FDecl rules got => opt_same_set decl_entry_eqb (decl_model rules) got
  | FLoc c => case_agrees c
  | FProp singles got_ok => Bool.eqb (prop_model singles) got_ok
  end.

(* the theorem's premises, decided on the concrete case: inside them OPA must not have raised a conflict *)
Definition fcase_in_premise (c : c03case) : bool :=
  match c with
  | FRR ann _ => negb (match field s_related_resources ann with Some (JBool false) => true | _ => false end)
  | FFail meta _ _ => Nat.leb (length (package_links meta)) 1
  | FID comments _ =>
      let rows := map fst comments in
      forallb (fun r => Nat.leb (length (filter (Z.eqb r) rows)) 1) rows
  | FImp imports _ _ =>
      forallb (fun i => negb (match imp_alias i with Some (JBool false) => true | _ => false end)) imports
  | _ => true
  end.

Definition fcase_conflict (c : c03case) : bool :=
  match c with
  | FCTP _ OError | FFNR _ _ OError => true
  | FRR _ RConflict => true
  | FFail _ _ KConflict | FToSet _ KConflict _ | FToArray _ KConflict _ => true
  | FID _ None => true
  | FImp _ None _ | FImp _ _ None => true
  | FDecl _ None => true
  | FLoc (CTLO _ _ OError) | FLoc (CLoc _ _ _ OError) | FLoc (CRLB _ _ _ _ OError) | FLoc (CRFR _ _ _ OError)
  | FLoc (CInf _ _ _ OError) | FLoc (CCut _ _ _ _ _ OError) | FLoc (CL2T _ _ OError) => true
  | _ => false
  end.

(* spec: inside the premises no conflict error is ever observed *)
Definition fcase_meets_spec (c : c03case) : bool := negb (fcase_in_premise c && fcase_conflict c).
