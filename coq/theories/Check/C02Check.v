(* Executable comparison functions for the C02 correspondence: the harness builds directory trees
   in a temp dir, calls the real config.FilterIgnoredPaths and Linter.Lint, and writes the tree,
   the arguments, the glob-oracle table and what came back; the model recomputes the discovered
   list (exact order) and files_scanned, and re-derives the summary of every observed report from
   its own violation and notice lists.  No theorems here. *)
From Regal Require Export Model.Discover Model.Router Check.C01Check.

Record tree_case := {
  tc_root : node;                           (* content of the working directory relevant to the case *)
  tc_args : list str;
  tc_ignore : list str;
  tc_excl : list (str * list (str * bool)); (* pattern -> file -> excluded (real excludeFile) *)
  tc_bad : list str;                        (* cleaned names that do not parse *)
  tc_filtered : option (list str);          (* FilterIgnoredPaths: the list, or an error *)
  tc_scanned : option nat }.                (* Lint: files_scanned, or an error; None also when not linted *)

Definition table_excl (c : tree_case) (p f : str) : bool :=
  match mget (tc_excl c) p with
  | Some row => match mget row f with Some b => b | None => false end
  | None => false
  end.

Definition model_discover (c : tree_case) : dres :=
  discover spec_skips spec_ext (table_excl c) (tc_root c) (tc_args c) (tc_ignore c).

Definition discover_agrees (c : tree_case) : bool :=
  match model_discover c, tc_filtered c with
  | DOk fs, Some got => strs_eqb fs got
  | DErr, None => true
  | _, _ => false
  end.

Definition in_model (c : tree_case) : bool :=
  match model_discover c with DOut => false | _ => true end.

Definition model_scanned (c : tree_case) : option nat :=
  match model_discover c with
  | DOk fs =>
      match input_from_paths (parse_fn (fun n => negb (str_in n (tc_bad c)))) fs with
      | Some names => Some (length names)
      | None => None
      end
  | _ => None
  end.

(* only for cases that were linted *)
Definition scanned_agrees (c : tree_case) (linted : bool) : bool :=
  negb linted ||
  match model_scanned c, tc_scanned c with
  | Some a, Some b => Nat.eqb a b
  | None, None => true
  | _, _ => false
  end.

(* ---- summary of an observed report, recomputed from its lists ------------------------------ *)
Record sum_case := {
  sc_viol_files : list str;                 (* Location.File of every violation *)
  sc_notices : list notice;                 (* the final notices *)
  sc_failed : nat; sc_skipped : nat; sc_num : nat }.

Fixpoint notices_nodupb (l : list notice) : bool :=
  match l with
  | [] => true
  | x :: l' => negb (notice_mem x l') && notices_nodupb l'
  end.

Definition summary_agrees (c : sum_case) : bool :=
  Nat.eqb (sc_num c) (length (sc_viol_files c)) &&
  Nat.eqb (sc_failed c) (length (nodup str_dec (sc_viol_files c))) &&
  Nat.eqb (sc_skipped c) (length (filter (fun x => negb (str_eqb (n_sev x) NONE)) (sc_notices c))) &&
  notices_nodupb (sc_notices c).

(* ---- the router and H_ops (Model/Router.v), per composition workspace ------------------------ *)
(* One row per (rule, file) for which the lint query evaluated on the file alone reported something
   either without (or_off) or with (or_on) "collect" among input.regal.operations.  The rows are what
   the real query returned (bundle + builtins of the tree under test, the input built by
   transform.ToAST exactly as lintWithRegoRules does), grouped by the rule named in the violation. *)
Record ops_row := { or_rule : str; or_file : str; or_off : list viol; or_on : list viol }.

(* H_ops of c02_single_file_compose for the rule and file of the row *)
Definition hops_row (r : ops_row) : bool := multiset_eqb viol_eqb (or_on r) (or_off r).
(* H_loc *)
Definition hloc_row (r : ops_row) : bool :=
  forallb (fun v => str_eqb (v_file v) (or_file r)) (or_on r ++ or_off r).

(* the oracles of Model/Router.v read off the table (ignore directives are already applied in what
   the query returns, so [ignored] is constantly false here) *)
Definition tbl_rules (t : list ops_row) (f : str) : list str :=
  nodup str_dec (map or_rule (filter (fun r => str_eqb (or_file r) f) t)).
Definition tbl_body (t : list ops_row) (r f : str) (collect : bool) : list viol :=
  flat_map (fun row => if str_eqb (or_rule row) r && str_eqb (or_file row) f
                       then (if collect then or_on row else or_off row) else []) t.

(* what a real Linter.Lint run over ro_n files reported (non-aggregate) in file ro_file *)
Record run_obs := { ro_n : nat; ro_file : str; ro_viol : list viol }.

Record ops_case := { oc_table : list ops_row; oc_runs : list run_obs }.

Definition model_run (t : list ops_row) (o : run_obs) : list viol :=
  router_report (tbl_rules t) (tbl_body t) (fun _ _ => false) (ro_file o) (collect_flag false (ro_n o)).

(* the model (router over the tabulated bodies, collect flag from the number of files) predicts the
   per-file violations of every observed run *)
Definition router_agrees (c : ops_case) : bool :=
  forallb (fun o => multiset_eqb viol_eqb (model_run (oc_table c) o) (ro_viol o)) (oc_runs c).
Definition hops_holds (c : ops_case) : bool := forallb hops_row (oc_table c).
Definition hloc_holds (c : ops_case) : bool := forallb hloc_row (oc_table c).
