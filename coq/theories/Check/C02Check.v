(* Executable comparison functions for the C02 correspondence: the harness builds directory trees
   in a temp dir, calls the real config.FilterIgnoredPaths and Linter.Lint, and writes the tree,
   the arguments, the glob-oracle table and what came back; the model recomputes the discovered
   list (exact order) and files_scanned, and re-derives the summary of every observed report from
   its own violation and notice lists.  No theorems here. *)
From Regal Require Export Model.Discover Check.C01Check.

Record tree_case := {
  tc_root : node;                           (* content of the working directory relevant to the case *)
  tc_args : list str;
  tc_ignore : list str;
  tc_excl : list (str * list (str * bool)); (* pattern -> file -> excluded (real excludeFile) *)
  tc_bad : list str;                        (* cleaned names that do not parse *)
  tc_filtered : option (list str);          (* FilterIgnoredPaths: the list, or an error *)
  tc_scanned : option nat }.                (* Lint: files_scanned, or an error; None also when not linted *)

Definition table_excl (c : tree_case) (p f : str) : bool :=
  match mget (tc_excl c) p with
  | Some row => match mget row f with Some b => b | None => false end
  | None => false
  end.

Definition model_discover (c : tree_case) : dres :=
  discover spec_skips spec_ext (table_excl c) (tc_root c) (tc_args c) (tc_ignore c).

Definition discover_agrees (c : tree_case) : bool :=
  match model_discover c, tc_filtered c with
  | DOk fs, Some got => strs_eqb fs got
  | DErr, None => true
  | _, _ => false
  end.

Definition in_model (c : tree_case) : bool :=
  match model_discover c with DOut => false | _ => true end.

Definition model_scanned (c : tree_case) : option nat :=
  match model_discover c with
  | DOk fs =>
      match input_from_paths (parse_fn (fun n => negb (str_in n (tc_bad c)))) fs with
      | Some names => Some (length names)
      | None => None
      end
  | _ => None
  end.

(* only for cases that were linted *)
Definition scanned_agrees (c : tree_case) (linted : bool) : bool :=
  negb linted ||
  match model_scanned c, tc_scanned c with
  | Some a, Some b => Nat.eqb a b
  | None, None => true
  | _, _ => false
  end.

(* ---- summary of an observed report, recomputed from its lists ------------------------------ *)
Record sum_case := {
  sc_viol_files : list str;                 (* Location.File of every violation *)
  sc_notices : list notice;                 (* the final notices *)
  sc_failed : nat; sc_skipped : nat; sc_num : nat }.

Fixpoint notices_nodupb (l : list notice) : bool :=
  match l with
  | [] => true
  | x :: l' => negb (notice_mem x l') && notices_nodupb l'
  end.

Definition summary_agrees (c : sum_case) : bool :=
  Nat.eqb (sc_num c) (length (sc_viol_files c)) &&
  Nat.eqb (sc_failed c) (length (nodup str_dec (sc_viol_files c))) &&
  Nat.eqb (sc_skipped c) (length (filter (fun x => negb (str_eqb (n_sev x) NONE)) (sc_notices c))) &&
  notices_nodupb (sc_notices c).
