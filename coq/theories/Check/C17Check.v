(* Executable comparison for the C17 correspondence: per client message (and per injected config-watcher
   event) the harness records the facts the handler's guards look at and whether the server survived;
   the guard skeleton of the current revision must predict the same.  No theorems here. *)
From Coq Require Import List NArith Bool.
From Regal Require Export Model.LspGuards.
Import ListNotations.

Definition unit_of_nat (n : nat) : option unit_ := nth_error all_units n.

Definition fact_of_nat (n : nat) : option fact :=
  nth_error [FCfgLoaded; FTextPresent; FTextCRLF; FFilesNonEmpty; FChangesNonEmpty; FWatchedNonEmpty; FIgnored;
             FContentEmpty; FInitOpts; FFormatterOpt; FDebugLensOpt; FEvalInlineOpt; FClientVSCode; FDiagPresent;
             FDiagCodeDesc; FArgsOne; FArgDiag; FFixResult; FHasComment; FCached; FEvalCommand] n.

Record c17_case := {
  k_unit : nat;              (* index in all_units *)
  k_facts : list nat;        (* indices of the facts that hold *)
  k_crashed : bool }.        (* the process died while this message was being handled *)

Definition env_of_case (c : c17_case) : env :=
  fun f => existsb (fun n => match fact_of_nat n with Some g => fact_beq f g | None => false end) (k_facts c).

Definition outcome_is_panic (o : outcome) : bool := match o with Panic => true | Ok => false end.

(* facts the harness cannot observe (cache state, fixer results) are tried both ways: the model agrees
   if the observed outcome is possible for some valuation of the unobserved facts *)
Definition unobserved : list fact := [FIgnored; FContentEmpty; FFixResult; FHasComment; FCached].

Fixpoint valuations (fs : list fact) (e : env) {struct fs} : list env :=
  match fs with
  | [] => [e]
  | f :: fs' => valuations fs' (set_fact e f true) ++ valuations fs' (set_fact e f false)
  end.

Definition agrees_guards (r : revision) (c : c17_case) : bool :=
  match unit_of_nat (k_unit c) with
  | None => false
  | Some u =>
      existsb (fun e => Bool.eqb (outcome_is_panic (exec (skeleton r u) e [])) (k_crashed c))
              (valuations unobserved (env_of_case c))
  end.

Fixpoint failing {A} (p : A -> bool) (i : nat) (l : list A) {struct l} : list nat :=
  match l with
  | [] => []
  | x :: l' => if p x then failing p (S i) l' else i :: failing p (S i) l'
  end.
