(* C04: the expected outcome of every case of the exhaustive function-level enumeration, evaluated
   once when the development is built (see Check/C04Check.v, fn_table_chunk; 5 characters per case).
   Order of the chunks: (k, p) in (0,0) (0,1) (0,2) (0,3) (0,4) (1,4) (2,0) (2,1) (2,2) (2,3) (2,4);
   within each u = 0..4, then the no-user-config row. *)
From Coq Require Import String NArith List.
From Regal Require Import Check.C04Check.
Open Scope N_scope.

Definition tbl_0_0_0 : string := Eval vm_compute in fn_table_chunk 0 0 0.
Definition tbl_0_0_1 : string := Eval vm_compute in fn_table_chunk 0 0 1.
Definition tbl_0_0_2 : string := Eval vm_compute in fn_table_chunk 0 0 2.
Definition tbl_0_0_3 : string := Eval vm_compute in fn_table_chunk 0 0 3.
Definition tbl_0_0_4 : string := Eval vm_compute in fn_table_chunk 0 0 4.
Definition tbl_0_0_nu : string := Eval vm_compute in fn_table_nouser 0 0.
Definition tbl_0_1_0 : string := Eval vm_compute in fn_table_chunk 0 1 0.
Definition tbl_0_1_1 : string := Eval vm_compute in fn_table_chunk 0 1 1.
Definition tbl_0_1_2 : string := Eval vm_compute in fn_table_chunk 0 1 2.
Definition tbl_0_1_3 : string := Eval vm_compute in fn_table_chunk 0 1 3.
Definition tbl_0_1_4 : string := Eval vm_compute in fn_table_chunk 0 1 4.
Definition tbl_0_1_nu : string := Eval vm_compute in fn_table_nouser 0 1.
Definition tbl_0_2_0 : string := Eval vm_compute in fn_table_chunk 0 2 0.
Definition tbl_0_2_1 : string := Eval vm_compute in fn_table_chunk 0 2 1.
Definition tbl_0_2_2 : string := Eval vm_compute in fn_table_chunk 0 2 2.
Definition tbl_0_2_3 : string := Eval vm_compute in fn_table_chunk 0 2 3.
Definition tbl_0_2_4 : string := Eval vm_compute in fn_table_chunk 0 2 4.
Definition tbl_0_2_nu : string := Eval vm_compute in fn_table_nouser 0 2.
Definition tbl_0_3_0 : string := Eval vm_compute in fn_table_chunk 0 3 0.
Definition tbl_0_3_1 : string := Eval vm_compute in fn_table_chunk 0 3 1.
Definition tbl_0_3_2 : string := Eval vm_compute in fn_table_chunk 0 3 2.
Definition tbl_0_3_3 : string := Eval vm_compute in fn_table_chunk 0 3 3.
Definition tbl_0_3_4 : string := Eval vm_compute in fn_table_chunk 0 3 4.
Definition tbl_0_3_nu : string := Eval vm_compute in fn_table_nouser 0 3.
Definition tbl_0_4_0 : string := Eval vm_compute in fn_table_chunk 0 4 0.
Definition tbl_0_4_1 : string := Eval vm_compute in fn_table_chunk 0 4 1.
Definition tbl_0_4_2 : string := Eval vm_compute in fn_table_chunk 0 4 2.
Definition tbl_0_4_3 : string := Eval vm_compute in fn_table_chunk 0 4 3.
Definition tbl_0_4_4 : string := Eval vm_compute in fn_table_chunk 0 4 4.
Definition tbl_0_4_nu : string := Eval vm_compute in fn_table_nouser 0 4.
Definition tbl_1_4_0 : string := Eval vm_compute in fn_table_chunk 1 4 0.
Definition tbl_1_4_1 : string := Eval vm_compute in fn_table_chunk 1 4 1.
Definition tbl_1_4_2 : string := Eval vm_compute in fn_table_chunk 1 4 2.
Definition tbl_1_4_3 : string := Eval vm_compute in fn_table_chunk 1 4 3.
Definition tbl_1_4_4 : string := Eval vm_compute in fn_table_chunk 1 4 4.
Definition tbl_1_4_nu : string := Eval vm_compute in fn_table_nouser 1 4.
Definition tbl_2_0_0 : string := Eval vm_compute in fn_table_chunk 2 0 0.
Definition tbl_2_0_1 : string := Eval vm_compute in fn_table_chunk 2 0 1.
Definition tbl_2_0_2 : string := Eval vm_compute in fn_table_chunk 2 0 2.
Definition tbl_2_0_3 : string := Eval vm_compute in fn_table_chunk 2 0 3.
Definition tbl_2_0_4 : string := Eval vm_compute in fn_table_chunk 2 0 4.
Definition tbl_2_0_nu : string := Eval vm_compute in fn_table_nouser 2 0.
Definition tbl_2_1_0 : string := Eval vm_compute in fn_table_chunk 2 1 0.
Definition tbl_2_1_1 : string := Eval vm_compute in fn_table_chunk 2 1 1.
Definition tbl_2_1_2 : string := Eval vm_compute in fn_table_chunk 2 1 2.
Definition tbl_2_1_3 : string := Eval vm_compute in fn_table_chunk 2 1 3.
Definition tbl_2_1_4 : string := Eval vm_compute in fn_table_chunk 2 1 4.
Definition tbl_2_1_nu : string := Eval vm_compute in fn_table_nouser 2 1.
Definition tbl_2_2_0 : string := Eval vm_compute in fn_table_chunk 2 2 0.
Definition tbl_2_2_1 : string := Eval vm_compute in fn_table_chunk 2 2 1.
Definition tbl_2_2_2 : string := Eval vm_compute in fn_table_chunk 2 2 2.
Definition tbl_2_2_3 : string := Eval vm_compute in fn_table_chunk 2 2 3.
Definition tbl_2_2_4 : string := Eval vm_compute in fn_table_chunk 2 2 4.
Definition tbl_2_2_nu : string := Eval vm_compute in fn_table_nouser 2 2.
Definition tbl_2_3_0 : string := Eval vm_compute in fn_table_chunk 2 3 0.
Definition tbl_2_3_1 : string := Eval vm_compute in fn_table_chunk 2 3 1.
Definition tbl_2_3_2 : string := Eval vm_compute in fn_table_chunk 2 3 2.
Definition tbl_2_3_3 : string := Eval vm_compute in fn_table_chunk 2 3 3.
Definition tbl_2_3_4 : string := Eval vm_compute in fn_table_chunk 2 3 4.
Definition tbl_2_3_nu : string := Eval vm_compute in fn_table_nouser 2 3.
Definition tbl_2_4_0 : string := Eval vm_compute in fn_table_chunk 2 4 0.
Definition tbl_2_4_1 : string := Eval vm_compute in fn_table_chunk 2 4 1.
Definition tbl_2_4_2 : string := Eval vm_compute in fn_table_chunk 2 4 2.
Definition tbl_2_4_3 : string := Eval vm_compute in fn_table_chunk 2 4 3.
Definition tbl_2_4_4 : string := Eval vm_compute in fn_table_chunk 2 4 4.
Definition tbl_2_4_nu : string := Eval vm_compute in fn_table_nouser 2 4.

Definition expected_chunks : list string := [tbl_0_0_0; tbl_0_0_1; tbl_0_0_2; tbl_0_0_3; tbl_0_0_4; tbl_0_0_nu; tbl_0_1_0; tbl_0_1_1; tbl_0_1_2; tbl_0_1_3; tbl_0_1_4; tbl_0_1_nu; tbl_0_2_0; tbl_0_2_1; tbl_0_2_2; tbl_0_2_3; tbl_0_2_4; tbl_0_2_nu; tbl_0_3_0; tbl_0_3_1; tbl_0_3_2; tbl_0_3_3; tbl_0_3_4; tbl_0_3_nu; tbl_0_4_0; tbl_0_4_1; tbl_0_4_2; tbl_0_4_3; tbl_0_4_4; tbl_0_4_nu; tbl_1_4_0; tbl_1_4_1; tbl_1_4_2; tbl_1_4_3; tbl_1_4_4; tbl_1_4_nu; tbl_2_0_0; tbl_2_0_1; tbl_2_0_2; tbl_2_0_3; tbl_2_0_4; tbl_2_0_nu; tbl_2_1_0; tbl_2_1_1; tbl_2_1_2; tbl_2_1_3; tbl_2_1_4; tbl_2_1_nu; tbl_2_2_0; tbl_2_2_1; tbl_2_2_2; tbl_2_2_3; tbl_2_2_4; tbl_2_2_nu; tbl_2_3_0; tbl_2_3_1; tbl_2_3_2; tbl_2_3_3; tbl_2_3_4; tbl_2_3_nu; tbl_2_4_0; tbl_2_4_1; tbl_2_4_2; tbl_2_4_3; tbl_2_4_4; tbl_2_4_nu]%list.
