(* Executable comparison functions for the C15 correspondence.  The harness writes, per run of the
   real language server, the history, the diagnostics last published per URI and the result of a
   from-scratch lint; the linter oracles of Model/Lsp.v are instantiated with finite tables measured
   on the real linter.  No theorems here. *)
From Coq Require Import List NArith Bool.
From Regal Require Export Model.Lsp.
Import ListNotations.
Open Scope N_scope.

(* ---- sizes fixed by the harness (tools/props/c15.py uses the same numbers) ---- *)
Definition NU : N := 8.      (* URIs 0..7 *)
Definition NC : N := 32.     (* contents 0..31 *)
Definition NK : N := 8.      (* configs 0..7 *)
Definition BASE : N := 1 + NK * NC.
Definition UNIV : list uri := [0;1;2;3;4;5;6;7].

Definition fkey (k : cfg) (u : uri) (c : content) : N := k + NK * (u + NU * c).

Definition adigit (o : option (cfg * content)) : N :=
  match o with None => 0 | Some (kc, c) => 1 + kc + NK * c end.

Fixpoint amap_code (us : list uri) (m : fmap (cfg * content)) {struct us} : N :=
  match us with
  | [] => 0
  | u :: us' => adigit (m u) + BASE * amap_code us' m
  end.

Definition akey (k : cfg) (m : fmap (cfg * content)) : N := k + NK * amap_code UNIV m.

(* ---- oracle tables ---- *)
Record tables := {
  t_parses : list content;                              (* contents that parse *)
  t_perr : list ((uri * content) * list diag);
  t_fd : list (N * list diag);                          (* fkey -> diagnostics *)
  t_ar : list (N * list (uri * list diag));             (* akey -> per-URI diagnostics *)
  t_rules : list (cfg * (list rule * list rule)) }.     (* config -> (non-aggregate, aggregate) enabled rules *)

Definition POISON : rule := 999999.
Definition KEEP : rule := 0.

Fixpoint lookupN {A} (k : N) (l : list (N * A)) {struct l} : option A :=
  match l with
  | [] => None
  | (k', v) :: l' => if N.eqb k k' then Some v else lookupN k l'
  end.

Fixpoint lookupNN {A} (a b : N) (l : list ((N * N) * A)) {struct l} : option A :=
  match l with
  | [] => None
  | ((a', b'), v) :: l' => if N.eqb a a' && N.eqb b b' then Some v else lookupNN a b l'
  end.

Definition tb_parses (t : tables) (c : content) : bool := mem c (t_parses t).
Definition tb_perr (t : tables) (u : uri) (c : content) : list diag :=
  match lookupNN u c (t_perr t) with Some l => l | None => [(POISON, 1 + 2 * fkey 0 u c)] end.
Definition tb_fdiags (t : tables) (k : cfg) (u : uri) (c : content) : list diag :=
  match lookupN (fkey k u c) (t_fd t) with Some l => l | None => [(POISON, 2 * fkey k u c)] end.
Definition tb_areport (t : tables) (k : cfg) (m : fmap (cfg * content)) (u : uri) : list diag :=
  match lookupN (akey k m) (t_ar t) with
  | Some per => match lookupN u per with Some l => l | None => [] end
  | None => [(POISON, 1 + 2 * akey k m)]
  end.
Definition tb_nonagg (t : tables) (k : cfg) : list rule :=
  match lookupN k (t_rules t) with Some p => fst p | None => [] end.
Definition tb_agg (t : tables) (k : cfg) : list rule :=
  match lookupN k (t_rules t) with Some p => snd p | None => [] end.

(* key-discovery oracles: every oracle result is a marker that no merge ever filters out, so the
   markers surviving in a final state are a superset of the oracle calls the final state depends on *)
Definition mk_fdiags (k : cfg) (u : uri) (c : content) : list diag := [(KEEP, 2 * fkey k u c)].
Definition mk_areport (k : cfg) (m : fmap (cfg * content)) (_ : uri) : list diag := [(KEEP, 1 + 2 * akey k m)].

(* ---- cases ---- *)
Record c15_case := {
  c_step : bool;                          (* true: one event at a time; false: burst *)
  c_init : list (uri * content);
  c_cfg0 : cfg;
  c_events : list event;
  c_pub : list (uri * list N);            (* observed: identifiers of the diagnostics last published, sorted *)
  c_fresh : list (uri * list N) }.        (* observed: from-scratch lint of the final contents *)

Definition init_map (l : list (uri * content)) : fmap content :=
  fun u => lookupN u l.

Definition FUEL : nat := 400.

Section Eval.
  Variable t : tables.
  Variable keys_mode : bool.     (* true: marker oracles *)

  Definition o_fdiags := if keys_mode then mk_fdiags else tb_fdiags t.
  Definition o_areport := if keys_mode then mk_areport else tb_areport t.

  Definition m_init (c : c15_case) : state :=
    init_state (tb_parses t) (init_map (c_init c)) (c_cfg0 c).

  Definition m_final (fx : fixes) (stepwise : bool) (c : c15_case) : option state :=
    if stepwise
    then run_stepwise UNIV (tb_parses t) (tb_perr t) o_fdiags o_areport (tb_nonagg t) (tb_agg t) fx FUEL (c_events c) (m_init c)
    else run_burst UNIV (tb_parses t) (tb_perr t) o_fdiags o_areport (tb_nonagg t) (tb_agg t) fx FUEL (c_events c) (m_init c).

  Definition m_racy (fx : fixes) (c : c15_case) : option state :=
    run_racy UNIV (tb_parses t) (tb_perr t) o_fdiags o_areport (tb_nonagg t) (tb_agg t) fx FUEL (c_events c) (m_init c).

  Definition m_fresh (s : state) (u : uri) : list diag :=
    fresh UNIV (tb_parses t) (tb_perr t) o_fdiags o_areport (contents s) (conf s) u.
End Eval.

(* insertion sort on N *)
Fixpoint ins (x : N) (l : list N) {struct l} : list N :=
  match l with
  | [] => [x]
  | y :: l' => if N.leb x y then x :: l else y :: ins x l'
  end.
Definition sortN (l : list N) : list N := fold_right ins [] l.

Fixpoint listN_eqb (a b : list N) {struct a} : bool :=
  match a, b with
  | [], [] => true
  | x :: a', y :: b' => N.eqb x y && listN_eqb a' b'
  | _, _ => false
  end.

Definition ids (l : list diag) : list N := sortN (map snd l).

Definition obs_of (l : list (uri * list N)) (u : uri) : list N :=
  match lookupN u l with Some x => x | None => [] end.

(* all URIs agree *)
Definition same_on_univ (f g : uri -> list N) : bool :=
  forallb (fun u => listN_eqb (f u) (g u)) UNIV.

Definition pub_of (os : option state) (u : uri) : list N :=
  match os with Some s => ids (pub s u) | None => [POISON] end.

Definition fresh_of (t : tables) (os : option state) (u : uri) : list N :=
  match os with Some s => ids (m_fresh t false s u) | None => [POISON] end.

(* observed publishes = prediction of the model of the current code.  One-at-a-time delivery is a
   deterministic job-atomic schedule.  For bursts the real interleaving is unknown: the observation must
   be the from-scratch result or the result of one of the two extreme job-atomic schedules. *)
Definition agrees_model (t : tables) (c : c15_case) : bool :=
  let sw := m_final t false current true c in
  if c_step c then same_on_univ (obs_of (c_pub c)) (pub_of sw)
  else same_on_univ (obs_of (c_pub c)) (obs_of (c_fresh c))
       || same_on_univ (obs_of (c_pub c)) (pub_of sw)
       || same_on_univ (obs_of (c_pub c)) (pub_of (m_final t false current false c))
       || same_on_univ (obs_of (c_pub c)) (pub_of (m_racy t false current c)).

(* the reference computed by the harness = the model's [fresh] on the oracle tables *)
Definition agrees_fresh (t : tables) (c : c15_case) : bool :=
  same_on_univ (obs_of (c_fresh c)) (fresh_of t (m_final t false current (c_step c) c)).

Definition converged (c : c15_case) : bool := same_on_univ (obs_of (c_pub c)) (obs_of (c_fresh c)).

(* which single repairs change the model's prediction for this history (bit i), and whether the fully
   repaired model converges (bit 6 set when it does NOT) *)
Definition with_repair (i : nat) : fixes :=
  match i with
  | 0%nat => Build_fixes true true true false false false
  | 1%nat => Build_fixes true true false true false false
  | 2%nat => Build_fixes true true false false true false
  | _ => Build_fixes true true false false false true
  end.

(* the behaviour in which exactly the open defects named by the low four bits of [m] are present (bit i set: defect
   i as in the code; clear: repaired), both repaired defects repaired *)
Definition fixes_of_mask (m : N) : fixes :=
  Build_fixes true true (negb (N.testbit m 0)) (negb (N.testbit m 1)) (negb (N.testbit m 2)) (negb (N.testbit m 3)).

Definition all_masks : list N := [0; 1; 2; 3; 4; 5; 6; 7; 8; 9; 10; 11; 12; 13; 14; 15].

Definition attribution (t : tables) (c : c15_case) : N :=
  let base := pub_of (m_final t false current (c_step c) c) in
  let bit (i : nat) (w : N) := if same_on_univ base (pub_of (m_final t false (with_repair i) (c_step c) c)) then 0 else w in
  let allr := m_final t false all_repaired (c_step c) c in
  let racy :=
    if c_step c then 0
    else if same_on_univ (obs_of (c_pub c)) (pub_of (m_final t false current true c))
            || same_on_univ (obs_of (c_pub c)) (pub_of (m_final t false current false c)) then 0
    else if same_on_univ (obs_of (c_pub c)) (pub_of (m_racy t false current c)) then 16 else 0 in
  (* bursts: do both extreme job-atomic schedules converge in the model of the current code?  Then (theorem
     converges_job_atomic_partial, for parse-failure-free histories) every job-atomic schedule does, and an
     observed divergence can only come from an interleaving that is not job-atomic *)
  let atomic_ok :=
    if c_step c then 0
    else let e := m_final t false current true c in
         let l := m_final t false current false c in
         if same_on_univ (pub_of e) (fresh_of t e) && same_on_univ (pub_of l) (fresh_of t l) then 32 else 0 in
  let named := bit 0%nat 1 + bit 1%nat 2 + bit 2%nat 4 + bit 3%nat 8 in
  (* EXACT attribution (bit 7 set when it fails): the model in which exactly the named defects are present, every
     other one repaired, predicts the same publishes as the model of the current code -- so, with the separate
     check that the observation equals that prediction, the named defects and only they explain the observation *)
  let exact := if same_on_univ base (pub_of (m_final t false (fixes_of_mask named) (c_step c) c)) then 0 else 128 in
  named + racy + atomic_ok
  + (if same_on_univ (pub_of allr) (fresh_of t allr) then 0 else 64) + exact.

(* ---- phase 1: which oracle keys do the predictions depend on ---- *)
Definition markers_of (t : tables) (os : option state) : list N :=
  match os with
  | None => []
  | Some s =>
      let keep (l : list diag) := map snd (filter (fun d => N.eqb (code d) KEEP) l) in
      flat_map (fun u => keep (pub s u) ++ keep (m_fresh t true s u)) UNIV
  end.

Definition keys_of_case (t : tables) (diverged : bool) (c : c15_case) : list N :=
  markers_of t (m_final t true current true c)
  ++ (if c_step c then [] else markers_of t (m_final t true current false c) ++ markers_of t (m_racy t true current c))
  ++ (if diverged
      then flat_map (fun fx => markers_of t (m_final t true fx (c_step c) c))
             ([with_repair 0; with_repair 1; with_repair 2; with_repair 3; all_repaired] ++ map fixes_of_mask all_masks)
      else []).

Fixpoint failing {A} (p : A -> bool) (i : nat) (l : list A) {struct l} : list nat :=
  match l with
  | [] => []
  | x :: l' => if p x then failing p (S i) l' else i :: failing p (S i) l'
  end.

(* ------------------------------------------------------------------ the cache as shared state (C15, C17) *)
(* Comparison of the cache-level harness (harness/overlay/c15_cache_test.go, package internal/lsp/cache) with
   Model/LspCache.v.  Sequential histories: every result and the final contents of all maps must be what the
   model computes.  Concurrent histories: results and final state must be explained by an interleaving of the
   modelled atomic steps of the goroutines' operations (Model.LspCache.explained). *)
From Regal Require Export Model.LspCache.

(* run-length notation of the case-file printer for long diagnostic lists *)
Definition rl (l : list (diag * nat)) : list diag := flat_map (fun p => repeat (fst p) (snd p)) l.

Record cache_seq_case := {
  q_ops : list (cop * result);      (* operation and the canonical form of what the implementation returned *)
  q_final : list amap }.            (* contents of the maps at the end, in the order of all_fields *)

Definition agrees_cache_seq (c : cache_seq_case) : bool :=
  let '(s, rs) := run_ops (map fst (q_ops c)) cempty in
  forallb (fun p => is_some (method_name (fst p))) (q_ops c)
  && list_eqb result_eqb rs (map snd (q_ops c))
  && dump_eqb (dump s) (q_final c).

Record cache_conc_case := {
  n_setup : list cop;                         (* performed sequentially before the goroutines start *)
  n_threads : list (list (cop * result));     (* per goroutine: its operations in program order with their results *)
  n_final : list amap }.

Definition CFUEL : nat := 80.

Definition agrees_cache_conc (c : cache_conc_case) : bool :=
  explained CFUEL (n_setup c) (n_threads c) (n_final c).
