(* C12: fixing terminates, removes what it claims to fix, and is idempotent.  Property theorems about
   Model/FixLoop.v (applyLinterFixes) with the linter, the formatter fixes and the rename as oracles,
   and about the text measures of Proofs/Fixes.v. *)
From Coq Require Import String.
From Regal Require Import Base.StrLit Model.FixLoop Proofs.Fixes Proofs.FixLoop.
Local Open Scope nat_scope.

(* ---- termination: under the progress hypothesis (an iteration that fixes something decreases the
        measure) the loop ends within [mu files + 1] iterations, for every linter, formatter, rename ---- *)
Theorem c12_loop_terminates :
  forall (lint : fs -> option (list violation)) (oracle_fix : rule -> str -> str -> fix_result)
         (rename_on_conflict : bool) (free_name : fs -> str -> str) (mu : fs -> nat),
  (forall files vs files' c c',
      lint files = Some vs ->
      pass oracle_fix rename_on_conflict free_name vs files [] false c = POk files' true c' ->
      mu files' < mu files) ->
  forall fuel files c,
    mu files < fuel -> loop lint oracle_fix rename_on_conflict free_name fuel files c <> OutOfFuel.
Proof. exact loop_terminates. Qed.
Print Assumptions c12_loop_terminates.

(* ---- post-condition: the returned files are the ones linted last, and every violation still reported
        for them is one its fix declines: nothing fixable remains ---- *)
Theorem c12_loop_postcondition :
  forall lint oracle_fix rename_on_conflict free_name fuel files c files' c',
  loop lint oracle_fix rename_on_conflict free_name fuel files c = Done files' c' ->
  exists vs, lint files' = Some vs /\ Forall (declined oracle_fix files') vs.
Proof. exact loop_postcondition. Qed.
Print Assumptions c12_loop_postcondition.

(* ---- idempotence: fixing the result again changes nothing ---- *)
Theorem c12_loop_idempotent :
  forall lint oracle_fix rename_on_conflict free_name fuel files c files' c',
  loop lint oracle_fix rename_on_conflict free_name fuel files c = Done files' c' ->
  forall fuel2 c2, loop lint oracle_fix rename_on_conflict free_name (S fuel2) files' c2 = Done files' c2.
Proof. exact loop_idempotent. Qed.
Print Assumptions c12_loop_idempotent.

(* ---- progress of the text fixes, as explicit measures on the content ---- *)
Theorem c12_uao_progress : forall content l c',
  uao_fix content [l] = Changed c' -> lone_cnt NL content = S (lone_cnt NL c').
Proof. exact uao_progress. Qed.
Print Assumptions c12_uao_progress.

Theorem c12_nwc_progress : forall content l c',
  nwc_fix content [l] = Changed c' ->
  tight_hash_count c' <= tight_hash_count content /\
  (nwc_reported content l -> tight_hash_count content = S (tight_hash_count c')).
Proof. exact nwc_progress. Qed.
Print Assumptions c12_nwc_progress.

Theorem c12_nrr_progress : forall content l c',
  nrr_fix content [l] = Changed c' -> count_byte DQ content = S (S (count_byte DQ c')).
Proof. exact nrr_progress. Qed.
Print Assumptions c12_nrr_progress.

(* ---- hence: with only use-assignment-operator (or only non-raw-regex-pattern) enabled, fixing terminates
        whatever the linter reports, within (number of lone '=' / of double quotes) + 1 iterations ---- *)
Theorem c12_uao_only_terminates :
  forall lint oracle_fix rename_on_conflict free_name,
  (forall files vs, lint files = Some vs -> Forall (fun v => v_rule v = RUao) vs) ->
  forall files c,
    loop lint oracle_fix rename_on_conflict free_name (S (mu_sum (lone_cnt NL) files)) files c <> OutOfFuel.
Proof. exact uao_only_terminates. Qed.
Print Assumptions c12_uao_only_terminates.

Theorem c12_nrr_only_terminates :
  forall lint oracle_fix rename_on_conflict free_name,
  (forall files vs, lint files = Some vs -> Forall (fun v => v_rule v = RNrr) vs) ->
  forall files c,
    loop lint oracle_fix rename_on_conflict free_name (S (mu_sum (count_byte DQ) files)) files c <> OutOfFuel.
Proof. exact nrr_only_terminates. Qed.
Print Assumptions c12_nrr_only_terminates.

(* ---- and for every combination of the three text rules: the loop terminates within
        (double quotes + lone '=' + tight '#') + 1 iterations, for every linter whose violations are of
        these rules and whose no-whitespace-comment violations point at a '#' directly followed by a
        non-blank (what that rule reports).  The progress hypothesis is discharged, not assumed:
          good_viol files v  :=  is_text (v_rule v) = true /\
             (v_rule v = RNwc -> forall c0, fs_get files (v_file v) = Some c0 -> nwc_reported c0 (v_loc v))
          text_measure c  :=  count_byte DQ c + lone_cnt NL c + tight_hash_count c ---- *)
Theorem c12_text_rules_terminate :
  forall lint oracle_fix rename_on_conflict free_name,
  (forall files vs, lint files = Some vs -> Forall (good_viol files) vs) ->
  forall files c,
    loop lint oracle_fix rename_on_conflict free_name (S (mu_sum text_measure files)) files c <> OutOfFuel.
Proof. exact text_rules_terminate. Qed.
Print Assumptions c12_text_rules_terminate.

(* ---- the pinned code made no progress: with the column of the first "=" of the line and the guard
        "any '='", every round on  f("a=b") = 1  inserts one more ':' inside the string literal, and the
        next round finds the same '=' again (regal fix --force never terminated) ---- *)
Theorem c12_uao_progress_pinned_refuted : forall n,
  iter_round n (P_head ++ EQ :: P_tail) = Some (P_head ++ repeat COLON n ++ EQ :: P_tail) /\
  pinned_round (P_head ++ repeat COLON n ++ EQ :: P_tail) =
    Some (P_head ++ repeat COLON (S n) ++ EQ :: P_tail).
Proof. exact uao_pinned_never_terminates. Qed.
Print Assumptions c12_uao_progress_pinned_refuted.

(* ---- non-vacuity: a toy linter reporting the '=' of "x = 1"; the loop fixes it and stops ---- *)
Definition toy_lint (files : fs) : option (list violation) :=
  Some (flat_map (fun pc : str * str =>
                    if lone_eq (snd pc) 2 then [{| v_rule := RUao; v_file := fst pc; v_loc := {| l_row := 1; l_col := 3 |} |}]
                    else []) files).
Definition toy_oracle (_ : rule) (_ _ : str) : fix_result := FNone.

Example c12_ex_loop :
  loop toy_lint toy_oracle false (fun _ p => p) 3 [(lit "p.rego", lit "x = 1"); (lit "q.rego", lit "y := 2")] false
  = Done [(lit "p.rego", lit "x := 1"); (lit "q.rego", lit "y := 2")] false.
Proof. vm_compute. reflexivity. Qed.

Example c12_ex_pinned : P_head ++ EQ :: P_tail = lit "f(""a=b"") = 1"
  /\ iter_round 3 (lit "f(""a=b"") = 1") = Some (lit "f(""a:::=b"") = 1").
Proof. vm_compute. split; reflexivity. Qed.

Example c12_ex_measures :
  lone_cnt NL (lit "f(""a=b"") = 1") = 2 /\ tight_hash_count (lit "##x # ok") = 2 /\ count_byte DQ (lit "m(""a"")") = 2.
Proof. vm_compute. repeat split. Qed.

(* the hypothesis of c12_text_rules_terminate is met by the toy linter (and so by every linter that only
   reports use-assignment-operator violations, whatever their columns) *)
Example c12_ex_good_viol : forall files vs, toy_lint files = Some vs -> Forall (good_viol files) vs.
Proof.
  intros files vs H. injection H as <-. apply Forall_forall. intros v Hin.
  apply in_flat_map in Hin. destruct Hin as (pc & _ & Hv).
  destruct (lone_eq (snd pc) 2); [|destruct Hv].
  destruct Hv as [<-|[]]. split; [reflexivity|]. intros Hr. discriminate Hr.
Qed.
