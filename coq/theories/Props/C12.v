(* C12: fixing terminates, removes what it claims to fix, and is idempotent.  Property theorems about
   Model/FixLoop.v (applyLinterFixes) with the linter, the formatter fixes and the rename as oracles,
   and about the text measures of Proofs/Fixes.v. *)
From Coq Require Import String.
From Regal Require Import Base.StrLit Model.Rename.
From Regal Require Import Model.FixLoop Proofs.Fixes Proofs.FixLoop Model.DpmAgree Proofs.DpmAgree Proofs.FixLoopRename.
Local Open Scope nat_scope.

(* ---- termination: under the progress hypothesis (an iteration that fixes something decreases the
        measure) the loop ends within [mu files + 1] iterations, for every linter and formatter, in both
        conflict modes: in rename mode for every candidate function whose sequence
          cand_iter candidate k to  =  to, candidate to, candidate (candidate to), ...
        never repeats a name for the targets the moving fix asks for, with |files| + 1 candidate rounds
        of fuel per rename ([OutOfFuel] is also what a candidate loop cut short returns) ---- *)
Theorem c12_loop_terminates :
  forall (lint : fs -> option (list violation)) (oracle_fix : rule -> str -> str -> fix_result)
         (rename_on_conflict : bool) (candidate : str -> str) (rfuel : nat) (mu : fs -> nat),
  (forall files vs files' c c',
      lint files = Some vs ->
      pass oracle_fix rename_on_conflict candidate rfuel vs files [] false c = POk files' true c' ->
      mu files' < mu files) ->
  (forall r file content to,
      oracle_fix r file content = FRename to ->
      forall i j, i <> j -> FixLoop.cand_iter candidate i to <> FixLoop.cand_iter candidate j to) ->
  forall fuel files c,
    mu files < fuel -> List.length files < rfuel ->
    loop lint oracle_fix rename_on_conflict candidate rfuel fuel files c <> OutOfFuel.
Proof. exact loop_terminates. Qed.
Print Assumptions c12_loop_terminates.

(* ---- rename mode (handleRename, OnConflictRename): the names tried are produced by ITERATING the
        candidate function on the name tried last.  If that sequence never repeats a name (a strictly
        increasing counter), the loop settles within |files| rounds on the first candidate that is free:
          rename_loop candidate fuel files to = Some (number of conflicts, name settled on) ---- *)
Theorem c12_rename_mode_terminates :
  forall (candidate : str -> str) (files : fs) (to : str) (fuel : nat),
  (forall i j, i <> j -> FixLoop.cand_iter candidate i to <> FixLoop.cand_iter candidate j to) ->
  List.length files < fuel ->
  exists k, k <= List.length files
    /\ rename_loop candidate fuel files to = Some (k, FixLoop.cand_iter candidate k to)
    /\ fs_get files (FixLoop.cand_iter candidate k to) = None
    /\ (forall j, j < k -> fs_get files (FixLoop.cand_iter candidate j to) <> None).
Proof. exact rename_loop_terminates. Qed.
Print Assumptions c12_rename_mode_terminates.

(* ---- with the real renameCandidate (C13's model of pkg/fixer/rename.go) and any clean absolute target
        [to = /ds.../nb]: at most |files| conflicts, the name settled on is the first free one of
        p.rego, p_1.rego, p_2.rego, ... and lies in the directory of the target ---- *)
Theorem c12_rename_mode_terminates_real_candidate :
  forall (files : fs) (to : str) (ds : list str) (nb : str) (fuel : nat),
  clean_file to ds nb ->
  List.length files < fuel ->
  exists k, k <= List.length files
    /\ rename_loop rename_candidate fuel files to = Some (k, Rename.cand_iter k to)
    /\ fs_get files (Rename.cand_iter k to) = None
    /\ (forall j, j < k -> fs_get files (Rename.cand_iter j to) <> None)
    /\ dir (Rename.cand_iter k to) = cpath ds.
Proof. exact rename_mode_terminates. Qed.
Print Assumptions c12_rename_mode_terminates_real_candidate.

(* ---- the variant that derives every candidate from the target the fix asked for
        (to = renameCandidate(fixResult.Rename.ToPath)) does not terminate once the first alternative
        name is taken as well: p.rego and p_1.rego held, it asks for p_1.rego for ever, where the real
        loop settles on p_2.rego after two conflicts ---- *)
Theorem c12_rename_mode_terminates_from_target_refuted :
  exists files to ds nb,
    clean_file to ds nb
    /\ (forall fuel, rename_loop_from_target rename_candidate fuel files to to = None)
    /\ rename_loop rename_candidate 4 files to = Some (2, lit "/ws/foo/p_2.rego").
Proof. exact rename_from_target_refuted. Qed.
Print Assumptions c12_rename_mode_terminates_from_target_refuted.

(* ... and is indistinguishable from it while the first alternative is free *)
Theorem c12_rename_mode_from_target_partial :
  forall files to fuel,
  fs_get files (rename_candidate to) = None ->
  rename_loop_from_target rename_candidate (S (S fuel)) files to to
  = rename_loop rename_candidate (S (S fuel)) files to.
Proof. exact rename_from_target_partial. Qed.
Print Assumptions c12_rename_mode_from_target_partial.

(* ---- directory-package-mismatch: the rule (Rego) and the fix (Go) compute the expected directory
        independently (Model/DpmAgree.v).  For every package path (components with _test in any
        position, quoted components, ...) and both settings of exclude-test-suffix: where the fix
        computes a directory at all ([fix_dirs] = Some: every component matches the fix's regular
        expression), it is the rule's list of expected directory names ---- *)
Theorem c12_dpm_same_values :
  forall (exclude : bool) (pkg d : list str),
  pkg <> [] -> fix_dirs exclude pkg = Some d -> rule_pkg_values exclude pkg = Some d.
Proof. exact dpm_same_values. Qed.
Print Assumptions c12_dpm_same_values.

(* hence the directory the fix moves a file to, below any root, is one the rule accepts: the fix
   removes what it claims to fix *)
Theorem c12_dpm_rule_and_fix_agree :
  forall (exclude : bool) (pkg d root : list str),
  fix_dirs exclude pkg = Some d -> rule_reports exclude pkg (root ++ d) = false.
Proof. exact dpm_rule_and_fix_agree. Qed.
Print Assumptions c12_dpm_rule_and_fix_agree.

(* and the rule is silent exactly for the files whose last directories are the ones the fix computes *)
Theorem c12_dpm_rule_silent_iff :
  forall (exclude : bool) (pkg d dirs : list str),
  pkg <> [] -> fix_dirs exclude pkg = Some d ->
  (rule_reports exclude pkg dirs = false <-> last_n (List.length d) dirs = d).
Proof. exact dpm_rule_silent_iff. Qed.
Print Assumptions c12_dpm_rule_silent_iff.

(* in terms of what DirectoryPackageMismatch.Fix answers for a file with directories [dirs] *)
Theorem c12_dpm_fix_answer_sound :
  forall (exclude : bool) (pkg root dirs : list str),
  match fix_answer_of exclude pkg root dirs with
  | FixInPlace => rule_reports exclude pkg dirs = false
  | FixMoveTo dirs' => rule_reports exclude pkg dirs' = false /\ dirs' <> dirs
  | FixRefuses => fix_dirs exclude pkg = None
  end.
Proof. exact dpm_fix_answer_sound. Qed.
Print Assumptions c12_dpm_fix_answer_sound.

(* the variant that trims _test from EVERY component (seed C12-4) moves  package authz_test.helpers  to
   authz/helpers, where the rule still reports it and the fix finds nothing more to do *)
Theorem c12_dpm_rule_and_fix_agree_trim_every_refuted :
  exists pkg d root,
    fix_dirs_every true pkg = Some d /\ rule_reports true pkg (root ++ d) = true
    /\ fix_answer_with trim_every true pkg root (root ++ d) = FixInPlace.
Proof. exact dpm_trim_every_refuted. Qed.
Print Assumptions c12_dpm_rule_and_fix_agree_trim_every_refuted.

(* the rule before repair 4b6422e kept the empty name left of a last component "_test": for
   package p._test the fix finds the file in place in p/, the rule reports it, and no directory without
   an empty name could ever satisfy the rule *)
Theorem c12_dpm_rule_and_fix_agree_pinned_refuted :
  exists pkg root dirs,
    fix_answer_of true pkg root dirs = FixInPlace /\ rule_reports_pinned true pkg dirs = true
    /\ forall dirs', rule_reports_pinned true pkg dirs' = false -> In [] dirs'.
Proof. exact dpm_rule_pinned_refuted. Qed.
Print Assumptions c12_dpm_rule_and_fix_agree_pinned_refuted.

(* ---- post-condition: the returned files are the ones linted last, and every violation still reported
        for them is one its fix declines: nothing fixable remains ---- *)
Theorem c12_loop_postcondition :
  forall lint oracle_fix rename_on_conflict candidate rfuel fuel files c files' c',
  loop lint oracle_fix rename_on_conflict candidate rfuel fuel files c = Done files' c' ->
  exists vs, lint files' = Some vs /\ Forall (declined oracle_fix files') vs.
Proof. exact loop_postcondition. Qed.
Print Assumptions c12_loop_postcondition.

(* ---- idempotence: fixing the result again changes nothing ---- *)
Theorem c12_loop_idempotent :
  forall lint oracle_fix rename_on_conflict candidate rfuel fuel files c files' c',
  loop lint oracle_fix rename_on_conflict candidate rfuel fuel files c = Done files' c' ->
  forall fuel2 c2, loop lint oracle_fix rename_on_conflict candidate rfuel (S fuel2) files' c2 = Done files' c2.
Proof. exact loop_idempotent. Qed.
Print Assumptions c12_loop_idempotent.

(* ---- progress of the text fixes, as explicit measures on the content ---- *)
Theorem c12_uao_progress : forall content l c',
  uao_fix content [l] = Changed c' -> lone_cnt NL content = S (lone_cnt NL c').
Proof. exact uao_progress. Qed.
Print Assumptions c12_uao_progress.

Theorem c12_nwc_progress : forall content l c',
  nwc_fix content [l] = Changed c' ->
  tight_hash_count c' <= tight_hash_count content /\
  (nwc_reported content l -> tight_hash_count content = S (tight_hash_count c')).
Proof. exact nwc_progress. Qed.
Print Assumptions c12_nwc_progress.

Theorem c12_nrr_progress : forall content l c',
  nrr_fix content [l] = Changed c' -> count_byte DQ content = S (S (count_byte DQ c')).
Proof. exact nrr_progress. Qed.
Print Assumptions c12_nrr_progress.

(* ---- hence: with only use-assignment-operator (or only non-raw-regex-pattern) enabled, fixing terminates
        whatever the linter reports, within (number of lone '=' / of double quotes) + 1 iterations ---- *)
Theorem c12_uao_only_terminates :
  forall lint oracle_fix rename_on_conflict candidate rfuel,
  (forall files vs, lint files = Some vs -> Forall (fun v => v_rule v = RUao) vs) ->
  forall files c,
    loop lint oracle_fix rename_on_conflict candidate rfuel (S (mu_sum (lone_cnt NL) files)) files c <> OutOfFuel.
Proof. exact uao_only_terminates. Qed.
Print Assumptions c12_uao_only_terminates.

Theorem c12_nrr_only_terminates :
  forall lint oracle_fix rename_on_conflict candidate rfuel,
  (forall files vs, lint files = Some vs -> Forall (fun v => v_rule v = RNrr) vs) ->
  forall files c,
    loop lint oracle_fix rename_on_conflict candidate rfuel (S (mu_sum (count_byte DQ) files)) files c <> OutOfFuel.
Proof. exact nrr_only_terminates. Qed.
Print Assumptions c12_nrr_only_terminates.

(* ---- and for every combination of the three text rules: the loop terminates within
        (double quotes + lone '=' + tight '#') + 1 iterations, for every linter whose violations are of
        these rules and whose no-whitespace-comment violations point at a '#' directly followed by a
        non-blank (what that rule reports).  The progress hypothesis is discharged, not assumed:
          good_viol files v  :=  is_text (v_rule v) = true /\
             (v_rule v = RNwc -> forall c0, fs_get files (v_file v) = Some c0 -> nwc_reported c0 (v_loc v))
          text_measure c  :=  count_byte DQ c + lone_cnt NL c + tight_hash_count c ---- *)
Theorem c12_text_rules_terminate :
  forall lint oracle_fix rename_on_conflict candidate rfuel,
  (forall files vs, lint files = Some vs -> Forall (good_viol files) vs) ->
  forall files c,
    loop lint oracle_fix rename_on_conflict candidate rfuel (S (mu_sum text_measure files)) files c <> OutOfFuel.
Proof. exact text_rules_terminate. Qed.
Print Assumptions c12_text_rules_terminate.

(* ---- the pinned code made no progress: with the column of the first "=" of the line and the guard
        "any '='", every round on  f("a=b") = 1  inserts one more ':' inside the string literal, and the
        next round finds the same '=' again (regal fix --force never terminated) ---- *)
Theorem c12_uao_progress_pinned_refuted : forall n,
  iter_round n (P_head ++ EQ :: P_tail) = Some (P_head ++ repeat COLON n ++ EQ :: P_tail) /\
  pinned_round (P_head ++ repeat COLON n ++ EQ :: P_tail) =
    Some (P_head ++ repeat COLON (S n) ++ EQ :: P_tail).
Proof. exact uao_pinned_never_terminates. Qed.
Print Assumptions c12_uao_progress_pinned_refuted.

(* ---- non-vacuity: a toy linter reporting the '=' of "x = 1"; the loop fixes it and stops ---- *)
Definition toy_lint (files : fs) : option (list violation) :=
  Some (flat_map (fun pc : str * str =>
                    if lone_eq (snd pc) 2 then [{| v_rule := RUao; v_file := fst pc; v_loc := {| l_row := 1; l_col := 3 |} |}]
                    else []) files).
Definition toy_oracle (_ : rule) (_ _ : str) : FixLoop.fix_result := FNone.

Example c12_ex_loop :
  loop toy_lint toy_oracle false (fun p => p) 0 3 [(lit "p.rego", lit "x = 1"); (lit "q.rego", lit "y := 2")] false
  = Done [(lit "p.rego", lit "x := 1"); (lit "q.rego", lit "y := 2")] false.
Proof. vm_compute. reflexivity. Qed.

Example c12_ex_pinned : P_head ++ EQ :: P_tail = lit "f(""a=b"") = 1"
  /\ iter_round 3 (lit "f(""a=b"") = 1") = Some (lit "f(""a:::=b"") = 1").
Proof. vm_compute. split; reflexivity. Qed.

Example c12_ex_measures :
  lone_cnt NL (lit "f(""a=b"") = 1") = 2 /\ tight_hash_count (lit "##x # ok") = 2 /\ count_byte DQ (lit "m(""a"")") = 2.
Proof. vm_compute. repeat split. Qed.

(* the hypothesis of c12_text_rules_terminate is met by the toy linter (and so by every linter that only
   reports use-assignment-operator violations, whatever their columns) *)
Example c12_ex_good_viol : forall files vs, toy_lint files = Some vs -> Forall (good_viol files) vs.
Proof.
  intros files vs H. injection H as <-. apply Forall_forall. intros v Hin.
  apply in_flat_map in Hin. destruct Hin as (pc & _ & Hv).
  destruct (lone_eq (snd pc) 2); [|destruct Hv].
  destruct Hv as [<-|[]]. split; [reflexivity|]. intros Hr. discriminate Hr.
Qed.

(* ---- non-vacuity of the rename theorems: three files that all belong at /ws/foo/p.rego (seed C12-3's
        demonstration).  A toy linter reports every file outside /ws/foo, the moving fix asks for
        /ws/foo/<base>; in rename mode the loop ends with p.rego, p_1.rego, p_2.rego ---- *)
Definition in_foo (p : str) : bool := has_prefix p (lit "/ws/foo/").
Definition mv_lint (files : fs) : option (list violation) :=
  Some (flat_map (fun pc : str * str =>
                    if in_foo (fst pc) then []
                    else [{| v_rule := RDpm; v_file := fst pc; v_loc := {| l_row := 1; l_col := 9 |} |}]) files).
Definition mv_oracle (r : rule) (file _ : str) : FixLoop.fix_result :=
  match r with RDpm => FRename (lit "/ws/foo/" ++ path_base file) | _ => FNone end.
Definition three_way : fs :=
  [(lit "/ws/a/p.rego", lit "A"); (lit "/ws/b/p.rego", lit "B"); (lit "/ws/c/p.rego", lit "C")].

Example c12_ex_three_way_collision :
  loop mv_lint mv_oracle true rename_candidate 4 5 three_way false
  = Done [(lit "/ws/foo/p.rego", lit "A"); (lit "/ws/foo/p_1.rego", lit "B"); (lit "/ws/foo/p_2.rego", lit "C")] false
  /\ loop mv_lint mv_oracle false rename_candidate 4 5 three_way false
  = Done [(lit "/ws/foo/p.rego", lit "A")] true
  (* a candidate loop with too little fuel is reported as such, not as a result *)
  /\ loop mv_lint mv_oracle true rename_candidate 2 5 three_way false = OutOfFuel.
Proof. vm_compute. repeat split. Qed.

(* the hypotheses of c12_rename_mode_terminates_real_candidate and of c12_loop_terminates (no repetition)
   are met by the target of the example *)
Example c12_ex_clean_target :
  clean_file (lit "/ws/foo/p.rego") [lit "ws"; lit "foo"] (lit "p.rego")
  /\ Rename.cand_iter 2 (lit "/ws/foo/p_test.rego") = lit "/ws/foo/p_2_test.rego".
Proof.
  split; [|vm_compute; reflexivity].
  split; [reflexivity|]. split; repeat constructor; try discriminate; vm_compute; intuition discriminate.
Qed.

(* directory-package-mismatch: both computations on the package paths of seed C12-4 *)
Example c12_ex_dpm :
  fix_dirs true [lit "authz_test"; lit "helpers"] = Some [lit "authz_test"; lit "helpers"]
  /\ rule_pkg_values true [lit "authz_test"; lit "helpers"] = Some [lit "authz_test"; lit "helpers"]
  /\ fix_dirs true [lit "authz"; lit "policy_test"] = Some [lit "authz"; lit "policy"]
  /\ fix_dirs false [lit "authz"; lit "policy_test"] = Some [lit "authz"; lit "policy_test"]
  /\ fix_dirs true [lit "p"; lit "my-pkg_test"] = Some [lit "p"; lit "my-pkg"]
  /\ fix_dirs true [lit "p"; lit "_test"] = Some [lit "p"]
  /\ rule_pkg_values true [lit "p"; lit "_test"] = Some [lit "p"]
  /\ fix_dirs true [lit "p"; lit "a.b"] = None
  /\ rule_reports true [lit "authz"; lit "policy_test"] (file_dirs (lit "/ws/authz/policy/x_test.rego")) = false
  /\ rule_reports true [lit "authz"; lit "policy_test"] (file_dirs (lit "/ws/authz/policy_test/x_test.rego")) = true.
Proof. vm_compute. repeat split. Qed.
