(* C01 — the lint verdict is a pure function of its inputs: it does not depend on goroutine
   scheduling, on the order of the path arguments, or on repetition.
   Only statements here; proofs live in Proofs/SchedLTS.v, Proofs/Sched.v, Proofs/InputPaths.v,
   Proofs/LinterShape.v.

   Model (Model/Sched.v, Model/Shape.v).  One worker per file runs the abstract program [prog]
   (statements SLock / SUnlock / SWrite loc / SRead loc / SLocal) obtained from the goroutine
   body of lintWithRegoRules; [complete upd put prog n res s0 sched st] says that running the n
   workers from shared state s0 under the schedule [sched] (the list of worker ids in the order
   they take steps; a shared write is a load step and a later store step; one global lock)
   reaches [st] with every worker finished; [sh st] is the shared report then.  [merge] is what
   one worker does under the mutex (violations and notices appended, aggregates merged per rule
   key with the empty-marker rule, ignore directives assigned per file); [finalize] is Lint's
   post-processing (notice de-duplication with the rules_skipped counter, aggregate phase - with
   the aggregates [overridden] of WithAggregates and the directives [prior] of
   WithIgnoreDirectives when provided -, summary, exported aggregates and directives).  Rule evaluation is an oracle: [res file collect] is what the lint query yields for
   one file, [aggreport aggregates directives] what the aggregate phase yields.
   [all_shared_writes_locked] is the decidable condition "exactly one critical section, and every
   shared write and every read of a written location is inside it". *)
From Coq Require Import List Permutation.
From Regal Require Import Model.Sched Model.BaseCache Proofs.Sched Proofs.InputPaths Proofs.LinterShape
  Proofs.BaseCache Model.SchedVariants Proofs.SchedVariants.
Import ListNotations.
Local Open Scope nat_scope.

(* Every complete execution, under any scheduler, of any worker program that keeps its shared
   accesses inside the critical section ends in the SEQUENTIAL fold of merge over the per-file
   results, taken in some order (the order of lock acquisition). *)
Theorem c01_lts_complete_is_fold :
  forall (prog : list (stmt lloc)) (rs : list result) (sched : list nat) (st : state lloc report),
  all_shared_writes_locked lloc_eqb prog = true ->
  modelled_writes prog = [LViol; LNotice; LAggs; LDirs] ->
  complete lupd lput prog (length rs) (fun i => nth i rs empty_result) empty_report sched st ->
  exists pi, Permutation pi rs /\ sh st = fold_left merge pi empty_report.
Proof. exact lts_complete_is_fold. Qed.
Print Assumptions c01_lts_complete_is_fold.

(* The goroutine bodies of the tree of THIS run (Gen/LinterShape.v, extracted by
   harness/cmd/goshape) satisfy the side conditions: removing the mutex, narrowing it, or moving a
   shared write out of the critical section breaks this theorem on the next run. *)
Theorem c01_shapes_of_this_tree_are_locked :
  (Gen.LinterShape.lint_worker_found = true /\
   all_shared_writes_locked lloc_eqb lint_prog = true /\
   modelled_writes lint_prog = [LViol; LNotice; LAggs; LDirs]) /\
  (Gen.LinterShape.input_worker_found = true /\
   all_shared_writes_locked iloc_eqb input_prog = true /\
   cs_writes input_prog = [IErrors; IFiles]) /\
  (* internal/cache: Get and Put touch the trie only inside their (R)Lock ... (R)Unlock *)
  (Gen.LinterShape.cache_get_found = true /\ cache_method_locked cache_get_prog = true /\
   Gen.LinterShape.cache_put_found = true /\ cache_method_locked cache_put_prog = true).
Proof. exact (conj lint_shape_ok (conj input_shape_ok cache_shapes_ok)). Qed.
Print Assumptions c01_shapes_of_this_tree_are_locked.

(* Merging the same per-file results in another order gives the same violations and notices as
   multisets, the same aggregates per rule key as multisets (same key set, empty-marker keys
   included), and - when no two results carry directives for the same file - the same ignore
   directives. *)
Theorem c01_merge_perm_equiv :
  forall (rs1 rs2 : list result) (s : report),
  Permutation rs1 rs2 ->
  let x := fold_left merge rs1 s in
  let y := fold_left merge rs2 s in
  Permutation (V x) (V y) /\ Permutation (Nn x) (Nn y) /\ aggs_equiv (A x) (A y) /\
  (NoDup (dir_keys rs1) -> dirs_equiv (D x) (D y)).
Proof. exact merge_perm_equiv. Qed.
Print Assumptions c01_merge_perm_equiv.

(* Lint's post-processing maps equivalent shared reports to equivalent final reports, provided the
   aggregate phase reads the aggregates of a rule as a set (H_aggperm, validated by the harness
   by shuffling). *)
Theorem c01_finalize_equiv :
  forall (aggreport : amap -> dmap -> list viol),
  (forall a1 a2 d1 d2, aggs_equiv a1 a2 -> dirs_equiv d1 d2 ->
                       Permutation (aggreport a1 d1) (aggreport a2 d2)) ->
  forall (overridden : option amap) (prior : dmap) (n : nat) (s1 s2 : report),
  Permutation (V s1) (V s2) -> Permutation (Nn s1) (Nn s2) ->
  aggs_equiv (A s1) (A s2) -> dirs_equiv (D s1) (D s2) ->
  report_equiv (finalize aggreport overridden prior n s1) (finalize aggreport overridden prior n s2).
Proof. exact finalize_equiv. Qed.
Print Assumptions c01_finalize_equiv.

(* The property theorem: for every locked worker program, every rule oracle, every pair of
   permuted file-name lists and every pair of complete schedules, the two final reports have
   the same violations (per-file and aggregate) and notices as multisets, the same four summary
   counts and the same exported aggregates and ignore directives. *)
Theorem c01_lint_schedule_independent :
  forall (aggreport : amap -> dmap -> list viol),
  (forall a1 a2 d1 d2, aggs_equiv a1 a2 -> dirs_equiv d1 d2 ->
                       Permutation (aggreport a1 d1) (aggreport a2 d2)) ->
  forall (prog : list (stmt lloc)),
  all_shared_writes_locked lloc_eqb prog = true ->
  modelled_writes prog = [LViol; LNotice; LAggs; LDirs] ->
  forall (res : str -> bool -> result) (overridden : option amap) (prior : dmap) (force : bool)
         (names1 names2 : list str),
  Permutation names1 names2 ->
  let rs1 := map (fun f => res f (collect_flag force (length names1))) names1 in
  let rs2 := map (fun f => res f (collect_flag force (length names2))) names2 in
  NoDup (dir_keys rs1) ->
  forall (sched1 sched2 : list nat) (st1 st2 : state lloc report),
  complete lupd lput prog (length rs1) (fun i => nth i rs1 empty_result) empty_report sched1 st1 ->
  complete lupd lput prog (length rs2) (fun i => nth i rs2 empty_result) empty_report sched2 st2 ->
  report_equiv (finalize aggreport overridden prior (length names1) (sh st1))
               (finalize aggreport overridden prior (length names2) (sh st2)).
Proof. exact lint_schedule_independent. Qed.
Print Assumptions c01_lint_schedule_independent.

(* InputFromPaths + NewInput: the FileNames handed to the linter (or the error) depend only on
   the SET of path arguments: permutations and duplicates are irrelevant ... *)
Theorem c01_input_paths_perm :
  forall (parse : str -> parsed) (l1 l2 : list str),
  (forall p, In p l1 <-> In p l2) -> input_from_paths parse l1 = input_from_paths parse l2.
Proof. exact input_paths_same_set. Qed.
Print Assumptions c01_input_paths_perm.

(* ... and so is the order in which the parser goroutines take the mutex. *)
Theorem c01_input_schedule_independent :
  forall (prog : list (stmt iloc)),
  all_shared_writes_locked iloc_eqb prog = true ->
  cs_writes prog = [IErrors; IFiles] ->
  forall (parse : str -> parsed) (paths1 paths2 : list str),
  (forall p, In p paths1 <-> In p paths2) ->
  forall (sched1 sched2 : list nat) (st1 st2 : state iloc inputs),
  complete iupd iput prog (length (map parse paths1)) (fun i => nth i (map parse paths1) PErr)
           empty_inputs sched1 st1 ->
  complete iupd iput prog (length (map parse paths2)) (fun i => nth i (map parse paths2) PErr)
           empty_inputs sched2 st2 ->
  new_input (sh st1) = new_input (sh st2) /\ new_input (sh st1) = input_from_paths parse paths1.
Proof. exact input_schedule_independent. Qed.
Print Assumptions c01_input_schedule_independent.

(* The order of the PATH ARGUMENTS (directories and files; Model/Discover.v of C02 is config.walkPaths +
   filepath.WalkDir + the filter on a file tree, [lint_tree] the run from the arguments to the report):
   the whole run -- which files are found, FileNames, the report, or the error -- is a function of the
   SET of arguments; their order and repetitions are irrelevant. *)
Theorem c01_argument_order_independent :
  forall (skips : list str) (ext : str) (excl : str -> str -> bool) (parses : str -> bool)
         (res : str -> bool -> result) (aggreport : amap -> dmap -> list viol)
         (root : node) (args1 args2 ignore : list str),
  (forall a, In a args1 <-> In a args2) ->
  lint_tree skips ext excl parses res aggreport root args1 ignore
  = lint_tree skips ext excl parses res aggreport root args2 ignore.
Proof. exact lint_tree_argument_set. Qed.
Print Assumptions c01_argument_order_independent.

(* ... which fails for an argument loop that skips an argument whose cleaned spelling has an EARLIER
   argument as a string prefix (NOT the code; class of seeded change C01-4): in the tree with authz/m.rego
   and authz-extra/e.rego, `authz authz-extra` finds one file and `authz-extra authz` both *)
Theorem c01_argument_order_prefix_skip_refuted :
  exists root a b f fs1 fs2,
    walk_args_skip spec_skips spec_ext root [] [a; b] = DOk fs1
    /\ walk_args_skip spec_skips spec_ext root [] [b; a] = DOk fs2
    /\ In f fs2 /\ ~ In f fs1
    /\ (forall g, In g fs2 <-> exists fs, walk_args spec_skips spec_ext root [a; b] = DOk fs /\ In g fs).
Proof. exact walk_args_skip_order_dependent. Qed.
Print Assumptions c01_argument_order_prefix_skip_refuted.

(* [c01_merge_perm_equiv] needs the notices of EVERY worker: a merge that keeps the first non-empty
   notice set (NOT the code; class of seeded change C01-3) gives rules_skipped 2 or 1 for the same two
   files depending on who takes the mutex first, where [merge] gives 2 either way *)
Theorem c01_first_notice_set_refuted :
  exists r1 r2,
    f_skipped (finalize (fun _ _ => []) None [] 2 (fold_left merge_first_notices [r1; r2] empty_report)) = 2
    /\ f_skipped (finalize (fun _ _ => []) None [] 2 (fold_left merge_first_notices [r2; r1] empty_report)) = 1
    /\ f_skipped (lint_seq (fun _ _ => []) None [] [r1; r2]) = 2
    /\ f_skipped (lint_seq (fun _ _ => []) None [] [r2; r1]) = 2.
Proof. exact merge_first_notices_order_dependent. Qed.
Print Assumptions c01_first_notice_set_refuted.

(* The process-wide base-document cache (internal/cache, Model/BaseCache.v; used when the language
   server passes WithBaseCache): in any history of Puts that store the document's own
   sub-documents and Gets - the cache's RWMutex makes every concurrent history such a sequence -
   a Get answers nothing or exactly the document's value at the reference, whatever was put,
   overwritten or dropped before.  So a shared cache cannot make one evaluation differ from
   another. *)
Theorem c01_basecache_coherent :
  forall (doc : val) (ops : list op) (t : trie), coherent doc t ->
  Forall2 (fun o a => match o, a with
                      | OGet ref, Some r => vfind doc ref = Some r
                      | _, _ => True
                      end)
          (filter (fun o => match o with OGet _ => true | OPut _ => false end) ops)
          (replay doc t ops).
Proof. exact basecache_coherent. Qed.
Print Assumptions c01_basecache_coherent.

Example c01_basecache_nonvacuous :
  coherent (VObj [(1, VLeaf 7)]%N) empty_trie /\
  replay (VObj [(1, VObj [(2, VLeaf 7); (3, VObj [(4, VLeaf 9)])])]%N) empty_trie
         [OGet [1;2]; OPut [1;3]; OGet [1;3;4]; OGet [1;2]; OPut [1]; OGet [1;2]; OGet [1;5]]%N =
  [None; Some (VLeaf 9); None; Some (VLeaf 7); None]%N.
Proof. split; [apply coherent_empty | exact basecache_example]. Qed.

(* Non-vacuity: a complete interleaved execution of two workers exists (worker 1 wins the lock),
   and the reference program satisfies the side conditions. *)
Example c01_nonvacuous :
  (exists st, complete lupd lput reference_lint_prog 2 (fun i => nth i [ex_r1; ex_r2] empty_result)
                       empty_report ex_sched st /\
              acq st = [1; 0] /\ sh st = fold_left merge [ex_r2; ex_r1] empty_report) /\
  (all_shared_writes_locked lloc_eqb reference_lint_prog = true /\
   modelled_writes reference_lint_prog = [LViol; LNotice; LAggs; LDirs]).
Proof. exact (conj lint_run_exists reference_prog_ok). Qed.

(* H_aggperm can be met by an oracle that does look at its arguments. *)
Example c01_aggperm_satisfiable :
  (forall a1 a2 d1 d2, aggs_equiv a1 a2 -> dirs_equiv d1 d2 ->
                       Permutation (ex_aggreport a1 d1) (ex_aggreport a2 d2)) /\
  ex_aggreport [] [] <> ex_aggreport [([107%N], [])] [].
Proof. exact aggperm_satisfiable. Qed.

(* The side condition is not decoration: without the mutex a complete execution loses an update. *)
Example c01_unlocked_write_loses_update :
  exists sched st,
    complete lupd lput [SWrite LViol] 2 (fun i => nth i [ex_r1; ex_r2] empty_result) empty_report sched st /\
    length (V (sh st)) = 1 /\
    length (V (fold_left merge [ex_r1; ex_r2] empty_report)) = 2.
Proof. exact unlocked_write_loses_update. Qed.

(* The NoDup hypothesis on directive keys is needed: last writer wins. *)
Example c01_dirs_need_distinct_names :
  exists r1 r2, ~ dirs_equiv (D (fold_left merge [r1; r2] empty_report))
                             (D (fold_left merge [r2; r1] empty_report)).
Proof. exact dirs_need_distinct_names. Qed.

(* ---- round 3: the Go map of directory -> Rego version (Model/Version.v of C20: rules.RegoVersionFromVersionsMap
   as a fold over the entries in the order the [range] happens to visit them) ----------------------------------- *)
From Regal Require Import Model.VersionOrder Proofs.VersionOrder.

(* Whatever order the map is ranged over in, the same version is selected for a file -- provided that no two
   keys that match the file's directory and have the same RAW length carry different versions
   ([ties_agree]: forall k1 v1 k2 v2, In (k1,v1) m -> In (k2,v2) m -> both match -> length k1 = length k2 -> v1 = v2).
   Keys need not be clean or distinct as directories: "legacy" (from a .manifest) and "legacy/" (a project root)
   are fine, the longer spelling wins in every order. *)
Theorem c01_version_lookup_order_independent :
  forall (m m' : vmap) (filename : str) (default : version),
  Permutation m m' -> ties_agree (dir filename) m ->
  version_from_map m filename default = version_from_map m' filename default.
Proof. exact version_lookup_order_independent. Qed.
Print Assumptions c01_version_lookup_order_independent.

(* ... the proviso cannot be dropped: the keys "legacy/" (v0) and "/legacy" (v1) -- two project roots of equal
   length naming one directory with contradicting versions -- are decided by the iteration order, in the code as it is
   (observed on the real function too, see notes/C01.md; the check's workspaces keep [ties_agree]) *)
Theorem c01_version_lookup_equal_length_tie_refuted :
  exists m m' f, Permutation m m' /\ NoDup (map fst m) /\
    version_from_map m f VUndef <> version_from_map m' f VUndef.
Proof. exact version_equal_length_tie_refuted. Qed.
Print Assumptions c01_version_lookup_equal_length_tie_refuted.

(* ... and comparing the length of the NORMALISED key instead (NOT the code; class of seeded change C01-6) loses the
   property on a map that satisfies the proviso: {"legacy" -> v1, "legacy/" -> v0} gives v0 or v1 depending on the
   order, where the code gives v0 in both *)
Theorem c01_version_lookup_normalised_length_refuted :
  exists m m' f, Permutation m m' /\ NoDup (map fst m) /\ ties_agree (dir f) m /\
    version_from_map_norm m f VUndef <> version_from_map_norm m' f VUndef /\
    version_from_map m f VUndef = version_from_map m' f VUndef.
Proof. exact version_normalised_length_refuted. Qed.
Print Assumptions c01_version_lookup_normalised_length_refuted.

Example c01_ties_agree_nonvacuous :
  ties_agree (dir f_legacy_p) [(s_legacy, V1); ((s_legacy ++ [47])%N, V0)] /\
  version_from_map [(s_legacy, V1); ((s_legacy ++ [47])%N, V0)] f_legacy_p VUndef = V0.
Proof. exact ties_agree_nonvacuous. Qed.
