(* C02 — no file is silently skipped; per-file verdicts compose.
   Only statements here; proofs live in Proofs/Discover.v (and Proofs/InputPaths.v, Proofs/Sched.v).

   Model (Model/Discover.v).  The file system under the working directory is a tree
   [node := File | Dir (list (name * node))], entries in os.ReadDir order; /R spells the working
   directory's absolute path.  [resolve root arg] is os.Stat of an argument (RNode n, RMissing, or
   ROutside when the argument leaves the modelled tree); [walk skips ext path name n] is
   filepath.WalkDir with the callback of config.FilterIgnoredPaths (skip-directory names [skips],
   suffix [ext]; the root is tested under the base name of the argument AS SPELLED); [reach] is the
   same as a relation; [discover] = walk every argument, fail if one is missing, then filterPaths
   with the glob oracle [excl pattern file]; [lint_tree] continues with rules.InputFromPaths
   (cleaned names, parse oracle [parses]) and the sequential lint of Model/Sched.v. *)
From Coq Require Import List Permutation.
From Regal Require Import Model.Discover Model.Router Proofs.Sched Proofs.InputPaths Proofs.Discover Proofs.Router Gen.WalkConsts.
Import ListNotations.
Local Open Scope nat_scope.

(* A file is discovered iff some argument resolves to a node from which it is reachable through
   directories none of which (the argument itself included) has a skipped name, its path ends in
   the suffix, and no non-empty ignore pattern excludes it.  Nothing else is dropped. *)
Theorem c02_discover_exact :
  forall (skips : list str) (ext : str) (excl : str -> str -> bool)
         (root : node) (args ignore files : list str),
  discover skips ext excl root args ignore = DOk files ->
  forall f, In f files <->
    exists a n, In a args /\ resolve root a = RNode n /\ reach skips ext n a (os_basename a) f /\
                (forall p, In p ignore -> p <> [] -> excl p f = false).
Proof. exact discover_exact. Qed.
Print Assumptions c02_discover_exact.

(* a missing argument fails the run instead of being dropped *)
Theorem c02_missing_argument_fails :
  forall skips ext excl root args ignore,
  discover skips ext excl root args ignore = DErr -> exists a, In a args /\ resolve root a = RMissing.
Proof. exact discover_error. Qed.
Print Assumptions c02_missing_argument_fails.

(* files_scanned = the number of distinct (cleaned) discovered files, all of which parsed;
   the FileNames are exactly those files *)
Theorem c02_files_scanned_eq :
  forall skips ext excl parses res aggreport root args ignore names fin,
  lint_tree skips ext excl parses res aggreport root args ignore = LOk names fin ->
  exists files, discover skips ext excl root args ignore = DOk files /\
    (forall p, In p files -> parses (clean p) = true) /\
    (forall x, In x names <-> In x (map clean files)) /\
    f_scanned fin = length (nodup str_dec (map clean files)).
Proof. exact files_scanned_eq. Qed.
Print Assumptions c02_files_scanned_eq.

(* ... "or the run fails" *)
Theorem c02_unparseable_file_fails_run :
  forall skips ext excl parses res aggreport root args ignore files p,
  discover skips ext excl root args ignore = DOk files -> In p files -> parses (clean p) = false ->
  lint_tree skips ext excl parses res aggreport root args ignore = LErr.
Proof. exact unparseable_file_fails_run. Qed.
Print Assumptions c02_unparseable_file_fails_run.

(* the summary is what the violation and notice lists contain *)
Theorem c02_summary_consistent :
  forall aggreport overridden prior n s,
  let fin := finalize aggreport overridden prior n s in
  f_num fin = length (f_viol fin ++ f_aggviol fin) /\
  f_failed fin = length (nodup str_dec (map v_file (f_viol fin ++ f_aggviol fin))) /\
  f_scanned fin = n /\
  f_skipped fin = length (filter counted (f_notices fin)) /\
  NoDup (f_notices fin) /\ (forall x, In x (f_notices fin) <-> In x (Nn s)).
Proof. exact summary_consistent. Qed.
Print Assumptions c02_summary_consistent.

(* The router for bundled rules (Model/Router.v; bundle/regal/main/main.rego) asks every rule of
   [rules f] for its [report] against the same input document, so a rule body can read
   input.regal.operations: [body r f b] is the report of rule r for file f when "collect" is (b = true)
   or is not (b = false) among the operations; [router_report] concatenates the bodies minus the
   findings silenced by ignore directives, [router_res] is the result of the lint query.

   In a run over [names], whatever the order in which the per-file results were merged, the
   per-file (non-aggregate) violations located in f are those of the run over f alone - provided
     H_ops: for EVERY rule the router runs, the findings for a file are the same multiset with and
            without the "collect" operation, and
     H_loc: every rule reports locations in the file it was given.
   Both hypotheses are tested, not proved: H_ops rule by rule, with the lint query evaluated twice
   on every file of the composition workspaces (Check/C02Check.v [hops_row]; the rules that define
   both [report] and [aggregate] are listed in the evidence of the run and each must have been
   triggered), and end to end by the batch-vs-single comparison of real Linter.Lint runs. *)
Theorem c02_single_file_compose :
  forall (rules : str -> list str) (body : str -> str -> bool -> list viol)
         (ignored : str -> viol -> bool) (rest : str -> bool -> result)
         (aggreport : amap -> dmap -> list viol),
  (forall f r, In r (rules f) -> Permutation (body r f true) (body r f false)) ->
  (forall f r b v, In r (rules f) -> In v (body r f b) -> v_file v = f) ->
  let res := router_res rules body ignored rest in
  forall (names : list str) (f : str) (merged : list result),
  NoDup names -> In f names ->
  Permutation merged (map (fun g => res g (collect_flag false (length names))) names) ->
  Permutation
    (filter (of_file f) (f_viol (finalize aggreport None [] (length names) (fold_left merge merged empty_report))))
    (f_viol (lint_names res aggreport [f])).
Proof. exact router_single_file_compose. Qed.
Print Assumptions c02_single_file_compose.

(* the same for an arbitrary rule oracle (no router): the lint query of a file yields the same
   per-file violations with and without "collect", located in the file *)
Theorem c02_single_file_compose_abstract :
  forall (res : str -> bool -> result) (aggreport : amap -> dmap -> list viol),
  (forall f b, r_viol (res f b) = r_viol (res f false)) ->
  (forall f b v, In v (r_viol (res f b)) -> v_file v = f) ->
  forall (names : list str) (f : str) (merged : list result),
  NoDup names -> In f names ->
  Permutation merged (map (fun g => res g (collect_flag false (length names))) names) ->
  Permutation
    (filter (of_file f) (f_viol (finalize aggreport None [] (length names) (fold_left merge merged empty_report))))
    (f_viol (lint_names res aggreport [f])).
Proof. exact single_file_compose. Qed.
Print Assumptions c02_single_file_compose_abstract.

(* H_ops cannot be dropped: with a router that does not ask rules that also define [aggregate]
   for their report while collecting ([skip_when_collecting]), H_loc still holds, H_ops fails for
   that rule, and the finding of file "a" in the run over "a","b" is not the one of "a" alone. *)
Theorem c02_compose_needs_ops_independence :
  let res := router_res (fun _ => [ex_rule]) ex_skip_body (fun _ _ => false) ex_rest in
  (forall f r b v, In r [ex_rule] -> In v (ex_skip_body r f b) -> v_file v = f) /\
  ~ Permutation (ex_skip_body ex_rule ex_f1 true) (ex_skip_body ex_rule ex_f1 false) /\
  NoDup [ex_f1; ex_f2] /\
  ~ Permutation
      (filter (of_file ex_f1) (f_viol (lint_names res (fun _ _ => []) [ex_f1; ex_f2])))
      (f_viol (lint_names res (fun _ _ => []) [ex_f1])).
Proof. exact compose_needs_ops_independence. Qed.
Print Assumptions c02_compose_needs_ops_independence.

(* The constants and guards of the walk in the tree of THIS run are the documented ones:
   adding a skipped directory name or changing the suffix breaks this on the next run. *)
Theorem c02_walk_constants_of_this_tree :
  gen_skip_found = true /\ gen_skip_requires_dir = true /\ gen_filter_calls_skip = true /\
  gen_suffix_found = true /\ gen_suffix_requires_not_dir = true /\
  gen_skip_names = spec_skips /\ gen_suffix = spec_ext.
Proof. exact walk_constants_ok. Qed.
Print Assumptions c02_walk_constants_of_this_tree.

(* Non-vacuity: a tree with a .git directory, a nested directory given twice (as part of "t" and
   as "t/a/"), and a non-.rego file. *)
Example c02_nonvacuous :
  discover spec_skips spec_ext (fun _ _ => false) ex_tree [s_ [116]; s_ [116;47;97;47]] [] =
  DOk [s_ [116;47;97;47;112;46;114;101;103;111]; s_ [116;47;114;46;114;101;103;111];
       s_ [116;47;97;47;112;46;114;101;103;111]].
Proof. exact discover_example. Qed.

(* a whole run on that tree: three discovered paths, two distinct files scanned, one violation
   each plus one aggregate violation without a location (which counts as a "file") *)
Example c02_lint_tree_nonvacuous :
  exists fin,
    lint_tree spec_skips spec_ext (fun _ _ => false) (fun _ => true) ex_res ex_aggreport
              ex_tree [s_ [116]; s_ [116;47;97;47]] [] =
    LOk [s_ [116;47;97;47;112;46;114;101;103;111]; s_ [116;47;114;46;114;101;103;111]] fin /\
    f_scanned fin = 2 /\ f_num fin = 3 /\ f_failed fin = 3.
Proof. exact lint_tree_example. Qed.

(* H_ops and H_loc of c02_single_file_compose are satisfiable by a router that reports something *)
Example c02_router_hypotheses_satisfiable :
  (forall f r, In r [ex_rule] -> Permutation (ex_body r f true) (ex_body r f false)) /\
  (forall f r b v, In r [ex_rule] -> In v (ex_body r f b) -> v_file v = f) /\
  router_report (fun _ => [ex_rule]) ex_body (fun _ _ => false) ex_f1 true = [{| v_file := ex_f1; v_key := ex_rule |}].
Proof. exact router_hypotheses_satisfiable. Qed.

(* H_ops and H_loc of the abstract form are satisfiable *)
Example c02_compose_hypotheses_satisfiable :
  (forall f b, r_viol (ex_res f b) = r_viol (ex_res f false)) /\
  (forall f b v, In v (r_viol (ex_res f b)) -> v_file v = f).
Proof. exact compose_hypotheses_satisfiable. Qed.
