(* C07 — reported locations are inside the file and move with the code  (PARTIAL claim).

   What is proved here is the framework layer every violation's location passes through
   (Model/Location.v): bundle/regal/util/util.rego to_location_object / _location_to_text / _cut_col,
   bundle/regal/result/result.rego _with_text / location / ranged_location_between / ranged_from_ref /
   infix_expr_location, the line table built in Go (CRLF normalised, split on LF), and
   internal/lsp getRangeForViolation.  NOT proved: that each of the ~90 Rego rules reports only nodes /
   ranges obtained through these helpers with ordered arguments, and that OPA's parser locations are
   shift-equivariant — that remainder is exercised by corpus runs (tools/props/c07.py), which is testing.

   Notation of the model: [lines] is input.regal.file.lines, [f] input.regal.file.name, a [quad] is
   (row, col, end_row, end_col) of a RoAST location string "r:c:er:ec" ([parse_loc]); [arg] is the argument
   of result.location (the string itself, a node with .location, an array of nodes); [locobj] the produced
   location object; [inside lines f start stop L] says: L names file f, starts at [start] on a row of the
   table, carries exactly that row's line as text, ends at [stop], and stop >= start. *)
From Coq Require Import List ZArith.
From Regal Require Import Base.Str Model.Location Proofs.Location.
Import ListNotations.
Local Open Scope Z_scope.

(* ---- inside the file ------------------------------------------------------------------------------- *)

(* result.location on a well-formed AST location yields that position, inside the file, with the text of
   the row, and an end that is not before the start. *)
Theorem c07_location_in_file :
  forall (lines : list str) (f : str) (x : arg) (s : str) (r c er ec : Z),
  arg_string x = Some s -> parse_loc s = Some (r, c, er, ec) -> wf_quad lines (r, c, er, ec) ->
  exists L, location lines f x = Some L /\ inside lines f (r, c) (er, ec) L.
Proof. exact location_in_file. Qed.
Print Assumptions c07_location_in_file.

(* result.ranged_location_between(x, y): starts where x starts, ends where y ends; inside the file
   whenever x's start is not after y's end. *)
Theorem c07_ranged_location_between_in_file :
  forall lines f x y sx sy r c er ec r2 c2 er2 ec2,
  arg_string x = Some sx -> parse_loc sx = Some (r, c, er, ec) -> wf_quad lines (r, c, er, ec) ->
  arg_string y = Some sy -> parse_loc sy = Some (r2, c2, er2, ec2) -> wf_quad lines (r2, c2, er2, ec2) ->
  pos_le (r, c) (er2, ec2) ->
  exists L, ranged_location_between lines f x y = Some L /\ inside lines f (r, c) (er2, ec2) L.
Proof. exact ranged_location_between_in_file. Qed.
Print Assumptions c07_ranged_location_between_in_file.

(* result.ranged_from_ref(ref): from the first term's start to the last term's end. *)
Theorem c07_ranged_from_ref_in_file :
  forall lines f ref x y sx sy r c er ec r2 c2 er2 ec2,
  nth_error ref 0 = Some x -> last_opt ref = Some y ->
  arg_string x = Some sx -> parse_loc sx = Some (r, c, er, ec) -> wf_quad lines (r, c, er, ec) ->
  arg_string y = Some sy -> parse_loc sy = Some (r2, c2, er2, ec2) -> wf_quad lines (r2, c2, er2, ec2) ->
  pos_le (r, c) (er2, ec2) ->
  exists L, ranged_from_ref lines f ref = Some L /\ inside lines f (r, c) (er2, ec2) L.
Proof. exact ranged_from_ref_in_file. Qed.
Print Assumptions c07_ranged_from_ref_in_file.

(* result.infix_expr_location(expr): from the start of expr[1] to the end of the last term. *)
Theorem c07_infix_expr_location_in_file :
  forall lines f expr s1 s2 r1 c1 er1 ec1 r2 c2 er2 ec2,
  nth_error expr 1 = Some (LStr s1) -> last_opt expr = Some (LStr s2) ->
  parse_loc s1 = Some (r1, c1, er1, ec1) -> parse_loc s2 = Some (r2, c2, er2, ec2) ->
  1 <= r1 <= Z.of_nat (length lines) -> 1 <= c1 -> pos_le (r1, c1) (er2, ec2) ->
  exists L, infix_expr_location lines f expr = Some L /\ inside lines f (r1, c1) (er2, ec2) L.
Proof. exact infix_expr_location_in_file. Qed.
Print Assumptions c07_infix_expr_location_in_file.

(* ---- moves with the code ---------------------------------------------------------------------------- *)

(* Prefixing k empty lines to the line table and adding k to every AST row ([shifted_arg]: rows >= 1, same
   columns; non-locations stay non-locations) adds k to the produced row and end row and changes nothing
   else — defined/undefined included.  For every k, not only 1, 3, 10, 100. *)
Theorem c07_shift_equivariant_location :
  forall (lines : list str) (k : nat) (f : str) (x x' : arg),
  shifted_arg (Z.of_nat k) x x' ->
  location (blank k ++ lines) f x' = option_map (shift_obj (Z.of_nat k)) (location lines f x).
Proof. exact location_shift. Qed.
Print Assumptions c07_shift_equivariant_location.

Theorem c07_shift_equivariant_ranged_between :
  forall lines (k : nat) f x x' y y',
  shifted_arg (Z.of_nat k) x x' -> shifted_arg (Z.of_nat k) y y' ->
  ranged_location_between (blank k ++ lines) f x' y' =
  option_map (shift_obj (Z.of_nat k)) (ranged_location_between lines f x y).
Proof. exact ranged_location_between_shift. Qed.
Print Assumptions c07_shift_equivariant_ranged_between.

Theorem c07_shift_equivariant_ranged_from_ref :
  forall lines (k : nat) f ref ref',
  Forall2 (shifted_arg (Z.of_nat k)) ref ref' ->
  ranged_from_ref (blank k ++ lines) f ref' =
  option_map (shift_obj (Z.of_nat k)) (ranged_from_ref lines f ref).
Proof. exact ranged_from_ref_shift. Qed.
Print Assumptions c07_shift_equivariant_ranged_from_ref.

(* for infix_expr_location the two strings it takes apart must be locations (it re-assembles their parts) *)
Theorem c07_shift_equivariant_infix :
  forall lines (k : nat) f expr expr',
  Forall2 (shifted_val (Z.of_nat k)) expr expr' ->
  (forall s, nth_error expr 1 = Some (LStr s) -> parse_loc s <> None) ->
  (forall s, last_opt expr = Some (LStr s) -> parse_loc s <> None) ->
  infix_expr_location (blank k ++ lines) f expr' =
  option_map (shift_obj (Z.of_nat k)) (infix_expr_location lines f expr).
Proof. exact infix_expr_location_shift. Qed.
Print Assumptions c07_shift_equivariant_infix.

(* k line feeds in front of the file content are k empty lines in front of the line table: the premise of the
   shift theorems is what inserting k blank lines at the top does to input.regal.file.lines *)
Theorem c07_blank_lines_prefix :
  forall (k : nat) (content : str),
  file_lines (repeat LF k ++ content) = blank k ++ file_lines content.
Proof. exact blank_lines_prefix. Qed.
Print Assumptions c07_blank_lines_prefix.

(* ---- CRLF -------------------------------------------------------------------------------------------- *)

(* the line table of a file with CRLF line ends equals that of its LF twin: the lines themselves *)
Theorem c07_crlf_lines :
  forall ls : list str,
  ls <> [] -> (forall l, In l ls -> ~ In CR l /\ ~ In LF l) ->
  file_lines (join [CR; LF] ls) = ls /\ file_lines (join [LF] ls) = ls.
Proof. exact crlf_lines. Qed.
Print Assumptions c07_crlf_lines.

(* ---- LSP ranges --------------------------------------------------------------------------------------- *)

(* getRangeForViolation: start <= end (both are unsigned), for every reported location whose end is not
   before its start and whose start row is a row of a file; violations without position (row 0, no end)
   are covered by the vacuous premise *)
Theorem c07_lsp_range_wf :
  forall l : rloc,
  (forall e, r_end l = Some e -> 1 <= r_row l /\ pos_le (r_row l, r_col l) e) ->
  npos_le (fst (lsp_range l)) (snd (lsp_range l)).
Proof. exact lsp_range_wf. Qed.
Print Assumptions c07_lsp_range_wf.

(* the row premise is needed: clamping to line 0 can reverse an ordered pair that starts above the file *)
Theorem c07_lsp_range_unclamped_refuted :
  exists l, (forall e, r_end l = Some e -> pos_le (r_row l, r_col l) e) /\
            ~ npos_le (fst (lsp_range l)) (snd (lsp_range l)).
Proof. exact lsp_range_unclamped_refuted. Qed.
Print Assumptions c07_lsp_range_unclamped_refuted.

(* ---- non-vacuity ---------------------------------------------------------------------------------------- *)

Definition ex_lines : list str :=
  [[112; 97; 99; 107; 97; 103; 101; 32; 112]; []; [120; 32; 58; 61; 32; 195; 169]]%N.  (* "package p", "", "x := é" *)
Definition ex_file : str := [112; 46; 114; 101; 103; 111]%N.                            (* "p.rego" *)
Definition s_3_6_3_7 : str := [51; 58; 54; 58; 51; 58; 55]%N.                           (* "3:6:3:7"  *)
Definition s_5_6_5_7 : str := [53; 58; 54; 58; 53; 58; 55]%N.                           (* "5:6:5:7"  *)

(* the hypotheses of the in-file theorem hold for a node on row 3, and the model really produces the row's
   text (with its two-byte character) *)
Example c07_nonvacuous_in_file :
  parse_loc s_3_6_3_7 = Some (3, 6, 3, 7) /\ wf_quad ex_lines (3, 6, 3, 7) /\
  location ex_lines ex_file (ANode (LStr s_3_6_3_7)) =
    Some {| lo_row := Some 3; lo_col := Some 6; lo_text := Some [120; 32; 58; 61; 32; 195; 169]%N;
            lo_end := Some (3, 7); lo_file := Some ex_file |}.
Proof.
  split; [reflexivity|]. split; [|reflexivity].
  unfold wf_quad, pos_le; simpl. split; [lia|]. split; [lia|]. right. lia.
Qed.

(* and the shift premise is met by "3:6:3:7" / "5:6:5:7" with k = 2 *)
Example c07_nonvacuous_shift :
  shifted_arg 2 (ANode (LStr s_3_6_3_7)) (ANode (LStr s_5_6_5_7)) /\
  location (blank 2 ++ ex_lines) ex_file (ANode (LStr s_5_6_5_7)) =
    Some {| lo_row := Some 5; lo_col := Some 6; lo_text := Some [120; 32; 58; 61; 32; 195; 169]%N;
            lo_end := Some (5, 7); lo_file := Some ex_file |}.
Proof.
  split; [|reflexivity]. constructor. constructor. unfold shifted_str.
  change (parse_loc s_3_6_3_7) with (Some (3, 6, 3, 7)). split; [lia | reflexivity].
Qed.

Example c07_nonvacuous_crlf :
  file_lines [97; 13; 10; 98; 13; 10]%N = [[97]; [98]; []]%N /\ file_lines [97; 10; 98; 10]%N = [[97]; [98]; []]%N.
Proof. split; reflexivity. Qed.
