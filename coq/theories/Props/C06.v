(* placeholder while the proofs are being written *)
From Regal Require Import Model.Directive.
Theorem c06_placeholder : True. Proof. exact I. Qed.
Print Assumptions c06_placeholder.
