(* C06 — inline ignore directives suppress exactly the named rules, on the same line or the next one.
   Only statements here; proofs live in Proofs/Directive.v.

   Model (Model/Directive.v): [directive_names text] is the body of ast.ignore_directives for one comment
   (trim_space, first "regal ignore:", `\s` removed, split on ","); [directive_entries cs] the map row+1 -> names
   ([ignore_directives] adds the evaluation conflict two different entries for one row would raise);
   [ignored v m] is main._ignored (lookup at the violation's row and row+1, title membership);
   [report_filter] the `not _ignored(...)` filter of the report branches; [stringify]/[keys_to_numbers]/[carry] the
   way the directives of every file reach the aggregate report through Go (JSON object keys are decimal strings);
   [agg_ignored g v] the aggregate branches' lookup by the violation's file; [carry_overridden] Lint with
   WithIgnoreDirectives.  Rule bodies and the parser are oracles: [raw], [comments] below. *)
From Coq Require Import List Permutation NArith.
From Regal Require Import Base.Str Model.Directive Proofs.Directive.
From Regal Require Import Model.AggPipeline Model.AggCache Proofs.AggCache.
Import ListNotations.
Local Open Scope N_scope.

(* ---- which violations are ignored --------------------------------------------------------------- *)

(* For every set of comments that evaluates (no two different directives on one row) and every violation:
   ignored  <->  some comment is a directive naming exactly the violation's title and sits on the violation's
   row or on the row directly above it.  Violations without a location are never ignored. *)
Theorem c06_ignored_iff :
  forall (cs : list comment) (m : dirmap) (v : violation),
  ignore_directives cs = DirOk m ->
  (ignored v m = true <->
   exists c ns r, In c cs /\ directive_names (c_text c) = Some ns /\ In (v_title v) ns /\
                  v_row v = Some r /\ (c_row c = r \/ c_row c + 1 = r)).
Proof. exact ignored_iff_lemma. Qed.
Print Assumptions c06_ignored_iff.

(* the parser yields at most one comment per row: the directives then always evaluate *)
Theorem c06_distinct_rows_evaluate :
  forall cs, NoDup (map c_row cs) -> ignore_directives cs = DirOk (directive_entries cs).
Proof. exact distinct_rows_ok. Qed.
Print Assumptions c06_distinct_rows_evaluate.

(* Names: whatever precedes the marker (anything without ':'), then "regal ignore:", then a comma-separated
   list whose items are names (printable ASCII other than ',') with arbitrary `\s` whitespace on both sides.
   The directive names exactly these names, in order. *)
Theorem c06_names_spelled :
  forall (p : str) (segs ns : list str),
  ~ In COLON p -> segs <> [] -> Forall2 spells segs ns ->
  directive_names (p ++ MARKER ++ join [COMMA] segs) = Some ns.
Proof. exact names_spelled_lemma. Qed.
Print Assumptions c06_names_spelled.

(* a comment that does not contain "regal ignore:" is no directive *)
Theorem c06_not_a_directive :
  forall text, (forall p rest, text <> p ++ MARKER ++ rest) -> directive_names text = None.
Proof. exact not_a_directive. Qed.
Print Assumptions c06_not_a_directive.

(* Exact match: with one such directive comment on row [row], a violation is ignored iff its title IS one of
   the names (byte-for-byte: a prefix of a name, or a name that is a prefix of the title, does not match) and
   it sits on that row or the next one. *)
Theorem c06_only_exact_names_match :
  forall p segs ns row v,
  ~ In COLON p -> segs <> [] -> Forall2 spells segs ns ->
  let c := {| c_row := row; c_text := p ++ MARKER ++ join [COMMA] segs |} in
  ignored v (directive_entries [c]) = true <->
  In (v_title v) ns /\ (v_row v = Some row \/ v_row v = Some (row + 1)).
Proof. exact only_exact_names_match. Qed.
Print Assumptions c06_only_exact_names_match.

(* ---- the filter ---------------------------------------------------------------------------------- *)

(* reported = raw minus exactly the ignored ones: membership, and as multisets *)
Theorem c06_filter_exact :
  forall (raw : list violation) (m : dirmap),
  (forall v, In v (report_filter raw m) <-> In v raw /\ ignored v m = false) /\
  Permutation raw (report_filter raw m ++ filter (fun v => ignored v m) raw).
Proof. intros raw m. split; [intros v; apply filter_exact_in | apply filter_exact_perm]. Qed.
Print Assumptions c06_filter_exact.

(* ---- string keys and back ------------------------------------------------------------------------ *)

(* Go carries the row keys as decimal strings; util.keys_to_numbers restores the very same map *)
Theorem c06_keys_roundtrip : forall m : dirmap, keys_to_numbers (stringify m) = m.
Proof. exact keys_roundtrip_lemma. Qed.
Print Assumptions c06_keys_roundtrip.

(* ---- adding a directive -------------------------------------------------------------------------- *)

(* A new line holding only the comment "#"++d (after any indentation) is inserted so that it becomes row r.
   Hypotheses on the oracles, for this edit: the raw violations and the comments move with the text
   (H_shift, H_shift_comments), at most one comment per row, and no directive sits on row r-1.
   Then the report after the edit is the report before, minus precisely the violations on (old) row r whose
   title is named, with every row >= r moved down by one -- as multisets. *)
Theorem c06_insert_directive_effect :
  forall (raw : list str -> list violation) (comments : list str -> list comment)
         (ls : list str) (r : N) (indent d : str) (ns : list str),
  directive_names d = Some ns ->
  NoDup (map c_row (comments ls)) ->
  let ls' := insert_line r (indent ++ HASH :: d) ls in
  Permutation (raw ls') (map (shift_violation r) (raw ls)) ->
  Permutation (comments ls') (insert_comment_line r d (comments ls)) ->
  (forall c, In c (comments ls) -> c_row c + 1 = r -> directive_names (c_text c) = None) ->
  Permutation (report raw comments ls')
    (map (shift_violation r)
         (filter (fun v => negb (at_row v r && str_in (v_title v) ns)) (report raw comments ls))).
Proof. exact insert_above_effect. Qed.
Print Assumptions c06_insert_directive_effect.

(* consequences for the four placements: directly above row r removes the named violations of row r ... *)
Theorem c06_directive_above_removes :
  forall raw comments ls r indent d ns,
  directive_names d = Some ns -> NoDup (map c_row (comments ls)) ->
  let ls' := insert_line r (indent ++ HASH :: d) ls in
  Permutation (raw ls') (map (shift_violation r) (raw ls)) ->
  Permutation (comments ls') (insert_comment_line r d (comments ls)) ->
  (forall c, In c (comments ls) -> c_row c + 1 = r -> directive_names (c_text c) = None) ->
  forall v, v_row v = Some r -> In (v_title v) ns -> ~ In (shift_violation r v) (report raw comments ls').
Proof. exact insert_above_removes. Qed.
Print Assumptions c06_directive_above_removes.

(* ... while a line inserted anywhere else (two lines above = row r-1, the line below = row r+1, ...) and a
   directive not naming the title (another rule's name, a prefix of the name) leave the violation reported *)
Theorem c06_directive_elsewhere_keeps :
  forall raw comments ls q indent d ns,
  directive_names d = Some ns -> NoDup (map c_row (comments ls)) ->
  let ls' := insert_line q (indent ++ HASH :: d) ls in
  Permutation (raw ls') (map (shift_violation q) (raw ls)) ->
  Permutation (comments ls') (insert_comment_line q d (comments ls)) ->
  (forall c, In c (comments ls) -> c_row c + 1 = q -> directive_names (c_text c) = None) ->
  forall v, In v (report raw comments ls) ->
  (v_row v <> Some q \/ ~ In (v_title v) ns) -> In (shift_violation q v) (report raw comments ls').
Proof.
  intros raw comments ls q indent d ns Hd Hnd ls' H1 H2 H3 v Hin [Hrow|Hn].
  - exact (insert_elsewhere_keeps raw comments ls q indent d ns Hd Hnd H1 H2 H3 v Hin Hrow).
  - exact (insert_unnamed_keeps raw comments ls q indent d ns Hd Hnd H1 H2 H3 v Hin Hn).
Qed.
Print Assumptions c06_directive_elsewhere_keeps.

(* The comment " #"++d is appended to the end of row r, which had no comment.  It covers row r and row r+1
   (it is "on the line directly above" row r+1): precisely the named violations on these two rows go. *)
Theorem c06_append_directive_effect :
  forall (raw : list str -> list violation) (comments : list str -> list comment)
         (ls : list str) (r : N) (d : str) (ns : list str),
  directive_names d = Some ns ->
  NoDup (map c_row (comments ls)) ->
  let ls' := append_to_line r (32 :: HASH :: d) ls in
  Permutation (raw ls') (raw ls) ->
  (forall c, In c (comments ls) -> c_row c <> r) ->
  Permutation (comments ls') (append_comment r d (comments ls)) ->
  Permutation (report raw comments ls')
    (filter (fun v => negb (str_in (v_title v) ns && (at_row v r || at_row v (r + 1))))
            (report raw comments ls)).
Proof. exact append_effect. Qed.
Print Assumptions c06_append_directive_effect.

(* Without the side condition on row r-1: the exact effect of a new comment line on row r.  A directive that
   sat on row r-1 no longer covers the violation that moved from row r to r+1. *)
Theorem c06_insert_directive_effect_general :
  forall cs r d ns v,
  directive_names d = Some ns -> NoDup (map c_row cs) ->
  (ignored (shift_violation r v) (directive_entries (insert_comment_line r d cs)) = true <->
   (exists c ns' r0, In c cs /\ directive_names (c_text c) = Some ns' /\ In (v_title v) ns' /\
                     v_row v = Some r0 /\ (c_row c = r0 \/ (c_row c + 1 = r0 /\ r0 <> r))) \/
   (v_row v = Some r /\ In (v_title v) ns)).
Proof. exact ignored_after_insert_general. Qed.
Print Assumptions c06_insert_directive_effect_general.

(* ---- aggregate (cross-file) rules ----------------------------------------------------------------- *)

(* One run over several files (names distinct), in any completion order: for an aggregate violation
   located in file f the aggregate report applies exactly f's directives -- the same test as for per-file rules;
   a violation located in no linted file (or without location) is not ignored. *)
Theorem c06_aggregate_directives_carried :
  forall (files : list (str * list comment)) (v : violation),
  NoDup (map fst files) ->
  (forall cs, In (v_file v, cs) files ->
     agg_ignored (carry (file_results files)) v = ignored v (directive_entries cs)) /\
  ((forall cs, ~ In (v_file v, cs) files) -> agg_ignored (carry (file_results files)) v = false).
Proof. exact aggregate_directives_carried_lemma. Qed.
Print Assumptions c06_aggregate_directives_carried.

(* Regression witness: a run that reports on aggregates only and is given no directives (what the
   aggregate-only run of the language server did before /repo 4817eed) ignores nothing. *)
Theorem c06_aggregate_only_without_directives_refuted :
  exists files v,
    NoDup (map fst files) /\
    agg_ignored (carry (file_results files)) v = true /\ agg_ignored [] v = false.
Proof. exact aggregate_only_without_directives_refuted. Qed.
Print Assumptions c06_aggregate_only_without_directives_refuted.

(* with the exported directives handed on (WithIgnoreDirectives), any split into runs sees what one run sees *)
Theorem c06_split_runs_directives_carried :
  forall (parts : list (list (str * list comment))) files v,
  NoDup (map fst files) -> Permutation (concat parts) files ->
  agg_ignored (carry_overridden [] (merge_exported (map (fun p => carry (file_results p)) parts))) v =
  agg_ignored (carry (file_results files)) v.
Proof. exact two_phase_directives_lemma. Qed.
Print Assumptions c06_split_runs_directives_carried.

(* Directives handed from run to run.  Model/AggPipeline.v [dirs_update old new]: the hand-over as an explicit map
   update (Lint: maps.Copy(provided), then maps.Copy(own); a client: dirs[file] = exported entry) -- an entry of
   [new] REPLACES the old entry of the same file, and a linted file always has an entry, the empty object when it has
   no directive; [lint_dirs given own] = what the aggregate report of a Lint call over [own] sees when handed
   [given].  Model/AggCache.v: [api_history fs0 edits] = (files, directive map) of a client that linted fs0 with
   export and then re-linted the files of [edits] one at a time, updating its map from every run's
   Report.IgnoreDirectives; [files_after fs0 edits] the contents after those writes; [replace_file].
   For every history of single-file replacements and every violation:
   (1) a report-only run handed the client's map ignores exactly what ONE run over the final contents ignores;
   (2) a run that itself re-lints f' and is handed the (for f' stale) map ignores exactly what one run over the
       contents with f' replaced ignores;
   (3) in particular: when the new f' has no directive left, nothing located in f' is ignored, whatever directives
       f' had earlier in the history. *)
Theorem c06_incremental_directives_eq_fresh :
  forall (fs0 edits : list (str * list comment)) (f' : str * list comment) (v : violation),
  NoDup (map fst fs0) ->
  let File := (str * list comment)%type in
  let client := api_history File fst snd fs0 edits in
  let final := files_after File fst fs0 edits in
  agg_ignored (lint_dirs File fst snd (snd client) []) v = agg_ignored (carry (file_results final)) v /\
  agg_ignored (lint_dirs File fst snd (snd client) [f']) v =
    agg_ignored (carry (file_results (replace_file File fst f' final))) v /\
  (directive_entries (snd f') = [] -> v_file v = fst f' ->
   agg_ignored (lint_dirs File fst snd (snd client) [f']) v = false).
Proof. exact (api_history_directives (str * list comment) fst snd). Qed.
Print Assumptions c06_incremental_directives_eq_fresh.

(* ---- non-vacuity ---------------------------------------------------------------------------------- *)

Definition ex_text : str :=   (* " regal ignore: foo-bar ,\tline-length" *)
  [32] ++ MARKER ++ [32;102;111;111;45;98;97;114;32;44;9;108;105;110;101;45;108;101;110;103;116;104].
Definition ex_names : list str := [[102;111;111;45;98;97;114]; [108;105;110;101;45;108;101;110;103;116;104]].

Example c06_names_nonvacuous : directive_names ex_text = Some ex_names.
Proof. reflexivity. Qed.

Example c06_spelled_nonvacuous :
  exists p segs, ~ In COLON p /\ segs <> [] /\ Forall2 spells segs ex_names /\
                 ex_text = p ++ MARKER ++ join [COMMA] segs.
Proof.
  exists [32], [[32;102;111;111;45;98;97;114;32]; [9;108;105;110;101;45;108;101;110;103;116;104]].
  split; [intros [H|[]]; discriminate|]. split; [discriminate|]. split; [|reflexivity].
  constructor; [|constructor; [|constructor]].
  - exists [32], [32]. split; [reflexivity|]. repeat split; repeat constructor.
  - exists [9], []. split; [reflexivity|]. repeat split; repeat constructor.
Qed.

(* "foo-bar" on row 7 with the directive on row 6: ignored; its prefix "foo-ba" and "foo-bar-baz": not;
   the same title two rows below: not *)
Example c06_ignored_nonvacuous :
  let cs := [{| c_row := 6; c_text := ex_text |}] in
  let v t r := {| v_cat := []; v_title := t; v_file := []; v_row := Some r; v_col := 1 |} in
  NoDup (map c_row cs) /\
  ignored (v [102;111;111;45;98;97;114] 7) (directive_entries cs) = true /\
  ignored (v [102;111;111;45;98;97;114] 6) (directive_entries cs) = true /\
  ignored (v [102;111;111;45;98;97] 7) (directive_entries cs) = false /\
  ignored (v [102;111;111;45;98;97;114;45;98;97;122] 7) (directive_entries cs) = false /\
  ignored (v [102;111;111;45;98;97;114] 8) (directive_entries cs) = false /\
  ignored (v [102;111;111;45;98;97;114] 5) (directive_entries cs) = false.
Proof. cbn zeta. split; [repeat constructor; intros []|]. repeat split; reflexivity. Qed.

(* the hypotheses of the insertion theorem are met by a two-line module: three raw violations, the directive
   " regal ignore:x" inserted as new row 2 removes the "x" violation of old row 2 and moves the "y" one *)
Example c06_insert_nonvacuous :
  let d := 32 :: MARKER ++ [120] in
  let mk t r := {| v_cat := []; v_title := t; v_file := []; v_row := Some r; v_col := 1 |} in
  let ls := [[97]; [98]] in
  let raw (l : list str) :=
    if Nat.eqb (length l) 2 then [mk [120] 1; mk [120] 2; mk [121] 2] else [mk [120] 1; mk [120] 3; mk [121] 3] in
  let comments (l : list str) := if Nat.eqb (length l) 2 then [] else [{| c_row := 2; c_text := d |}] in
  let ls' := insert_line 2 ([] ++ HASH :: d) ls in
  directive_names d = Some [[120]] /\ NoDup (map c_row (comments ls)) /\
  Permutation (raw ls') (map (shift_violation 2) (raw ls)) /\
  Permutation (comments ls') (insert_comment_line 2 d (comments ls)) /\
  (forall c, In c (comments ls) -> c_row c + 1 = 2 -> directive_names (c_text c) = None) /\
  report raw comments ls = [mk [120] 1; mk [120] 2; mk [121] 2] /\
  report raw comments ls' = [mk [120] 1; mk [121] 3].
Proof.
  cbn zeta. split; [reflexivity|]. split; [constructor|].
  split; [vm_compute; apply Permutation_refl|]. split; [vm_compute; apply Permutation_refl|].
  split; [intros c []|]. split; reflexivity.
Qed.

(* a two-file run: the directive of file "a" is seen by the aggregate report for a violation located in "a" *)
Example c06_aggregate_nonvacuous :
  let files := [([97], [{| c_row := 3; c_text := 32 :: MARKER ++ [120] |}]); ([98], [])] in
  let v f := {| v_cat := []; v_title := [120]; v_file := f; v_row := Some 4; v_col := 1 |} in
  NoDup (map fst files) /\
  agg_ignored (carry (file_results files)) (v [97]) = true /\
  agg_ignored (carry (file_results files)) (v [98]) = false /\
  agg_ignored (carry_overridden [] (merge_exported (map (fun p => carry (file_results p)) [[nth 1 files ([], [])]; [nth 0 files ([], [])]]))) (v [97]) = true.
Proof.
  cbn zeta. split; [repeat constructor; [intros [H|[]]; discriminate | intros []]|].
  repeat split; reflexivity.
Qed.

(* file "a" had the directive, the client re-linted it without, then with it again: the map the client hands on
   follows (ignored, not ignored, ignored) -- and the one-file run itself sees the same when handed the stale map *)
Example c06_history_nonvacuous :
  let d := [{| c_row := 3; c_text := 32 :: MARKER ++ [120] |}] in
  let fs0 := [([97], d); ([98], [])] in
  let v := {| v_cat := []; v_title := [120]; v_file := [97]; v_row := Some 4; v_col := 1 |} in
  let File := (str * list comment)%type in
  let seen edits own := agg_ignored (lint_dirs File fst snd (snd (api_history File fst snd fs0 edits)) own) v in
  NoDup (map fst fs0) /\
  seen [] [] = true /\ seen [([97], [])] [] = false /\ seen [([97], []); ([97], d)] [] = true /\
  seen [] [([97], [])] = false /\ seen [([97], [])] [([97], d)] = true.
Proof.
  cbn zeta. split; [repeat constructor; [intros [H|[]]; discriminate | intros []]|].
  repeat split; reflexivity.
Qed.

