(* C08 — each documented rule flags its documented bad example and accepts the good one; the verdict is unchanged
   under layout-preserving re-embedding.  PARTIAL claim: there is no Coq semantics of Rego/OPA, so nothing is proved
   about rule bodies; whether a rule fires on its Avoid text and not on its Prefer text is decided by enumeration
   (tools/props/c08.py: every docs page x every embedding, through the real linter).  What is proved:
     (a) the layout layer (Model/Layout.v): the embeddings move / keep / append rows of the line table exactly as
         [ops_index] computes, regal's CRLF normalisation makes its line table independent of the line ends, and
         the operations commute (so the enumeration of compositions is an enumeration of normal forms);
     (b) obligations over the regenerated docs table (Gen/GenDocs.v): rule directories and pages correspond, every
         page is a well-formed Avoid/Prefer pair or an explicit exception with a fixture.
   Only statements here; proofs in Proofs/Layout.v and Proofs/DocsTable.v.

   Model: a document is its list of lines [doc] plus a line-end style; [render st d] is its text;
   [regal_lines t] = strings.Split(strings.ReplaceAll(t, CRLF, LF), LF) is input.regal.file.lines;
   [raw_lines t] = strings.Split(t, LF); [apply_ops ops x] applies the grammar
   (OBlankPkg k | OBlankTop k | OCrlf | OAppend e) left to right; [ops_index ops x i] is where row i goes. *)
From Coq Require Import List NArith Bool Arith Permutation.
From Regal Require Import Base.Str Gen.GenDocs Model.Layout Model.DocsTable Proofs.Layout Proofs.DocsTable.
Import ListNotations.
Local Open Scope nat_scope.

(* ---------------------------------------------------------------- (a) layout layer *)

(* CRLF conversion followed by the linter's own normalisation is the identity on the line table:
   whatever the line ends, regal's line table of the written-out document is the document. *)
Theorem c08_line_table_independent_of_line_ends :
  forall (st : eol_style) (d : doc), d <> [] -> clean_doc d = true -> regal_lines (render st d) = d.
Proof. exact regal_lines_render. Qed.
Print Assumptions c08_line_table_independent_of_line_ends.

(* without that normalisation (an LF-only splitter) the lines are the document's modulo one trailing CR *)
Theorem c08_raw_line_table_modulo_cr :
  forall (st : eol_style) (d : doc), d <> [] -> clean_doc d = true ->
  map strip_cr (raw_lines (render st d)) = d.
Proof. exact raw_lines_modulo_cr. Qed.
Print Assumptions c08_raw_line_table_modulo_cr.

(* layout_preserves_lines: under any composition of the grammar, the i-th original line is found at row
   [ops_index ops x i] of the line table regal builds from the re-embedded text, with identical content; in the raw
   text it is there modulo a trailing CR. *)
Theorem c08_layout_preserves_lines :
  forall (ops : list op) (x : ldoc) (i : nat) (l : str),
  l_lines x <> [] -> clean_doc (l_lines x) = true -> forallb op_clean ops = true ->
  nth_error (l_lines x) i = Some l ->
  nth_error (regal_lines (text_of (apply_ops ops x))) (ops_index ops x i) = Some l /\
  exists l', nth_error (raw_lines (text_of (apply_ops ops x))) (ops_index ops x i) = Some l' /\ strip_cr l' = l.
Proof. exact layout_preserves_lines_both. Qed.
Print Assumptions c08_layout_preserves_lines.

(* the row map is a shift / identity per operation and keeps the order of rows *)
Theorem c08_layout_keeps_row_order :
  forall (ops : list op) (x : ldoc) (i j : nat), i < j -> ops_index ops x i < ops_index ops x j.
Proof. exact ops_index_mono. Qed.
Print Assumptions c08_layout_keeps_row_order.

(* ... and nothing but blank lines and the appended blocks is brought in *)
Theorem c08_layout_only_adds_blank_or_appended :
  forall (ops : list op) (x : ldoc) (j : nat) (l : str),
  nth_error (l_lines (apply_ops ops x)) j = Some l ->
  (exists i, nth_error (l_lines x) i = Some l /\ ops_index ops x i = j)
  \/ l = [] \/ (exists o, In o ops /\ In l (op_extra o)).
Proof. exact layout_only_adds. Qed.
Print Assumptions c08_layout_only_adds_blank_or_appended.

(* the operations commute pairwise, except two appends (and provided appended blocks hold no package clause) *)
Theorem c08_ops_commute :
  forall (o1 o2 : op) (x : ldoc), commutable o1 o2 = true ->
  apply_op o2 (apply_op o1 x) = apply_op o1 (apply_op o2 x).
Proof. exact ops_commute_lemma. Qed.
Print Assumptions c08_ops_commute.

(* hence any reordering of a composition of pairwise commutable operations yields the same document *)
Theorem c08_reordering_commutable_ops :
  forall (ops ops' : list op) (x : ldoc), Permutation ops ops' ->
  (forall o1 o2, In o1 ops -> In o2 ops -> o1 = o2 \/ commutable o1 o2 = true) ->
  apply_ops ops x = apply_ops ops' x.
Proof. exact apply_ops_reorder. Qed.
Print Assumptions c08_reordering_commutable_ops.

(* which shifts the enumeration uses.  [boundary_shifts nb t d] = the amounts k of blank lines at the top that put a row
   of d (any row; with nb = true any row that is not blank) on row t.  Covering: for EVERY such row r = i + 1 <= t one
   of the selected shifts puts r on row t and the row after it on row t + 1 (rows 1-based), i.e. the pair crosses
   the boundary where row numbers get one more digit for t = 9, 99, 999 -- and so does every pair (r, r') with r < r'. *)
Theorem c08_boundary_shifts_cover :
  forall (nb : bool) (t : nat) (x : ldoc) (i : nat) (l : str),
  nth_error (l_lines x) i = Some l -> (nb = true -> blank_line l = false) -> S i <= t ->
  exists k, In k (boundary_shifts nb t (l_lines x)) /\
            S (ops_index [OBlankTop k] x i) = t /\ S (ops_index [OBlankTop k] x (S i)) = S t.
Proof. exact boundary_shifts_cover_lemma. Qed.
Print Assumptions c08_boundary_shifts_cover.

(* the selection holds nothing else: each selected shift puts some (selected) row on row t *)
Theorem c08_boundary_shifts_only :
  forall (nb : bool) (t : nat) (d : doc) (k : nat), In k (boundary_shifts nb t d) ->
  exists i l, nth_error d i = Some l /\ (nb = true -> blank_line l = false) /\ S i <= t /\ k = t - S i.
Proof. exact boundary_shifts_only_lemma. Qed.
Print Assumptions c08_boundary_shifts_only.

(* and the line is what regal's line table of the shifted text holds on row t *)
Theorem c08_boundary_shift_moves_the_line :
  forall (nb : bool) (t : nat) (x : ldoc) (i : nat) (l : str),
  l_lines x <> [] -> clean_doc (l_lines x) = true ->
  nth_error (l_lines x) i = Some l -> (nb = true -> blank_line l = false) -> S i <= t ->
  exists k, In k (boundary_shifts nb t (l_lines x)) /\
            nth_error (regal_lines (text_of (apply_ops [OBlankTop k] x))) (t - 1) = Some l.
Proof. exact boundary_shift_line_lemma. Qed.
Print Assumptions c08_boundary_shift_moves_the_line.

(* ---------------------------------------------------------------- (b) the docs table *)

Theorem c08_every_rule_has_a_docs_page :
  forall c r, In (c, r) rule_dirs ->
  exists row, In row docs_rows /\ d_cat row = c /\ d_name row = r /\ d_kind row <> KRedirect.
Proof. exact every_rule_documented_lemma. Qed.
Print Assumptions c08_every_rule_has_a_docs_page.

Theorem c08_every_docs_page_has_a_rule :
  forall row, In row docs_rows ->
  (d_kind row <> KRedirect -> In (d_cat row, d_name row) rule_dirs) /\
  (d_kind row = KRedirect -> In (d_redirect row) rule_dirs).
Proof. exact every_page_has_rule_lemma. Qed.
Print Assumptions c08_every_docs_page_has_a_rule.

(* every page shows exactly one non-empty Avoid and one non-empty Prefer rego block, or is on the exception list
   (with a reason) and has a dedicated fixture under corpus/C08 *)
Theorem c08_examples_wellformed_or_excepted :
  forall row, In row docs_rows -> d_kind row <> KRedirect ->
  (d_kind row = KPair /\ d_reason row = RNone /\ d_navoid row = 1 /\ d_nprefer row = 1
     /\ 0 < d_avoid_lines row /\ 0 < d_prefer_lines row)
  \/ (d_reason row <> RNone /\ d_fixture row = true).
Proof. exact examples_wellformed_or_excepted_lemma. Qed.
Print Assumptions c08_examples_wellformed_or_excepted.

Theorem c08_provided_config_lists_exactly_the_rules :
  forall k, In k rule_dirs <-> In k provided_rules.
Proof. exact provided_config_matches_rules_lemma. Qed.
Print Assumptions c08_provided_config_lists_exactly_the_rules.

(* rules that only report over several files say so on their page and run through a several-files fixture *)
Theorem c08_aggregate_rules_documented_as_such :
  forall c r, In (c, r) aggregate_rules ->
  exists row, In row docs_rows /\ d_cat row = c /\ d_name row = r /\ d_typeline row = true
              /\ d_reason row = RMultiFile /\ d_fixture row = true.
Proof. exact aggregate_rules_documented_lemma. Qed.
Print Assumptions c08_aggregate_rules_documented_as_such.

Theorem c08_exception_list_has_no_stale_entry : stale_exceptions = [].
Proof. exact no_stale_exceptions_lemma. Qed.
Print Assumptions c08_exception_list_has_no_stale_entry.

Theorem c08_pages_distinct : NoDup (map (fun r => (d_cat r, d_name r)) docs_rows).
Proof. exact pages_distinct_lemma. Qed.
Print Assumptions c08_pages_distinct.

(* ---------------------------------------------------------------- non-vacuity *)

(* "package p" / "" / "a := 1" / ""  (text ends with a line end) *)
Definition ex_doc : doc := [[112;97;99;107;97;103;101;32;112]%N; []; [97;32;58;61;32;49]%N; []].
Definition ex_extra : list str := [[]; [122;32;58;61;32;50]%N; []].
Definition ex_ops : list op := [OBlankPkg 3; OCrlf; OAppend ex_extra; OBlankTop 1].

Example c08_nonvacuous_layout :
  ex_doc <> [] /\ clean_doc ex_doc = true /\ forallb op_clean ex_ops = true /\
  ops_index ex_ops (mk_ldoc ex_doc EolLF) 0 = 1 /\          (* package line: only the top insertion moves it *)
  ops_index ex_ops (mk_ldoc ex_doc EolLF) 2 = 6 /\          (* the rule: 3 + 1 rows down *)
  nth_error (regal_lines (text_of (apply_ops ex_ops (mk_ldoc ex_doc EolLF)))) 6 = nth_error ex_doc 2 /\
  nth_error (raw_lines (text_of (apply_ops ex_ops (mk_ldoc ex_doc EolLF)))) 6 = Some ([97;32;58;61;32;49;13]%N) /\
  length (l_lines (apply_ops ex_ops (mk_ldoc ex_doc EolLF))) = 11.
Proof. repeat split; try discriminate; vm_compute; reflexivity. Qed.

Example c08_nonvacuous_commute :
  commutable (OBlankPkg 3) (OAppend ex_extra) = true /\ commutable OCrlf (OBlankTop 2) = true /\
  commutable (OAppend ex_extra) (OAppend ex_extra) = false /\
  apply_ops [OAppend ex_extra; OCrlf; OBlankPkg 3] (mk_ldoc ex_doc EolLF)
  = apply_ops [OBlankPkg 3; OAppend ex_extra; OCrlf] (mk_ldoc ex_doc EolLF).
Proof. repeat split; vm_compute; reflexivity. Qed.

(* ex_doc has 4 rows: rows 1..4 go to row 9 by shifts 8, 7, 6, 5; without the blank rows 2 and 4 only 8 and 6;
   shift 6 puts the rule (row 3) on row 9 and the row after it on row 10 *)
Example c08_nonvacuous_boundary_shifts :
  boundary_shifts false 9 ex_doc = [8; 7; 6; 5] /\ boundary_shifts true 9 ex_doc = [8; 6] /\
  boundary_shifts false 2 ex_doc = [1; 0] /\
  S (ops_index [OBlankTop 6] (mk_ldoc ex_doc EolLF) 2) = 9 /\
  nth_error (regal_lines (text_of (apply_ops [OBlankTop 6] (mk_ldoc ex_doc EolLF)))) 8 = nth_error ex_doc 2.
Proof. repeat split; vm_compute; reflexivity. Qed.

Example c08_nonvacuous_table :
  (exists row, In row docs_rows /\ d_kind row = KPair /\ d_reason row = RNone) /\
  (exists row, In row docs_rows /\ d_reason row = RMultiFile /\ d_fixture row = true) /\
  40 < self_contained_pages /\ 0 < excepted_pages /\ 90 < length rule_dirs /\ aggregate_rules <> [].
Proof.
  split; [|split; [|repeat split]].
  - assert (H : existsb (fun r => is_pair r && no_reason r) docs_rows = true) by (vm_compute; reflexivity).
    apply existsb_exists in H as [row [Hin Hb]]. exists row. apply andb_true_iff in Hb as [H1 H2].
    unfold is_pair in H1. unfold no_reason in H2.
    repeat split; [exact Hin | destruct (d_kind row); try discriminate; reflexivity
                  | destruct (d_reason row); try discriminate; reflexivity].
  - assert (H : existsb (fun r => is_multifile r && d_fixture r) docs_rows = true) by (vm_compute; reflexivity).
    apply existsb_exists in H as [row [Hin Hb]]. exists row. apply andb_true_iff in Hb as [H1 H2].
    unfold is_multifile in H1.
    repeat split; [exact Hin | destruct (d_reason row); try discriminate; reflexivity | exact H2].
  - apply Nat.ltb_lt. vm_compute. reflexivity.
  - apply Nat.ltb_lt. vm_compute. reflexivity.
  - apply Nat.ltb_lt. vm_compute. reflexivity.
  - vm_compute. discriminate.
Qed.
