(* C03 — linting is total: any module the parser accepts can be linted  (PARTIAL claim).

   Proved here, about models:
     (i)  the error propagation of pkg/linter (Model/LintErr.v): if no oracle call — set-up, per-file
          transform / OPA evaluation / result conversion, aggregate evaluation — returns an error, Lint returns
          a report, for every completion order and every scheduling of the final select; and one failing file
          turns the WHOLE run into an error (so "one unusual file never aborts the others" holds exactly when
          no file fails at all);
     (ii) the multi-body functions / keyed rules of the framework packages (Model/Framework.v,
          Model/Location.v) never contribute two different values, i.e. the framework layer itself cannot
          raise OPA's eval_conflict_error; where that needs a property of the input (one package-scoped link
          per metadata chain, no `related_resources: false`, one comment per row, no import alias that is the
          value false) the premise is explicit and the unconditional statement is refuted by a witness.
          This includes the rules that map SEVERAL source constructs to ONE value on modules the parser accepts
          and the compiler would refuse (two imports under one identifier, functions of one name with different
          arities): resolved_imports and function_decls pick the first candidate per key and are conflict free
          for every input; the "1:1" form of resolved_imports is refuted by two shadowing imports.
   NOT proved: that none of the ~90 Rego rule BODIES (and OPA itself, and roast's transform) errors, panics
   or hangs on a parseable module.  That remainder is exercised by linting corpora with all rules enabled
   (tools/props/c03.py) — testing, not proof. *)
From Coq Require Import List ZArith Permutation.
From Regal Require Import Base.Str Model.Location Model.LintErr Model.Framework
                          Proofs.Location Proofs.LintErr Proofs.Framework.
Import ListNotations.
Local Open Scope nat_scope.

(* ---- (i) error propagation ----------------------------------------------------------------------------- *)

(* [files]: the input; [order]: the order in which the per-file goroutines complete; [s]: which case of the
   select main takes.  All oracles total => a report. *)
Theorem c03_lint_total_if_rules_total :
  forall (file input resultset piece aggreport E : Type)
         (setup : res E unit) (transform : file -> res E input) (eval : input -> res E resultset)
         (convert : resultset -> res E piece) (need_aggregate : list piece -> bool)
         (eval_aggregate : list piece -> res E aggreport)
         (files order : list file) (s : sel),
  Permutation files order ->
  is_ok E setup ->
  (forall f, In f files -> is_ok E (per_file file input resultset piece E transform eval convert f)) ->
  (forall ps, is_ok E (eval_aggregate ps)) ->
  is_ok E (lint file input resultset piece aggreport E setup transform eval convert need_aggregate
                eval_aggregate order s).
Proof. exact lint_total_if_rules_total. Qed.
Print Assumptions c03_lint_total_if_rules_total.

(* one failing file => no report at all (main blocked in the select, or the random choice takes errCh) *)
Theorem c03_one_file_error_aborts :
  forall (file input resultset piece aggreport E : Type)
         (setup : res E unit) (transform : file -> res E input) (eval : input -> res E resultset)
         (convert : resultset -> res E piece) (need_aggregate : list piece -> bool)
         (eval_aggregate : list piece -> res E aggreport)
         (files order : list file) (s : sel) (f : file) (e : E),
  Permutation files order -> In f files ->
  per_file file input resultset piece E transform eval convert f = Err e ->
  s <> AllDoneFirst true ->
  is_err E (lint file input resultset piece aggreport E setup transform eval convert need_aggregate
                 eval_aggregate order s).
Proof. exact one_file_error_aborts. Qed.
Print Assumptions c03_one_file_error_aborts.

(* under the normal schedule Lint succeeds exactly when nothing fails *)
Theorem c03_lint_ok_iff :
  forall (file input resultset piece aggreport E : Type)
         (setup : res E unit) (transform : file -> res E input) (eval : input -> res E resultset)
         (convert : resultset -> res E piece) (need_aggregate : list piece -> bool)
         (eval_aggregate : list piece -> res E aggreport)
         (files order : list file),
  Permutation files order ->
  (is_ok E (lint file input resultset piece aggreport E setup transform eval convert need_aggregate
                 eval_aggregate order MainWaiting) <->
   is_ok E setup /\
   (forall f, In f files -> is_ok E (per_file file input resultset piece E transform eval convert f)) /\
   (need_aggregate (oks piece E (map (per_file file input resultset piece E transform eval convert) order)) = true ->
    is_ok E (eval_aggregate (oks piece E (map (per_file file input resultset piece E transform eval convert) order))))).
Proof. exact lint_ok_iff. Qed.
Print Assumptions c03_lint_ok_iff.

(* the scheduling corner (not reproduced on the real code, see notes/C03.md): if every goroutine is done before
   main selects and doneCh is picked, the error is dropped and the report lacks the failed file *)
Theorem c03_error_dropped_when_done_wins :
  let per (f : nat) : res nat nat := if Nat.eqb f 1 then Err 7 else Ok f in
  lint nat nat nat nat nat nat (Ok tt) per (fun i => Ok i) (fun r => Ok r) (fun _ => false) (fun _ => Ok 0)
       [0; 1; 2] (AllDoneFirst true) = Ok ([0; 2], None).
Proof. exact error_dropped_when_done_wins. Qed.
Print Assumptions c03_error_dropped_when_done_wins.

(* ---- (ii) the framework layer cannot raise a conflict error -------------------------------------------- *)

(* [outputs bodies a]: every value any body contributes for argument a; [conflict_free]: they all agree.
   For option-valued bodies (Model/Location.v) [flat_map opt_list] lists the defined ones. *)
Theorem c03_framework_conflict_free :
  (* result.rego *)
  (forall path, conflict_free (category_title_from_path path)) /\
  (forall generated annotations,
     field s_related_resources annotations <> Some (JBool false) ->
     conflict_free (related_resources generated annotations)) /\
  (forall (V : Type) annotated annotated_custom fallback details metadata,
     length (package_links metadata) <= 1 ->
     conflict_free (fail V annotated annotated_custom fallback details metadata)) /\
  (forall lines f x,
     conflict_free (flat_map opt_list [location_b1 lines f x; location_b2 lines f x; location_b3 lines f x])) /\
  (* util.rego *)
  (forall lines l, conflict_free (outputs [tlo_b1 lines; tlo_b2 lines] l)) /\
  (forall lines q,
     conflict_free (flat_map opt_list [location_to_text_b1 lines q; location_to_text_b2 lines q])) /\
  (forall i len line col end_col,
     conflict_free (flat_map opt_list [cut_col_b1 i len line col end_col; cut_col_b2 i len line col end_col;
                                       cut_col_b3 i len line col end_col])) /\
  (forall members x, conflict_free (to_set members x)) /\
  (forall members x, conflict_free (to_array members x)) /\
  (* main.rego *)
  (forall filename root, conflict_free (file_name_relative_to_root filename root)) /\
  (* ast/comments.rego: ignore_directives[row] *)
  (forall comments, NoDup (map fst comments) -> keyed_conflict_free (directive_entries comments)) /\
  (* ast/imports.rego: _imported_identifier (two bodies), resolved_imports[identifier] := paths[0] — for ANY list
     of imports, in particular several imports under one identifier (parseable, not compilable) *)
  (forall i, imp_alias i <> Some (JBool false) -> conflict_free (imported_identifier i)) /\
  (forall imports,
     (forall i, In i imports -> imp_alias i <> Some (JBool false)) ->
     (forall i, In i imports -> conflict_free (imported_identifier i)) /\
     keyed_conflict_free (resolved_imports imports)) /\
  (* ast/ast.rego: function_decls(rules) — for ANY list of rules, in particular one name with several arities *)
  (forall rules, keyed_conflict_free (function_decls rules)).
Proof.
  repeat split.
  - exact category_title_from_path_conflict_free.
  - exact related_resources_conflict_free.
  - exact fail_conflict_free.
  - exact location_conflict_free.
  - exact to_location_object_conflict_free.
  - exact location_to_text_conflict_free.
  - exact cut_col_conflict_free.
  - exact to_set_conflict_free.
  - exact to_array_conflict_free.
  - exact file_name_relative_to_root_conflict_free.
  - exact ignore_directives_conflict_free.
  - exact imported_identifier_conflict_free.
  - intros i Hi. apply imported_identifier_conflict_free. apply H. exact Hi.
  - apply resolved_imports_conflict_free.
  - exact function_decls_conflict_free.
Qed.
Print Assumptions c03_framework_conflict_free.

(* the three premises are needed (each input shape is rejected earlier: by OPA's annotation parser, by
   rego.metadata.chain()'s construction, by the scanner — comments run to the end of the line) *)
Theorem c03_related_resources_false_refuted :
  exists generated annotations, ~ conflict_free (related_resources generated annotations).
Proof. exact related_resources_false_refuted. Qed.
Print Assumptions c03_related_resources_false_refuted.

Theorem c03_fail_two_package_links_refuted :
  exists details metadata,
    ~ conflict_free (fail (jv * jv) (fun _ c t _ => Some (c, t)) (fun _ c t _ => Some (c, t)) (fun _ _ => None)
                          details metadata).
Proof. exact fail_two_package_links_refuted. Qed.
Print Assumptions c03_fail_two_package_links_refuted.

Theorem c03_ignore_directives_same_row_refuted :
  exists comments, ~ keyed_conflict_free (directive_entries comments).
Proof. exact ignore_directives_same_row_refuted. Qed.
Print Assumptions c03_ignore_directives_same_row_refuted.

(* the alias premise is needed (the parser only produces variable names as aliases) *)
Theorem c03_imported_identifier_false_alias_refuted :
  exists i, ~ conflict_free (imported_identifier i).
Proof. exact imported_identifier_false_alias_refuted. Qed.
Print Assumptions c03_imported_identifier_false_alias_refuted.

(* why resolved_imports must SELECT: its "1:1" form (one entry per import, what the comment in imports.rego
   proposes as a simplification) is conflict free exactly when imports sharing an identifier share the path … *)
Theorem c03_resolved_imports_one_to_one_needs_distinct_identifiers :
  forall imports,
    (forall i j id, In i imports -> In j imports -> eligible i = true -> eligible j = true ->
                    In id (imported_identifier i) -> In id (imported_identifier j) -> imp_path i = imp_path j) ->
    keyed_conflict_free (resolved_imports_one_to_one imports).
Proof. exact resolved_imports_one_to_one_conflict_free. Qed.
Print Assumptions c03_resolved_imports_one_to_one_needs_distinct_identifiers.

(* … and `import data.a.foo` + `import data.b.foo` (no aliases at all) is a witness: conflict free as written,
   "object keys must be unique" in the 1:1 form.  The parser accepts such modules; only the compiler, which
   regal never runs on linted files, refuses them. *)
Theorem c03_resolved_imports_one_to_one_shadowing_refuted :
  exists imports,
    (forall i, In i imports -> imp_alias i = None) /\
    keyed_conflict_free (resolved_imports imports) /\
    ~ keyed_conflict_free (resolved_imports_one_to_one imports).
Proof. exact resolved_imports_one_to_one_shadowing_refuted. Qed.
Print Assumptions c03_resolved_imports_one_to_one_shadowing_refuted.

(* ---- non-vacuity ------------------------------------------------------------------------------------------ *)

(* the total-oracle premise is met by a three-file run that needs the aggregate phase, and Lint returns the
   pieces in completion order *)
Example c03_nonvacuous_total :
  lint nat nat nat nat nat nat (Ok tt) (fun f => Ok f) (fun i => Ok (i + 10)) (fun r => Ok r)
       (fun ps => Nat.ltb 1 (length ps)) (fun ps => Ok (length ps)) [2; 0; 1] MainWaiting
  = Ok ([12; 10; 11], Some 3).
Proof. reflexivity. Qed.

(* a real metadata chain (one package-scoped link for regal.rules.bugs.x) selects exactly one value *)
Example c03_nonvacuous_fail :
  let link := JObj [(s_annotations, JObj [(s_scope, JStr s_package)]);
                    (s_path, JArr [JStr s_regal; JStr s_rules; JStr [98%N]; JStr [120%N]])] in
  let rule := JObj [(s_annotations, JObj [(s_scope, JStr [114%N])]); (s_path, JArr [])] in
  length (package_links (JArr [rule; link])) = 1 /\
  fail (jv * jv) (fun _ c t _ => Some (c, t)) (fun _ c t _ => Some (c, t)) (fun _ _ => None)
       (JObj []) (JArr [rule; link]) = [(JStr [98%N], JStr [120%N])].
Proof. split; reflexivity. Qed.

(* three imports under the identifier foo (one by alias): one entry, the path of the first import *)
Example c03_nonvacuous_resolved_imports :
  let foo := [102; 111; 111]%N in
  let imports := [ {| imp_path := [s_data; [97%N]; foo]; imp_alias := None |};
                   {| imp_path := [s_input; foo]; imp_alias := None |};
                   {| imp_path := [s_data; [98%N]]; imp_alias := Some (JStr foo) |} ] in
  (forall i, In i imports -> imp_alias i <> Some (JBool false)) /\
  resolved_imports imports = [(JStr foo, [s_data; [97%N]; foo]); (JStr foo, [s_data; [97%N]; foo]);
                              (JStr foo, [s_data; [97%N]; foo])].
Proof.
  split; [|reflexivity].
  intros i [<-|[<-|[<-|[]]]]; discriminate.
Qed.

(* f/1 and f/2 and a plain rule f: one declaration, the arity of the first definition *)
Example c03_nonvacuous_function_decls :
  let f := [102%N] in
  function_decls [ {| rs_name := f; rs_args := Some 1 |}; {| rs_name := f; rs_args := Some 2 |};
                   {| rs_name := f; rs_args := None |} ] = [(f, 1); (f, 1)].
Proof. reflexivity. Qed.
