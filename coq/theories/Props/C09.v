(* C09 — two-phase (collect, then report) aggregate linting equals one-shot linting.
   Only statements here; proofs live in Proofs/AggPipeline.v, Proofs/AggCache.v, Proofs/Directive.v.

   Model (Model/AggPipeline.v): the rule bodies are oracles -- [B_aggregate r f] / [C_aggregate k f] the entries a
   bundled / custom rule aggregates for file f (incl. whether it is run), [B_report r aggs] / [C_report k aggs] its
   aggregate_report for a list of entries.  [file_aggs f] is lint.aggregates of one file (a custom rule that
   aggregated nothing leaves its key with no entries: the empty marker); [collect use part] is what a Lint call
   exports for the files of [part]; [merge_aggs] the caller's merged[k] = append(merged[k], ...); a map
   is the log of its appends, read through [am_get] / [am_mem].  [one_shot files] are the aggregate violations of
   one Lint call; [two_phase parts] those of: Lint(WithCollectQuery, WithExportAggregates) per part, merge in
   list order, Lint(WithAggregates(merged), WithIgnoreDirectives(merged exported directives)).
   [lint_aggregate_violations] is the tail of Lint (which aggregates are used, when the aggregate report runs,
   the inline-ignore filter of Model/Directive.v).
   Model/AggCache.v: the language server's aggregate cache ([set_aggregates], [set_file_aggregates],
   [get_file_aggregates], [delete], [rename]); [represents c fs]: under every file name the cache holds the
   entries of the files of that name. *)
From Coq Require Import List Permutation NArith.
From Regal Require Import Base.Str Model.Directive Model.AggPipeline Model.AggCache
                          Proofs.Directive Proofs.AggPipeline Proofs.AggCache.
Import ListNotations.

(* For every choice of rule bodies whose aggregate_report does not depend on the order of the entries (H_aggperm),
   every workspace of at least two files with distinct names, every split of the files into collect runs, every
   order of merging the runs' exports and every completion order inside a run ([parts] is any list of lists
   whose concatenation is a permutation of the files): the aggregate violations of the two-phase pipeline are
   those of one Lint call over all files, as multisets.  Bundled and custom rules, empty markers and inline ignore
   directives included. *)
Theorem c09_two_phase_eq_one_shot :
  forall (File Agg : Type) (fname : File -> str) (fcomments : File -> list comment)
         (brules ckeys : list str)
         (B_aggregate : str -> File -> list Agg) (C_aggregate : str -> File -> option (list Agg))
         (B_report C_report : str -> list Agg -> list violation),
  (forall r a b, Permutation a b -> Permutation (B_report r a) (B_report r b)) ->
  (forall k a b, Permutation a b -> Permutation (C_report k a) (C_report k b)) ->
  forall (parts : list (list File)) (files : list File),
  (2 <= length files)%nat -> NoDup (map fname files) -> Permutation (concat parts) files ->
  Permutation
    (two_phase File Agg fname fcomments brules ckeys B_aggregate C_aggregate B_report C_report parts)
    (one_shot File Agg fname fcomments brules ckeys B_aggregate C_aggregate B_report C_report files).
Proof. exact two_phase_eq_one_shot_thm. Qed.
Print Assumptions c09_two_phase_eq_one_shot.

(* the part of it that concerns inline ignores: the aggregate report of the two-phase pipeline ignores exactly
   what the one-shot run ignores, for every violation *)
Theorem c09_two_phase_directives :
  forall (File : Type) (fname : File -> str) (fcomments : File -> list comment)
         (parts : list (list File)) (files : list File) (v : violation),
  NoDup (map fname files) -> Permutation (concat parts) files ->
  agg_ignored (carry_overridden [] (merge_exported (map (exported_dirs File fname fcomments) parts))) v =
  agg_ignored (carry (results_of File fname fcomments files)) v.
Proof. exact two_phase_dirs. Qed.
Print Assumptions c09_two_phase_directives.

(* Without handing the exported directives on -- all a client could do before /repo 4817eed, and what the language
   server did -- the equality fails: a violation the one-shot run ignores is reported. *)
Theorem c09_two_phase_without_directives_refuted :
  exists (parts : list (list N)) (files : list N),
    (2 <= length files)%nat /\ NoDup (map ex_fname files) /\ Permutation (concat parts) files /\
    one_shot N N ex_fname ex_fcomments [[114%N]] [] ex_bagg ex_cagg ex_brep ex_crep files = [] /\
    two_phase N N ex_fname ex_fcomments [[114%N]] [] ex_bagg ex_cagg ex_brep ex_crep parts = [] /\
    two_phase_no_directives N N [[114%N]] [] ex_bagg ex_cagg ex_brep ex_crep parts = [ex_v 120 [97%N] 4].
Proof. exact two_phase_without_directives_refuted_lemma. Qed.
Print Assumptions c09_two_phase_without_directives_refuted.

(* Regression witness for /repo 42020a4 (and ba0fc92): when no rule aggregated anything, the pinned aggregate-only
   run was refused ("nothing provided to lint") and the pinned one-shot run did not run the aggregate report; now
   both report (e.g. no-defined-entrypoint) and agree. *)
Theorem c09_pinned_empty_aggregates_refuted :
  let files := [97%N; 98%N] in let parts := [[97%N]; [98%N]] in
  one_shot N N ex_fname ex_fcomments [[114%N]] [] ex_nbagg ex_cagg ex_nbrep ex_crep files =
  two_phase N N ex_fname ex_fcomments [[114%N]] [] ex_nbagg ex_cagg ex_nbrep ex_crep parts /\
  one_shot N N ex_fname ex_fcomments [[114%N]] [] ex_nbagg ex_cagg ex_nbrep ex_crep files <> [] /\
  two_phase_pinned N N [[114%N]] [] ex_nbagg ex_cagg ex_nbrep ex_crep parts = None /\
  one_shot_pinned N N ex_fname ex_fcomments [[114%N]] [] ex_nbagg ex_cagg ex_nbrep ex_crep files = [].
Proof. exact pinned_empty_aggregates_refuted_lemma. Qed.
Print Assumptions c09_pinned_empty_aggregates_refuted.

(* The bound "at least two files" is needed: Lint never runs the aggregate report for a single file, the
   two-phase pipeline (the language server) does. *)
Theorem c09_single_file_differs :
  one_shot N N ex_fname ex_fcomments [[114%N]] [] ex_nbagg ex_cagg ex_nbrep ex_crep [97%N] = [] /\
  two_phase N N ex_fname ex_fcomments [[114%N]] [] ex_nbagg ex_cagg ex_nbrep ex_crep [[97%N]] <> [].
Proof. exact single_file_differs_lemma. Qed.
Print Assumptions c09_single_file_differs.

(* ---- the language server's cache ------------------------------------------------------------------ *)

(* refinement steps: SetAggregates on a one-shot export, SetFileAggregates on the export of one re-collected file,
   Delete -- each keeps "the cache represents the current files" (entries name their source file) *)
Theorem c09_cache_refines :
  forall (File Agg : Type) (fname : File -> str) (brules ckeys : list str)
         (B_aggregate : str -> File -> list Agg) (C_aggregate : str -> File -> option (list Agg))
         (src : Agg -> str),
  let repr := represents File Agg fname brules ckeys B_aggregate C_aggregate in
  let ws := well_sourced File Agg fname brules ckeys B_aggregate C_aggregate src in
  let faggs := file_aggs File Agg brules ckeys B_aggregate C_aggregate in
  (forall fs, ws fs -> repr (set_aggregates Agg src (flat_map faggs fs)) fs) /\
  (forall c fs f', repr c fs -> ws [f'] ->
     repr (set_file_aggregates Agg src (fname f') (faggs f') c) (replace_file File fname f' fs)) /\
  (forall c fs name, repr c fs -> repr (delete Agg name c) (remove_file File fname name fs)).
Proof.
  intros File Agg fname brules ckeys B_aggregate C_aggregate src repr ws faggs. split; [|split].
  - intros fs H. apply set_aggregates_represents; exact H.
  - intros c fs f' H1 H2. apply set_file_represents; assumption.
  - intros c fs name H. apply delete_represents; exact H.
Qed.
Print Assumptions c09_cache_refines.

(* Replacing file f's entries and re-running the report equals a fresh collect over the updated file set
   (multisets of aggregate violations), for entries naming their file and rule (built with result.aggregate), when
   no custom rule is present through its empty marker alone. *)
Theorem c09_incremental_eq_fresh :
  forall (File Agg : Type) (fname : File -> str) (brules ckeys : list str)
         (B_aggregate : str -> File -> list Agg) (C_aggregate : str -> File -> option (list Agg))
         (B_report C_report : str -> list Agg -> list violation) (src ikey : Agg -> str),
  (forall r a b, Permutation a b -> Permutation (B_report r a) (B_report r b)) ->
  (forall k a b, Permutation a b -> Permutation (C_report k a) (C_report k b)) ->
  forall (c : cache Agg) (fs : list File) (f' : File) (g : gomap),
  represents File Agg fname brules ckeys B_aggregate C_aggregate c fs ->
  well_sourced File Agg fname brules ckeys B_aggregate C_aggregate src [f'] ->
  well_keyed File Agg brules ckeys B_aggregate C_aggregate ikey (replace_file File fname f' fs) ->
  no_bare_marker File Agg brules ckeys B_aggregate C_aggregate (replace_file File fname f' fs) ->
  let collect := collect File Agg brules ckeys B_aggregate C_aggregate in
  let report_from m := lint_aggregate_violations Agg brules ckeys B_report C_report [] 0 (Some m) g in
  Permutation
    (report_from (get_file_aggregates Agg ikey (set_file_aggregates Agg src (fname f') (collect true [f']) c)))
    (report_from (collect true (replace_file File fname f' fs))).
Proof. exact incremental_eq_fresh_thm. Qed.
Print Assumptions c09_incremental_eq_fresh.

(* the same for any cache that represents the current files, however it got there *)
Theorem c09_report_from_cache_eq_fresh :
  forall (File Agg : Type) (fname : File -> str) (brules ckeys : list str)
         (B_aggregate : str -> File -> list Agg) (C_aggregate : str -> File -> option (list Agg))
         (B_report C_report : str -> list Agg -> list violation) (ikey : Agg -> str),
  (forall r a b, Permutation a b -> Permutation (B_report r a) (B_report r b)) ->
  (forall k a b, Permutation a b -> Permutation (C_report k a) (C_report k b)) ->
  forall (c : cache Agg) (fs : list File) (g : gomap),
  represents File Agg fname brules ckeys B_aggregate C_aggregate c fs ->
  well_keyed File Agg brules ckeys B_aggregate C_aggregate ikey fs ->
  no_bare_marker File Agg brules ckeys B_aggregate C_aggregate fs ->
  Permutation
    (lint_aggregate_violations Agg brules ckeys B_report C_report [] 0 (Some (get_file_aggregates Agg ikey c)) g)
    (lint_aggregate_violations Agg brules ckeys B_report C_report [] 0
       (Some (collect File Agg brules ckeys B_aggregate C_aggregate true fs)) g).
Proof. exact report_from_cache_eq_fresh. Qed.
Print Assumptions c09_report_from_cache_eq_fresh.

(* Without that side condition the statement is false: the cache flattens by source file and regroups by
   IndexKey, so the empty marker of a custom rule that aggregated nothing is lost (open finding; the language
   server does not load custom rules). *)
Theorem c09_cache_empty_marker_refuted :
  let fs := [97%N; 98%N] in
  let fresh := collect N N [] [[107%N]] ex_nbagg ex_mcagg true fs in
  let c := set_aggregates N (fun _ => []) (collect N N [] [[107%N]] ex_nbagg ex_mcagg false fs) in
  represents N N ex_fname [] [[107%N]] ex_nbagg ex_mcagg c fs /\
  lint_aggregate_violations N [] [[107%N]] ex_nbrep ex_mcrep [] 0 (Some fresh) [] <> [] /\
  lint_aggregate_violations N [] [[107%N]] ex_nbrep ex_mcrep [] 0 (Some (get_file_aggregates N (fun _ => []) c)) [] = [].
Proof. exact cache_marker_refuted_lemma. Qed.
Print Assumptions c09_cache_empty_marker_refuted.

(* The per-file directive cache (after /repo 4817eed): initialised from a full run, updated for a re-linted file,
   cleared on Delete, it answers like the directives of one run over the current files (names distinct); and
   handing it to the aggregate-only run makes that run ignore exactly what such a run ignores. *)
Theorem c09_directive_cache_refines :
  forall (File : Type) (fname : File -> str) (fcomments : File -> list comment),
  let repr := dirs_represent File fname fcomments in
  (forall fs, repr (carry (results_of File fname fcomments fs)) fs) /\
  (forall g fs f', NoDup (map fname fs) -> repr g fs ->
     repr (gm_set g (fname f') (file_dirs File fcomments f')) (replace_file File fname f' fs)) /\
  (forall g fs n, NoDup (map fname fs) -> repr g fs -> repr (gm_delete g n) (remove_file File fname n fs)) /\
  (forall g fs v, repr g fs ->
     agg_ignored (carry_overridden [] g) v = agg_ignored (carry (results_of File fname fcomments fs)) v).
Proof.
  intros File fname fcomments repr. split; [|split; [|split]].
  - apply dir_cache_init.
  - intros g fs f' H1 H2. apply dir_cache_set; assumption.
  - intros g fs n H1 H2. apply dir_cache_delete; assumption.
  - intros g fs v H. apply dir_cache_used; exact H.
Qed.
Print Assumptions c09_directive_cache_refines.

(* One edit in the language server, end to end: re-lint the edited file f' with the collect query, SetFileAggregates
   and SetFileIgnoreDirectives, then report from the cached aggregates and directives -- equals (as multisets) the
   aggregate violations of ONE Lint call over the updated workspace, inline ignores included. *)
Theorem c09_lsp_step_eq_one_shot :
  forall (File Agg : Type) (fname : File -> str) (fcomments : File -> list comment) (brules ckeys : list str)
         (B_aggregate : str -> File -> list Agg) (C_aggregate : str -> File -> option (list Agg))
         (B_report C_report : str -> list Agg -> list violation) (src ikey : Agg -> str),
  (forall r a b, Permutation a b -> Permutation (B_report r a) (B_report r b)) ->
  (forall k a b, Permutation a b -> Permutation (C_report k a) (C_report k b)) ->
  forall (c : cache Agg) (g : gomap) (fs : list File) (f' : File),
  let fs' := replace_file File fname f' fs in
  NoDup (map fname fs) ->
  represents File Agg fname brules ckeys B_aggregate C_aggregate c fs ->
  dirs_represent File fname fcomments g fs ->
  well_sourced File Agg fname brules ckeys B_aggregate C_aggregate src [f'] ->
  well_keyed File Agg brules ckeys B_aggregate C_aggregate ikey fs' ->
  no_bare_marker File Agg brules ckeys B_aggregate C_aggregate fs' ->
  (2 <= length fs')%nat ->
  Permutation
    (lint_aggregate_violations Agg brules ckeys B_report C_report [] 0
       (Some (get_file_aggregates Agg ikey
                (set_file_aggregates Agg src (fname f')
                   (collect File Agg brules ckeys B_aggregate C_aggregate true [f']) c)))
       (carry_overridden [] (gm_set g (fname f') (file_dirs File fcomments f'))))
    (one_shot File Agg fname fcomments brules ckeys B_aggregate C_aggregate B_report C_report fs').
Proof. exact lsp_step_eq_one_shot. Qed.
Print Assumptions c09_lsp_step_eq_one_shot.

(* ---- histories: a file goes from some directives to none and back ------------------------------------ *)

(* Model/AggPipeline.v [dirs_update old new]: the hand-over of directives as an explicit map update -- every entry
   of [new] REPLACES the entry [old] has for the same file; [lint_dirs given own] = what the aggregate report of a
   Lint call sees (provided map, overwritten by the entries of the files the run lints itself; a linted file has an
   entry also when it has no directive: the empty object).  Model/AggCache.v: [set_file_ignore_directives] is
   cache.SetFileIgnoreDirectives (Set(uri, data[uri]): replaces in every case), [lsp_init]/[lsp_replace]/
   [lsp_report] the language server's start-up lint, single-file re-lint and aggregate-report-only run,
   [lsp_history fs0 edits] the state after writing the files of [edits] one after the other,
   [files_after fs0 edits] the workspace contents after them. *)

(* Any history of single-file replacements followed by the incremental report equals (as multisets) ONE Lint call
   over the final contents, inline ignores included: whichever directives a file had on the way -- none, some, none
   again -- only its final contents count. *)
Theorem c09_incremental_directives_eq_fresh :
  forall (File Agg : Type) (fname : File -> str) (fcomments : File -> list comment) (brules ckeys : list str)
         (B_aggregate : str -> File -> list Agg) (C_aggregate : str -> File -> option (list Agg))
         (B_report C_report : str -> list Agg -> list violation) (src ikey : Agg -> str),
  (forall r a b, Permutation a b -> Permutation (B_report r a) (B_report r b)) ->
  (forall k a b, Permutation a b -> Permutation (C_report k a) (C_report k b)) ->
  forall (fs0 edits : list File),
  let final := files_after File fname fs0 edits in
  NoDup (map fname fs0) -> (2 <= length fs0)%nat ->
  well_sourced File Agg fname brules ckeys B_aggregate C_aggregate src (fs0 ++ edits) ->
  well_keyed File Agg brules ckeys B_aggregate C_aggregate ikey final ->
  no_bare_marker File Agg brules ckeys B_aggregate C_aggregate final ->
  (2 <= length final)%nat ->
  Permutation
    (lsp_report File Agg fname fcomments brules ckeys B_report C_report ikey
       (lsp_history File Agg fname fcomments brules ckeys B_aggregate C_aggregate src fs0 edits))
    (one_shot File Agg fname fcomments brules ckeys B_aggregate C_aggregate B_report C_report final).
Proof. exact incremental_directives_eq_fresh. Qed.
Print Assumptions c09_incremental_directives_eq_fresh.

(* the directive cache on its own: SetIgnoreDirectives of the start-up run, then SetFileIgnoreDirectives per
   re-linted file -- handed to the report-only run it decides like one run over the final contents *)
Theorem c09_lsp_history_directives :
  forall (File : Type) (fname : File -> str) (fcomments : File -> list comment)
         (fs0 edits : list File) (v : violation),
  NoDup (map fname fs0) ->
  agg_ignored
    (lint_dirs File fname fcomments
       (fold_left (fun g f' => set_file_ignore_directives (fname f') (exported_dirs File fname fcomments [f']) g) edits
                  (set_ignore_directives (exported_dirs File fname fcomments fs0))) []) v =
  agg_ignored (carry (results_of File fname fcomments (files_after File fname fs0 edits))) v.
Proof. exact lsp_history_directives. Qed.
Print Assumptions c09_lsp_history_directives.

(* The same through the public API: a client that keeps every file's own export and ONE directive map updated from
   each run's Report.IgnoreDirectives; report-only run ... *)
Theorem c09_api_incremental_directives_eq_fresh :
  forall (File Agg : Type) (fname : File -> str) (fcomments : File -> list comment) (brules ckeys : list str)
         (B_aggregate : str -> File -> list Agg) (C_aggregate : str -> File -> option (list Agg))
         (B_report C_report : str -> list Agg -> list violation),
  (forall r a b, Permutation a b -> Permutation (B_report r a) (B_report r b)) ->
  (forall k a b, Permutation a b -> Permutation (C_report k a) (C_report k b)) ->
  forall (fs0 edits : list File),
  NoDup (map fname fs0) -> (2 <= length (files_after File fname fs0 edits))%nat ->
  Permutation
    (api_report File Agg fname fcomments brules ckeys B_aggregate C_aggregate B_report C_report
       (api_history File fname fcomments fs0 edits))
    (one_shot File Agg fname fcomments brules ckeys B_aggregate C_aggregate B_report C_report
       (files_after File fname fs0 edits)).
Proof. exact api_incremental_directives_eq_fresh. Qed.
Print Assumptions c09_api_incremental_directives_eq_fresh.

(* ... and with the last replaced file f' linted by the reporting run itself while the provided map is the one of
   BEFORE that replacement (stale for f'): the run's own entry wins, also when it is empty *)
Theorem c09_api_mixed_directives_eq_fresh :
  forall (File Agg : Type) (fname : File -> str) (fcomments : File -> list comment) (brules ckeys : list str)
         (B_aggregate : str -> File -> list Agg) (C_aggregate : str -> File -> option (list Agg))
         (B_report C_report : str -> list Agg -> list violation),
  (forall r a b, Permutation a b -> Permutation (B_report r a) (B_report r b)) ->
  (forall k a b, Permutation a b -> Permutation (C_report k a) (C_report k b)) ->
  forall (fs0 edits : list File) (f' : File),
  NoDup (map fname fs0) -> (2 <= length (files_after File fname fs0 (edits ++ [f'])))%nat ->
  Permutation
    (api_report_mixed File Agg fname fcomments brules ckeys B_aggregate C_aggregate B_report C_report
       (api_history File fname fcomments fs0 edits) f')
    (one_shot File Agg fname fcomments brules ckeys B_aggregate C_aggregate B_report C_report
       (files_after File fname fs0 (edits ++ [f']))).
Proof. exact api_mixed_directives_eq_fresh. Qed.
Print Assumptions c09_api_mixed_directives_eq_fresh.

(* Rename moves a file's entries to the new key; they keep naming the old file until it is re-collected *)
Theorem c09_cache_rename :
  forall (Agg : Type) (c : cache Agg) (old new : str),
  old <> new -> In old (map fst c) ->
  c_lookup (rename Agg old new c) new = c_lookup c old /\ c_lookup (rename Agg old new c) old = [] /\
  forall g, g <> old -> g <> new -> c_lookup (rename Agg old new c) g = c_lookup c g.
Proof. exact rename_lookup. Qed.
Print Assumptions c09_cache_rename.

(* ---- non-vacuity ----------------------------------------------------------------------------------- *)

(* the oracles of the counterexamples satisfy H_aggperm, and the main theorem's hypotheses are met by the
   two-file workspace, split either way round *)
Example c09_nonvacuous :
  (forall r a b, Permutation a b -> Permutation (ex_brep r a) (ex_brep r b)) /\
  (forall k a b, Permutation a b -> Permutation (ex_crep k a) (ex_crep k b)) /\
  (2 <= length [97%N; 98%N])%nat /\ NoDup (map ex_fname [97%N; 98%N]) /\
  Permutation (concat [[98%N]; [97%N]]) [97%N; 98%N] /\
  two_phase N N ex_fname (fun _ => []) [[114%N]] [] ex_bagg ex_cagg ex_brep ex_crep [[98%N]; [97%N]] = [ex_v 120 [97%N] 4].
Proof.
  split; [|split; [|split; [|split; [|split]]]].
  - intros r a b H. unfold ex_brep. rewrite (Permutation_length H). apply Permutation_refl.
  - intros k a b _. apply Permutation_refl.
  - cbn. auto.
  - repeat constructor; cbn; intuition discriminate.
  - apply perm_swap.
  - reflexivity.
Qed.

(* a history in which file "a" has a directive, loses it, and gets it back: the hypotheses of
   c09_incremental_directives_eq_fresh are met and the incremental report follows (reported only in the middle) *)
Example c09_history_nonvacuous :
  let d := [{| c_row := 3; c_text := 32%N :: MARKER ++ [120%N] |}] in
  let fcomments (f : N * bool) := if snd f then d else [] in
  let fname (f : N * bool) := [fst f] in
  let bagg (_ : str) (f : N * bool) := [fst f] in
  let cagg (_ : str) (_ : N * bool) : option (list N) := None in
  let src (a : N) : str := [a] in
  let ikey (_ : N) : str := [114%N] in
  let fs0 := [(97%N, true); (98%N, false)] in
  let report edits :=
    lsp_report (N * bool) N fname fcomments [[114%N]] [] ex_brep ex_crep ikey
      (lsp_history (N * bool) N fname fcomments [[114%N]] [] bagg cagg src fs0 edits) in
  NoDup (map fname fs0) /\ (2 <= length fs0)%nat /\
  well_sourced (N * bool) N fname [[114%N]] [] bagg cagg src (fs0 ++ [(97%N, false); (97%N, true)]) /\
  report [] = [] /\
  report [(97%N, false)] = [ex_v 120 [97%N] 4] /\
  report [(97%N, false); (97%N, true)] = [].
Proof.
  cbn zeta. split; [repeat constructor; cbn; intuition discriminate|]. split; [cbn; auto|]. split.
  - intros f a Hf Ha. cbn in Hf. unfold entries_of, file_aggs, flatten in Ha. cbn in Ha.
    destruct Ha as [<-|[]]. reflexivity.
  - repeat split; vm_compute; reflexivity.
Qed.

