(* C19 — Rules needing a missing engine capability are skipped, never misfire.
   Definitions: Model/Notices.v (capabilities.rego predicates, the condition language of the `notices`
   rules, main.rego's notices gate, linter.go's de-duplication and rules_skipped counter, plus/minus
   editing of the builtins map, and the specification [needs_table] / [need_unmet]);
   table: Gen/GatedRules.v (regenerated from bundle/regal/rules on every check).
   Rule bodies (notices / report of each rule) are oracles: arbitrary functions. *)
From Coq Require Import Permutation.
From Regal Require Import Base.Str Model.Notices Proofs.Notices Proofs.GatedRules Gen.GatedRules.

(* ---- a bundled rule that has a notice for a file reports nothing for that file; a rule that has a
        notice for every file of the run reports nothing at all ---- *)
Theorem c19_gated_rule_silent :
  forall (F V : Type) (notices_of : rule_id -> F -> list notice) (report_of custom_report_of : rule_id -> F -> list V)
         (to_run custom_to_run : list rule_id) (f : F) (r : rule_id) (v : V),
  ~ In r custom_to_run ->
  notices_of r f <> [] ->
  ~ In (r, v) (file_violations F V notices_of report_of custom_report_of to_run custom_to_run f).
Proof. exact gated_rule_silent_file. Qed.
Print Assumptions c19_gated_rule_silent.

Theorem c19_gated_rule_silent_run :
  forall (F V : Type) (notices_of : rule_id -> F -> list notice) (report_of custom_report_of : rule_id -> F -> list V)
         (to_run custom_to_run : list rule_id) (order : list F) (r : rule_id),
  ~ In r custom_to_run ->
  (forall f, In f order -> notices_of r f <> []) ->
  forall f v, ~ In (f, (r, v)) (rego_violations F V notices_of report_of custom_report_of to_run custom_to_run order).
Proof. exact gated_rule_silent_run. Qed.
Print Assumptions c19_gated_rule_silent_run.

(* ---- ... and it is listed: its notice is among the report's notices ---- *)
Theorem c19_noticed_rule_is_listed :
  forall (F : Type) (notices_of : rule_id -> F -> list notice) (to_run : list rule_id) (order : list F)
         (r : rule_id) (f : F) (n : notice),
  In r to_run -> In f order -> In n (notices_of r f) -> In n (lint_notices F notices_of to_run order).
Proof. exact noticed_rule_is_listed. Qed.
Print Assumptions c19_noticed_rule_is_listed.

(* ---- the report's notices are the distinct notices of all files, and rules_skipped is the number of
        those whose severity is not "none" ---- *)
Theorem c19_skipped_eq_notices :
  forall (F : Type) (notices_of : rule_id -> F -> list notice) (to_run : list rule_id) (order : list F),
  NoDup (lint_notices F notices_of to_run order) /\
  (forall n, In n (lint_notices F notices_of to_run order) <->
             exists f r, In f order /\ In r to_run /\ In n (notices_of r f)) /\
  rules_skipped F notices_of to_run order
  = length (filter counted (lint_notices F notices_of to_run order)).
Proof. exact lint_notices_spec. Qed.
Print Assumptions c19_skipped_eq_notices.

(* ---- identically for one file and for any number of copies of it ---- *)
Theorem c19_skipped_one_file_vs_copies :
  forall (F : Type) (notices_of : rule_id -> F -> list notice) (to_run : list rule_id) (f : F) (copies : list F),
  copies <> [] ->
  (forall f', In f' copies -> forall r, notices_of r f' = notices_of r f) ->
  lint_notices F notices_of to_run copies = lint_notices F notices_of to_run [f] /\
  rules_skipped F notices_of to_run copies = rules_skipped F notices_of to_run [f].
Proof. exact copies_same_as_one. Qed.
Print Assumptions c19_skipped_one_file_vs_copies.

(* ---- and independent of the order in which the files complete ---- *)
Theorem c19_skipped_order_independent :
  forall (F : Type) (notices_of : rule_id -> F -> list notice) (to_run : list rule_id) (order1 order2 : list F),
  Permutation order1 order2 ->
  rules_skipped F notices_of to_run order1 = rules_skipped F notices_of to_run order2.
Proof. exact skipped_permutation_invariant. Qed.
Print Assumptions c19_skipped_order_independent.

(* ---- capabilities plus / minus: resulting builtins = (base \ minus) U plus ---- *)
Theorem c19_plus_minus :
  forall (D : Type) (base : list (str * D)) (minus : list str) (plus : list (str * D)) (k : str),
  b_lookup D k (edit_builtins D base minus plus)
  = match last_plus D k plus with
    | Some d => Some d
    | None => if str_in k minus then None else b_lookup D k base
    end.
Proof. exact plus_minus_lemma. Qed.
Print Assumptions c19_plus_minus.

(* ---- the gates of the tree as it is now: each `notices` rule fires exactly when what its rule needs
        from the target (needs_table) is missing, for ALL capabilities and files; no gated rule has an
        aggregate body (which main.rego would not gate) ---- *)
Theorem c19_gate_matches_needs :
  forall g, In g gated_rules ->
  exists n, In n needs_table /\ g_cat g = nd_cat n /\ g_title g = nd_title n /\
            g_severity g = nd_severity n /\
            forall (c : caps) (f : file_info), eval_body c f (g_body g) = need_unmet (nd_need n) c f.
Proof. exact gate_matches_needs_lemma. Qed.
Print Assumptions c19_gate_matches_needs.

(* each gate follows ITS OWN need and no other: two targets that agree on the dimensions the need of a rule reads
   ([need_reads]: a built-in function, an entry of future_keywords, an entry of features) give its `notices`
   condition the same value, whatever else differs *)
Theorem c19_gate_follows_its_own_need :
  forall g, In g gated_rules ->
  exists n, In n needs_table /\ g_cat g = nd_cat n /\ g_title g = nd_title n /\ g_severity g = nd_severity n /\
            forall (c c' : caps) (f : file_info),
              (forall d, In d (need_reads (nd_need n)) -> dim_on d c = dim_on d c') ->
              eval_body c f (g_body g) = eval_body c' f (g_body g).
Proof. exact gate_follows_its_own_need_lemma. Qed.
Print Assumptions c19_gate_follows_its_own_need.

(* the predicates of capabilities.rego as they are written now (Gen/GatedRules.v cap_pred_rules, one row per
   `<predicate> if <condition>` rule) hold exactly when the model's [eval_pred] says so, for ALL capabilities *)
Theorem c19_capability_predicates_as_written :
  forall (p : cap_pred) (c : caps), pred_by_rules cap_pred_rules p c = eval_pred p c.
Proof. exact cap_preds_as_written_lemma. Qed.
Print Assumptions c19_capability_predicates_as_written.

(* why the generated capabilities files of the check suffice: if the targets realise every on/off assignment of the
   dimensions read by the needs ([dims_covered], evaluated by the check on the capabilities as loaded from the
   generated files), then for ANY capabilities c one of the targets gives every gate of the tree the value it has
   under c *)
Theorem c19_covering_targets_suffice :
  forall targets : list caps, dims_covered needs_table targets = true ->
  forall c : caps, exists c0, In c0 targets /\
    forall g f, In g gated_rules -> eval_body c0 f (g_body g) = eval_body c f (g_body g).
Proof. exact covering_targets_suffice_lemma. Qed.
Print Assumptions c19_covering_targets_suffice.

Theorem c19_gated_rules_have_no_aggregate : gated_with_aggregate = [].
Proof. exact gated_rules_have_no_aggregate. Qed.
Print Assumptions c19_gated_rules_have_no_aggregate.

(* ---- end to end for the gates of the tree as it is now (notices computed from Gen/GatedRules.v under
        capabilities c): a rule to run whose need is unmet for every file of the run reports nothing,
        whatever its report body says, and is listed with a notice of the severity written down for
        that need; conversely a notice is only ever listed for an unmet need ---- *)
Theorem c19_unmet_need_silent_and_listed :
  forall (F V : Type) (info : F -> file_info) (report_of custom_report_of : rule_id -> F -> list V) (c : caps)
         (to_run custom_to_run : list rule_id) (order : list F) (nd : need_row),
  In nd needs_table ->
  let r := (nd_cat nd, nd_title nd) in
  let notices_of := fun (r : rule_id) (f : F) => table_notices gated_rules c r (info f) in
  In r to_run -> ~ In r custom_to_run ->
  order <> [] ->
  (forall f, In f order -> need_unmet (nd_need nd) c (info f) = true) ->
  (forall f v, ~ In (f, (r, v)) (rego_violations F V notices_of report_of custom_report_of to_run custom_to_run order)) /\
  exists n, In n (lint_notices F notices_of to_run order) /\
            n_category n = nd_cat nd /\ n_title n = nd_title nd /\ n_severity n = nd_severity nd /\ n_level n = s_notice.
Proof. exact bundle_unmet_need_silent_and_listed. Qed.
Print Assumptions c19_unmet_need_silent_and_listed.

Theorem c19_listed_notice_has_unmet_need :
  forall (F : Type) (info : F -> file_info) (c : caps) (to_run : list rule_id) (order : list F) (n : notice),
  let notices_of := fun (r : rule_id) (f : F) => table_notices gated_rules c r (info f) in
  In n (lint_notices F notices_of to_run order) ->
  exists nd f, In nd needs_table /\ In f order /\ In (nd_cat nd, nd_title nd) to_run /\
               need_unmet (nd_need nd) c (info f) = true /\
               n_category n = nd_cat nd /\ n_title n = nd_title nd /\ n_severity n = nd_severity nd.
Proof. exact bundle_listed_notice_has_unmet_need. Qed.
Print Assumptions c19_listed_notice_has_unmet_need.

(* ---- non-vacuity ---- *)
Example c19_ex_old_target : caps := mkCaps [[99;111;117;110;116]] [] [].   (* only `count`; no keywords, no features *)
Example c19_ex_use_if_gated :
  let r := ([105;100;105;111;109;97;116;105;99], [117;115;101;45;105;102]) in   (* idiomatic/use-if *)
  table_notices gated_rules c19_ex_old_target r (mkFile true false) <> [] /\
  table_notices gated_rules (mkCaps [] [s_if] []) r (mkFile true false) = [].
Proof. vm_compute. split; [discriminate | reflexivity]. Qed.
Example c19_ex_counter :
  let n1 := mkNotice [97] [] [] s_notice s_warning_sev in
  let n2 := mkNotice [98] [] [] s_notice s_none in
  let nf := fun (r : rule_id) (f : nat) => if str_eqb (snd r) [97] then [n1] else [n2] in
  rules_skipped nat nf [([], [97]); ([], [98])] [1%nat; 2%nat; 3%nat] = 1%nat /\
  lint_notices nat nf [([], [97]); ([], [98])] [1%nat; 2%nat; 3%nat] = [n1; n2].
Proof. vm_compute. split; reflexivity. Qed.
Example c19_ex_plus_minus :
  let base := [([97], 1%nat); ([98], 2%nat)] in
  b_lookup nat [97] (edit_builtins nat base [[97]; [98]] [([97], 7%nat)]) = Some 7%nat /\
  b_lookup nat [98] (edit_builtins nat base [[97]; [98]] [([97], 7%nat)]) = None.
Proof. vm_compute. split; reflexivity. Qed.
Example c19_ex_unmet_need :
  let nd := mkNeed [105;100;105;111;109;97;116;105;99] [117;115;101;45;105;102] s_warning_sev NeedKeywordIf in
  In nd needs_table /\ need_unmet (nd_need nd) c19_ex_old_target (mkFile true false) = true.
Proof. split; [vm_compute; tauto | reflexivity]. Qed.

(* the needs of the tree read 7 dimensions (3 built-in functions, 2 future keywords, 2 features); the 128 targets built
   from their on/off assignments cover them, a single target does not *)
Definition caps_of_assignment (a : list (dim * bool)) : caps :=
  mkCaps (flat_map (fun db => match db with (DBuiltin n, true) => [n] | _ => [] end) a)
         (flat_map (fun db => match db with (DKeyword n, true) => [n] | _ => [] end) a)
         (flat_map (fun db => match db with (DFeature n, true) => [n] | _ => [] end) a).

Example c19_nonvacuous_dimensions :
  length (table_dims needs_table) = 7%nat /\
  length (assignments (table_dims needs_table)) = 128%nat /\
  dims_covered needs_table (map caps_of_assignment (assignments (table_dims needs_table))) = true /\
  dims_covered needs_table [mkCaps [] [] []] = false.
Proof. repeat split; vm_compute; reflexivity. Qed.

(* ---- the configuration pipeline (GetConfig: user config -> with custom rules -> merged with the provided
        configuration -> data.internal.combined_config): whatever custom rules are loaded, whether there is a user
        configuration, with or without capabilities, and whatever the remaining linter options are (disable / enable
        lists and flags, path prefix, input from paths or modules, ... : they travel in [lo_rest], outside of the
        configuration), the capabilities the Rego side reads are those of the configured target:
          configured_target u  :=  the capabilities of the user configuration, regal's own when there are none ---- *)
Theorem c19_eval_capabilities_are_configured :
  forall (R O X : Type) (this_version : caps) (provided_rules : R) (provided_other : O)
         (merge_rules : R -> R -> R) (merge_other : O -> O -> O) (add_custom_rules : R -> list rule_id -> R)
         (o : lopts R O X),
  rego_capabilities R O X
    (data_bundle R O X this_version provided_rules provided_other merge_rules merge_other add_custom_rules o)
  = configured_target R O this_version (lo_user R O X o).
Proof. exact eval_capabilities_are_configured. Qed.
Print Assumptions c19_eval_capabilities_are_configured.

(* the copy that names the fields to take over (seed C19-4) hands evaluation regal's own capabilities as soon as
   one custom rule is loaded ... *)
Theorem c19_eval_capabilities_are_configured_by_field_refuted :
  forall (R O X : Type) (this_version : caps) (provided_rules : R) (provided_other : O)
         (merge_rules : R -> R -> R) (merge_other : O -> O -> O) (add_custom_rules : R -> list rule_id -> R)
         (u : uconfig R O) (c : caps) (r : rule_id) (x : X),
  uc_caps R O u = Some c -> c <> this_version ->
  rego_capabilities R O X
    (data_bundle_with R O X this_version provided_rules provided_other merge_rules merge_other
       (user_config_with_custom_rules_by_field R O X add_custom_rules) (mkOpts R O X (Some u) [r] x))
  <> configured_target R O this_version (Some u).
Proof. exact eval_capabilities_by_field_refuted. Qed.
Print Assumptions c19_eval_capabilities_are_configured_by_field_refuted.

(* ... and is right without custom rules: why no run with a configuration alone can tell the two apart *)
Theorem c19_eval_capabilities_are_configured_by_field_partial :
  forall (R O X : Type) (this_version : caps) (provided_rules : R) (provided_other : O)
         (merge_rules : R -> R -> R) (merge_other : O -> O -> O) (add_custom_rules : R -> list rule_id -> R)
         (o : lopts R O X),
  lo_custom R O X o = [] ->
  rego_capabilities R O X
    (data_bundle_with R O X this_version provided_rules provided_other merge_rules merge_other
       (user_config_with_custom_rules_by_field R O X add_custom_rules) o)
  = configured_target R O this_version (lo_user R O X o).
Proof. exact eval_capabilities_by_field_partial. Qed.
Print Assumptions c19_eval_capabilities_are_configured_by_field_partial.

(* non-vacuity: an old target with a custom rule loaded; the real pipeline keeps it, the by-field copy does not *)
Example c19_ex_pipeline :
  let this := mkCaps [s_object_keys; s_strings_count] [s_if] [s_rego_v1] in
  let u := mkUC unit unit tt tt (Some c19_ex_old_target) in
  let o := mkOpts unit unit unit (Some u) [([110], [114])] tt in
  rego_capabilities unit unit unit
    (data_bundle unit unit unit this tt tt (fun _ _ => tt) (fun _ _ => tt) (fun r _ => r) o) = c19_ex_old_target
  /\ rego_capabilities unit unit unit
    (data_bundle_with unit unit unit this tt tt (fun _ _ => tt) (fun _ _ => tt)
       (user_config_with_custom_rules_by_field unit unit unit (fun r _ => r)) o) = this
  /\ c19_ex_old_target <> this.
Proof. repeat split; try (vm_compute; reflexivity). vm_compute. discriminate. Qed.
