(* C13 — fixing conserves files: nothing lost or overwritten, conflicts honoured.
   Model definitions used below: Model/Provider.v (provider, pv_put/pv_delete/pv_rename, pinv, cpath,
   regular), Model/Rename.v (rename_candidate, handle_rename, run_fixes, find_closest_matching_root,
   origins/tag_files/preserves_origin, cand_iter, clean_file, occupied), Model/Commit.v (fsys, commit,
   finish_command, dir_cleanup_paths, fs_wf, tag_fs). *)
From Regal Require Import Model.Commit Base.StrLit.
From Regal Require Import Proofs.C13Main Proofs.Conserve Proofs.Commit Proofs.Roots Proofs.RootsOrder Proofs.MovedRests Proofs.Explore.
From Coq Require Import Permutation.

(* The provider refines a finite map path -> content: Put and Delete are point updates, a successful
   Rename moves one binding to a key that is free in the map AND not occupied on disk. *)
Theorem c13_provider_refines_map :
  forall (C : Type) (p : provider C),
  (forall f c g, aget (pv_files (pv_put p f c)) g = if str_eqb f g then Some c else aget (pv_files p) g)
  /\ (forall f g, aget (pv_files (pv_delete p f)) g = if str_eqb f g then None else aget (pv_files p) g)
  /\ (forall from to p', pv_rename p from to = RenOk p' ->
        exists c, aget (pv_files p) from = Some c
                  /\ ~ In to (akeys (pv_files p))
                  /\ disk_occupied p to = false
                  /\ p' = pv_delete (pv_put p to c) from)
  /\ (forall from to, pv_rename p from to = RenConflict \/ pv_rename p from to = RenNotFound -> True).
Proof. exact provider_refines_map_main. Qed.
Print Assumptions c13_provider_refines_map.

(* After ANY sequence of fix results the provider satisfies the invariant the commit relies on
   (modified files are held, untouched files are as loaded, loaded files that are gone are in the
   deleted set, nothing that exists on disk without having been loaded is in the modified set). *)
Theorem c13_provider_invariant :
  forall (C : Type) (files0 : amap C) (disk : list str) fuel pol starting xs p r,
  NoDup (akeys files0) ->
  run_fixes pv_rename fuel pol starting (new_provider files0 disk) new_report xs = SOk p r ->
  pinv C files0 disk p.
Proof. exact provider_invariant_main. Qed.
Print Assumptions c13_provider_invariant.

(* rename_conservation.  Files carry their original path as a tag.  After any sequence of fix
   results: as long as no conflict is registered the tags held by the provider are exactly the
   loaded paths, each once (a bijection origins -> final paths), and no path that exists on disk
   without having been loaded is written; with policy rename no conflict is ever registered;
   once a conflict is registered (policy error) the command performs no disk operation. *)
Theorem c13_rename_conservation :
  forall (T : Type) (files0 : amap T) (disk : list str) fuel pol starting
         (xs : list (fixres (tagged T))) p r,
  NoDup (akeys files0) ->
  Forall preserves_origin xs ->
  run_fixes pv_rename fuel pol starting (new_provider (tag_files files0) disk) new_report xs = SOk p r ->
  (has_conflicts r = false ->
     Permutation (origins (pv_files p)) (akeys files0)
     /\ NoDup (akeys (pv_files p))
     /\ (forall f, In f (pv_modified p) -> In f disk -> In f (akeys files0)))
  /\ (pol = PRename -> has_conflicts r = false)
  /\ (has_conflicts r = true ->
        forall (fl : flags) cwd gv roots (fs : fsys (tagged T)) dl ml,
          finish_command fl cwd gv roots fs (LDone p r) dl ml = (OutConflicts, fs)).
Proof. exact rename_conservation_main. Qed.
Print Assumptions c13_rename_conservation.

(* candidate_fresh.  For a clean absolute target the rename loop ends within (occupied names + 1)
   rounds, and what it settles on is a name in the same directory that was neither held by the
   provider nor occupied on disk. *)
Theorem c13_candidate_fresh :
  forall (C : Type) fuel starting (p : provider C) r root from to ds nb,
  clean_file to ds nb ->
  (length (occupied p) < fuel)%nat ->
  handle_rename pv_rename fuel PRename starting p r root from to <> SOutOfFuel
  /\ forall p' r',
      handle_rename pv_rename fuel PRename starting p r root from to = SOk p' r' ->
      exists k c,
        aget (pv_files p) from = Some c
        /\ ~ In (cand_iter k to) (akeys (pv_files p))
        /\ disk_occupied p (cand_iter k to) = false
        /\ dir (cand_iter k to) = cpath ds
        /\ p' = pv_delete (pv_put p (cand_iter k to) c) from.
Proof. exact candidate_fresh_main. Qed.
Print Assumptions c13_candidate_fresh.

(* commit_effect.  A commit that succeeds leaves disk - deleted + modified. *)
Theorem c13_commit_effect :
  forall (C : Type) roots (fs : fsys C) files dl ml fs',
  fs_wf fs -> commit roots fs files dl ml = CommitOk fs' ->
  fs_wf fs' /\
  forall g, aget (fs_files fs') g =
            if str_in g ml then aget files g
            else if str_in g dl then None
            else aget (fs_files fs) g.
Proof. exact commit_effect_main. Qed.
Print Assumptions c13_commit_effect.

(* A target directory that cannot be created stops the commit before a single file is touched. *)
Theorem c13_blocked_directory_no_loss :
  forall (C : Type) roots (fs : fsys C) files dl ml fs',
  mkdir_phase fs ml = CommitFailed fs' ->
  commit roots fs files dl ml = CommitFailed fs' /\ fs_files fs' = fs_files fs.
Proof. exact blocked_directory_no_loss_main. Qed.
Print Assumptions c13_blocked_directory_no_loss.

(* commit_total.  On a tree-shaped file system, for clean target names none of which is a directory
   on the way to another, sources that exist and lie below a preserved directory: the commit either
   goes through, or stops in the directory-creation phase before a single file has been touched.
   It never stops between the deletes and the writes. *)
Theorem c13_commit_total :
  forall (C : Type) roots (fs : fsys C) files dl (tl : list target),
  fs_tree fs ->
  Forall treg tl -> independent tl ->
  (forall t, In t tl -> aget files (tpath t) <> None /\ fs_is_dir fs (tpath t) = false) ->
  NoDup dl ->
  (forall f, In f dl -> fs_is_file fs f = true /\ anchored (preserve_dirs roots) f) ->
  (exists fs', commit roots fs files dl (map tpath tl) = CommitOk fs')
  \/ (exists fs', commit roots fs files dl (map tpath tl) = CommitFailed fs'
                  /\ fs_files fs' = fs_files fs).
Proof. exact commit_total_main. Qed.
Print Assumptions c13_commit_total.

(* The directories DirCleanUpPaths lists for removal are directories and never a project root. *)
Theorem c13_cleanup_spares_roots :
  forall (C : Type) (fs : fsys C) target roots ds,
  dir_cleanup_paths fs target roots = CwOk ds ->
  forall d, In d ds -> fs_is_dir fs d = true /\ ~ In d roots.
Proof. exact cleanup_spares_roots_main. Qed.
Print Assumptions c13_cleanup_spares_roots.

(* Emptied directories are removed only if really empty, whatever else the tree holds.
   [fs_children fs d] is the FULL listing of d: every entry whose parent is d, i.e. regular files under
   any name (hidden ones like .gitkeep included), symbolic links (non-directories, as DirEntry.IsDir
   reports them) and sub-directories.  Every entry of a directory that DirCleanUpPaths lists is the
   file just deleted or a directory listed with it (for which the same holds): no bystander lives in
   or below a listed directory, so removing the listed directories touches nothing else. *)
Theorem c13_cleanup_only_empty :
  forall (C : Type) (fs : fsys C) target roots ds,
  dir_cleanup_paths fs target roots = CwOk ds ->
  forall d e, In d ds -> In e (fs_children fs d) ->
  e = target \/ (In e ds /\ fs_is_dir fs e = true).
Proof. exact cleanup_only_empty. Qed.
Print Assumptions c13_cleanup_only_empty.

Theorem c13_dry_run_noop :
  forall (C : Type) (fl : flags) cwd gv roots (fs : fsys C) lr dl ml,
  fl_dry_run fl = true -> snd (finish_command fl cwd gv roots fs lr dl ml) = fs.
Proof. exact dry_run_noop_lemma. Qed.
Print Assumptions c13_dry_run_noop.

(* root_contains_file.  The closest root is "", the path itself, or a root followed by a separator
   and the rest of the path; no matching root is longer; for clean paths: component-wise ancestor. *)
Theorem c13_root_contains_file :
  forall path roots,
  let r := find_closest_matching_root path roots in
  (r = [] \/ r = path
   \/ (In r roots /\ exists rest, path = trim_suffix r [SLASH] ++ [SLASH] ++ rest))
  /\ (forall x, ~ In path roots -> In x roots -> root_matches path x = true -> (length x <= length r)%nat)
  /\ (forall ps cs, path = cpath ps -> r = cpath cs -> Forall regular ps -> Forall regular cs ->
                    exists qs, ps = cs ++ qs).
Proof. exact root_contains_file_main. Qed.
Print Assumptions c13_root_contains_file.

(* A moved file rests: the target of DirectoryPackageMismatch.Fix is <clean root>/<package path>/<base>,
   and the rule (last n directory components = package path) holds there for every base name, so
   also for the candidates of the rename loop: no file is moved twice, the sources of moves are
   files that were loaded from disk. *)
Theorem c13_moved_file_rests :
  forall basedir file parts,
  is_rooted (if is_nil basedir then dir file else basedir) = true ->
  Forall regular parts -> regular (path_base file) ->
  exists ds,
    dpm_target basedir file parts = cpath (ds ++ [path_base file])
    /\ Forall regular ds
    /\ forall nb, regular nb -> dpm_violates (cpath (ds ++ [nb])) parts = false.
Proof. exact moved_file_rests. Qed.
Print Assumptions c13_moved_file_rests.

(* config.GetPotentialRoots returns the roots in Go map order: the answer does not depend on it. *)
Theorem c13_root_order_independent :
  forall path roots roots',
  (forall x, In x roots <-> In x roots') ->
  find_closest_matching_root path roots = find_closest_matching_root path roots'.
Proof. exact fcmr_order_independent. Qed.
Print Assumptions c13_root_order_independent.

(* End to end.  The command run on a tree whose files carry their own path as tag, after ANY
   sequence of fix results on the files it loaded and for ANY order in which the deleted/modified
   sets are walked: if it reports success, every original file is on disk exactly once (same
   multiset of tags, duplicate-free paths) and every file it had not loaded is where and what it
   was; if it ends in any other way but a half-way failure of the commit, the tree is untouched. *)
Theorem c13_fix_conserves :
  forall (T : Type) (fs0 : fsys T) (sel : list str) (p0 : provider (tagged T))
         (pol : policy) (fuel : nat) (xs : list (fixres (tagged T))) (p : provider (tagged T)) (r : report)
         (fl : flags) (cwd : str) (gv : git_view) (roots dl ml : list str)
         (out : outcome) (fs1 : fsys (tagged T)),
  fs_wf (tag_fs fs0) ->
  NoDup (akeys (fs_files fs0)) ->
  load_provider (tag_fs fs0) sel = Some p0 ->
  Forall preserves_origin xs ->
  run_fixes pv_rename fuel pol (akeys (pv_files p0)) p0 new_report xs = SOk p r ->
  Permutation dl (pv_deleted p) -> Permutation ml (pv_modified p) ->
  finish_command fl cwd gv roots (tag_fs fs0) (LDone p r) dl ml = (out, fs1) ->
  (out = OutDone ->
     Permutation (origins (fs_files fs1)) (akeys (fs_files fs0))
     /\ NoDup (akeys (fs_files fs1))
     /\ (forall f, In f (akeys (fs_files fs0)) -> ~ In f (akeys (pv_files p0)) ->
                   aget (fs_files fs1) f = aget (fs_files (tag_fs fs0)) f))
  /\ (out <> OutDone -> out <> OutCommitFailed -> fs1 = tag_fs fs0).
Proof. exact fix_conserves_lemma. Qed.
Print Assumptions c13_fix_conserves.

(* The correspondence check compares the observed tree with the list [explore] returns
   (Check/C13Check.v); that list contains the result of the model's lint/fix loop for EVERY schedule
   of violation order. *)
Theorem c13_explore_complete :
  forall rounds pol starting roots t (p : provider str) r sched,
  In (fix_loop pv_rename (C13Check.lint_pkg_of t) (C13Check.lint_fix_of t) roots find_closest_matching_root
               rounds C13Check.FUEL pol starting sched p r)
     (C13Check.explore rounds pol starting roots t p r).
Proof. exact explore_complete. Qed.
Print Assumptions c13_explore_complete.

(* ---- regression witnesses against the pinned commit (repaired in /repo) ---- *)

(* FindClosestMatchingRoot with a plain string prefix: /w/foo "contains" /w/foobar/y.rego *)
Theorem c13_root_contains_file_pinned_refuted :
  exists path roots,
    let r := find_closest_matching_root_pinned path roots in
    r <> [] /\ r <> path /\ In r roots
    /\ ~ (exists rest, path = trim_suffix r [SLASH] ++ [SLASH] ++ rest).
Proof. exact fcmr_pinned_refuted. Qed.
Print Assumptions c13_root_contains_file_pinned_refuted.

(* Rename that looks at the in-memory map only accepts a target that exists on disk unloaded *)
Theorem c13_rename_pinned_refuted :
  exists (p : provider str) from to p',
    In to (pv_disk p) /\ ~ In to (akeys (pv_files p)) /\ ~ In to (pv_deleted p)
    /\ pv_rename_pinned p from to = RenOk p'
    /\ In to (pv_modified p')
    /\ pv_rename p from to = RenConflict.
Proof. exact rename_pinned_refuted_main. Qed.
Print Assumptions c13_rename_pinned_refuted.

From Coq Require Import String.
Local Open Scope string_scope.

(* deletes before directory creation lose the moved file when the directory cannot be created *)
Theorem c13_commit_pinned_refuted :
  exists fs',
    commit_pinned [lit "/R"] blocked_fs blocked_files [lit "/R/p/x.rego"] [lit "/R/a/x.rego"] = CommitFailed fs'
    /\ aget (fs_files blocked_fs) (lit "/R/p/x.rego") = Some (lit "A")
    /\ fs_files fs' = [(lit "/R/a", lit "blocker")]
    /\ exists fs'', commit [lit "/R"] blocked_fs blocked_files [lit "/R/p/x.rego"] [lit "/R/a/x.rego"] = CommitFailed fs''
                    /\ fs_files fs'' = fs_files blocked_fs.
Proof. exact commit_pinned_refuted_main. Qed.
Print Assumptions c13_commit_pinned_refuted.

(* ---- the hypotheses are satisfiable by non-trivial values ---- *)

(* two files wanting the same place, policy rename: the second one gets x_1.rego, the command succeeds
   and both tags are on disk *)
Definition ex_fs : fsys str :=
  {| fs_files := [(lit "/R/p/x.rego", lit "A"); (lit "/R/q/x.rego", lit "B"); (lit "/R/keep.txt", lit "K")];
     fs_dirs := [lit "/"; lit "/R"; lit "/R/p"; lit "/R/q"] |}.
Definition ex_sel : list str := [lit "/R/p/x.rego"; lit "/R/q/x.rego"].
Definition ex_xs : list (fixres (tagged str)) :=
  [FixMove (lit "/R") (lit "/R/p/x.rego") (lit "/R/a/x.rego");
   FixContent (lit "/R/q/x.rego") (fun c => (fst c, lit "B fixed"));
   FixMove (lit "/R") (lit "/R/q/x.rego") (lit "/R/a/x.rego")].

Example c13_fix_conserves_nonvacuous :
  exists p0 p r fs1,
    fs_wf (tag_fs ex_fs) /\ NoDup (akeys (fs_files ex_fs))
    /\ load_provider (tag_fs ex_fs) ex_sel = Some p0
    /\ Forall preserves_origin ex_xs
    /\ run_fixes pv_rename 8 PRename (akeys (pv_files p0)) p0 new_report ex_xs = SOk p r
    /\ finish_command {| fl_force := true; fl_dry_run := false |} [] no_git_view [lit "/R"] (tag_fs ex_fs)
                      (LDone p r) (pv_deleted p) (pv_modified p) = (OutDone, fs1)
    /\ akeys (fs_files fs1) = [lit "/R/keep.txt"; lit "/R/a/x.rego"; lit "/R/a/x_1.rego"]
    /\ fs_dirs fs1 = [lit "/"; lit "/R"; lit "/R/a"].
Proof.
  do 4 eexists. split; [apply fs_wf_check; vm_compute; reflexivity|].
  split; [vm_compute; repeat constructor; simpl; intuition discriminate|].
  split; [vm_compute; reflexivity|].
  split; [repeat constructor; intros c; reflexivity|].
  split; [vm_compute; reflexivity|].
  split; [vm_compute; reflexivity|].
  split; vm_compute; reflexivity.
Qed.

(* clean-up next to bystanders: after /R/p/a/x.rego is gone, /R/p/a is listed when it holds nothing, and then
   /R/p too; a hidden file in /R/p/a keeps both; a hidden file in /R/p keeps /R/p only; so do a symbolic link
   (a non-directory entry) and an empty sub-directory *)
Definition cu_fs (extra_files extra_dirs : list str) : fsys str :=
  {| fs_files := (lit "/R/keep.txt", lit "K") :: map (fun f => (f, lit "x")) extra_files;
     fs_dirs := [lit "/"; lit "/R"; lit "/R/p"; lit "/R/p/a"] ++ extra_dirs |}.
Example c13_cleanup_only_empty_nonvacuous :
  dir_cleanup_paths (cu_fs [] []) (lit "/R/p/a/x.rego") [lit "/R"] = CwOk [lit "/R/p/a"; lit "/R/p"]
  /\ dir_cleanup_paths (cu_fs [lit "/R/p/a/.gitkeep"] []) (lit "/R/p/a/x.rego") [lit "/R"] = CwOk []
  /\ dir_cleanup_paths (cu_fs [lit "/R/p/.DS_Store"] []) (lit "/R/p/a/x.rego") [lit "/R"] = CwOk [lit "/R/p/a"]
  /\ dir_cleanup_paths (cu_fs [lit "/R/p/latest"] []) (lit "/R/p/a/x.rego") [lit "/R"] = CwOk [lit "/R/p/a"]
  /\ dir_cleanup_paths (cu_fs [] [lit "/R/p/a/sub"]) (lit "/R/p/a/x.rego") [lit "/R"] = CwOk [].
Proof. repeat split; vm_compute; reflexivity. Qed.

(* the candidate loop: x.rego, x_1.rego taken -> x_2.rego *)
Example c13_candidate_fresh_nonvacuous :
  clean_file (lit "/R/a/x.rego") [lit "R"; lit "a"] (lit "x.rego")
  /\ cand_iter 2 (lit "/R/a/x.rego") = lit "/R/a/x_2.rego"
  /\ rename_candidate (lit "/R/a/x_9223372036854775807_test.rego") = lit "/R/a/x_-9223372036854775808_test.rego".
Proof.
  split; [|split; vm_compute; reflexivity].
  split; [reflexivity|]. split; repeat constructor; try discriminate; vm_compute; intuition discriminate.
Qed.

(* policy error: the collision is registered, nothing is written *)
Example c13_conflict_nonvacuous :
  exists p r,
    run_fixes pv_rename 8 PError [lit "/R/p/x.rego"; lit "/R/a/x.rego"]
              (new_provider [(lit "/R/p/x.rego", lit "A"); (lit "/R/a/x.rego", lit "B")] [])
              new_report [FixMove (lit "/R") (lit "/R/p/x.rego") (lit "/R/a/x.rego")] = SOk p r
    /\ has_conflicts r = true.
Proof. do 2 eexists. split; vm_compute; reflexivity. Qed.

(* commit_total: the tree of the example above, one deleted source below the root /R, one target *)
Example c13_commit_total_nonvacuous :
  fs_tree ex_fs
  /\ treg ([lit "R"; lit "a"], lit "x.rego")
  /\ independent [([lit "R"; lit "a"], lit "x.rego")]
  /\ anchored (preserve_dirs [lit "/R"]) (lit "/R/p/x.rego")
  /\ exists fs', commit [lit "/R"] ex_fs [(lit "/R/a/x.rego", lit "A")] [lit "/R/p/x.rego"]
                         (map tpath [([lit "R"; lit "a"], lit "x.rego")]) = CommitOk fs'.
Proof.
  assert (R : forall s, In (lit s) [lit "R"; lit "a"; lit "p"; lit "x.rego"] -> regular (lit s)).
  { intros s H. simpl in H. repeat (destruct H as [H|H]; [rewrite <- H; repeat split; try discriminate; vm_compute; intuition discriminate|]). destruct H. }
  split; [apply fs_tree_check; vm_compute; reflexivity|].
  split; [split; [repeat constructor|]; apply R; simpl; auto 6|].
  split.
  - intros t u [<-|[]] [<-|[]] [k Hk]. vm_compute in Hk.
    destruct k as [|[|[|k]]]; vm_compute in Hk; discriminate.
  - split.
    + exists [lit "R"], [lit "p"], (lit "x.rego"). split; [reflexivity|]. split; [|split].
      * repeat constructor; apply R; simpl; auto 6.
      * apply R; simpl; auto 6.
      * vm_compute. auto.
    + eexists. vm_compute. reflexivity.
Qed.

(* ---- root discovery (round 3; Model/RootDiscovery.v) ------------------------------------------
   The DOWNWARD search of config.FindBundleRootDirectories ([walk_down]) on any tree.  [dir_at p nm t d dn ds]:
   the tree t (spelled p) holds, at any depth, a directory spelled d whose entries are ds; [marker ds]: ds
   holds a FILE ".manifest" or a DIRECTORY ".regal".  A directory is discovered as a root iff it holds a
   marker -- at any depth, whatever its ancestors and siblings hold (markers of their own, or none) -- or a
   discovered .regal directory declares it (project.roots of its config.yaml, its rules directory). *)
From Regal Require Import Model.RootDiscovery Proofs.RootDiscovery.

Theorem c13_roots_discovered_exact :
  forall (p nm : str) (t : rnode) (r : str),
  In r (walk_down p nm t) <->
  (exists dn ds, dir_at p nm t r dn ds /\ marker ds = true)
  \/ (exists d dn ds rcs, dir_at p nm t d dn ds /\ regal_dir ds = Some rcs /\
        In r (declared d (cfg_of_regal rcs) ++ rules_of d rcs)).
Proof. exact roots_discovered_exact. Qed.
Print Assumptions c13_roots_discovered_exact.

(* what FindBundleRootDirectories answers for an argument contains everything the downward walk of that
   argument finds (the upward search only adds) *)
Theorem c13_roots_include_downward_walk :
  forall rp rn t comps p nm cs above roots,
  descend rp rn t comps [] = Some ((p, nm, cs), above) ->
  find_bundle_roots rp rn t comps = Some roots ->
  forall r, In r (walk_down p nm (RDir cs)) -> In r roots.
Proof. exact find_bundle_roots_includes_walk. Qed.
Print Assumptions c13_roots_include_downward_walk.

(* non-vacuity: a bundle nested in a bundle, next to a sibling whose name extends the outer one's, and a
   .regal directory below the inner bundle; no regal config anywhere above.  All four are discovered from
   the top, the inner ones also when the search starts at the outer bundle -- and the variant that stops
   looking at a directory once its .manifest was seen (seeded change C13-5) loses everything below /R/pol. *)
Definition rd_manifest : str * rnode := (MANIFEST, RFile []).
Definition rd_tree : rnode :=
  RDir [(lit "pol", RDir [rd_manifest;
                          (lit "inner", RDir [rd_manifest; (lit "x", RDir [(lit "p.rego", RFile [])]);
                                              (lit "deep", RDir [(REGAL, RDir [])])]);
                          (lit "y", RDir [(lit "p.rego", RFile [])])]);
        (lit "pol-draft", RDir [rd_manifest])].
Example c13_roots_discovered_nonvacuous :
  find_bundle_roots (lit "/R") (lit "R") rd_tree []
    = Some [lit "/R/pol"; lit "/R/pol/inner"; lit "/R/pol/inner/deep"; lit "/R/pol-draft"]
  /\ find_bundle_roots (lit "/R") (lit "R") rd_tree [lit "pol"]
    = Some [lit "/R/pol"; lit "/R/pol/inner"; lit "/R/pol/inner/deep"]
  /\ get_potential_roots (lit "/R") (lit "R") rd_tree [[lit "pol"; lit "y"]] = Some [lit "/R/pol/y"]
  /\ walk_down_skipping (lit "/R") (lit "R") rd_tree = [lit "/R/pol"; lit "/R/pol-draft"]
  /\ dir_at (lit "/R") (lit "R") rd_tree (lit "/R/pol/inner") (lit "inner")
       [rd_manifest; (lit "x", RDir [(lit "p.rego", RFile [])]); (lit "deep", RDir [(REGAL, RDir [])])].
Proof.
  repeat split; try (vm_compute; reflexivity).
  eapply da_below; [left; reflexivity |]. eapply da_below; [right; left; reflexivity |]. apply da_here.
Qed.
