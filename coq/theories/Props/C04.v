(* C04 — Rule enablement and severity follow the documented precedence.
   Definitions: Model/Precedence.v (the model of config.rego / main.rego / bundle.go / linter.go and the
   README specification [spec_cli], [spec_config_level], [spec_decision], [spec_user_level]);
   tables: Gen/RulesTable.v (regenerated from /repo on every check). *)
From Regal Require Import Base.Str Model.Precedence Proofs.Precedence Proofs.RulesTable Gen.RulesTable.

(* ---- Rego: ignored_rule / level_for_rule = the documented first-match chain, for ALL params
        (arbitrary string lists), entries, categories and titles ---- *)

Theorem c04_enabled_iff_spec : forall (p : params) (e : cfg_entry) (cat title : str),
  ignored_rule p e cat title = false <->
  exists l, spec_decision p cat title (entry_level_or_error e) = On l.
Proof. exact enabled_iff_spec_rego. Qed.
Print Assumptions c04_enabled_iff_spec.

Theorem c04_level_eq_spec : forall (p : params) (e : cfg_entry) (cat title l : str),
  spec_decision p cat title (entry_level_or_error e) = On l ->
  level_for_rule p e cat title = l.
Proof. exact level_eq_spec_rego. Qed.
Print Assumptions c04_level_eq_spec.

Theorem c04_decision_eq_spec : forall (p : params) (e : cfg_entry) (cat title : str),
  impl_decision (negb (ignored_rule p e cat title)) (level_for_rule p e cat title)
  = spec_decision p cat title (entry_level_or_error e).
Proof. exact decision_eq_spec_rego. Qed.
Print Assumptions c04_decision_eq_spec.

Theorem c04_level_ignore_iff_ignored : forall (p : params) (e : cfg_entry) (cat title : str),
  level_for_rule p e cat title = s_ignore <-> ignored_rule p e cat title = true.
Proof. exact level_ignore_iff_ignored. Qed.
Print Assumptions c04_level_ignore_iff_ignored.

(* ---- the "overrides" of README 'Ignoring Rules via CLI Flags', one by one, and "all CLI flags override
        configuration provided in file" ---- *)
Theorem c04_disable_beats_everything : forall (p : params) (e : cfg_entry) (cat title : str),
  In title (p_disable p) -> ignored_rule p e cat title = true.
Proof. exact disable_beats_everything. Qed.
Print Assumptions c04_disable_beats_everything.

Theorem c04_enable_beats_category_and_all : forall (p : params) (e : cfg_entry) (cat title : str),
  In title (p_enable p) -> ~ In title (p_disable p) ->
  ignored_rule p e cat title = false /\ level_for_rule p e cat title = s_error.
Proof. exact enable_beats_category_and_all. Qed.
Print Assumptions c04_enable_beats_category_and_all.

Theorem c04_disable_category_beats_enable_all : forall (p : params) (e : cfg_entry) (cat title : str),
  In cat (p_disable_category p) -> ~ In title (p_enable p) -> ignored_rule p e cat title = true.
Proof. exact disable_category_beats_enable_all. Qed.
Print Assumptions c04_disable_category_beats_enable_all.

Theorem c04_enable_category_beats_disable_all : forall (p : params) (e : cfg_entry) (cat title : str),
  In cat (p_enable_category p) -> ~ In cat (p_disable_category p) -> ~ In title (p_disable p) ->
  ignored_rule p e cat title = false /\ level_for_rule p e cat title = s_error.
Proof. exact enable_category_beats_disable_all. Qed.
Print Assumptions c04_enable_category_beats_disable_all.

Theorem c04_cli_overrides_config : forall (p : params) (cat title : str) (e e' : cfg_entry),
  spec_cli p cat title <> None ->
  ignored_rule p e cat title = ignored_rule p e' cat title /\
  level_for_rule p e cat title = level_for_rule p e' cat title.
Proof. exact cli_overrides_config. Qed.
Print Assumptions c04_cli_overrides_config.

(* ---- Go: the merged configuration gives every rule it contains the level
        rule > category default > global default > provided level ("error" without one) ---- *)

Theorem c04_go_levels_eq_chain : forall (provided : rules_map) (u : config) (cat title : str),
  rules_map_wf (c_rules u) = true ->
  rule_level_of (load_config provided (Some u)) cat title
  = match rule_level_of (c_rules u) cat title, rule_level_of provided cat title with
    | None, None => None
    | _, _ => Some (spec_config_level (opt_str (rule_level_of (c_rules u) cat title))
                                      (opt_str (assoc cat (c_cat_defaults u))) (c_global u)
                                      (provided_or_error (provided_conf_levels provided) title))
    end.
Proof. exact go_levels_eq_chain_lemma. Qed.
Print Assumptions c04_go_levels_eq_chain.

(* the chain as pinned before the repair stopped at a category default without a level *)
Theorem c04_go_levels_eq_chain_pinned_refuted :
  exists (provided : rules_map) (u : config) (cat title : str),
    rules_map_wf (c_rules u) = true /\
    rule_level_of provided cat title = Some s_error /\
    rule_level_of (load_config_pinned provided (Some u)) cat title = Some s_error /\
    spec_config_level (opt_str (rule_level_of (c_rules u) cat title))
                      (opt_str (assoc cat (c_cat_defaults u))) (c_global u) s_error = s_ignore.
Proof. exact go_levels_eq_chain_pinned_refuted_lemma. Qed.
Print Assumptions c04_go_levels_eq_chain_pinned_refuted.

(* ---- end to end, for every bundled rule of the tree as it is now (Gen/RulesTable.v): whether it
        can report and the level of its violations are the README chain with the rule's provided
        level as Regal's built-in default ---- *)

Theorem c04_builtin_decision : forall (user : option config) (custom : list (str * str)) (p : params)
                                      (cat title : str) (excluded noticed : bool),
  user_wf user = true ->
  In (cat, title) bundled_rules ->
  exists pl, rule_level_of provided_rules cat title = Some pl /\ level_ok pl = true /\
  let merged := linter_config provided_rules user custom in
  impl_decision (builtin_can_report p merged cat title excluded noticed)
                (violation_level p merged cat title)
  = if excluded || noticed then Off
    else spec_decision p cat title (spec_user_level user cat title pl).
Proof. exact bundled_rule_decision. Qed.
Print Assumptions c04_builtin_decision.

(* ---- identically for a custom rule: the same chain, with "error" as the built-in default ---- *)

Theorem c04_custom_same_as_builtin : forall (provided : rules_map) (user : option config)
                                            (custom : list (str * str)) (p : params)
                                            (cat title : str) (excluded : bool),
  user_wf user = true ->
  In (cat, title) custom ->
  assoc title (provided_conf_levels provided) = None ->
  rule_level_of provided cat title = None ->
  let merged := linter_config provided user custom in
  impl_decision (custom_can_report p merged cat title excluded)
                (violation_level p merged cat title)
  = if excluded then Off
    else spec_decision p cat title (spec_user_level user cat title s_error).
Proof. exact custom_decision_eq_spec. Qed.
Print Assumptions c04_custom_same_as_builtin.

(* on the pinned tree a custom rule escaped `rules.default.level: ignore` *)
Theorem c04_custom_same_as_builtin_pinned_refuted :
  exists (user : config) (cat title : str),
    let merged := linter_config_pinned [] (Some user) in
    impl_decision (custom_can_report no_params merged cat title false)
                  (violation_level no_params merged cat title) = On s_error /\
    spec_decision no_params cat title (spec_user_level (Some user) cat title s_error) = Off.
Proof. exact custom_same_as_builtin_pinned_refuted_lemma. Qed.
Print Assumptions c04_custom_same_as_builtin_pinned_refuted.

(* ---- the list computed up front is exactly the set of rules that can report ---- *)

Theorem c04_enabled_list_exact : forall (user : option config) (custom : list (str * str)) (p : params)
                                        (noticed : str -> str -> bool) (t : str),
  user_wf user = true ->
  let merged := linter_config provided_rules user custom in
  In t (determine_enabled_rules p merged bundled_rules noticed custom) <->
  (exists c, In (c, t) bundled_rules /\ builtin_can_report p merged c t false (noticed c t) = true) \/
  (exists c, In (c, t) custom /\ custom_can_report p merged c t false = true).
Proof. exact bundle_enabled_list_exact. Qed.
Print Assumptions c04_enabled_list_exact.

Theorem c04_enabled_aggregate_list_exact : forall (user : option config) (custom : list (str * str)) (p : params)
                                                  (bundled_agg custom_agg : list (str * str)) (t : str),
  user_wf user = true ->
  (forall c t', In (c, t') bundled_agg -> In (c, t') bundled_rules) ->
  let merged := linter_config provided_rules user custom in
  In t (determine_enabled_aggregate_rules p merged bundled_agg custom_agg) <->
  (exists c, In (c, t) bundled_agg /\ builtin_can_report p merged c t false false = true) \/
  (exists c, In (c, t) custom_agg /\ custom_can_report p merged c t false = true).
Proof. exact bundle_enabled_aggregate_list_exact. Qed.
Print Assumptions c04_enabled_aggregate_list_exact.

Theorem c04_enabled_list_exact_pinned_refuted :
  exists (custom : list (str * str)) (c t : str),
    let merged := linter_config [] None custom in
    In (c, t) custom /\ custom_can_report no_params merged c t false = true /\
    ~ In t (determine_enabled_rules_pinned no_params merged [] (fun _ _ => false)).
Proof. exact enabled_list_exact_pinned_refuted_lemma. Qed.
Print Assumptions c04_enabled_list_exact_pinned_refuted.

(* ---- the same decision at every entry point of main.rego: `report`, `aggregate` and `aggregate_report`,
        each in its bundled and its custom variant ([branch_gate], Model/Precedence.v).  A rule that
        ignored_rule says is off is never evaluated, whatever the file, the notices, or the aggregates
        supplied to the aggregate_report run (they may stem from a run under another configuration) ---- *)

Theorem c04_ignored_rule_never_reports : forall (custom : bool) (b : branch) (p : params) (merged : rules_map)
                                                (cat title : str) (excluded noticed supplied : bool),
  ignored_rule p (entry_of merged cat title) cat title = true ->
  branch_gate custom b p merged cat title excluded noticed supplied = false.
Proof. exact ignored_rule_never_fires. Qed.
Print Assumptions c04_ignored_rule_never_reports.

(* file not excluded, no notice, the rule's key among the supplied aggregates: the three entry points
   are gated alike, for bundled rules and for custom rules *)
Theorem c04_entry_points_gated_alike : forall (custom : bool) (b : branch) (p : params) (merged : rules_map)
                                              (cat title : str),
  branch_gate custom b p merged cat title false false true
  = branch_gate custom BReport p merged cat title false false true.
Proof. exact branch_gates_agree. Qed.
Print Assumptions c04_entry_points_gated_alike.

(* DetermineEnabledAggregateRules lists exactly the rules whose aggregate_report can run for some
   supplied aggregates *)
Theorem c04_enabled_aggregate_list_is_what_aggregate_report_runs :
  forall (user : option config) (custom : list (str * str)) (p : params)
         (bundled_agg custom_agg : list (str * str)) (t : str),
  user_wf user = true ->
  (forall c t', In (c, t') bundled_agg -> In (c, t') bundled_rules) ->
  let merged := linter_config provided_rules user custom in
  In t (determine_enabled_aggregate_rules p merged bundled_agg custom_agg) <->
  (exists c, In (c, t) bundled_agg /\
             exists supplied, branch_gate false BAggregateReport p merged c t false false supplied = true) \/
  (exists c, In (c, t) custom_agg /\
             exists supplied, branch_gate true BAggregateReport p merged c t false false supplied = true).
Proof. exact bundle_enabled_aggregate_list_fires. Qed.
Print Assumptions c04_enabled_aggregate_list_is_what_aggregate_report_runs.

(* ---- the tables this rests on, re-proved against the tree on every check: every bundled rule has a
        provided level in {ignore, warning, error} and vice versa, rule names are unique ---- *)

Theorem c04_tables_consistent : tables_ok bundled_rules provided_rules = true.
Proof. exact tables_ok_bundle. Qed.
Print Assumptions c04_tables_consistent.

(* ---- non-vacuity ---- *)
Example c04_ex_params : params :=
  mkParams true [[98]] [[120]] false [[97]] [[121]].   (* --disable-all --disable-category b --disable x --enable-category a --enable y *)
Example c04_ex_enable_beats_disable_all :
  spec_decision c04_ex_params [98] [121] s_warning = On s_error /\
  ignored_rule c04_ex_params (Some (Some s_warning)) [98] [121] = false /\
  level_for_rule c04_ex_params (Some (Some s_warning)) [98] [121] = s_error.
Proof. vm_compute. repeat split. Qed.
Example c04_ex_category_default_applies :
  let user := mkConfig [([99], [([114], [])])] [([99], s_warning)] s_ignore in
  rules_map_wf (c_rules user) = true /\
  rule_level_of (load_config [([99], [([114], s_error)])] (Some user)) [99] [114] = Some s_warning.
Proof. vm_compute. split; reflexivity. Qed.
Example c04_ex_bundled_rule : In ([98;117;103;115], [99;111;110;115;116;97;110;116;45;99;111;110;100;105;116;105;111;110]) bundled_rules.
Proof. apply pair_in_spec. vm_compute. reflexivity. Qed.
Example c04_ex_custom_hypotheses :
  In ([99], [114]) [([99], [114])] /\ assoc [114] (provided_conf_levels provided_rules) = None /\
  rule_level_of provided_rules [99] [114] = None.
Proof. split; [left; reflexivity|]. vm_compute. split; reflexivity. Qed.
Example c04_ex_user_wf :
  user_wf (Some (mkConfig [([98;117;103;115], [([99;111;110;115;116;97;110;116;45;99;111;110;100;105;116;105;111;110], s_warning)])]
                          [([98;117;103;115], s_ignore)] s_error)) = true.
Proof. reflexivity. Qed.
Example c04_ex_aggregate_subset :
  let agg := [([105;109;112;111;114;116;115], [117;110;114;101;115;111;108;118;101;100;45;105;109;112;111;114;116])] in  (* imports/unresolved-import *)
  forall c t', In (c, t') agg -> In (c, t') bundled_rules.
Proof. intros agg c t' [[= <- <-]|[]]. apply pair_in_spec. vm_compute. reflexivity. Qed.
(* a custom aggregate rule switched off with --disable while aggregates collected for it earlier are supplied:
   no entry point runs; without the --disable every one does *)
Example c04_ex_disabled_custom_aggregate_rule :
  let p := mkParams false [] [[114]] false [] [] in
  ignored_rule p (entry_of (linter_config [] None [([99], [114])]) [99] [114]) [99] [114] = true /\
  branch_gate true BAggregateReport p (linter_config [] None [([99], [114])]) [99] [114] false false true = false /\
  branch_gate true BAggregateReport no_params (linter_config [] None [([99], [114])]) [99] [114] false false true = true /\
  branch_gate true BAggregateReport no_params (linter_config [] None [([99], [114])]) [99] [114] false false false = false.
Proof. vm_compute. repeat split. Qed.
