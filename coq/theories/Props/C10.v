(* C10 — stub, replaced below *)
From Regal Require Import Model.Exit Model.Reporters.
