(* C10 — exit code and every output format faithfully reflect the report.
   Only statements here; proofs live in Proofs/Exit.v and Proofs/Reporters.v.

   Models: Model/Exit.v = RunE of cmd/lint.go (tally against --fail-level), cmd/exit.go, main.go.
   Model/Reporters.v = every Publish of pkg/reporter/reporter.go as a function from the report
   (Model/ReportData.v = pkg/report/report.go) to the records of the fields that format carries;
   [<fmt>_keys] reads (file,row,col,rule,level) back from such a document the way a consumer would
   ([parse_loc] for "file:row:col" strings).  [report_keys r] is that tuple for every violation of r.
   Domain predicates ([files_without_colon], [levels_error_or_warning], [positions_well_formed],
   [xml_clean_keys]) are defined at the end of Model/Reporters.v. *)
From Coq Require Import List NArith Permutation.
From Regal Require Import Model.ReportData Model.Exit Model.Reporters Proofs.Exit Proofs.Reporters.
Import ListNotations.
Local Open Scope N_scope.

(* ---------------------------------------------------------------- exit status *)

(* 1 iff linting itself failed; otherwise 3 iff an error-level violation was found, 2 iff the fail
   level is "warning" and only warnings were found, 0 iff nothing at or above the fail level. *)
Theorem c10_exit_code_spec :
  forall (fail_level : str) (res : lint_result),
  fail_level = L_ERROR \/ fail_level = L_WARNING ->
  (exit_code fail_level res = 1 <-> res = LintFailed) /\
  (forall r, res = LintDone r ->
     (exit_code fail_level res = 3 <-> has_level L_ERROR r) /\
     (exit_code fail_level res = 2 <->
        fail_level = L_WARNING /\ ~ has_level L_ERROR r /\ has_level L_WARNING r) /\
     (exit_code fail_level res = 0 <->
        ~ has_level L_ERROR r /\ (fail_level = L_WARNING -> ~ has_level L_WARNING r))).
Proof. exact exit_code_spec_proof. Qed.
Print Assumptions c10_exit_code_spec.

(* what the code does outside the property's domain: any other --fail-level never fails the command *)
Theorem c10_exit_code_unknown_fail_level :
  forall fail_level r, fail_level <> L_ERROR -> fail_level <> L_WARNING ->
  exit_code fail_level (LintDone r) = 0.
Proof. exact exit_code_other_level. Qed.
Print Assumptions c10_exit_code_unknown_fail_level.

(* ---------------------------------------------------------------- delivery of the report
   (Model/Exit.v: lint_fn = lint() of cmd/lint.go with the results of opening the output channel and
   of the reporter's writes as oracles; file_after = --output-file through getWriterForOutputFile) *)

(* failure to deliver the report is a failure of linting: whatever was found and whatever the fail
   level, the status is 1 when the output channel cannot be opened or a write of the reporter fails *)
Theorem c10_exit_code_delivery_failed :
  forall (fail_level : str) (open_res : io_result) (o : lint_outcome) (publish_res : io_result),
  open_res = IoErr \/ publish_res = IoErr ->
  run_exit fail_level open_res o publish_res = 1.
Proof. exact run_exit_delivery_failed. Qed.
Print Assumptions c10_exit_code_delivery_failed.

(* and these are, with an error of the linter itself, the only ways to status 1; a delivered report
   gives the status of [c10_exit_code_spec] *)
Theorem c10_exit_code_one_iff_not_delivered :
  forall (fail_level : str) (open_res : io_result) (o : lint_outcome) (publish_res : io_result),
  fail_level = L_ERROR \/ fail_level = L_WARNING ->
  (run_exit fail_level open_res o publish_res = 1 <->
   open_res = IoErr \/ o = LintErr \/ publish_res = IoErr).
Proof. exact run_exit_one_iff. Qed.
Print Assumptions c10_exit_code_one_iff_not_delivered.

Theorem c10_exit_code_delivered :
  forall (fail_level : str) (r : report),
  run_exit fail_level IoOk (Linted r) IoOk = exit_code fail_level (LintDone r).
Proof. exact run_exit_delivered. Qed.
Print Assumptions c10_exit_code_delivered.

(* after a successful run the output file holds the rendering of THIS run's report and nothing
   else, whatever the file held before (no file, a shorter, a longer or an unrelated content) *)
Theorem c10_output_file_is_this_runs_rendering :
  forall (prev : option str) (rendering : str), file_after prev rendering = rendering.
Proof. exact file_after_is_rendering. Qed.
Print Assumptions c10_output_file_is_this_runs_rendering.

(* why the truncation is needed (regression for the class "output file opened without O_TRUNC"):
   a shorter rendering written over a longer previous content leaves the old tail; runs whose
   rendering is at least as long as the previous content cannot tell the difference *)
Theorem c10_output_file_without_truncation_refuted :
  exists (prev : option str) (rendering : str), file_after_keeping prev rendering <> rendering.
Proof. exists (Some [111; 108; 100; 32; 116; 97; 105; 108]), [110; 101; 119]. vm_compute. discriminate. Qed.
Print Assumptions c10_output_file_without_truncation_refuted.

Theorem c10_output_file_without_truncation_partial :
  forall (prev : option str) (rendering : str),
  (List.length (match prev with Some s => s | None => [] end) <= List.length rendering)%nat ->
  file_after_keeping prev rendering = rendering.
Proof. exact file_after_keeping_ok_when_not_shorter. Qed.
Print Assumptions c10_output_file_without_truncation_partial.

(* ---------------------------------------------------------------- pretty (festive = pretty) *)

(* every violation once, in report order, with file, position, rule and level — for every cut
   function of the Text row, with and without colour support *)
Theorem c10_pretty_entries_exactly_once :
  forall (nocolor : bool) (r : report),
  files_without_colon r ->
  (nocolor = false -> levels_error_or_warning r) ->
  pretty_keys (pretty nocolor r) = report_keys r.
Proof. intros nocolor r. exact (pretty_entries_proof pretty_text nocolor r). Qed.
Print Assumptions c10_pretty_entries_exactly_once.

(* with colours the level is only the colour of the description: any level that is not
   "warning" prints red, so a third level cannot be read back *)
Theorem c10_pretty_colour_other_level_refuted :
  exists r, files_without_colon r /\ pretty_keys (pretty false r) <> report_keys r.
Proof. exact pretty_colour_level_refuted. Qed.
Print Assumptions c10_pretty_colour_other_level_refuted.

(* "file:row:col" is ambiguous when the file name itself ends in ":digits:digits" *)
Theorem c10_location_string_ambiguous_refuted :
  exists l1 l2, (l_file l1, l_row l1, l_col l1) <> (l_file l2, l_row l2, l_col l2) /\
                loc_string l1 = loc_string l2.
Proof. exact loc_string_ambiguous_proof. Qed.
Print Assumptions c10_location_string_ambiguous_refuted.

(* the Text row: cutting a long line never produces invalid UTF-8 … *)
Theorem c10_pretty_text_valid_utf8 :
  forall t, utf8_valid t = true -> utf8_valid (pretty_text t) = true.
Proof. exact pretty_text_valid_proof. Qed.
Print Assumptions c10_pretty_text_valid_utf8.

(* … and shows a prefix of the first 117 bytes *)
Theorem c10_pretty_text_cut_is_prefix :
  forall t, exists rest, firstn TEXT_CUT t = cut_at_rune t TEXT_CUT ++ rest.
Proof. intros t. exact (cut_at_rune_prefix t TEXT_CUT). Qed.
Print Assumptions c10_pretty_text_cut_is_prefix.

(* backing up to a rune start loses at most 3 of the 117 bytes *)
Theorem c10_pretty_text_cut_bounds :
  forall t, utf8_valid t = true -> (TEXT_CUT < length t)%nat ->
  (TEXT_CUT <= length (cut_at_rune t TEXT_CUT) + 3)%nat /\ (length (cut_at_rune t TEXT_CUT) <= TEXT_CUT)%nat.
Proof. intros t. exact (cut_at_rune_bounds t TEXT_CUT). Qed.
Print Assumptions c10_pretty_text_cut_bounds.

(* regression witness: the byte cut of the pinned commit split a two-byte character
   (fixed in /repo by commit ef39a79) *)
Theorem c10_pretty_text_valid_utf8_pinned_refuted :
  exists t, utf8_valid t = true /\ utf8_valid (pretty_text_pinned t) = false /\
            utf8_valid (pretty_text t) = true.
Proof. exact pretty_text_pinned_refuted_proof. Qed.
Print Assumptions c10_pretty_text_valid_utf8_pinned_refuted.

(* ---------------------------------------------------------------- compact *)

(* the compact table has a Location and a Description column only: rule and level are not
   presented at all (open finding) … *)
Theorem c10_compact_entries_exactly_once_refuted :
  exists r1 r2, compact r1 = compact r2 /\ report_keys r1 <> report_keys r2.
Proof. exact compact_rule_level_refuted. Qed.
Print Assumptions c10_compact_entries_exactly_once_refuted.

(* … file and position of every violation are, once, in report order *)
Theorem c10_compact_entries_exactly_once_partial :
  forall r, files_without_colon r -> compact_keys (compact r) = map pos_only (report_keys r).
Proof. exact compact_positions_proof. Qed.
Print Assumptions c10_compact_entries_exactly_once_partial.

(* ---------------------------------------------------------------- github *)

(* workflow commands carry level, file, line, col; the rule is in the table row of the same index *)
Theorem c10_github_entries_exactly_once :
  forall (nocolor : bool) (r : report), github_keys (github nocolor r) = report_keys r.
Proof. intros nocolor r. exact (github_entries_proof pretty_text nocolor r). Qed.
Print Assumptions c10_github_entries_exactly_once.

Theorem c10_github_table_entries_exactly_once :
  forall (nocolor : bool) (r : report),
  files_without_colon r -> (nocolor = false -> levels_error_or_warning r) ->
  pretty_keys (gd_pretty (github nocolor r)) = report_keys r.
Proof. intros nocolor r. exact (github_table_proof pretty_text nocolor r). Qed.
Print Assumptions c10_github_table_entries_exactly_once.

(* byte level: the command lines regal writes are read back by the GitHub Actions runner's parser
   ([gh_parse_command] = ActionCommand.TryParseV2) as exactly the annotations above, whatever bytes the
   file name and the message contain *)
Theorem c10_github_command_roundtrip :
  forall a, gh_wf a -> gh_parse_command (gh_command_line a) = Some a.
Proof. exact gh_parse_render. Qed.
Print Assumptions c10_github_command_roundtrip.

Theorem c10_github_lines_parse_back :
  forall nocolor r,
  (forall v, In v (r_violations r) -> gh_wf (gh_annotation_of v)) ->
  map gh_parse_command (gd_lines (github nocolor r)) = map Some (gd_annotations (github nocolor r)).
Proof. intros nocolor r. exact (github_lines_parse pretty_text nocolor r). Qed.
Print Assumptions c10_github_lines_parse_back.

(* regression witness: without escaping, file "a,b" is read as file "a" (fixed in /repo by commit 6b7e728) *)
Theorem c10_github_command_roundtrip_pinned_refuted :
  exists a, gh_wf a /\ gh_parse_command (gh_command_line_pinned a) <> Some a /\
            gh_parse_command (gh_command_line a) = Some a.
Proof. exact gh_parse_render_pinned_refuted. Qed.
Print Assumptions c10_github_command_roundtrip_pinned_refuted.

(* ---------------------------------------------------------------- sarif *)

Theorem c10_sarif_entries_exactly_once :
  forall r, positions_well_formed r -> sarif_keys (sarif r) = report_keys r.
Proof. exact sarif_entries_proof. Qed.
Print Assumptions c10_sarif_entries_exactly_once.

(* every notice whose severity is not "none" is an informational result, once, in order *)
Theorem c10_sarif_notices_exactly_once :
  forall r, sarif_notice_titles (sarif r) = reported_notice_titles r.
Proof. exact sarif_notices_proof. Qed.
Print Assumptions c10_sarif_notices_exactly_once.

(* outside the domain: a row with column 0 loses the row (region only when both are positive) *)
Theorem c10_sarif_position_without_column_refuted :
  exists r, sarif_keys (sarif r) <> report_keys r.
Proof. exact sarif_position_refuted. Qed.
Print Assumptions c10_sarif_position_without_column_refuted.

(* Internal consistency of the sarif document (seed round 3): a result names its rule twice, by id
   (ruleId = [sr_rule]) and by position in tool.driver.rules (ruleIndex = [sr_index]); consumers look
   the rule's description / help URI / category up through ruleIndex.  In the model's document every
   result HAS a ruleIndex, it is inside the rules list, and the rule found there has the result's
   ruleId: "every violation ... with its rule", whichever of the two references is read. *)
Theorem c10_sarif_rule_index_consistent :
  forall r x, In x (sd_results (sarif r)) ->
  exists i ru, sr_index x = Some (N.of_nat i) /\ nth_error (sd_rules (sarif r)) i = Some ru /\
               sru_id ru = sr_rule x.
Proof. exact sarif_rule_index_proof. Qed.
Print Assumptions c10_sarif_rule_index_consistent.

(* the same, together with "the file of every result is in the artifacts list", as the boolean that the
   correspondence evaluates on every OBSERVED document (Check.C10Check.spec_failures, code 17) *)
Theorem c10_sarif_refs_consistent :
  forall r, sarif_refs_consistent (sarif r) = true.
Proof. exact sarif_refs_consistent_proof. Qed.
Print Assumptions c10_sarif_refs_consistent.

(* regression for the class "rules re-ordered after the results were created": the keys read through
   ruleId are still exactly those of the report, the cross-reference is broken (so a predicate that
   reads ruleId alone cannot see it; the consistency predicate does) *)
Theorem c10_sarif_reordered_rules_refuted :
  exists r, positions_well_formed r /\
            sarif_keys (sarif_rules_reordered (sarif r)) = report_keys r /\
            sarif_refs_consistent (sarif_rules_reordered (sarif r)) = false.
Proof. exact sarif_reordered_rules_refuted_proof. Qed.
Print Assumptions c10_sarif_reordered_rules_refuted.

(* ---------------------------------------------------------------- junit *)

(* one suite per file: the test cases of all suites are the violations of the report, each once *)
Theorem c10_junit_entries_exactly_once :
  forall r, files_without_colon r -> xml_clean_keys r ->
  Permutation (junit_keys (junit r)) (report_keys r).
Proof. exact junit_entries_proof. Qed.
Print Assumptions c10_junit_entries_exactly_once.

(* the tests= and failures= attributes count the violations; no file has two suites *)
Theorem c10_junit_counts :
  forall r,
  jd_tests (junit r) = N.of_nat (length (r_violations r)) /\
  jd_failures (junit r) = N.of_nat (length (r_violations r)) /\
  NoDup (junit_files (map file_of (r_violations r))).
Proof. exact junit_counts_proof. Qed.
Print Assumptions c10_junit_counts.

(* regression witness: at the pinned commit two violations in one file gave two suites with two test
   cases each (fixed in /repo by commit 669b4f4) *)
Theorem c10_junit_entries_exactly_once_pinned_refuted :
  exists r, files_without_colon r /\ xml_clean_keys r /\
            ~ Permutation (junit_keys (junit_pinned r)) (report_keys r) /\
            length (junit_keys (junit_pinned r)) = 4%nat /\ length (report_keys r) = 2%nat.
Proof. exact junit_pinned_refuted_proof. Qed.
Print Assumptions c10_junit_entries_exactly_once_pinned_refuted.

(* ---------------------------------------------------------------- json *)

(* field-level round trip through the struct tags: only the fields tagged json:"-" are reset *)
Theorem c10_json_roundtrip :
  forall r, dec_report (enc_report r) = Some (erase_report r).
Proof. exact json_roundtrip_proof. Qed.
Print Assumptions c10_json_roundtrip.

Theorem c10_json_entries_exactly_once :
  forall r, exists r', dec_report (enc_report r) = Some r' /\ report_keys r' = report_keys r.
Proof. exact json_entries_proof. Qed.
Print Assumptions c10_json_entries_exactly_once.

(* ---------------------------------------------------------------- non-vacuity *)
From Coq Require Import String.
Local Open Scope string_scope.
Local Open Scope N_scope.
Local Open Scope list_scope.

Definition ex_report : report :=
  mk_report [mk_violation (lit "opa-fmt") L_ERROR (lit "a.rego") 1 1;
             mk_violation (lit "line-length") L_WARNING (lit "b.rego") 7 121;
             mk_violation (lit "todo-comment") L_WARNING (lit "a.rego") 3 1;
             mk_violation (lit "unresolved-import") L_ERROR (lit "a.rego") 0 0].

Example c10_hypotheses_satisfiable :
  files_without_colon ex_report /\ levels_error_or_warning ex_report /\
  positions_well_formed ex_report /\ xml_clean_keys ex_report /\
  List.length (report_keys ex_report) = 4%nat /\
  junit_keys (junit ex_report) <> report_keys ex_report (* grouped by file: a real permutation *) /\
  pretty_keys (pretty false ex_report) = report_keys ex_report.
Proof.
  split; [|split; [|split; [|split; [|split; [|split]]]]].
  - intros v [<-|[<-|[<-|[<-|[]]]]]; vm_compute; intuition discriminate.
  - intros v [<-|[<-|[<-|[<-|[]]]]]; vm_compute; auto.
  - intros v [<-|[<-|[<-|[<-|[]]]]]; vm_compute; intuition (try discriminate; auto).
  - intros v [<-|[<-|[<-|[<-|[]]]]]; vm_compute; auto.
  - reflexivity.
  - vm_compute. discriminate.
  - vm_compute. reflexivity.
Qed.

Example c10_exit_codes :
  exit_code L_ERROR (LintDone ex_report) = 3 /\
  exit_code L_WARNING (LintDone (mk_report [mk_violation (lit "t") L_WARNING (lit "a") 1 1])) = 2 /\
  exit_code L_ERROR (LintDone (mk_report [mk_violation (lit "t") L_WARNING (lit "a") 1 1])) = 0 /\
  exit_code L_WARNING LintFailed = 1.
Proof. repeat split. Qed.

Example c10_delivery_examples :
  run_exit L_ERROR IoOk (Linted ex_report) IoErr = 1 /\
  run_exit L_ERROR IoErr (Linted ex_report) IoOk = 1 /\
  run_exit L_ERROR IoOk (Linted ex_report) IoOk = 3 /\
  file_after (Some (lit "a longer previous report")) (lit "short") = lit "short" /\
  file_after_keeping (Some (lit "a longer previous report")) (lit "short") = lit "shortger previous report".
Proof. repeat split. Qed.

Example c10_cut_example :
  pretty_text (flat_map (fun _ => [195; 169]) (seq 0 59) ++ [97; 98])%list =
  (flat_map (fun _ => [195; 169]) (seq 0 58) ++ ELLIPSIS)%list.
Proof. vm_compute. reflexivity. Qed.
