(* C11: automatic fixes never change what a policy means.  Property theorems about Model/Fixes.v
   (the three location-based text fixes of pkg/fixer/fixes, byteIndexOfColumn, and the column the
   use-assignment-operator rule reports).  opa-fmt is an oracle: its clause is checked by the harness. *)
From Coq Require Import String.
From Regal Require Import Base.StrLit Model.Fixes Proofs.Fixes.
Local Open Scope nat_scope.

(* ---- effect: what a fix returns is the old content with exactly the documented splice at the given
        position; it returns nothing exactly when the guard fails (all contents, all locations) ---- *)

Theorem c11_uao_effect : forall content l c',
  uao_fix content [l] = Changed c' ->
  exists a pre post b,
    content = a ++ pre ++ EQ :: post ++ b /\
    c' = a ++ pre ++ COLON :: EQ :: post ++ b /\
    (1 <= l_row l)%Z /\ count_byte NL a = Z.to_nat (l_row l - 1) /\
    (a = [] \/ exists a', a = a' ++ [NL]) /\ (b = [] \/ exists b', b = NL :: b') /\
    ~ In NL pre /\ ~ In NL post /\
    byte_index_of_column (pre ++ EQ :: post) (l_col l) = Some (length pre) /\
    lone_eq (pre ++ EQ :: post) (length pre) = true.
Proof. exact uao_effect. Qed.
Print Assumptions c11_uao_effect.

Theorem c11_uao_nothing_iff_guard_fails : forall content l,
  uao_fix content [l] = Unchanged <->
  (forall line idx, get_line (lines_of content) (l_row l) = Some line ->
                    byte_index_of_column line (l_col l) = Some idx -> lone_eq line idx = false).
Proof. exact uao_unchanged_iff. Qed.
Print Assumptions c11_uao_nothing_iff_guard_fails.

Theorem c11_nwc_effect : forall content l c',
  nwc_fix content [l] = Changed c' ->
  exists a pre post b,
    content = a ++ pre ++ HASH :: post ++ b /\
    c' = a ++ pre ++ HASH :: SP :: post ++ b /\
    (1 <= l_row l)%Z /\ count_byte NL a = Z.to_nat (l_row l - 1) /\
    (a = [] \/ exists a', a = a' ++ [NL]) /\ (b = [] \/ exists b', b = NL :: b') /\
    ~ In NL pre /\ ~ In NL post /\
    byte_index_of_column (pre ++ HASH :: post) (l_col l) = Some (length pre).
Proof. exact nwc_effect. Qed.
Print Assumptions c11_nwc_effect.

Theorem c11_nwc_nothing_iff_guard_fails : forall content l,
  nwc_fix content [l] = Unchanged <->
  (forall line idx, get_line (lines_of content) (l_row l) = Some line ->
                    byte_index_of_column line (l_col l) = Some idx -> nth_error line idx <> Some HASH).
Proof. exact nwc_unchanged_iff. Qed.
Print Assumptions c11_nwc_nothing_iff_guard_fails.

Theorem c11_nrr_effect : forall content l c',
  nrr_fix content [l] = Changed c' ->
  exists a pre body post b body',
    content = a ++ pre ++ DQ :: body ++ DQ :: post ++ b /\
    c' = a ++ pre ++ BT :: body' ++ BT :: post ++ b /\
    unesc_pairs body = Some body' /\
    (1 <= l_row l)%Z /\ count_byte NL a = Z.to_nat (l_row l - 1) /\
    (a = [] \/ exists a', a = a' ++ [NL]) /\ (b = [] \/ exists b', b = NL :: b') /\
    ~ In NL pre /\ ~ In NL body /\ ~ In NL post /\
    byte_index_of_column (pre ++ DQ :: body ++ DQ :: post) (l_col l) = Some (length pre).
Proof. exact nrr_effect. Qed.
Print Assumptions c11_nrr_effect.

Theorem c11_nrr_nothing_iff_guard_fails : forall content l,
  nrr_fix content [l] = Unchanged <->
  (forall line start rest, get_line (lines_of content) (l_row l) = Some line ->
     byte_index_of_column line (l_col l) = Some start -> skipn start line = DQ :: rest ->
     scan_body rest = None).
Proof.
  intros content l. rewrite nrr_unchanged_iff. split.
  - intros H line start rest Hg. apply nrr_line_none_iff. apply H. exact Hg.
  - intros H line Hg. apply nrr_line_none_iff. intros start rest. apply H. exact Hg.
Qed.
Print Assumptions c11_nrr_nothing_iff_guard_fails.

(* columns are characters: the byte index is the length of the first col-1 characters *)
Theorem c11_column_counts_characters : forall line col i,
  byte_index_of_column line col = Some i ->
  exists pre r post,
    runes line = pre ++ r :: post /\ Z.of_nat (length pre) = (col - 1)%Z /\
    i = length (concat pre) /\ line = concat pre ++ r ++ concat post /\ r <> [].
Proof. exact boc_spec. Qed.
Print Assumptions c11_column_counts_characters.

(* ---- the raw string written by non-raw-regex-pattern denotes the same pattern ---- *)
Theorem c11_nrr_value_preserved : forall content l c',
  nrr_fix content [l] = Changed c' ->
  exists a body b body',
    content = a ++ DQ :: body ++ DQ :: b /\ c' = a ++ BT :: body' ++ BT :: b /\
    interp_value body = Some body' /\ ~ In BT body' /\ ~ In DQ body' /\ ~ In NL body'.
Proof. exact nrr_value_preserved. Qed.
Print Assumptions c11_nrr_value_preserved.

(* ---- the column the use-assignment-operator rule reports is the operator: the last character, blanks
        aside, before the value of the head; it is read in code whenever the value is ---- *)
Theorem c11_uao_targets_operator : forall line vcol col,
  operator_col line vcol = Some col ->
  exists pre ws rest,
    line = pre ++ EQ :: ws ++ rest /\
    forallb is_blank ws = true /\
    rest = concat (skipn (Z.to_nat (vcol - 1)) (runes line)) /\
    byte_index_of_column line col = Some (length pre) /\
    (forall st, lex_from st (pre ++ EQ :: ws) = LCode -> lex_from st pre = LCode).
Proof. exact uao_targets_operator. Qed.
Print Assumptions c11_uao_targets_operator.

Theorem c11_uao_fix_hits_operator : forall line vcol col line',
  operator_col line vcol = Some col -> uao_line line col = Some line' ->
  exists pre ws rest,
    line = pre ++ EQ :: ws ++ rest /\ line' = pre ++ COLON :: EQ :: ws ++ rest /\
    forallb is_blank ws = true /\ rest = concat (skipn (Z.to_nat (vcol - 1)) (runes line)).
Proof. exact uao_fix_hits_operator. Qed.
Print Assumptions c11_uao_fix_hits_operator.

(* the pinned column (_eq_col: first "=" of the line) pointed inside a string literal, and the pinned
   fix (byte index = column - 1, guard: any '=') rewrote the literal:  f("a=b") = 1  *)
Theorem c11_uao_targets_operator_pinned_refuted :
  exists line line',
    let col := eq_col_pinned line in
    let idx := Z.to_nat (col - 1) in
    nth_error line idx = Some EQ /\ lex_state (firstn idx line) = LStr /\
    uao_line_pinned line col = Some line' /\ line' = lit "f(""a:=b"") = 1".
Proof. exists (lit "f(""a=b"") = 1"). eexists. vm_compute. repeat split. Qed.
Print Assumptions c11_uao_targets_operator_pinned_refuted.

(* the pinned fixes used the character column as a byte index: after multi-byte text it is another
   byte, here a '#' inside a string:  x := "éé#"#c  with the comment at column 11 *)
Theorem c11_byte_column_pinned_refuted :
  exists line col,
    nth_error line (Z.to_nat (col - 1)) = Some HASH /\
    lex_state (firstn (Z.to_nat (col - 1)) line) = LStr /\
    exists i, byte_index_of_column line col = Some i /\ nth_error line i = Some HASH /\
              lex_state (firstn i line) = LCode /\ i <> Z.to_nat (col - 1).
Proof.
  exists ([120; 32; 58; 61; 32; 34; 195; 169; 195; 169; 35; 34; 35; 99]%N), 11%Z.
  vm_compute. repeat split. exists 12. repeat split. discriminate.
Qed.
Print Assumptions c11_byte_column_pinned_refuted.

(* ---- locations of one lint pass: fixes on different rows do not disturb each other (this is what the
        fixer relies on after a file was changed); on the same row they do ---- *)
Theorem c11_stale_columns_safe : forall f1 f2 ls l1 l2 ls1,
  l_row l1 <> l_row l2 ->
  line_step f1 ls l1 = Some ls1 ->
  get_line ls1 (l_row l2) = get_line ls (l_row l2) /\
  (forall ls2, line_step f2 ls1 l2 = Some ls2 ->
     exists ls2', line_step f2 ls l2 = Some ls2' /\ line_step f1 ls2' l1 = Some ls2).
Proof. exact stale_columns_safe. Qed.
Print Assumptions c11_stale_columns_safe.

(* what the fixer relies on once a file was changed within an iteration: a location-based fix changes
   nothing but the row of its location (same number of rows, every other row byte for byte) *)
Theorem c11_text_fix_changes_one_row : forall content l c',
  uao_fix content [l] = Changed c' \/ nwc_fix content [l] = Changed c' \/ nrr_fix content [l] = Changed c' ->
  length (lines_of c') = length (lines_of content) /\
  forall r, r <> l_row l -> get_line (lines_of c') r = get_line (lines_of content) r.
Proof. exact text_fix_changes_one_row. Qed.
Print Assumptions c11_text_fix_changes_one_row.

Theorem c11_stale_same_row_refuted :
  exists ls l1 l2 ls1 ls2 ls2' ls3,
    l_row l1 = l_row l2 /\
    nrr_step ls l1 = Some ls1 /\ nrr_step ls1 l2 = Some ls2 /\
    nrr_step ls l2 = Some ls2' /\ nrr_step ls2' l1 = Some ls3 /\ ls2 <> ls3.
Proof.
  exists [lit "m(""\\d"","""", ""x"")"], {| l_row := 1; l_col := 3 |}, {| l_row := 1; l_col := 9 |}.
  do 4 eexists. vm_compute. repeat split. discriminate.
Qed.
Print Assumptions c11_stale_same_row_refuted.

(* ---- opa-fmt / use-rego-v1: the Fmt fix keeps its options (format.Opts) between the files of a run
        (one shared instance per rule name).  For every parser and formatter (oracles): what Fix returns
        for a file is a function of that file alone - not of the Rego version left in the options by the
        files handled before, nor of their order ---- *)
Theorem c11_fmt_result_independent_of_instance_state : forall parse_module format_ast st1 st2 c,
  fs_other st1 = fs_other st2 ->
  snd (fmt_fix parse_module format_ast st1 c) = snd (fmt_fix parse_module format_ast st2 c).
Proof. exact fmt_fix_state_independent. Qed.
Print Assumptions c11_fmt_result_independent_of_instance_state.

Theorem c11_fmt_run_history_independent : forall parse_module format_ast cs st,
  fmt_run parse_module format_ast st cs = map (fun c => snd (fmt_fix parse_module format_ast st c)) cs.
Proof. exact fmt_run_history_independent. Qed.
Print Assumptions c11_fmt_run_history_independent.

Theorem c11_fmt_run_any_position : forall parse_module format_ast st pre c post,
  fmt_run parse_module format_ast st (pre ++ c :: post)
  = fmt_run parse_module format_ast st pre ++ snd (fmt_fix parse_module format_ast st c)
                                           :: fmt_run parse_module format_ast st post.
Proof. exact fmt_run_app. Qed.
Print Assumptions c11_fmt_run_any_position.

(* the new contents are OPA's formatter output for the version of the module itself (a v0 module: the
   syntax valid in v0 and v1); nothing is returned exactly when that output is the file *)
Theorem c11_fmt_effect : forall parse_module format_ast st c out,
  snd (fmt_fix parse_module format_ast st c) = FmtChanged out ->
  exists mv, parse_module (fc_version c) (fc_name c) (fc_contents c) = Some mv /\
             format_ast (fmt_target mv) (fs_other st) (fc_version c) (fc_name c) (fc_contents c) = Some out /\
             out <> fc_contents c /\ fc_name c <> [].
Proof. exact fmt_effect. Qed.
Print Assumptions c11_fmt_effect.

Theorem c11_fmt_nothing_iff_formatted : forall parse_module format_ast st c,
  snd (fmt_fix parse_module format_ast st c) = FmtNone <->
  fc_name c <> [] /\
  exists mv, parse_module (fc_version c) (fc_name c) (fc_contents c) = Some mv /\
             format_ast (fmt_target mv) (fs_other st) (fc_version c) (fc_name c) (fc_contents c)
             = Some (fc_contents c).
Proof. exact fmt_nothing_iff. Qed.
Print Assumptions c11_fmt_nothing_iff_formatted.

(* regression: a Fix that only ever raises the version found in the options (a high-water mark on a
   shared instance) gives a v0 file handled after a v1 file another result than the same file alone;
   the modelled code does not *)
Theorem c11_fmt_keep_newest_refuted :
  exists st c1 c0,
    fmt_run_keep_newest toy_parse toy_format st [c0] <> [] /\
    (exists o, fmt_run_keep_newest toy_parse toy_format st [c1; c0]
               = [snd (fmt_fix_keep_newest toy_parse toy_format st c1); o] /\
               o <> snd (fmt_fix_keep_newest toy_parse toy_format st c0)) /\
    fmt_run toy_parse toy_format st [c1; c0]
    = [snd (fmt_fix toy_parse toy_format st c1); snd (fmt_fix toy_parse toy_format st c0)].
Proof. exact fmt_keep_newest_depends_on_history. Qed.
Print Assumptions c11_fmt_keep_newest_refuted.

(* ---- non-vacuity ---- *)
Example c11_ex_uao :
  uao_fix (lit "package p
f(""a=b"") = 1") [{| l_row := 2; l_col := 10 |}] = Changed (lit "package p
f(""a=b"") := 1").
Proof. vm_compute. reflexivity. Qed.

Example c11_ex_operator_col :
  operator_col (lit "f(""a=b"") = 1") 12 = Some 10%Z /\ eq_col_pinned (lit "f(""a=b"") = 1") = 5%Z.
Proof. vm_compute. split; reflexivity. Qed.

Example c11_ex_nwc :
  nwc_fix [120; 32; 58; 61; 32; 34; 195; 169; 195; 169; 35; 34; 35; 99]%N [{| l_row := 1; l_col := 11 |}]
  = Changed [120; 32; 58; 61; 32; 34; 195; 169; 195; 169; 35; 34; 35; 32; 99]%N.
Proof. vm_compute. reflexivity. Qed.

Example c11_ex_nrr :
  nrr_fix (lit "a if regex.match(""\\d+"", x)") [{| l_row := 1; l_col := 18 |}]
  = Changed (lit "a if regex.match(`\d+`, x)")
  /\ nrr_fix (lit "a if regex.match(""\\d\n"", x)") [{| l_row := 1; l_col := 18 |}] = Unchanged
  /\ nrr_fix (lit "a if regex.match(""\\d`"", x)") [{| l_row := 1; l_col := 18 |}] = Unchanged.
Proof. vm_compute. repeat split. Qed.

Example c11_ex_stale_rows :
  exists ls1, line_step uao_line [lit "a = 1"; lit "b = 2"] {| l_row := 1; l_col := 3 |} = Some ls1 /\
              line_step uao_line ls1 {| l_row := 2; l_col := 3 |} = Some [lit "a := 1"; lit "b := 2"].
Proof. eexists. vm_compute. split; reflexivity. Qed.

Example c11_ex_fmt :
  fmt_run toy_parse toy_format {| fs_version := RvV1; fs_other := 0 |}
    [{| fc_name := [112%N]; fc_contents := [49%N]; fc_version := RvUndef |};
     {| fc_name := [113%N]; fc_contents := [48%N]; fc_version := RvUndef |};
     {| fc_name := []; fc_contents := [48%N]; fc_version := RvUndef |}]
  = [FmtChanged [3%N; 49%N]; FmtChanged [2%N; 48%N]; FmtErr].
Proof. vm_compute. reflexivity. Qed.
