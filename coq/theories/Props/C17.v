(* C17 — the language server survives any message sequence (PARTIAL claim).
   Model: Model/LspGuards.v — per handled method and per worker loop body the guard skeleton (which
   pointers are dereferenced / slices indexed under which nil / len tests), and the channel network of
   buffered job queues.  Data races and panics inside callee packages are only exercised by the harness
   (race detector in the thorough tier); they are not proved absent. *)
From Coq Require Import List NArith Bool Lia.
From Regal Require Import Base.StrLit Model.LspGuards Gen.LspShape Proofs.LspGuards Model.LspCache Proofs.LspCache.
From Regal Require Model.LspSiteGuards Proofs.LspSiteGuards.
Import ListNotations.
Local Open Scope nat_scope.

(* No handler or worker skeleton of the current revision can panic, for any valuation of the facts its
   guards test (any abstract state, any well-formed message) and whatever other goroutines do to the
   re-read facts ([adv]). *)
Theorem no_panic : forall (u : unit_) (e : env) (adv : list bool), exec (skeleton Current u) e adv = Ok.
Proof. exact no_panic_lemma. Qed.
Print Assumptions no_panic.

(* The pinned revision is refuted: five witnesses (each was reproduced on the real server and repaired). *)
Theorem no_panic_pinned_refuted :
  exec (skeleton Pinned HDidSave) (env_of [FTextPresent; FTextCRLF]) [] = Panic /\
  exec (skeleton Pinned HDidDeleteFiles) (env_of [FCfgLoaded]) [] = Panic /\
  exec (skeleton Pinned HDidCreateFiles) (env_of [FCfgLoaded]) [] = Panic /\
  exec (skeleton Pinned HCodeAction) (env_of [FCfgLoaded; FDiagPresent; FClientVSCode]) [] = Panic /\
  exec (skeleton Pinned WConfigReload) (env_of [FCfgLoaded]) [true; false] = Panic.
Proof.
  exact (conj pinned_didsave_panics (conj pinned_diddelete_panics (conj pinned_didcreate_panics
          (conj pinned_codeaction_panics pinned_config_goroutine_panics)))).
Qed.
Print Assumptions no_panic_pinned_refuted.

(* The static check used to discharge [no_panic] is sound for every skeleton, so a skeleton regenerated
   or edited later is covered by re-running the check. *)
Theorem guard_check_sound :
  forall (p : prog) (e : env) (adv : list bool), safe [] p = true -> exec p e adv = Ok.
Proof. exact guard_check_sound_lemma. Qed.
Print Assumptions guard_check_sound.

Example guard_check_nonvacuous :
  safe [] (skeleton Current HDidSave) = true /\ safe [] (skeleton Pinned HDidSave) = false /\
  accesses (skeleton Current HDidSave) = [ADeref PText; ADeref PCfg].
Proof. vm_compute. repeat split. Qed.

(* Channel network: processing one queued job strictly decreases the potential (so with no new client
   message at most [potential n] job steps can happen), and a non-idle network always has a stage whose
   consumer can take its next job whatever that job emits: no deadlock on the buffered channels. *)
Theorem network_terminates :
  forall (steps : list (stage * bool)) (n n' : net),
    net_run steps n = Some n' -> length steps + potential n' <= potential n.
Proof. exact network_terminates_lemma. Qed.
Print Assumptions network_terminates.

Theorem network_no_deadlock :
  forall n : net, well_bounded n -> ~ net_idle n ->
    exists s, n s > 0 /\ forall emit, net_step s emit n <> None.
Proof. exact network_no_deadlock_lemma. Qed.
Print Assumptions network_no_deadlock.

Example network_nonvacuous :
  let n := fun s => match s with SFile => 3 | SWorkspace => 10 | SRuns => 10 | _ => 0 end in
  potential n = 42 /\ net_step SFile true n = None /\ net_step SRuns true n <> None.
Proof. vm_compute. repeat split; discriminate. Qed.

(* Tie to the source, re-proved on every run against the regenerated Gen/LspShape.v: the risky accesses
   (constant index, use of the loaded-config pointer, dereference of an optional pointer) and job-channel
   sends of internal/lsp/server.go are exactly the ones the model was written from, and each modelled one
   occurs in the skeleton of its unit. *)
Theorem guard_sites_match :
  lsp_server_found = true /\
  map (fun s => (lit (fst (fst s)), N.of_nat (snd (fst s)))) modelled_sites = lsp_sites /\
  forallb site_modelled modelled_sites = true.
Proof. exact sites_match_lemma. Qed.
Print Assumptions guard_sites_match.

(* The cache is the state shared by the request handler and the two lint workers.  Slices handed out by a getter are
   read outside the map's lock (sendFileDiagnostics encodes them while another worker updates the same entry), so
   absence of races on it rests on two conventions, tied to the source here and re-proved on every run against the
   regenerated Gen/LspShape.v: every access goes through a method of the concurrent map (the listed accesses are
   all there are; a read-modify-write of one entry is ONE UpdateValue, never Get then Set), and no function of the
   cache writes through a slice or map it did not create itself (no in-place filtering of a stored / handed-out
   slice).  The cache-level harness checks the same behaviourally: earlier results are kept and compared again after
   later operations, and concurrent histories run under the race detector in the thorough tier. *)
Theorem cache_values_never_written_through :
  cache_found = true /\
  cache_funcs = map lit cache_funcs_modelled /\
  cache_sites = map render_site cache_sites_modelled /\
  cache_inplace = map render_inplace cache_inplace_modelled /\
  no_get_then_set cache_sites_modelled = true /\
  inplace_only_fresh cache_inplace_modelled = true.
Proof. exact cache_values_shape_lemma. Qed.
Print Assumptions cache_values_never_written_through.

(* Tie of the GUARDS to the source, re-proved on every run against the regenerated Gen/LspShape.v (go/ast extract of
   internal/lsp/*.go): every index, slice expression and pointer dereference is paired with the conditions that
   dominate it, and the pairs are exactly the ones the model was written from; every constant index, slice
   expression and dereference is dominated by a length test of the indexed / sliced expression resp. a nil test of
   the pointer (four justified exceptions, Model/LspSiteGuards.v).  A guard that is removed or whose text changes
   in any way breaks this obligation, as does a new unguarded access.  (Whether a textually unchanged condition still
   means the same is beyond go/ast.) *)
Theorem guards_dominate_sites :
  lsp_guarded_sites = Model.LspSiteGuards.modelled_guarded_sites /\
  forallb Model.LspSiteGuards.site_guard_ok lsp_guarded_sites = true /\
  Model.LspSiteGuards.protected_count lsp_guarded_sites = 56%nat.
Proof. exact Proofs.LspSiteGuards.guarded_sites_match_lemma. Qed.
Print Assumptions guards_dominate_sites.
