From Regal Require Import Model.Version.
Theorem c20_placeholder : True. Proof. exact I. Qed.
Print Assumptions c20_placeholder.
