(* C20 — a file's Rego version comes from its nearest configured directory, however spelled.
   Only statements here; proofs live in Proofs/Version.v and Proofs/PathLemmas.v.

   Model (Model/Version.v): [version_from_map] is rules.RegoVersionFromVersionsMap with Go's
   path.Join / filepath.Dir / strings.HasPrefix on byte strings (Base/PathModel.v); the map is the
   list of its entries in the order the Go [range] happens to visit them. [all_rego_versions] is
   config.AllRegoVersions (manifests, then project-wide, then roots; later insert wins).
   [key_of ks] spells a key from its components, [file_of ds base] is "/d1/…/dn/base". *)
From Coq Require Import List Permutation.
From Regal Require Import Base.PathModel Model.Version Proofs.PathLemmas Proofs.Version Proofs.VersionLocal.
Import ListNotations.
Local Open Scope nat_scope.

(* The deepest configured directory that contains the file decides, for every map of clean,
   distinct keys, every directory depth and every file — and nothing else does: a key that is
   not a component-wise ancestor (e.g. a sibling sharing a name prefix) never matches. *)
Theorem c20_lookup_selects_deepest :
  forall (m : list (list str * version)) (ds : list str) (base : str) (default : version),
  Forall (fun kv => good_comps (fst kv)) m -> NoDup (map fst m) ->
  good_comps ds -> ~ In SLASH base ->
  let r := version_from_map (keys_of m) (file_of ds base) default in
  (forall ks v, In (ks, v) m -> comps_prefix ks ds = true ->
     (forall ks' v', In (ks', v') m -> comps_prefix ks' ds = true -> length ks' <= length ks) ->
     r = v) /\
  ((forall ks v, In (ks, v) m -> comps_prefix ks ds = false) -> r = default).
Proof. exact lookup_selects_deepest. Qed.
Print Assumptions c20_lookup_selects_deepest.

(* Go's random map iteration order cannot influence the result. *)
Theorem c20_iteration_order_irrelevant :
  forall (m m' : list (list str * version)) ds base default,
  Forall (fun kv => good_comps (fst kv)) m -> NoDup (map fst m) ->
  good_comps ds -> ~ In SLASH base -> Permutation m m' ->
  version_from_map (keys_of m) (file_of ds base) default =
  version_from_map (keys_of m') (file_of ds base) default.
Proof. exact lookup_order_irrelevant. Qed.
Print Assumptions c20_iteration_order_irrelevant.

(* Nothing else decides: two versions maps that agree on the configured ancestors of the file's directory
   choose the same version for it, whatever else they contain (siblings sharing a name prefix, deeper
   directories, unrelated roots) and in whatever order Go's map iteration visits them.  (This contains
   c20_iteration_order_irrelevant as the case of a permutation.) *)
Theorem c20_lookup_local :
  forall (m m' : list (list str * version)) ds base default,
  Forall (fun kv => good_comps (fst kv)) m -> NoDup (map fst m) ->
  Forall (fun kv => good_comps (fst kv)) m' -> NoDup (map fst m') ->
  good_comps ds -> ~ In SLASH base ->
  (forall ks v, comps_prefix ks ds = true -> (In (ks, v) m <-> In (ks, v) m')) ->
  version_from_map (keys_of m) (file_of ds base) default =
  version_from_map (keys_of m') (file_of ds base) default.
Proof. exact lookup_local. Qed.
Print Assumptions c20_lookup_local.

(* in particular, configuring one more directory that does not contain the file changes nothing for it *)
Theorem c20_unrelated_key_irrelevant :
  forall (m : list (list str * version)) k0 v0 ds base default,
  Forall (fun kv => good_comps (fst kv)) m -> good_comps k0 -> NoDup (k0 :: map fst m) ->
  good_comps ds -> ~ In SLASH base -> comps_prefix k0 ds = false ->
  version_from_map (keys_of ((k0, v0) :: m)) (file_of ds base) default =
  version_from_map (keys_of m) (file_of ds base) default.
Proof. exact unrelated_key_irrelevant. Qed.
Print Assumptions c20_unrelated_key_irrelevant.

(* config beats manifest, root beats project-wide: what AllRegoVersions stores for a directory *)
Theorem c20_config_beats_manifest :
  forall manifests project roots k,
  assoc_get (all_rego_versions manifests project roots) k =
  match last_of roots k with
  | Some v => Some v
  | None => match project, str_eqb [] k with
            | Some v, true => Some v
            | _, _ => last_of manifests k
            end
  end.
Proof. exact all_rego_versions_precedence. Qed.
Print Assumptions c20_config_beats_manifest.

Theorem c20_versions_map_keys_distinct :
  forall manifests project roots, NoDup (map fst (all_rego_versions manifests project roots)).
Proof. exact all_rego_versions_nodup. Qed.
Print Assumptions c20_versions_map_keys_distinct.

(* However spelled: a path given relative to the working directory and the absolute path of the same
   file yield the same name for the lookup (InputFromPaths after commit 0bd1e14), from any working
   directory; and below the project prefix that name is the "/"-rooted form of the theorem above. *)
Theorem c20_spelling_invariant :
  forall cwdc relc cwd' prefix,
  good_comps cwdc -> good_comps relc -> relc <> [] -> prefix <> [] ->
  input_from_paths_name (SLASH :: join [SLASH] cwdc) prefix (join [SLASH] relc) =
  input_from_paths_name cwd' prefix (SLASH :: join [SLASH] (cwdc ++ relc)).
Proof. exact spelling_invariant. Qed.
Print Assumptions c20_spelling_invariant.

Theorem c20_name_under_prefix :
  forall rootc ds base, rootc <> [] ->
  trim_prefix (SLASH :: join [SLASH] (rootc ++ ds ++ [base])) (SLASH :: join [SLASH] rootc) = file_of ds base.
Proof. exact name_under_prefix. Qed.
Print Assumptions c20_name_under_prefix.

(* Regression witness: the lookup as it was at the pinned commit (path.Join dropped the trailing
   separator) claimed the sibling "ab/" for root "a" — fixed in /repo by commit 93c52d1. *)
Theorem c20_pinned_lookup_refuted :
  exists m f, version_from_map_pinned m f VUndef <> spec_version m f VUndef.
Proof. exact pinned_sibling_refuted. Qed.
Print Assumptions c20_pinned_lookup_refuted.

(* Non-vacuity: the hypotheses of the main theorem are met by a nested-roots example,
   and the lookup really returns the deeper root's version there. *)
Example c20_nonvacuous :
  let a := [97%N] in let b := [98%N] in
  let m := [([a], V1); ([a; b], V0); ([], V1)] in
  Forall (fun kv => good_comps (fst kv)) m /\ NoDup (map fst m) /\ good_comps [a; b] /\
  version_from_map (keys_of m) (file_of [a; b] [112%N]) VUndef = V0.
Proof.
  cbn zeta. repeat split.
  - repeat constructor; try discriminate; intros H; cbn in H; intuition discriminate.
  - repeat constructor; cbn; intuition discriminate.
  - repeat constructor; try discriminate; intros H; cbn in H; intuition discriminate.
Qed.
