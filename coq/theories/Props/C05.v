(* Property C05: ignored files never produce violations; both matchers agree.
   Statements only; the definitions they mention are in Model/Exclude.v, the proofs in Proofs/Exclude.v.
   [ok]/[m] are the glob engine (gobwas/glob with separator '/'): "pattern compiles" and "matches";
   they are universally quantified, nothing is assumed about them. *)
From Regal Require Import Model.Exclude Proofs.Exclude.
From Regal Require Import Model.ExcludeWalk Model.Provider Proofs.ExcludeWalk.

(* ---- 1. the two pattern expansions (Go excludeFile, Rego _pattern_compiler) *)

Theorem c05_compile_agree :
  forall p : str, p <> [] -> forall e, In e (go_expand p) <-> In e (rego_expand p).
Proof. exact compile_agree. Qed.
Print Assumptions c05_compile_agree.

Theorem c05_internal_slashes_rune_width :
  (* Rego drops the last rune, Go the last byte: same answer whatever the width of the last rune *)
  forall s t : str, t <> [] -> (length t = 1%nat \/ has_slash t = false) ->
  has_slash (rego_init_w (length t) (s ++ t)) = has_slash (rego_init_w 1 (s ++ t)).
Proof. exact internal_slashes_rune_width. Qed.
Print Assumptions c05_internal_slashes_rune_width.

(* ---- 2. the root-relative file name on each side, every prefix, every kind of rule *)

Theorem c05_relativise_agree :
  forall f pre : str, go_rel f pre = rego_rel f pre.
Proof. exact relativise_agree. Qed.
Print Assumptions c05_relativise_agree.

Theorem c05_relativise_agree_kind :
  forall (k : rule_kind) (f pre : str), rego_rel_kind k f pre = go_rel f pre.
Proof. exact relativise_agree_kind. Qed.
Print Assumptions c05_relativise_agree_kind.

(* the code before the repairs (regression witnesses) and what did hold there *)
Theorem c05_relativise_pinned_noprefix_refuted :
  exists f, go_rel_pinned f [] <> rego_rel_pinned f [].
Proof. exact relativise_pinned_noprefix_refuted. Qed.
Print Assumptions c05_relativise_pinned_noprefix_refuted.

Theorem c05_relativise_pinned_trailing_slash_refuted :
  exists f pre, go_rel_pinned f pre <> rego_rel_pinned f pre /\ has_prefix f pre = true.
Proof. exact relativise_pinned_trailing_slash_refuted. Qed.
Print Assumptions c05_relativise_pinned_trailing_slash_refuted.

Theorem c05_relativise_pinned_custom_aggregate_refuted :
  exists f pre, rego_rel_kind_pinned KCustomAgg f pre <> rego_rel_kind_pinned KBuiltin f pre.
Proof. exact relativise_pinned_custom_aggregate_refuted. Qed.
Print Assumptions c05_relativise_pinned_custom_aggregate_refuted.

Theorem c05_relativise_pinned_custom_root_refuted :
  exists f pre, rego_rel_kind_pinned KCustom f pre <> rego_rel_kind_pinned KBuiltin f pre.
Proof. exact relativise_pinned_custom_root_refuted. Qed.
Print Assumptions c05_relativise_pinned_custom_root_refuted.

Theorem c05_relativise_pinned_partial :
  forall f pre : str, pre <> [] -> (has_suffix pre [SLASH] = false \/ pre = [SLASH]) ->
  go_rel_pinned f pre = rego_rel_pinned f pre.
Proof. exact relativise_pinned_partial. Qed.
Print Assumptions c05_relativise_pinned_partial.

(* ---- 3. one pattern, one file: whenever Go decides, Rego decides the same; Go decides
        whenever every expansion compiles (outside that domain Go aborts with an error) *)

Theorem c05_exclude_agree :
  forall ok m (p f pre : str) (b : bool),
    go_exclude_file ok m p f (go_norm_prefix pre) = GOk b ->
    rego_exclude ok m p (rego_rel f pre) = b.
Proof. exact exclude_agree. Qed.
Print Assumptions c05_exclude_agree.

Theorem c05_exclude_agree_total :
  forall ok m (p f pre : str), p <> [] -> compiles ok p = true ->
    go_exclude_file ok m p f (go_norm_prefix pre) = GOk (rego_exclude ok m p (rego_rel f pre)).
Proof. exact exclude_agree_total. Qed.
Print Assumptions c05_exclude_agree_total.

Theorem c05_empty_pattern_pinned_refuted :
  (* before the repair: Go skips "", Rego's _exclude("", f) held for nested files *)
  exists ok m f,
    go_filter_paths ok m [f] [[]] [SLASH] = Some [f] /\ rego_exclude_pinned ok m [] f = true.
Proof. exact empty_pattern_pinned_refuted. Qed.
Print Assumptions c05_empty_pattern_pinned_refuted.

(* ---- 4. filterPaths returns exactly the files matched by no non-empty pattern, in order *)

Theorem c05_filter_exact :
  forall ok m (paths ignore : list str) (npre : str),
    (forall p, In p ignore -> p <> [] -> compiles ok p = true) ->
    go_filter_paths ok m paths ignore npre =
    Some (filter (fun f => negb (matches_any ok m ignore (go_trim f npre))) paths).
Proof. exact filter_exact. Qed.
Print Assumptions c05_filter_exact.

Theorem c05_filter_exact_partial :
  forall ok m (paths ignore : list str) (npre : str) (kept : list str),
    go_filter_paths ok m paths ignore npre = Some kept ->
    kept = filter (fun f => negb (matches_any ok m ignore (go_trim f npre))) paths.
Proof. exact filter_exact_partial. Qed.
Print Assumptions c05_filter_exact_partial.

Theorem c05_filter_error_only_uncompilable :
  forall ok m (paths ignore : list str) (npre : str),
    go_filter_paths ok m paths ignore npre = None ->
    exists p, In p ignore /\ p <> [] /\ compiles ok p = false.
Proof. exact filter_error_only_uncompilable. Qed.
Print Assumptions c05_filter_error_only_uncompilable.

Theorem c05_filter_sublist :
  forall ok m (paths ignore : list str) (npre : str) (kept : list str),
    go_filter_paths ok m paths ignore npre = Some kept ->
    sublist kept paths /\
    forall f, In f kept <-> In f paths /\ matches_any ok m ignore (go_trim f npre) = false.
Proof.
  intros ok m paths ignore npre kept H. apply filter_exact_partial in H. subst kept.
  split; [apply kept_spec_sublist | intro f; apply kept_spec_in].
Qed.
Print Assumptions c05_filter_sublist.

Theorem c05_filter_ignored_paths_exact :
  forall ok m (paths ignore : list str) (pre : str),
    is_stdin paths = false ->
    (forall p, In p ignore -> p <> [] -> compiles ok p = true) ->
    go_filter_ignored_paths ok m paths ignore pre =
    Some (filter (fun f => negb (matches_any ok m ignore (go_rel f pre))) paths).
Proof. exact filter_ignored_paths_exact. Qed.
Print Assumptions c05_filter_ignored_paths_exact.

(* ---- 5. --ignore-files replaces the config list, on both sides *)

Theorem c05_cli_overrides_config :
  forall (cli : list str) (cfg : option (list str)),
    cli <> [] -> go_select cli cfg = cli /\ rego_global cli cfg = Some cli.
Proof. exact cli_overrides_config. Qed.
Print Assumptions c05_cli_overrides_config.

Theorem c05_select_agree :
  forall (cli : list str) (cfg : option (list str)),
    go_select cli cfg = match rego_global cli cfg with Some l => l | None => [] end.
Proof. exact select_agree. Qed.
Print Assumptions c05_select_agree.

(* ---- 6. a lint run: scanned files and (file, rule) pairs that can yield a violation *)

Theorem c05_scanned_iff_rego_global :
  (* collecting files (Go) and evaluating rules (Rego) apply the global list identically *)
  forall ok m (li : lint_in) (scanned : list str) (f : str),
    lint_scanned ok m li = Some scanned ->
    (In f scanned <->
     In f (li_files li) /\
     rego_excluded_file ok m (li_cli li) (li_cfg li) [] (rego_rel f (li_prefix li)) = false).
Proof. exact scanned_iff_rego_global. Qed.
Print Assumptions c05_scanned_iff_rego_global.

Theorem c05_globally_ignored_not_scanned :
  forall ok m (li : lint_in) (scanned : list str) (f : str),
    lint_scanned ok m li = Some scanned ->
    matches_any ok m (go_select (li_cli li) (li_cfg li)) (go_rel f (li_prefix li)) = true ->
    ~ In f scanned.
Proof. exact globally_ignored_not_scanned. Qed.
Print Assumptions c05_globally_ignored_not_scanned.

Theorem c05_unmatched_file_not_dropped :
  forall ok m (li : lint_in) (scanned : list str) (f : str),
    lint_scanned ok m li = Some scanned -> In f (li_files li) ->
    matches_any ok m (go_select (li_cli li) (li_cfg li)) (go_rel f (li_prefix li)) = false ->
    In f scanned.
Proof. exact unmatched_file_not_dropped. Qed.
Print Assumptions c05_unmatched_file_not_dropped.

Theorem c05_ignored_file_silent :
  (* whatever the rule bodies do ([fires]), built-in, custom or custom aggregate *)
  forall ok m (fires : rule_kind -> str -> bool) (li : lint_in) (k : rule_kind) (hits : list str) (f : str),
    lint_hits ok m fires li k = Some hits ->
    matches_any ok m (go_select (li_cli li) (li_cfg li)) (go_rel f (li_prefix li)) = true \/
    matches_any ok m (li_rule_ignore li k) (go_rel f (li_prefix li)) = true ->
    ~ In f hits.
Proof. exact ignored_file_silent. Qed.
Print Assumptions c05_ignored_file_silent.

Theorem c05_unignored_file_reported :
  forall ok m (fires : rule_kind -> str -> bool) (li : lint_in) (k : rule_kind)
         (hits scanned : list str) (f : str),
    lint_hits ok m fires li k = Some hits -> lint_scanned ok m li = Some scanned ->
    In f (li_files li) -> fires k f = true ->
    matches_any ok m (go_select (li_cli li) (li_cfg li)) (go_rel f (li_prefix li)) = false ->
    matches_any ok m (li_rule_ignore li k) (go_rel f (li_prefix li)) = false ->
    (k = KCustomAgg -> aggregate_report_runs ok m li scanned = true) ->
    In f hits.
Proof. exact unignored_file_reported. Qed.
Print Assumptions c05_unignored_file_reported.

(* ---- 7. language server.  Files are known by URI, percent-encoded by the client (generic clients, and the VS Code
        form with the drive letter colon encoded); ignore patterns are written against plain paths.  [uri_to_path] is
        uri.ToPath (percent-decoding).  For EVERY URI u and root URI (any spelling: escapes, hex case, "+", drive
        letter form) whose decoded paths are rootp/r and rootp: ignoreURI (one URI) and getFilteredModules (all cached
        modules) both decide on the DECODED root-relative path r, by the matcher's meaning of "r matches a pattern" *)

Theorem c05_lsp_call_sites_agree :
  forall ok m (cl : lsp_client) (root_uri u rootp r : str) (ignore uris kept : list str),
    uri_to_path cl root_uri = rootp -> uri_to_path cl u = rootp ++ [SLASH] ++ r ->
    rootp <> [] -> has_suffix rootp [SLASH] = false ->
    has_suffix u dot_rego = true ->
    (forall p, In p ignore -> p <> [] -> compiles ok p = true) ->
    lsp_filtered_modules ok m cl root_uri ignore uris = Some kept ->
    In u uris ->
    lsp_ignore_uri ok m cl root_uri ignore u = matches_any ok m ignore r /\
    (In u kept <-> matches_any ok m ignore r = false).
Proof. exact lsp_call_sites_agree. Qed.
Print Assumptions c05_lsp_call_sites_agree.

(* without any hypothesis on the URIs or the patterns: whenever getFilteredModules returns at all, it drops exactly
   the cached .rego URIs that ignoreURI reports as ignored *)
Theorem c05_lsp_call_sites_agree_any :
  forall ok m (cl : lsp_client) (root_uri u : str) (ignore uris kept : list str),
    has_suffix u dot_rego = true ->
    lsp_filtered_modules ok m cl root_uri ignore uris = Some kept -> In u uris ->
    (lsp_ignore_uri ok m cl root_uri ignore u = true <-> ~ In u kept).
Proof. exact lsp_call_sites_agree_any. Qed.
Print Assumptions c05_lsp_call_sites_agree_any.

(* the hypotheses of c05_lsp_call_sites_agree are met by every path: uri.ToPath undoes uri.FromPath's escaping
   (unreserved characters and "/" stay, every other byte becomes %XY) *)
Theorem c05_uri_roundtrip :
  forall p : str, Forall (fun c => c < 256) p ->
    query_unescape (uri_escape p) = Some p /\
    uri_to_path ClientGeneric (file_scheme ++ uri_escape p) = p.
Proof. intros p H. split; [exact (unescape_escape p H)|exact (uri_roundtrip p H)]. Qed.
Print Assumptions c05_uri_roundtrip.

(* regression: before the round-3 repair getFilteredModules matched the percent-encoded text and kept a module
   that ignoreURI reports as ignored (root file:///w, module file:///w/a%20b.rego, pattern "a b.rego") *)
Theorem c05_lsp_modules_pinned_refuted :
  exists root_uri u p,
    let lit := fun e f : str => str_eqb e f in
    lsp_ignore_uri (fun _ => true) lit ClientGeneric root_uri [p] u = true /\
    lsp_filtered_modules_pinned (fun _ => true) lit root_uri [p] [u] = Some [u] /\
    lsp_filtered_modules (fun _ => true) lit ClientGeneric root_uri [p] [u] = Some [].
Proof. exact lsp_modules_pinned_refuted. Qed.
Print Assumptions c05_lsp_modules_pinned_refuted.

(* OPEN finding (round 3): the server lints with URIs as file names and the root URI as prefix
   ([lsp_lint_in]); a rule's own ignore list is then matched against the percent-ENCODED root-relative name:
   the statement "a file whose decoded root-relative path matches the rule's pattern is not evaluated by the rule"
   is refuted (file:///w/a%20b.rego, pattern "a b.rego"), and holds for URIs that spell the path as it is *)
Theorem c05_lsp_rule_ignore_decoded_refuted :
  exists root_uri u r p,
    let lit := fun e f : str => str_eqb e f in
    uri_to_path ClientGeneric u = uri_to_path ClientGeneric root_uri ++ [SLASH] ++ r /\
    matches (fun _ => true) lit p r = true /\
    rule_runs_on (fun _ => true) lit (lsp_lint_in root_uri [u] [p]) KBuiltin u = true.
Proof. exact lsp_rule_ignore_decoded_refuted. Qed.
Print Assumptions c05_lsp_rule_ignore_decoded_refuted.

Theorem c05_lsp_rule_ignore_plain_partial :
  forall ok m (root_uri r : str) (uris rule_ignore : list str) (k : rule_kind),
    has_suffix root_uri [SLASH] = false ->
    rule_runs_on ok m (lsp_lint_in root_uri uris rule_ignore) k (root_uri ++ [SLASH] ++ r) =
    negb (rego_excluded_file ok m [] None rule_ignore r).
Proof. exact lsp_rule_ignore_plain_partial. Qed.
Print Assumptions c05_lsp_rule_ignore_plain_partial.

(* ---- 8. how the CLI spells the file (open finding: relative argument, other working directory) *)

Theorem c05_spelling_abs :
  forall d r : str, has_suffix d [SLASH] = false -> go_rel (d ++ [SLASH] ++ r) d = r.
Proof. exact spelling_abs. Qed.
Print Assumptions c05_spelling_abs.

Theorem c05_spelling_relative_at_root :
  forall d r : str, has_prefix r (go_norm_prefix d) = false -> go_rel r d = r.
Proof. exact spelling_relative_at_root. Qed.
Print Assumptions c05_spelling_relative_at_root.

Theorem c05_spelling_relative_elsewhere_refuted :
  (* file d/sub/r' named r' from the working directory d/sub: dropped by a pattern its
     root-relative path does not match *)
  exists (d sub r' p : str),
    let truerel := sub ++ [SLASH] ++ r' in
    let lit := fun e f : str => str_eqb e f in
    go_rel r' d = r' /\ r' <> truerel /\
    matches (fun _ => true) lit p truerel = false /\
    go_filter_ignored_paths (fun _ => true) lit [r'] [p] d = Some [].
Proof. exact spelling_relative_elsewhere_refuted. Qed.
Print Assumptions c05_spelling_relative_elsewhere_refuted.

(* ---- 9. directory arguments: the patterns apply to the path RELATIVE to the project root only.
   FilterIgnoredPaths with checkFileExists walks the directory it is given (Model/Discover.v [walk]: the .rego
   files, pruning .git/.idea/node_modules) and filters what it found (Model/ExcludeWalk.v [go_walk_filter]).
   The directory is given by a clean absolute path [cpath ps] = "/" ++ ps1 ++ "/" ++ ... ++ "/" ++ psn (Model/Provider.v;
   [regular]: a non-empty component without separator other than "." and ".."), every entry of the tree has a regular
   name, the prefix is that directory (with or without trailing separator: [is_root_prefix]).
   [rel_walk name t] lists the same files by their names relative to the directory; it does not mention [ps] at all. *)

(* which files are kept is decided by matching their root-relative names against the patterns with an EMPTY prefix;
   the path of the root -- its own name and the names of all directories above it -- only reappears in front of the
   result: neither the root nor an ancestor is ever handed to a matcher *)
Theorem c05_walk_root_never_excluded :
  forall ok m (skips : list str) (ext : str), ~ In SLASH ext ->
  forall (ps : list str) (name : str) (chs : list (str * node)) (ignore : list str) (pre : str),
    Forall regular ps -> ps <> [] -> names_regular (Dir chs) -> is_root_prefix (cpath ps) pre ->
    go_walk_filter ok m skips ext (cpath ps) name (Dir chs) ignore pre
    = option_map (map (fun r => cpath ps ++ SLASH :: r))
                 (go_filter_paths ok m (rel_walk skips ext name (Dir chs)) ignore []).
Proof. exact walk_root_never_excluded. Qed.
Print Assumptions c05_walk_root_never_excluded.

(* changing the names of the root and of its ancestors (any number of them) never changes the set of discovered
   root-relative paths, nor whether the call fails; only a root that is itself a skipped directory differs *)
Theorem c05_ancestors_irrelevant :
  forall ok m (skips : list str) (ext : str), ~ In SLASH ext ->
  forall (ps ps' : list str) (name name' : str) (chs : list (str * node)) (ignore : list str) (pre pre' : str),
    Forall regular ps -> ps <> [] -> Forall regular ps' -> ps' <> [] ->
    names_regular (Dir chs) ->
    is_skip skips name = is_skip skips name' ->
    is_root_prefix (cpath ps) pre -> is_root_prefix (cpath ps') pre' ->
    option_map (map (fun f => go_rel f pre)) (go_walk_filter ok m skips ext (cpath ps) name (Dir chs) ignore pre)
    = option_map (map (fun f => go_rel f pre')) (go_walk_filter ok m skips ext (cpath ps') name' (Dir chs) ignore pre').
Proof. exact ancestors_irrelevant. Qed.
Print Assumptions c05_ancestors_irrelevant.

(* where every expansion compiles: kept = the walked files whose root-relative name matches no pattern
   ("a file matching no pattern is never dropped", for directory arguments) *)
Theorem c05_walk_kept_exact :
  forall ok m (skips : list str) (ext : str), ~ In SLASH ext ->
  forall (ps : list str) (name : str) (chs : list (str * node)) (ignore : list str) (pre : str),
    Forall regular ps -> ps <> [] -> names_regular (Dir chs) -> is_root_prefix (cpath ps) pre ->
    (forall p, In p ignore -> p <> [] -> compiles ok p = true) ->
    go_walk_filter ok m skips ext (cpath ps) name (Dir chs) ignore pre
    = Some (map (fun r => cpath ps ++ SLASH :: r)
                (filter (fun r => negb (matches_any ok m ignore r)) (rel_walk skips ext name (Dir chs)))).
Proof. exact walk_kept_exact. Qed.
Print Assumptions c05_walk_kept_exact.

(* ---- non-vacuity: concrete values satisfying the hypotheses (literal engine: a pattern
        matches exactly the name equal to it) *)

Definition lit_ok (e : str) : bool := true.
Definition lit_match (e f : str) : bool := str_eqb e f.

(* "a/" -> {"**/a/**", "a/**"} on both sides *)
Example ex_expand :
  go_expand [97; SLASH] = [[STAR; STAR; SLASH; 97; SLASH; STAR; STAR]; [97; SLASH; STAR; STAR]]
  /\ rego_expand [97; SLASH] = go_expand [97; SLASH].
Proof. split; reflexivity. Qed.

(* prefix "/w", files /w/a and /w/b, ignore ["", "b"]: b is dropped, a is kept, "" is skipped *)
Example ex_filter :
  go_filter_ignored_paths lit_ok lit_match
    [[SLASH; 119; SLASH; 97]; [SLASH; 119; SLASH; 98]] [[]; [98]] [SLASH; 119]
  = Some [[SLASH; 119; SLASH; 97]]
  /\ rego_exclude lit_ok lit_match [98] (rego_rel [SLASH; 119; SLASH; 98] [SLASH; 119]) = true
  /\ compiles lit_ok [98] = true.
Proof. repeat split; reflexivity. Qed.

(* an engine in which "[" does not compile: Go errors, Rego says no match *)
Example ex_uncompilable :
  let ok := fun e : str => negb (has_suffix e [91]) in
  go_filter_paths ok lit_match [[97]] [[91]] [SLASH] = None
  /\ rego_exclude ok lit_match [91] [97] = false.
Proof. split; reflexivity. Qed.

(* a lint run with a global and a per-rule ignore *)
Example ex_lint :
  let li := {| li_files := [[97]; [98]; [99]]; li_prefix := []; li_cli := []; li_cfg := Some [[97]];
               li_rule_ignore := fun k => match k with KCustomAgg => [[98]] | _ => [] end |} in
  lint_scanned lit_ok lit_match li = Some [[98]; [99]]
  /\ lint_hits lit_ok lit_match (fun _ _ => true) li KBuiltin = Some [[98]; [99]]
  /\ lint_hits lit_ok lit_match (fun _ _ => true) li KCustomAgg = Some [[99]].
Proof. repeat split; reflexivity. Qed.

(* root file:///w, module file:///w/a.rego, ignore ["a.rego"]: both call sites drop it *)
Example ex_lsp :
  let root := file_scheme ++ [SLASH; 119] in
  let u := root ++ [SLASH; 97] ++ dot_rego in
  lsp_ignore_uri lit_ok lit_match ClientGeneric root [[97] ++ dot_rego] u = true
  /\ lsp_filtered_modules lit_ok lit_match ClientGeneric root [[97] ++ dot_rego] [u] = Some [].
Proof. split; reflexivity. Qed.

(* encoded characters: workspace "file:///my%20w", module "file:///my%20w/g%C3%A9n%20%231/p.rego" (decoded
   "/my w/gén #1/p.rego"), pattern "gén #1/p.rego" written in plain form (the engine of the examples is literal): the hypotheses of c05_lsp_call_sites_agree
   hold with rootp = "/my w", r = "gén #1/p.rego", and both call sites drop the module; the unencoded-looking
   sibling "g%C3%A9n%20%232/p.rego" is kept.  Same for the VS Code form "file:///c%3A/my%20w/..." *)
Definition ex_root_enc : str := file_scheme ++ [SLASH; 109;121;37;50;48;119]%N.
Definition ex_dir_enc (d : N) : str := [SLASH; 103;37;67;51;37;65;57;110;37;50;48;37;50;51; d; SLASH; 112]%N ++ dot_rego.
Definition ex_r_dec (d : N) : str := [103;195;169;110;32;35; d; SLASH; 112]%N ++ dot_rego.
Definition ex_pat_dec : str := ex_r_dec 49.
Definition ex_drive : str := [SLASH; 99; 37; 51; 65]%N.   (* "/c%3A" *)

Example ex_lsp_encoded :
  let u := ex_root_enc ++ ex_dir_enc 49 in
  let v := ex_root_enc ++ ex_dir_enc 50 in
  uri_to_path ClientGeneric ex_root_enc = [SLASH; 109;121;32;119]%N
  /\ uri_to_path ClientGeneric u = [SLASH; 109;121;32;119]%N ++ [SLASH] ++ ex_r_dec 49
  /\ matches_any lit_ok lit_match [ex_pat_dec] (ex_r_dec 49) = true
  /\ lsp_ignore_uri lit_ok lit_match ClientGeneric ex_root_enc [ex_pat_dec] u = true
  /\ lsp_ignore_uri lit_ok lit_match ClientGeneric ex_root_enc [ex_pat_dec] v = false
  /\ lsp_filtered_modules lit_ok lit_match ClientGeneric ex_root_enc [ex_pat_dec] [u; v] = Some [v]
  /\ uri_to_path ClientVSCode (file_scheme ++ ex_drive ++ [SLASH; 109;121;37;50;48;119]%N) = [99; 58; SLASH; 109;121;32;119]%N
  /\ lsp_ignore_uri lit_ok lit_match ClientVSCode (file_scheme ++ ex_drive ++ [SLASH; 109;121;37;50;48;119]%N) [ex_pat_dec]
                    (file_scheme ++ ex_drive ++ [SLASH; 109;121;37;50;48;119]%N ++ ex_dir_enc 49) = true.
Proof. vm_compute. repeat split; reflexivity. Qed.

(* the project /build/proj holds .git/g.rego, a.rego, build/c.rego and data.json; literal engine, ignore ["a.rego"]:
   .git is pruned, data.json is no rego file, a.rego is dropped, build/c.rego is kept; the root's own path contains
   "build" and is never looked at *)
Definition ex_tree : list (str * node) :=
  [([46;103;105;116], Dir [([103;46;114;101;103;111], File)]);            (* .git/g.rego *)
   ([97;46;114;101;103;111], File);                                       (* a.rego *)
   ([98;117;105;108;100], Dir [([99;46;114;101;103;111], File)]);         (* build/c.rego *)
   ([100;97;116;97;46;106;115;111;110], File)]%N.                         (* data.json *)
Definition ex_build : str := [98;117;105;108;100]%N.
Definition ex_proj : str := [112;114;111;106]%N.

Example ex_walk :
  names_regular (Dir ex_tree)
  /\ rel_walk spec_skips spec_ext ex_proj (Dir ex_tree)
     = [[97;46;114;101;103;111]; [98;117;105;108;100;47;99;46;114;101;103;111]]%N
  /\ go_walk_filter lit_ok lit_match spec_skips spec_ext (cpath [ex_build; ex_proj]) ex_proj (Dir ex_tree)
                    [[97;46;114;101;103;111]]%N (cpath [ex_build; ex_proj])
     = Some [cpath [ex_build; ex_proj; ex_build; [99;46;114;101;103;111]%N]]
  /\ is_root_prefix (cpath [ex_build; ex_proj]) (cpath [ex_build; ex_proj] ++ [SLASH])
  /\ ~ In SLASH spec_ext.
Proof.
  split.
  { constructor. repeat constructor; cbn; try discriminate; intuition discriminate. }
  split; [vm_compute; reflexivity|]. split; [vm_compute; reflexivity|]. split; [right; reflexivity|].
  cbn. intuition discriminate.
Qed.
