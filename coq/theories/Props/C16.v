(* C16: text edits sent to the editor reproduce the intended text exactly.
   Model: Model/Diff.v (diff.go + format.go), specification: Model/LspApply.v (LSP 3.17). *)
From Regal Require Import Model.LspApply Proofs.DiffSound Proofs.DiffTotal.
Open Scope Z_scope.

(* For ALL pairs of byte strings: if ComputeEdits (the model) returns an edit list, then applying
   it to `before` as the LSP specification prescribes gives exactly `after`; the edits are
   ordered by start and none ends after the next one starts ([edits_ordered]); every position
   has character 0 and a line between 0 and the number of lines of `before` ([edit_in_doc]). *)
Theorem compute_edits_sound : forall (before after : str) (es : list text_edit),
  compute_edits before after = Ok es ->
  lsp_apply es before = Some after /\
  edits_ordered es = true /\
  forallb (edit_in_doc before) es = true.
Proof. exact compute_edits_sound_proof. Qed.
Print Assumptions compute_edits_sound.

(* "within the document" without the clamp: if `before` is empty or ends with a line terminator,
   every position is an existing position (line <= number of line terminators, character 0);
   the specification's end-of-document clamp is needed only for the position just after an
   unterminated last line (e.g. "a\nb" -> delete up to line 2). *)
Theorem compute_edits_in_doc_strict : forall (before after : str) (es : list text_edit),
  compute_edits before after = Ok es ->
  open_tail before = false ->
  forallb (edit_in_doc_strict before) es = true.
Proof. exact compute_edits_in_doc_strict_proof. Qed.
Print Assumptions compute_edits_in_doc_strict.

(* For ALL pairs of byte strings the model returns an edit list: the forward pass of the Myers port
   meets its `x == M && y == N` test within M+N rounds (so the trace is never nil), no slice index
   is out of range, and the recursion fuel of the model is never exhausted. *)
Theorem compute_edits_total : forall (before after : str),
  exists es : list text_edit, compute_edits before after = Ok es.
Proof. exact compute_edits_total_proof. Qed.
Print Assumptions compute_edits_total.

(* both together: the function is total and its result has the property *)
Corollary compute_edits_correct : forall (before after : str),
  exists es : list text_edit,
    compute_edits before after = Ok es /\
    lsp_apply es before = Some after /\
    edits_ordered es = true /\
    forallb (edit_in_doc before) es = true.
Proof.
  intros before after. destruct (compute_edits_total_proof before after) as [es H].
  exists es. split; [exact H | exact (compute_edits_sound_proof before after es H)].
Qed.
Print Assumptions compute_edits_correct.

(* the same at the level of lines, for any line type with a sound equality test: the operation
   list turns a into b and is ordered, disjoint and inside both line lists *)
Theorem operations_sound_lines : forall (A : Type) (eqb : A -> A -> bool),
  (forall u v, eqb u v = true -> u = v) ->
  forall (a b : list A) (ops : list op),
  operations A eqb a b = Ok ops ->
  ops_wf A a b ops 0 /\ apply_ops A a b ops 0 = b.
Proof. exact operations_sound. Qed.
Print Assumptions operations_sound_lines.

Theorem operations_total_lines : forall (A : Type) (eqb : A -> A -> bool) (a b : list A),
  exists ops : list op, operations A eqb a b = Ok ops.
Proof. exact operations_total. Qed.
Print Assumptions operations_total_lines.

(* regression: the splitLines of the pinned commit (only "\n" ends a line) violates the statement
   for a document with a lone CR: before = "a\rb\n", after = "" *)
Theorem compute_edits_sound_pinned_refuted :
  exists (before after : str) (es : list text_edit),
    compute_edits_pinned before after = Ok es /\ lsp_apply es before <> Some after.
Proof.
  exists [97; 13; 98; 10]%N, []%N, [{| e_sl := 0; e_sc := 0; e_el := 1; e_ec := 0; e_text := [] |}].
  split; [vm_compute; reflexivity | vm_compute; discriminate].
Qed.
Print Assumptions compute_edits_sound_pinned_refuted.

(* non-vacuity: the hypothesis is met by a pair that needs deletes, inserts and the
   end-of-document clamp ("a\nb" -> "b\nc\n"), and by one with CRLF and a lone CR *)
Example compute_edits_sound_nonvacuous :
  compute_edits [97; 10; 98]%N [98; 10; 99; 10]%N =
  Ok [ {| e_sl := 0; e_sc := 0; e_el := 2; e_ec := 0; e_text := [] |};
       {| e_sl := 2; e_sc := 0; e_el := 2; e_ec := 0; e_text := [98; 10]%N |};
       {| e_sl := 2; e_sc := 0; e_el := 2; e_ec := 0; e_text := [99; 10]%N |} ].
Proof. vm_compute. reflexivity. Qed.

Example compute_edits_sound_nonvacuous_cr :
  exists es, compute_edits [97; 13; 98; 13; 10; 99]%N [97; 13; 99; 10]%N = Ok es /\ (length es >= 2)%nat.
Proof. eexists. split; [vm_compute; reflexivity | simpl; lia]. Qed.
