(* C16: text edits sent to the editor reproduce the intended text exactly.
   Model: Model/Diff.v (diff.go + format.go), specification: Model/LspApply.v (LSP 3.17). *)
From Regal Require Import Model.LspApply Model.FormatFlow Proofs.DiffSound Proofs.DiffTotal Proofs.FormatFlow.
Open Scope Z_scope.

(* For ALL pairs of byte strings: if ComputeEdits (the model) returns an edit list, then applying
   it to `before` as the LSP specification prescribes gives exactly `after`; the edits are
   ordered by start and none ends after the next one starts ([edits_ordered]); every position
   has character 0 and a line between 0 and the number of lines of `before` ([edit_in_doc]). *)
Theorem compute_edits_sound : forall (before after : str) (es : list text_edit),
  compute_edits before after = Ok es ->
  lsp_apply es before = Some after /\
  edits_ordered es = true /\
  forallb (edit_in_doc before) es = true.
Proof. exact compute_edits_sound_proof. Qed.
Print Assumptions compute_edits_sound.

(* "within the document" without the clamp: if `before` is empty or ends with a line terminator,
   every position is an existing position (line <= number of line terminators, character 0);
   the specification's end-of-document clamp is needed only for the position just after an
   unterminated last line (e.g. "a\nb" -> delete up to line 2). *)
Theorem compute_edits_in_doc_strict : forall (before after : str) (es : list text_edit),
  compute_edits before after = Ok es ->
  open_tail before = false ->
  forallb (edit_in_doc_strict before) es = true.
Proof. exact compute_edits_in_doc_strict_proof. Qed.
Print Assumptions compute_edits_in_doc_strict.

(* For ALL pairs of byte strings the model returns an edit list: the forward pass of the Myers port
   meets its `x == M && y == N` test within M+N rounds (so the trace is never nil), no slice index
   is out of range, and the recursion fuel of the model is never exhausted. *)
Theorem compute_edits_total : forall (before after : str),
  exists es : list text_edit, compute_edits before after = Ok es.
Proof. exact compute_edits_total_proof. Qed.
Print Assumptions compute_edits_total.

(* both together: the function is total and its result has the property *)
Corollary compute_edits_correct : forall (before after : str),
  exists es : list text_edit,
    compute_edits before after = Ok es /\
    lsp_apply es before = Some after /\
    edits_ordered es = true /\
    forallb (edit_in_doc before) es = true.
Proof.
  intros before after. destruct (compute_edits_total_proof before after) as [es H].
  exists es. split; [exact H | exact (compute_edits_sound_proof before after es H)].
Qed.
Print Assumptions compute_edits_correct.

(* ---- sequences of calls (seed round 3) ----
   C16 quantifies over PAIRS: the edit list has to be a function of (before, after).  For the model
   this is trivial (it is a Gallina function), and the model of a process that answers a sequence of
   requests, [compute_edits_seq], is that function mapped over the sequence: the result of a call does
   not depend on the calls before or after it, and every call of every sequence has the property.
   The implementation keeps state between calls if it wants to (buffers, pools, caches); that it is a
   function of the pair all the same is what the correspondence checks: tools/props/c16.py evaluates
   every case at least 8 times in one process -- forward order, reverse order, after "polluting" pairs
   with a long common prefix, shuffled, twice in a row, from 8 goroutines at once -- and requires every
   evaluation to equal the first one, which Check.C16Check.case_agrees compares with [compute_edits];
   a deviation is replayed as the shortest sequence of pairs ([Check.C16Check.seq_agrees] names the
   calls of that sequence whose observed result is not the model's). *)
Theorem compute_edits_is_a_function : forall before after r1 r2,
  compute_edits before after = r1 -> compute_edits before after = r2 -> r1 = r2.
Proof. exact compute_edits_functional_proof. Qed.
Print Assumptions compute_edits_is_a_function.

Theorem compute_edits_history_independent : forall pre1 post1 pre2 post2 before after,
  nth_error (compute_edits_seq (pre1 ++ (before, after) :: post1)) (length pre1) =
  nth_error (compute_edits_seq (pre2 ++ (before, after) :: post2)) (length pre2).
Proof. exact compute_edits_history_independent_proof. Qed.
Print Assumptions compute_edits_history_independent.

Theorem compute_edits_correct_in_every_call_order : forall calls : list (str * str),
  Forall2 (fun p r => exists es, r = Ok es /\ lsp_apply es (fst p) = Some (snd p) /\
                                 edits_ordered es = true /\ forallb (edit_in_doc (fst p)) es = true)
          calls (compute_edits_seq calls).
Proof. exact compute_edits_seq_correct_proof. Qed.
Print Assumptions compute_edits_correct_in_every_call_order.

(* the same at the level of lines, for any line type with a sound equality test: the operation
   list turns a into b and is ordered, disjoint and inside both line lists *)
Theorem operations_sound_lines : forall (A : Type) (eqb : A -> A -> bool),
  (forall u v, eqb u v = true -> u = v) ->
  forall (a b : list A) (ops : list op),
  operations A eqb a b = Ok ops ->
  ops_wf A a b ops 0 /\ apply_ops A a b ops 0 = b.
Proof. exact operations_sound. Qed.
Print Assumptions operations_sound_lines.

Theorem operations_total_lines : forall (A : Type) (eqb : A -> A -> bool) (a b : list A),
  exists ops : list op, operations A eqb a b = Ok ops.
Proof. exact operations_total. Qed.
Print Assumptions operations_total_lines.

(* regression: the splitLines of the pinned commit (only "\n" ends a line) violates the statement
   for a document with a lone CR: before = "a\rb\n", after = "" *)
Theorem compute_edits_sound_pinned_refuted :
  exists (before after : str) (es : list text_edit),
    compute_edits_pinned before after = Ok es /\ lsp_apply es before <> Some after.
Proof.
  exists [97; 13; 98; 10]%N, []%N, [{| e_sl := 0; e_sc := 0; e_el := 1; e_ec := 0; e_text := [] |}].
  split; [vm_compute; reflexivity | vm_compute; discriminate].
Qed.
Print Assumptions compute_edits_sound_pinned_refuted.

(* non-vacuity: the hypothesis is met by a pair that needs deletes, inserts and the
   end-of-document clamp ("a\nb" -> "b\nc\n"), and by one with CRLF and a lone CR *)
Example compute_edits_sound_nonvacuous :
  compute_edits [97; 10; 98]%N [98; 10; 99; 10]%N =
  Ok [ {| e_sl := 0; e_sc := 0; e_el := 2; e_ec := 0; e_text := [] |};
       {| e_sl := 2; e_sc := 0; e_el := 2; e_ec := 0; e_text := [98; 10]%N |};
       {| e_sl := 2; e_sc := 0; e_el := 2; e_ec := 0; e_text := [99; 10]%N |} ].
Proof. vm_compute. reflexivity. Qed.

Example compute_edits_sound_nonvacuous_cr :
  exists es, compute_edits [97; 13; 98; 13; 10; 99]%N [97; 13; 99; 10]%N = Ok es /\ (length es >= 2)%nat.
Proof. eexists. split; [vm_compute; reflexivity | simpl; lia]. Qed.

(* ---------------------------------------------------------------- the server-level producers of edits
   (Model/FormatFlow.v = the glue of internal/lsp/server.go around ComputeEdits).

   [content cache] is the text the server holds for the document, which is the text the client
   sent in didOpen / didChange, i.e. the text the client will apply the edits to (that the two
   agree is C15's subject; the correspondence of this check observes it on every case).
   [reproduces es client intended] := lsp_apply es client = Some intended /\ edits_ordered es = true
                                      /\ forallb (edit_in_doc client) es = true. *)

(* textDocument/formatting, for every formatter (oracle), template (oracle), disk state, workspace
   position and cache state: whenever the handler answers with edits, applying them to the text
   the client holds gives the text the server intends; that text is the formatter's output
   (server's copy unchanged), or the template, which the server then also stores - and it
   templates only when the client's text is EMPTY. *)
Theorem formatting_reproduces_intended :
  forall (k : formatter_kind) (in_root ignored : bool) (disk template : option str)
         (formatter : str -> oracle_out) (cache : option str)
         (es : list text_edit) (intended : str) (stored : option str),
  formatting_flow k in_root ignored disk template formatter cache = FEdits es intended stored ->
  reproduces es (content cache) intended /\
  (stored = None \/ stored = Some intended) /\
  (stored = Some intended -> content cache = [] /\ template = Some intended) /\
  (stored = None -> formatter (content cache) = ONew intended).
Proof. exact formatting_reproduces_intended_proof. Qed.
Print Assumptions formatting_reproduces_intended.

(* workspace/applyEdit sent for a fix command (fixEditParams): the edits turn the cached text
   into the fix's output *)
Theorem fix_reproduces_intended :
  forall (fixf : str -> oracle_out) (cache : option str)
         (es : list text_edit) (intended : str) (stored : option str),
  fix_flow fixf cache = FEdits es intended stored ->
  exists c, cache = Some c /\ reproduces es c intended /\ stored = None /\ fixf c = ONew intended.
Proof. exact fix_reproduces_intended_proof. Qed.
Print Assumptions fix_reproduces_intended.

(* workspace/applyEdit sent by the template worker for a new file: the edits are computed from ""
   and that IS the client's text, because the worker refuses every document whose cached content
   is not "" *)
Theorem template_worker_reproduces_intended :
  forall (in_root : bool) (disk template : option str) (cache : option str)
         (es : list text_edit) (intended : str) (stored : option str),
  template_worker_flow in_root disk template cache = FEdits es intended stored ->
  reproduces es (content cache) intended /\ stored = Some intended /\ template = Some intended /\
  cache = Some [].
Proof. exact template_worker_reproduces_intended_proof. Qed.
Print Assumptions template_worker_reproduces_intended.

(* none of the flows can fail inside ComputeEdits *)
Theorem server_flows_total :
  (forall k in_root ignored disk template formatter cache,
     formatting_flow k in_root ignored disk template formatter cache <> FBroken) /\
  (forall fixf cache, fix_flow fixf cache <> FBroken) /\
  (forall in_root disk template cache, template_worker_flow in_root disk template cache <> FBroken).
Proof.
  split; [exact formatting_flow_not_broken | split; [exact fix_flow_not_broken | exact template_worker_flow_not_broken]].
Qed.
Print Assumptions server_flows_total.

(* why `before` must be the client's text (regression for the class "edits computed from another
   text than the one the editor holds"): edits computed from "" for a document of two blank lines *)
Theorem edits_from_other_before_refuted :
  exists (client used_before after : str) (es : list text_edit),
    edits_from_other used_before after = FEdits es after None /\
    lsp_apply es client <> Some after.
Proof.
  exists [10; 10]%N, []%N, [112; 10; 10]%N. eexists.
  split; [vm_compute; reflexivity | vm_compute; discriminate].
Qed.
Print Assumptions edits_from_other_before_refuted.

(* non-vacuity: an empty document in a sub-directory is templated; a non-empty one is formatted *)
Example formatting_flow_templates_empty :
  exists es, formatting_flow KOpaFmt false false None (Some [112; 10; 10]%N) (fun _ => OErr) (Some []) =
             FEdits es [112; 10; 10]%N (Some [112; 10; 10]%N) /\ (length es >= 1)%nat.
Proof. eexists. split; [vm_compute; reflexivity | simpl; lia]. Qed.

Example formatting_flow_formats_nonempty :
  exists es, formatting_flow KOpaFmt false false None None (fun _ => ONew [112; 10]%N) (Some [112; 32; 10]%N) =
             FEdits es [112; 10]%N None /\ (length es >= 1)%nat.
Proof. eexists. split; [vm_compute; reflexivity | simpl; lia]. Qed.

(* a blank (white space only) document is NOT templated: the formatter's verdict decides *)
Example formatting_flow_blank_is_not_empty :
  formatting_flow KOpaFmt false false None (Some [112; 10; 10]%N) (fun _ => OErr) (Some [10; 10]%N) = FNull.
Proof. vm_compute. reflexivity. Qed.
