From Regal Require Import Model.LspApply.
Theorem c16_placeholder : True. Proof. exact I. Qed.
Print Assumptions c16_placeholder.
