(* C18 — nearest configuration wins; merging only overrides what the user set; YAML round trip.
   Only statements here; proofs live in Proofs/FindConfig.v, Proofs/ConfigMerge.v, Proofs/ConfigYaml.v.

   Models.  Model/FindConfig.v: [find_config fs path] is config.FindConfig statement by statement
   ([find_upwards_loop] = the for-loop of findUpwards on path strings with Go's filepath.Join/Dir and
   strings.Split from Base/PathModel.v); the operating system is a function [fs] from absolute paths to
   {absent, file, directory}.  [fs_of_chain c0 lv file] is the file system holding the chain of
   directories "/" (contents c0), then top-down the named directories [lv], each with what it holds
   under the names ".regal" and ".regal.yaml" ([contents]); [start_path lv file] is the deepest
   directory (or the file [file] in it).  [holds c]: the directory has a .regal/ directory or a
   .regal.yaml file; [outcome_at here c]: what such a directory yields (its file, or the error for both
   kinds, or the error for a .regal/ without config.yaml).  [cli_config] is cmd/utils.go readUserConfig
   followed by the switch of cmd/lint.go / cmd/fix.go.
   Model/ConfigMerge.v: [config] is config.Config as nested association lists; [load provided (Some user)
   dcaps] is LoadConfigWithDefaultsFromBundle (mergo.Merge WithOverride on these shapes, then
   restoreProvidedRuleOptions, then extractUserRuleLevels); [marshal] / [unmarshal] are Config.MarshalYAML /
   UnmarshalYAML at the level of the YAML document tree. *)
From Coq Require Import List.
From Regal Require Import Base.PathModel Model.FindConfig Model.ConfigMerge Gen.ProvidedConfig
  Proofs.FindConfig Proofs.ConfigMerge Proofs.ConfigYaml.
Import ListNotations.

(* ======================= nearest configuration wins ======================= *)

(* For a chain of ANY depth and however the start path is spelled ([arg], relative to the working
   directory [cwd] or absolute, with "." / ".." / repeated separators, as long as it denotes the
   start of the chain): the closest directory (the start directory included) that holds a
   configuration of either kind decides the result, whatever lies above it; if none does, the
   search fails with "could not find Regal config". *)
Theorem c18_find_nearest :
  forall (c0 : contents) (lv : levels) (file : option str) (cwd arg : str),
  Forall plain_name (map fst lv) -> file_ok file ->
  abs_path cwd arg = start_path lv file ->
  let fs := fs_of_chain c0 lv file in
  (forall above n c below, lv = above ++ (n, c) :: below ->
     holds c = true -> none_hold below ->
     find_config fs cwd arg = outcome_at (map fst above ++ [n]) c) /\
  (holds c0 = true -> none_hold lv -> find_config fs cwd arg = outcome_at [] c0) /\
  (holds c0 = false -> none_hold lv -> find_config fs cwd arg = FErr ENotFound).
Proof. exact find_nearest. Qed.
Print Assumptions c18_find_nearest.

(* (the start path spelled as itself meets the hypothesis on [arg], whatever [cwd]) *)
Theorem c18_start_path_is_a_spelling :
  forall (lv : levels) (file : option str) (cwd : str),
  Forall plain_name (map fst lv) -> file_ok file ->
  abs_path cwd (start_path lv file) = start_path lv file.
Proof. exact abs_path_start. Qed.
Print Assumptions c18_start_path_is_a_spelling.

(* Regression witness: at the pinned commit the search cut elements off the path as spelled: from
   "/a/b/.." (the directory /a) it used /a/b/.regal.yaml, the configuration of a DESCENDANT.
   Repaired in /repo by commit f78e575 (filepath.Abs first). *)
Theorem c18_find_spelled_pinned_refuted :
  abs_path [SLASH] arg_ab_up = [47; 97]%N /\
  find_config_pinned (fs_of_chain {| c_regal := RAbsent; c_yaml := YAbsent |} chain_ab None) [SLASH] arg_ab_up
    = FFound [47; 97; 47; 98; 47; 46; 114; 101; 103; 97; 108; 46; 121; 97; 109; 108]%N /\
  find_config (fs_of_chain {| c_regal := RAbsent; c_yaml := YAbsent |} chain_ab None) [SLASH] arg_ab_up
    = FErr ENotFound.
Proof. exact find_spelled_pinned_refuted. Qed.
Print Assumptions c18_find_spelled_pinned_refuted.

(* The conflict error is returned exactly when the closest .regal/ directory and the closest
   .regal.yaml file are in the same directory. *)
Theorem c18_conflict_iff :
  forall (c0 : contents) (lv : levels) (file : option str) (cwd arg : str),
  Forall plain_name (map fst lv) -> file_ok file -> abs_path cwd arg = start_path lv file ->
  (find_config (fs_of_chain c0 lv file) cwd arg = FErr EConflict <->
   exists p c, nearest holds_dir [] c0 lv = Some (p, c) /\ nearest holds_yaml [] c0 lv = Some (p, c)).
Proof. exact conflict_iff. Qed.
Print Assumptions c18_conflict_iff.

(* ... else the user-level file, else the defaults; both kinds in one directory is an error of
   the command (no --config-file given). *)
Theorem c18_user_level_fallback :
  forall (found : find_result) (global_dir global_cfg : bool),
  cli_config None found global_dir global_cfg =
  match found with
  | FFound p => UseFile p
  | FErr EConflict => Fatal
  | FErr _ => if global_dir && global_cfg then UseGlobal else UseDefaults
  end.
Proof. exact user_level_fallback. Qed.
Print Assumptions c18_user_level_fallback.

(* Regression witness: at the pinned commit the conflict error never reached the user, `regal lint`
   went on with the defaults (or the user-level file). Repaired in /repo by commit c2a44f9. *)
Theorem c18_cli_conflict_pinned_refuted :
  exists c0 lv file global_dir global_cfg,
    find_config (fs_of_chain c0 lv file) [SLASH] (start_path lv file) = FErr EConflict /\
    cli_config_pinned None (find_config (fs_of_chain c0 lv file) [SLASH] (start_path lv file)) global_dir global_cfg
      = UseDefaults.
Proof. exact cli_conflict_pinned_refuted. Qed.
Print Assumptions c18_cli_conflict_pinned_refuted.

(* Read strictly — "the closest ancestor holding a configuration FILE" — the statement is false:
   a .regal/ directory without config.yaml (say, one that only has rules/) hides every
   configuration file further up (open finding). *)
Theorem c18_find_nearest_file_refuted :
  exists c0 lv,
    Forall plain_name (map fst lv) /\
    holds_file c0 = true /\ Forall (fun l => holds_file (snd l) = false) lv /\
    find_config (fs_of_chain c0 lv None) [SLASH] (start_path lv None) <> outcome_at [] c0.
Proof. exact find_nearest_file_refuted. Qed.
Print Assumptions c18_find_nearest_file_refuted.

(* ... and true whenever every .regal/ directory on the chain contains its config.yaml. *)
Theorem c18_find_nearest_file_partial :
  forall (c0 : contents) (lv : levels) (file : option str) (cwd arg : str),
  Forall plain_name (map fst lv) -> file_ok file -> abs_path cwd arg = start_path lv file ->
  no_empty_regal_dir c0 -> Forall (fun l => no_empty_regal_dir (snd l)) lv ->
  let fs := fs_of_chain c0 lv file in
  (forall above n c below, lv = above ++ (n, c) :: below ->
     holds_file c = true -> Forall (fun l => holds_file (snd l) = false) below ->
     find_config fs cwd arg = outcome_at (map fst above ++ [n]) c) /\
  (holds_file c0 = true -> Forall (fun l => holds_file (snd l) = false) lv ->
     find_config fs cwd arg = outcome_at [] c0) /\
  (holds_file c0 = false -> Forall (fun l => holds_file (snd l) = false) lv ->
     find_config fs cwd arg = FErr ENotFound).
Proof. exact find_nearest_file_partial. Qed.
Print Assumptions c18_find_nearest_file_partial.

(* ======================= merging only overrides what the user set ======================= *)

(* For every provided configuration with distinct rule names and every user configuration:
   every provided rule survives; every option, per-rule ignore list and top-level key the user did
   not write has its provided value; a level is the provided one unless the user wrote a level for
   the rule, for its category or globally. *)
Theorem c18_merge_only_overrides :
  forall (p u : config) (dcaps : caps),
  provided_wf p = true -> provided_plain p -> config_wf u = true ->
  let m := load p (Some u) dcaps in
  (forall cat name, get_rule p cat name <> None -> get_rule m cat name <> None) /\
  (forall cat name opt, get_option u cat name opt = None ->
     get_option m cat name opt = get_option p cat name opt) /\
  (forall cat name, get_rule_ignore u cat name = None ->
     get_rule_ignore m cat name = get_rule_ignore p cat name) /\
  (forall cat name pr, get_rule p cat name = Some pr ->
     user_rule_level u cat name = [] -> user_cat_default u cat = [] -> user_global_default u = [] ->
     get_level m cat name = Some (r_level pr)) /\
  (c_ignore u = [] -> c_ignore m = c_ignore p) /\
  (c_project u = None -> c_project m = c_project p) /\
  (c_features u = None -> c_features m = c_features p) /\
  (c_caps_url u = [] -> c_caps_url m = c_caps_url p) /\
  (c_caps u = None -> c_caps m = Some dcaps).
Proof. exact merge_only_overrides. Qed.
Print Assumptions c18_merge_only_overrides.

(* The other direction: what the user wrote is what the loaded configuration says, and the level
   of every rule follows the chain rule > category default > global default > provided > "error". *)
Theorem c18_merge_user_wins :
  forall (p u : config) (dcaps : caps),
  provided_wf p = true -> provided_plain p -> config_wf u = true ->
  let m := load p (Some u) dcaps in
  (forall cat name opt v, get_option u cat name opt = Some v -> get_option m cat name opt = Some v) /\
  (forall cat name fs, get_rule_ignore u cat name = Some fs -> get_rule_ignore m cat name = Some fs) /\
  (forall cat name, get_rule m cat name <> None ->
     get_level m cat name =
     Some (first_set [user_rule_level u cat name; user_cat_default u cat; user_global_default u]
                     (match aget (provided_levels p) name with Some l => l | None => ERROR end))).
Proof. exact merge_user_wins. Qed.
Print Assumptions c18_merge_user_wins.

(* Regression witness: at the pinned commit (no restoreProvidedRuleOptions) a user who set
   style.rule-length.max-rule-length lost the provided count-comments. Repaired by commit 946e045. *)
Theorem c18_merge_only_overrides_pinned_refuted :
  exists p u dcaps cat name opt,
    provided_wf p = true /\ provided_plain p /\ config_wf u = true /\
    get_option u cat name opt = None /\
    get_option (load_pinned p (Some u) dcaps) cat name opt <> get_option p cat name opt.
Proof. exact merge_only_overrides_pinned_refuted. Qed.
Print Assumptions c18_merge_only_overrides_pinned_refuted.

(* The provided configuration of the current tree (regenerated from data.yaml on every run) meets
   the hypotheses, so the statement holds for it outright. *)
Theorem c18_merge_only_overrides_provided :
  forall (u : config) (dcaps : caps),
  config_wf u = true ->
  let m := load provided_config (Some u) dcaps in
  (forall cat name, get_rule provided_config cat name <> None -> get_rule m cat name <> None) /\
  (forall cat name opt, get_option u cat name opt = None ->
     get_option m cat name opt = get_option provided_config cat name opt) /\
  (forall cat name, get_rule_ignore u cat name = None ->
     get_rule_ignore m cat name = get_rule_ignore provided_config cat name) /\
  (forall cat name pr, get_rule provided_config cat name = Some pr ->
     user_rule_level u cat name = [] -> user_cat_default u cat = [] -> user_global_default u = [] ->
     get_level m cat name = Some (r_level pr)).
Proof. exact merge_only_overrides_provided. Qed.
Print Assumptions c18_merge_only_overrides_provided.

(* ======================= YAML round trip ======================= *)

(* Writing a configuration out and loading it again gives back the rules (an EMPTY per-rule
   ignore list comes back as none), the default levels, the ignore list, the project and the
   remote feature; the capabilities come back as the default capabilities. [lookup] is
   capabilities.Lookup, [abs] filepath.Abs. *)
Theorem c18_yaml_roundtrip_partial :
  forall (lookup : str -> option caps) (abs : str -> str) (base : caps),
  lookup DEFAULT_CAPS_URL = Some base ->
  forall c, roundtrip_wf c = true ->
  exists j c',
    marshal c = Some j /\ unmarshal lookup abs true j = Ok c' /\
    c_rules c' = norm_rules (c_rules c) /\
    d_global (c_defaults c') = d_global (c_defaults c) /\
    (forall cat, aget (d_cats (c_defaults c')) cat = aget (d_cats (c_defaults c)) cat) /\
    c_ignore c' = c_ignore c /\
    c_project c' = c_project c /\
    c_features c' = features_back (c_features c) /\
    c_caps c' = Some base /\ c_caps_url c' = DEFAULT_CAPS_URL.
Proof. exact yaml_roundtrip_partial. Qed.
Print Assumptions c18_yaml_roundtrip_partial.

(* Configurations that were actually loaded meet [roundtrip_wf]: what UnmarshalYAML returns for a
   document without repeated keys, and what LoadConfigWithDefaultsFromBundle makes of it. *)
Theorem c18_loaded_config_wf :
  forall (lookup : str -> option caps) (abs : str -> str) (dash : bool) (doc : jval) (c : config),
  doc_wf doc = true -> unmarshal lookup abs dash doc = Ok c -> roundtrip_wf c = true.
Proof. exact unmarshal_wf. Qed.
Print Assumptions c18_loaded_config_wf.

Theorem c18_merged_config_wf :
  forall (p u : config) (dcaps : caps),
  provided_plain p -> roundtrip_wf p = true -> roundtrip_wf u = true ->
  roundtrip_wf (load p (Some u) dcaps) = true.
Proof. exact load_wf. Qed.
Print Assumptions c18_merged_config_wf.

(* Hence, for every user document: the configuration decoded from it, and the result of merging it
   over the provided configuration of the current tree, both survive the round trip as stated. *)
Theorem c18_yaml_roundtrip_loaded :
  forall (lookup : str -> option caps) (abs : str -> str) (base : caps),
  lookup DEFAULT_CAPS_URL = Some base ->
  forall doc u dcaps c,
  doc_wf doc = true -> unmarshal lookup abs true doc = Ok u ->
  c = u \/ c = load provided_config (Some u) dcaps ->
  exists j c',
    marshal c = Some j /\ unmarshal lookup abs true j = Ok c' /\
    c_rules c' = norm_rules (c_rules c) /\
    d_global (c_defaults c') = d_global (c_defaults c) /\
    (forall cat, aget (d_cats (c_defaults c')) cat = aget (d_cats (c_defaults c)) cat) /\
    c_ignore c' = c_ignore c /\
    c_project c' = c_project c /\
    c_features c' = features_back (c_features c) /\
    c_caps c' = Some base /\ c_caps_url c' = DEFAULT_CAPS_URL.
Proof. exact yaml_roundtrip_loaded. Qed.
Print Assumptions c18_yaml_roundtrip_loaded.

(* The full statement — unmarshal (marshal c) = c for every loaded c — is false: what
   capabilities.from / plus / minus did is not written in a form the reader understands. *)
Theorem c18_yaml_roundtrip_refuted :
  exists lookup abs doc c j c',
    unmarshal lookup abs true doc = Ok c /\ roundtrip_wf c = true /\
    marshal c = Some j /\ unmarshal lookup abs true j = Ok c' /\ c_caps c' <> c_caps c.
Proof. exact yaml_roundtrip_refuted. Qed.
Print Assumptions c18_yaml_roundtrip_refuted.

(* ======================= non-vacuity ======================= *)

(* a chain /a/b with .regal.yaml in "/" and an (empty) .regal/ + .regal.yaml in /a: the
   hypotheses of c18_find_nearest (a) hold with above = [], n = a, below = [b], and the result
   is the conflict error; one level up the root's .regal.yaml is found *)
Example c18_find_nonvacuous :
  let a := [97%N] in let b := [98%N] in
  let e := {| c_regal := RAbsent; c_yaml := YAbsent |} in
  let c0 := {| c_regal := RAbsent; c_yaml := YIsFile |} in
  let ca := {| c_regal := RDir false; c_yaml := YIsFile |} in
  Forall plain_name [a; b] /\ holds ca = true /\ none_hold [(b, e)] /\
  (* "b/../b" from the working directory /a is a spelling of /a/b *)
  abs_path [47%N; 97%N] [98%N; 47%N; 46%N; 46%N; 47%N; 98%N] = start_path [(a, ca); (b, e)] None /\
  find_config (fs_of_chain c0 [(a, ca); (b, e)] None) [47%N; 97%N] [98%N; 47%N; 46%N; 46%N; 47%N; 98%N] = FErr EConflict /\
  find_config (fs_of_chain c0 [] None) [SLASH] (start_path [] None) = FFound (path_of_names [REGAL_YAML]).
Proof.
  cbn zeta. repeat split.
  - repeat constructor; try discriminate; cbn; intuition discriminate.
  - repeat constructor.
Qed.

(* the merge hypotheses are met by a provided rule with two options and a user who sets one *)
Example c18_merge_nonvacuous :
  provided_wf witness_provided = true /\ provided_plain witness_provided /\ config_wf witness_user = true /\
  get_option witness_user STYLE RL COUNTC = None /\
  get_option (load witness_provided (Some witness_user) []) STYLE RL COUNTC = Some (JBool false) /\
  get_option (load witness_provided (Some witness_user) []) STYLE RL MAXLEN = Some (JNum 10).
Proof. repeat split. Qed.

(* a configuration with a global default, a category default, a rule with an ignore list and an
   option meets roundtrip_wf *)
Example c18_roundtrip_nonvacuous :
  roundtrip_wf
    {| c_defaults := {| d_global := ERROR; d_cats := [(STYLE, ERROR)] |};
       c_rules := [(STYLE, [(RL, {| r_level := ERROR; r_ignore := Some [[97%N]];
                                    r_extra := [(MAXLEN, JNum 10)] |})])];
       c_caps := None; c_features := Some (Some true); c_project := None;
       c_caps_url := []; c_ignore := [[98%N]] |} = true.
Proof. reflexivity. Qed.

(* a user document with a global default, a category default and a rule meets doc_wf and decodes *)
Example c18_loaded_nonvacuous :
  let doc := JObj [(RULES, JObj [(DEFAULT, JObj [(LEVEL, JStr ERROR)]);
                                  (STYLE, JObj [(DEFAULT, JObj [(LEVEL, JStr ERROR)]);
                                                (RL, JObj [(MAXLEN, JNum 10)])])])] in
  doc_wf doc = true /\
  exists u, unmarshal (fun _ => Some []) (fun p => p) true doc = Ok u /\
            get_option u STYLE RL MAXLEN = Some (JNum 10) /\ user_cat_default u STYLE = ERROR.
Proof. cbn zeta. split; [reflexivity|]. eexists. split; [vm_compute; reflexivity | split; reflexivity]. Qed.
