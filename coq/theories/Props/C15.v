(* C15 — language-server diagnostics converge to a from-scratch workspace lint (PARTIAL claim).
   Model: Model/Lsp.v (job-atomic steps of handlers / file-lint job / dispatcher / workspace run; the
   linter is a set of oracles constrained by [linter_ok]).  Real interleavings are sampled by the
   harness, not proved. *)
From Coq Require Import List NArith Bool Permutation.
From Regal Require Import Base.StrLit Model.Lsp Proofs.Lsp Model.LspCache Gen.LspShape Proofs.LspCache.
From Regal Require Model.LspLintShape Proofs.LspLintShape.
Import ListNotations.
Open Scope N_scope.

(* The full statement — for every linter, initial workspace, event history and job-atomic schedule,
   at quiescence the diagnostics last published for every URI are those of a fresh lint — is
   [converges_statement current atomic_label].  It is FALSE of the current code: *)
Theorem converges_job_atomic_refuted : ~ converges_statement current atomic_label.
Proof. exact refuted_parse_failure. Qed.
Print Assumptions converges_job_atomic_refuted.

(* Four independent witnesses (on the concrete linter [w_*] of Model/Lsp.v) diverge under the model of
   the current code, and each stops diverging when exactly one modelled defect is repaired:
   last good module kept after a parse failure; aggregate-only lint with a single module; diagnostics of
   a rule disabled while the file was unparseable; no publish when no file parses. *)
Theorem converges_refutation_witnesses :
  (wdiv current wit_parse_failure = true /\ wdiv (Build_fixes true true true false false false) wit_parse_failure = false) /\
  (wdiv current wit_single_module = true /\ wdiv (Build_fixes true true false false true false) wit_single_module = false) /\
  (wdiv current wit_disabled_rule = true /\ wdiv (Build_fixes true true false true false false) wit_disabled_rule = false) /\
  (wdiv current wit_no_modules = true /\ wdiv (Build_fixes true true false false false true) wit_no_modules = false).
Proof. exact witnesses_all. Qed.
Print Assumptions converges_refutation_witnesses.

(* First restriction proved: histories that never introduce an unparseable document
   ([parse_ok_init], [parse_ok_label]; any edits, creates, deletes, renames and config changes, any
   job-atomic schedule incl. the rate limiter dropping jobs), ending with a number of modules other
   than one.  Then every URI's last published diagnostics are a permutation of the fresh lint, and
   deleted / renamed-away URIs have none. *)
Theorem converges_job_atomic_partial :
  forall (U : list uri) parses perr fdiags areport nonagg agg,
    linter_ok parses perr fdiags areport nonagg agg ->
    forall (f : fmap content) (k : cfg) (ls : list label) (s : state),
      parse_ok_init U parses f ->
      Forall (parse_ok_label U parses) ls ->
      run U parses perr fdiags areport nonagg agg current ls (init_state parses f k) = Some s ->
      quiescent s ->
      count_modules U s <> 1%nat ->
      (forall u, Permutation (pub s u) (fresh U parses perr fdiags areport (contents s) (conf s) u)) /\
      (forall u, contents s u = None -> pub s u = []).
Proof. exact converges_job_atomic_partial_closed. Qed.
Print Assumptions converges_job_atomic_partial.

(* Second restriction proved: histories WITHOUT config change but with arbitrary documents (a file may stop
   parsing and parse again later, as while typing).  At quiescence, if every file of the workspace parses
   and the number of modules is not one, the published diagnostics are the fresh lint. *)
Theorem converges_job_atomic_partial_noconfig :
  forall (U : list uri) parses perr fdiags areport nonagg agg,
    linter_ok parses perr fdiags areport nonagg agg ->
    forall (f : fmap content) (k : cfg) (ls : list label) (s : state),
      in_universe_init U f ->
      Forall (job_atomic_label U) ls -> Forall no_config_label ls ->
      run U parses perr fdiags areport nonagg agg current ls (init_state parses f k) = Some s ->
      quiescent s ->
      count_modules U s <> 1%nat ->
      (forall u c, contents s u = Some c -> parses c = true) ->
      (forall u, Permutation (pub s u) (fresh U parses perr fdiags areport (contents s) (conf s) u)) /\
      (forall u, contents s u = None -> pub s u = []).
Proof. exact converges_job_atomic_noconfig_closed. Qed.
Print Assumptions converges_job_atomic_partial_noconfig.

Example converges_partial_noconfig_nonvacuous :
  Forall (job_atomic_label wU) ex_history2 /\ Forall no_config_label ex_history2 /\
  match w_run current [(0, 0); (1, 1); (2, 1)] ex_history2 with
  | Some s => quiescentb s = true /\ count_modules wU s = 3%nat /\ pub s 1 = [(1, 30)] /\
              forallb (fun u => match contents s u with Some c => w_parses c | None => true end) wU = true
  | None => False
  end.
Proof. exact ex_history2_ok. Qed.

(* non-vacuity: a history (edit, rename, config change, edit, delete) on the concrete linter that meets
   the hypotheses and ends quiescent with two modules *)
Example converges_partial_nonvacuous :
  linter_ok w_parses w_perr w_fd w_ar w_nonagg w_agg /\
  Forall (parse_ok_label wU w_parses) ex_history /\
  match w_run current [(0, 0); (1, 1)] ex_history with
  | Some s => quiescentb s = true /\ count_modules wU s = 2%nat /\ pub s 0 = [] /\ conf s = 2
  | None => False
  end.
Proof. exact (conj w_linter_ok ex_history_ok). Qed.

(* Regression theorems for the two repaired defects: the pinned behaviour ([pinned]: didDeleteFiles
   queues no lint; the lint after a config change keeps the cached aggregates) is refuted by a witness
   that converges under the current behaviour. *)
Theorem converges_pinned_refuted_delete : ~ converges_statement pinned atomic_label /\ wdiv current wit_delete = false.
Proof. exact pinned_refuted_delete. Qed.
Print Assumptions converges_pinned_refuted_delete.

Theorem converges_pinned_refuted_config : ~ converges_statement pinned atomic_label /\ wdiv current wit_config = false.
Proof. exact pinned_refuted_config. Qed.
Print Assumptions converges_pinned_refuted_config.

(* Fine-grained schedules: with the file-lint job split in its two halves ([LFileBegin]/[LFileEnd]) a
   delete handled in between makes even parse-failure-free histories with several modules diverge. *)
Theorem converges_fine_refuted : ~ converges_statement current any_label.
Proof. exact fine_refuted. Qed.
Print Assumptions converges_fine_refuted.

(* SetFileDiagnosticsForRules: updates for disjoint rule sets commute (up to order) *)
Theorem set_for_rules_merge :
  forall (R1 R2 : list rule) (cur n1 n2 : list diag),
    (forall r, mem r R1 = true -> mem r R2 = false) ->
    (forall d, In d n1 -> mem (code d) R1 = true) ->
    (forall d, In d n2 -> mem (code d) R2 = true) ->
    Permutation (merge_rules R2 (merge_rules R1 cur n1) n2) (merge_rules R1 (merge_rules R2 cur n2) n1).
Proof. exact set_for_rules_merge_lemma. Qed.
Print Assumptions set_for_rules_merge.

Example set_for_rules_merge_nonvacuous :
  merge_rules [2] (merge_rules [1] [(1, 5); (2, 6); (3, 7)] [(1, 8)]) [(2, 9)] = [(3, 7); (1, 8); (2, 9)].
Proof. reflexivity. Qed.

(* ------------------------------------------------------------------ the cache as shared state *)
(* The job-atomic model and [set_for_rules_merge] assume that one cache operation on one map entry is ATOMIC and
   that values handed out are immutable.  Model/LspCache.v models the cache at the granularity of the atomic
   accesses of its concurrent maps; the cache-level harness compares it with the implementation on sequential
   histories over every exported function and on concurrent histories (results and final state must be explained
   by an interleaving of the modelled atomic steps: [explained]).

   With the atomic operation, two partial updates of the same file for disjoint rule sets (file-lint worker:
   non-aggregate rules; workspace-lint worker: aggregate rules) give the same diagnostics in both orders up to
   order, touch no other entry, and neither update is lost. *)
Theorem cache_disjoint_updates_commute :
  forall (s : cstate) (u : uri) (R1 R2 : list rule) (n1 n2 : list diag),
    (forall r, mem r R1 = true -> mem r R2 = false) ->
    (forall d, In d n1 -> mem (code d) R1 = true) ->
    (forall d, In d n2 -> mem (code d) R2 = true) ->
    let a := OSetDiagsForRules u R1 n1 in
    let b := OSetDiagsForRules u R2 n2 in
    Permutation (diags_of (state_after [a; b] s) u) (diags_of (state_after [b; a] s) u) /\
    (forall f v, f <> FDiags \/ v <> u -> a_get (state_after [a; b] s f) v = a_get (state_after [b; a] s f) v) /\
    (forall d, In d n1 \/ In d n2 -> In d (diags_of (state_after [a; b] s) u)).
Proof. exact disjoint_updates_commute_lemma. Qed.
Print Assumptions cache_disjoint_updates_commute.

(* The atomicity assumption is necessary: with the same update written as Get, compute, Set (every access still
   locked) some interleaving of two goroutines loses the update of either one; with the atomic operation none does. *)
Theorem cache_split_update_refuted :
  let t1 := [(split_for_rules 1 [1] [(1, 8)], RUnit)] in
  let t2 := [(split_for_rules 1 [2] [(2, 9)], RUnit)] in
  reachable 4 (lacks (1, 8)) [t1; t2] w_state = true /\
  reachable 4 (lacks (2, 9)) [t1; t2] w_state = true /\
  reachable 4 (fun s => lacks (1, 8) s || lacks (2, 9) s)
            [thread_of [(OSetDiagsForRules 1 [1] [(1, 8)], RUnit)]; thread_of [(OSetDiagsForRules 1 [2] [(2, 9)], RUnit)]] w_state = false.
Proof. exact split_update_lemma. Qed.
Print Assumptions cache_split_update_refuted.

(* Tie to the source, re-proved on every run against the regenerated Gen/LspShape.v: the functions of package
   internal/lsp/cache, the accesses each makes to the concurrent maps (map, method, key expression), the calls
   between them, every write through a slice or map, and the Get...Set sequences over cache items in
   internal/lsp/*.go are exactly what the model was written from; no function reads an entry with Get and writes
   the same entry with Set (a read-modify-write is ONE UpdateValue); every write through a slice or map goes to a
   variable the function has just created (no in-place filtering `x[:0]` of a stored or handed-out slice); and the
   program of each modelled operation makes exactly the listed accesses. *)
Theorem cache_shape_match :
  cache_found = true /\
  cache_fields = map (fun f => lit (field_name f)) all_fields /\
  cache_funcs = map lit cache_funcs_modelled /\
  cache_sites = map render_site cache_sites_modelled /\
  cache_calls = map (fun c => (lit (fst c), lit (snd c))) cache_calls_modelled /\
  cache_inplace = map render_inplace cache_inplace_modelled /\
  lsp_cache_rmw = map render_rmw lsp_cache_rmw_modelled /\
  no_get_then_set cache_sites_modelled = true /\
  inplace_only_fresh cache_inplace_modelled = true /\
  samples_ok (tl cache_funcs_modelled) sample_ops = true.
Proof. exact cache_shape_match_lemma. Qed.
Print Assumptions cache_shape_match.

(* ---- regenerated obligations for what only a real interleaving would show (go/ast extract, Gen/LspShape.v) ---- *)

(* Cache writes of internal/lsp/lint.go after the call of the linter (the slow step, during which a delete / rename
   can be handled): they are exactly the modelled ones; each is a whole-map operation, or dominated by the test that
   its URI is still a file of the cache (the loop over cache.GetAllFiles() read after the lint), or one of the four
   listed unprotected writes (Model.LspLintShape.lint_writes_unprotected: the aggregates / ignore directives of the
   file job = the OPEN delete-race finding; the per-file writes of the workspace run, never published).  In particular
   the diagnostics that the file-lint job stores for its file are protected: "no diagnostic of a deleted or
   renamed-away file survives" does not depend on the delete arriving outside the lint. *)
Theorem lint_writes_after_lint_check_presence :
  lint_found = true /\
  lint_cache_writes = Model.LspLintShape.lint_cache_writes_modelled /\
  forallb Model.LspLintShape.lint_write_ok lint_cache_writes = true /\
  Model.LspLintShape.file_diagnostics_write_protected lint_cache_writes = true.
Proof. exact Proofs.LspLintShape.lint_writes_match_lemma. Qed.
Print Assumptions lint_writes_after_lint_check_presence.

(* The rate limiter of the dispatcher, read from the source (condition of the branch of StartDiagnosticsWorker that
   does not forward a job to workspaceLintRuns, constants resolved), as a function of the kind of job and the length
   of the queue: for every queue length the channel admits, ONLY aggregate-report-only jobs are dropped, and only
   when more than 5 runs are waiting (so a full lint / config-change lint is never dropped) ... *)
Theorem limiter_only_drops_aggregate_reports :
  forall (aggonly overwrite : bool) (qlen : nat),
    (qlen <= 10)%nat -> Proofs.LspLintShape.source_limiter aggonly overwrite qlen = true -> aggonly = true /\ (qlen > 5)%nat.
Proof. exact Proofs.LspLintShape.limiter_only_drops_aggonly_lemma. Qed.
Print Assumptions limiter_only_drops_aggregate_reports.

(* ... and the dispatcher of the model, about which [converges_job_atomic_partial] is proved, IS the dispatcher with
   that limiter on every state whose run queue respects the capacity of the channel: the theorem's assumption about
   the limiter is the code's. *)
Theorem dispatch_is_source_limiter :
  forall s : state, (length (qr s) <= 10)%nat ->
    dispatch s = Model.LspLintShape.dispatch_with Proofs.LspLintShape.source_limiter s.
Proof. exact Proofs.LspLintShape.dispatch_is_source_limiter_lemma. Qed.
Print Assumptions dispatch_is_source_limiter.

Example limiter_nonvacuous :
  Proofs.LspLintShape.source_limiter true false 6 = true /\ Proofs.LspLintShape.source_limiter true false 5 = false /\
  Proofs.LspLintShape.source_limiter false true 10 = false /\ limiter_capacity = 10.
Proof. vm_compute. repeat split. Qed.
