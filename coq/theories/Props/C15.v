From Regal Require Import Model.Lsp.
Theorem c15_placeholder : True. Proof. exact I. Qed.
Print Assumptions c15_placeholder.
