(* C14 — without --force, fix never destroys work that git cannot restore.
   Model definitions used below: Model/GitGuard.v (find_repo_path, find_repo_path_abs, find_git_repo, in_work_tree,
   in_no_work_tree, git_guard, fp_abs, denotes, clean_key, touches_dirty and the pinned / not-the-code variants), Model/Commit.v (finish_command: conflict
   abort -> git gate -> commit), Model/Provider.v (cpath, rpath, regular).
   go-git's status computation is an oracle: the gate sees its key set [gv_status]. *)
From Regal Require Import Model.Commit.
From Regal Require Import Proofs.GitGuard Proofs.Commit.

(* guard_sound.  Without --force and --dry-run the command reaches the commit (the only place where
   it touches the disk) only if a repository was found and no path of modified + deleted equals a
   status key joined to the absolute work-tree root; in every other case the tree is what it was. *)
Theorem c14_guard_sound :
  forall (C : Type) (fl : flags) cwd gv roots (fs : fsys C) lr dl ml out fs',
  fl_force fl = false -> fl_dry_run fl = false ->
  finish_command fl cwd gv roots fs lr dl ml = (out, fs') ->
  (out = OutDone \/ out = OutCommitFailed ->
     exists p r root,
       lr = LDone p r /\ has_conflicts r = false /\ gv_repo gv = RepoAt root /\
       forall f k, In f (pv_modified p ++ pv_deleted p) -> In k (gv_status gv) ->
                   f <> pjoin [fp_abs cwd root; k])
  /\ (out <> OutDone -> out <> OutCommitFailed -> fs' = fs).
Proof. exact guard_sound_lemma. Qed.
Print Assumptions c14_guard_sound.

(* The same, read component-wise: with the work tree at /rs... no touched file is the file that a
   (clean, relative) status key names below that root. *)
Theorem c14_guard_sound_components :
  forall (C : Type) (fl : flags) cwd gv roots (fs : fsys C) p r dl ml out fs' root rs,
  fl_force fl = false -> fl_dry_run fl = false ->
  finish_command fl cwd gv roots fs (LDone p r) dl ml = (out, fs') ->
  out = OutDone \/ out = OutCommitFailed ->
  gv_repo gv = RepoAt root -> fp_abs cwd root = cpath rs -> Forall regular rs ->
  ~ touches_dirty rs (gv_status gv) (pv_modified p ++ pv_deleted p).
Proof. exact guard_sound_components. Qed.
Print Assumptions c14_guard_sound_components.

(* the hypothesis on the root above is met whenever the working directory is absolute *)
Theorem c14_abs_root_is_clean :
  forall cwd p, is_rooted cwd = true -> exists rs, Forall regular rs /\ fp_abs cwd p = cpath rs.
Proof. exact fp_abs_cpath. Qed.
Print Assumptions c14_abs_root_is_clean.

(* FindGitRepo (repaired), stated on the ARGUMENT list as the command line gives it: a repository is
   reported only if EVERY argument (made absolute against the working directory) lies in it
   COMPONENT-WISE -- its components are the repository's components followed by more ([in_work_tree]:
   ds = rs ++ rest; "/w/pol-draft" does not lie in "/w/pol") --, that directory holds a .git
   directory, and no directory between it and the argument holds a .git entry of its own (it is the
   closest work tree around each argument).  [stat] is os.Stat on absolute paths, an oracle. *)
Theorem c14_same_repository :
  forall cwd fuel stat dirs r,
  is_rooted cwd = true ->
  find_git_repo cwd fuel stat dirs = RepoAt r ->
  exists rs, r = cpath rs /\ Forall regular rs /\
    forall d, In d dirs ->
      exists ds, fp_abs cwd d = cpath ds /\ Forall regular ds /\ in_work_tree stat rs ds.
Proof. exact same_repository. Qed.
Print Assumptions c14_same_repository.

(* "no git repo found" is answered only if every argument lies in no work tree at all; everything
   else (arguments in different work trees, some inside and some outside, a .git that is not a
   directory, a stat error) is an error: the gate refuses in all these cases ([git_guard]) *)
Theorem c14_no_repository :
  forall cwd fuel stat dirs,
  is_rooted cwd = true ->
  find_git_repo cwd fuel stat dirs = RepoNone ->
  forall d, In d dirs ->
    exists ds, fp_abs cwd d = cpath ds /\ Forall regular ds /\ in_no_work_tree stat ds.
Proof. exact no_repository. Qed.
Print Assumptions c14_no_repository.

(* the walk-level reading: every argument's own walk gave the answer *)
Theorem c14_same_walk_answer :
  forall cwd fuel stat dirs r,
  find_git_repo cwd fuel stat dirs = RepoAt r ->
  forall d, In d dirs -> find_repo_path_abs cwd fuel stat d = RepoAt r.
Proof. exact find_git_repo_uniform. Qed.
Print Assumptions c14_same_walk_answer.

(* [c14_same_repository] fails for a FindGitRepo that decides "inside the repository found already"
   by a STRING prefix (/w/pol-draft starts with /w/pol): an argument in no work tree at all rides
   along (class of seeded change C14-4) *)
Theorem c14_same_repository_string_prefix_refuted :
  exists cwd stat dirs d r,
    In d dirs
    /\ find_git_repo_strprefix cwd 8 stat dirs = RepoAt r
    /\ find_repo_path_abs cwd 8 stat d = RepoNone
    /\ find_git_repo cwd 8 stat dirs = RepoErr.
Proof. exact same_repository_string_prefix_refuted. Qed.
Print Assumptions c14_same_repository_string_prefix_refuted.

(* ... and says nothing about an argument when the question is asked about another list (the project
   roots: config.GetPotentialRoots leaves out an argument without a bundle root of its own as soon
   as another argument has one; class of seeded change C14-3) *)
Theorem c14_same_repository_other_list_refuted :
  exists cwd stat args roots d r,
    In d args /\ (forall x, In x roots -> In x args)
    /\ find_git_repo cwd 8 stat roots = RepoAt r
    /\ find_repo_path_abs cwd 8 stat d = RepoNone
    /\ find_git_repo cwd 8 stat args = RepoErr.
Proof. exact same_repository_other_list_refuted. Qed.
Print Assumptions c14_same_repository_other_list_refuted.

(* pinned behaviour (repaired in /repo): the walk ran on the argument as spelled; from /w/pol the
   argument ../pol-draft (in no work tree) was answered with ".", the repository of the working
   directory *)
Theorem c14_find_git_repo_lexical_pinned_refuted :
  exists cwd stat d,
    find_git_repo_lexical 8 (fun p => stat (fp_abs cwd p)) [d] = RepoAt [46%N]
    /\ find_git_repo cwd 8 stat [d] = RepoNone.
Proof. exact find_git_repo_lexical_refuted. Qed.
Print Assumptions c14_find_git_repo_lexical_pinned_refuted.

(* Whatever the flags: an outcome other than success / half-way failure leaves the tree alone. *)
Theorem c14_refusal_leaves_disk :
  forall (C : Type) (fl : flags) cwd gv roots (fs : fsys C) lr dl ml,
  let '(out, fs') := finish_command fl cwd gv roots fs lr dl ml in
  out = OutDone \/ out = OutCommitFailed \/ fs' = fs.
Proof. exact no_commit_no_change. Qed.
Print Assumptions c14_refusal_leaves_disk.

(* ---- the pinned gate (repaired in /repo): three ways past it ---- *)

(* absolute provider paths were looked up among repository-relative keys: never equal *)
Theorem c14_guard_pinned_refuted_paths :
  exists root status modified deleted,
    git_guard_pinned (RepoAt root) status modified deleted = GProceed
    /\ touches_dirty [[82%N]] status (modified ++ deleted)
    /\ git_guard [47%N] (RepoAt root) status modified deleted = GRefuse.
Proof. exact guard_pinned_refuted_paths. Qed.
Print Assumptions c14_guard_pinned_refuted_paths.

(* DeletedFiles (the sources of moves) were never looked at *)
Theorem c14_guard_pinned_refuted_deleted :
  exists root status modified deleted,
    git_guard [47%N] (RepoAt root) status modified deleted = GRefuse
    /\ git_guard_pinned (RepoAt root) (changed_abs [47%N] root status) modified deleted = GProceed.
Proof. exact guard_pinned_refuted_deleted. Qed.
Print Assumptions c14_guard_pinned_refuted_deleted.

(* an argument outside of every repository was accepted next to one inside *)
Theorem c14_find_git_repo_pinned_refuted :
  exists stat dirs d,
    In d dirs /\ find_repo_path 8 stat d = RepoNone
    /\ find_git_repo_pinned 8 stat dirs = RepoAt [47%N; 97%N]
    /\ find_git_repo [47%N] 8 stat dirs = RepoErr.
Proof. exact find_git_repo_pinned_refuted. Qed.
Print Assumptions c14_find_git_repo_pinned_refuted.

(* ---- symbolic links.  The model (like the code) works on paths as spelled; [resolve] is realpath, an oracle.
        The gate protects the FILES git reports as far as the spellings it compares are faithful
        ([faithful]: distinct spellings, distinct files), which holds when the only links lie above the
        work tree (every compared path then starts with the same spelled root). ---- *)
Theorem c14_guard_sound_resolved :
  forall (resolve : str -> str) cwd root status modified deleted,
  git_guard cwd (RepoAt root) status modified deleted = GProceed ->
  faithful resolve ((modified ++ deleted) ++ changed_abs cwd root status) ->
  ~ touches_dirty_resolved resolve (fp_abs cwd root) status (modified ++ deleted).
Proof. exact guard_sound_resolved. Qed.
Print Assumptions c14_guard_sound_resolved.

(* resolving ONE side only (the work-tree root, not the provider's paths) opens the gate for a dirty file
   that the spelled comparison stops: repository /T reached through the link /L *)
Theorem c14_guard_root_resolved_refuted :
  exists resolve cwd root status modified deleted,
    git_guard_root_resolved resolve cwd (RepoAt root) status modified deleted = GProceed
    /\ touches_dirty_resolved resolve (fp_abs cwd root) status (modified ++ deleted)
    /\ git_guard cwd (RepoAt root) status modified deleted = GRefuse.
Proof. exact guard_root_resolved_refuted. Qed.
Print Assumptions c14_guard_root_resolved_refuted.

(* without faithfulness the gate of the tree as it is does let a dirty file through: a link inside the
   work tree (open finding) *)
Theorem c14_guard_unfaithful_refuted :
  exists resolve cwd root status modified deleted,
    git_guard cwd (RepoAt root) status modified deleted = GProceed
    /\ touches_dirty_resolved resolve (fp_abs cwd root) status (modified ++ deleted).
Proof. exact guard_unfaithful_refuted. Qed.
Print Assumptions c14_guard_unfaithful_refuted.

(* ---- round 3: what the gate is told.  Model/GitStatus.v: [repo] (own status keys, .gitmodules entries (name, path),
   repositories checked out below), [changed_files] (GetChangedFiles: own keys ++ path-prefixed keys of every checked-out
   directory whose PATH .gitmodules lists; [by_name = true] is not the code), [reaches], [key_at], [command_with_writer]. ---- *)
From Regal Require Import Model.GitStatus Proofs.GitStatus.

(* every key of the own status of a repository reached through registered, checked-out submodules (a chain of submodule
   PATHS ps, at any depth) is among the keys handed to the gate -- whatever NAMES the submodules carry *)
Theorem c14_submodule_changes_listed :
  forall r ps r'' k,
  reaches r ps r'' -> In k (repo_own r'') -> In (key_at ps k) (changed_files false r).
Proof. exact submodule_changes_listed. Qed.
Print Assumptions c14_submodule_changes_listed.

(* so a run the gate lets through touches no file that the superproject or ANY checked-out submodule reports not clean *)
Theorem c14_guard_covers_submodules :
  forall cwd root r modified deleted ps r'' k,
  git_guard cwd (RepoAt root) (changed_files false r) modified deleted = GProceed ->
  reaches r ps r'' -> In k (repo_own r'') ->
  forall f, In f (modified ++ deleted) -> f <> pjoin [fp_abs cwd root; key_at ps k].
Proof. exact guard_covers_submodules. Qed.
Print Assumptions c14_guard_covers_submodules.

(* listing the submodules by the key of their configuration section -- the NAME -- loses every submodule whose name is
   not its path (git submodule add --name, git mv): witness policies/lib named shared-lib (class of seeded change C14-6) *)
Theorem c14_submodule_changes_by_name_refuted :
  exists r ps r'' k,
    reaches r ps r'' /\ In k (repo_own r'')
    /\ ~ In (key_at ps k) (changed_files true r)
    /\ In (key_at ps k) (changed_files false r).
Proof. exact submodule_changes_by_name_refuted. Qed.
Print Assumptions c14_submodule_changes_by_name_refuted.

Theorem c14_guard_by_name_refuted :
  exists cwd root r modified deleted ps r'' k,
    git_guard cwd (RepoAt root) (changed_files true r) modified deleted = GProceed
    /\ reaches r ps r'' /\ In k (repo_own r'')
    /\ In (pjoin [fp_abs cwd root; key_at ps k]) (modified ++ deleted)
    /\ git_guard cwd (RepoAt root) (changed_files false r) modified deleted = GRefuse.
Proof. exact guard_by_name_refuted. Qed.
Print Assumptions c14_guard_by_name_refuted.

(* WHEN the status is asked.  The files are read from [fs_read]; the gate and the commit work on the tree as it is after
   the lint run, [fs_now] (somebody may have saved a file meanwhile); [status_of] is the status oracle.  The code asks it
   about [fs_now]: a run that reaches the commit touches no file that the status of the tree it WRITES TO lists, and a run
   that does not leaves that tree, the concurrent writer's work included, as it is. *)
Theorem c14_status_at_commit_time :
  forall (C : Type) (fl : flags) cwd rr (status_of : fsys C -> list str) roots (fs_read fs_now : fsys C) lr dl ml out fs',
  fl_force fl = false -> fl_dry_run fl = false ->
  command_with_writer false fl cwd rr status_of roots fs_read fs_now lr dl ml = (out, fs') ->
  (out = OutDone \/ out = OutCommitFailed ->
     exists p r root,
       lr = LDone p r /\ rr = RepoAt root /\
       forall f k, In f (pv_modified p ++ pv_deleted p) -> In k (status_of fs_now) ->
                   f <> pjoin [fp_abs cwd root; k])
  /\ (out <> OutDone -> out <> OutCommitFailed -> fs' = fs_now).
Proof. exact status_at_commit_time. Qed.
Print Assumptions c14_status_at_commit_time.

(* with the status taken up front (before the files are read: class of seeded change C14-5) a file saved while the
   command runs is replaced although the status of the tree written to lists it; the code refuses on the same input *)
Theorem c14_status_taken_early_refuted :
  exists fl cwd root (status_of : fsys str -> list str) roots fs_read fs_now lr dl ml,
    fl_force fl = false /\ fl_dry_run fl = false
    /\ (exists p r f k fs', lr = LDone p r
          /\ command_with_writer true fl cwd (RepoAt root) status_of roots fs_read fs_now lr dl ml = (OutDone, fs')
          /\ In f (pv_modified p ++ pv_deleted p) /\ In k (status_of fs_now)
          /\ f = pjoin [fp_abs cwd root; k]
          /\ aget (fs_files fs') f <> aget (fs_files fs_now) f)
    /\ command_with_writer false fl cwd (RepoAt root) status_of roots fs_read fs_now lr dl ml = (OutGitRefused, fs_now).
Proof. exact status_taken_early_refuted. Qed.
Print Assumptions c14_status_taken_early_refuted.

(* the touched path lies below the work tree AS SPELLED, the file it names (a symbolic link to a file elsewhere) does not:
   the work tree is clean, the gate proceeds, the command writes through the link (open finding, round 3) *)
Theorem c14_guard_link_leaves_worktree_refuted :
  exists resolve cwd root status modified deleted f,
    git_guard cwd (RepoAt root) status modified deleted = GProceed
    /\ status = [] /\ In f (modified ++ deleted)
    /\ str_has_prefix (resolve f) (resolve (fp_abs cwd root) ++ [SLASH]) = false
    /\ str_has_prefix f (fp_abs cwd root ++ [SLASH]) = true.
Proof. exact guard_link_leaves_worktree_refuted. Qed.
Print Assumptions c14_guard_link_leaves_worktree_refuted.

(* ---- the hypotheses are satisfiable by non-trivial values ---- *)
From Regal Require Import Base.StrLit.
From Coq Require Import String.
Local Open Scope string_scope.

Definition ex_tree : fsys str :=
  {| fs_files := [(lit "/R/pol/x.rego", lit "A")]; fs_dirs := [lit "/"; lit "/R"; lit "/R/.git"; lit "/R/pol"] |}.
Definition ex_prov (modified : bool) : provider str :=
  {| pv_files := [(lit "/R/pol/x.rego", lit "A fixed")]; pv_modified := [lit "/R/pol/x.rego"];
     pv_deleted := []; pv_disk := [] |}.

(* run from /R/pol: the arguments "../pol" and "." both find /R (the walk on the spelling found ".."
   and nothing); a dirty pol/x.rego is refused, a clean one is rewritten; /R/pol lies in /R
   component-wise with /R/.git a directory and no /R/pol/.git *)
Example c14_guard_nonvacuous :
  let stat := fs_stat ex_tree in
  find_git_repo (lit "/R/pol") 16 stat [lit "../pol"; lit "."] = RepoAt (lit "/R")
  /\ find_git_repo_lexical 16 (fun p => stat (fp_abs (lit "/R/pol") p)) [lit "../pol"] = RepoAt (lit "..")
  /\ find_git_repo_lexical 16 (fun p => stat (fp_abs (lit "/R/pol") p)) [lit "."] = RepoNone
  /\ in_work_tree stat [lit "R"] [lit "R"; lit "pol"]
  /\ finish_command {| fl_force := false; fl_dry_run := false |} (lit "/R/pol")
        {| gv_repo := RepoAt (lit "/R"); gv_status := [lit "pol/x.rego"] |} [lit "/R"] ex_tree
        (LDone (ex_prov true) new_report) [] [lit "/R/pol/x.rego"] = (OutGitRefused, ex_tree)
  /\ fst (finish_command {| fl_force := false; fl_dry_run := false |} (lit "/R/pol")
        {| gv_repo := RepoAt (lit "/R"); gv_status := [lit "other.rego"] |} [lit "/R"] ex_tree
        (LDone (ex_prov true) new_report) [] [lit "/R/pol/x.rego"]) = OutDone.
Proof.
  cbv zeta. repeat split; try (vm_compute; reflexivity).
  exists [lit "pol"]. split; [reflexivity|]. split; [vm_compute; reflexivity|].
  intros m m' Hm Hne. destruct m as [|x m]; [contradiction|].
  destruct m; [|destruct m; discriminate]. injection Hm as <- _. vm_compute. reflexivity.
Qed.

(* [faithful] is satisfiable with a resolve that is not the identity: everything below the link /L *)
Example c14_faithful_nonvacuous :
  faithful Proofs.GitGuard.l_resolve [lit "/L/x"; lit "/L/y"] /\ Proofs.GitGuard.l_resolve (lit "/L/x") = lit "/T/x".
Proof.
  split; [|reflexivity]. intros a b [<-|[<-|[]]] [<-|[<-|[]]]; vm_compute; intros H; try reflexivity; discriminate.
Qed.

(* [reaches] two levels deep through submodules whose names are not their paths, one moved (name = old path), one named;
   an uninitialised submodule (registered, nothing checked out) next to them contributes nothing *)
Example c14_submodules_nonvacuous :
  let inner := Repo [lit "pol/t.rego"] [] [] in
  let sub := Repo [lit "own.rego"] [(lit "core", lit "inner")] [(lit "inner", inner)] in
  let top := Repo [] [(lit "old/place", lit "sub"); (lit "lib", lit "lib")] [(lit "sub", sub)] in
  reaches top [lit "sub"; lit "inner"] inner
  /\ changed_files false top = [lit "sub/own.rego"; lit "sub/inner/pol/t.rego"]
  /\ changed_files true top = []
  /\ git_guard (lit "/") (RepoAt (lit "/R")) (changed_files false top) [lit "/R/sub/inner/pol/t.rego"] [] = GRefuse.
Proof.
  cbv zeta. split.
  - eapply reach_sub with (n := lit "old/place"); [left; reflexivity | left; reflexivity |].
    eapply reach_sub with (n := lit "core"); [left; reflexivity | left; reflexivity | constructor].
  - repeat split; vm_compute; reflexivity.
Qed.
