module verifharness

go 1.23.6

toolchain go1.24.0

require (
	github.com/fatih/color v1.18.0
	github.com/gobwas/glob v0.2.3
	github.com/jstemmer/go-junit-report/v2 v2.1.0
	github.com/open-policy-agent/opa v1.3.0
	github.com/styrainc/regal v0.0.0
	github.com/styrainc/roast v0.8.1
	gopkg.in/yaml.v3 v3.0.1
)

require (
	dario.cat/mergo v1.0.1 // indirect
	github.com/agnivade/levenshtein v1.2.1 // indirect
	github.com/beorn7/perks v1.0.1 // indirect
	github.com/cespare/xxhash/v2 v2.3.0 // indirect
	github.com/coreos/go-semver v0.3.1 // indirect
	github.com/go-ini/ini v1.67.0 // indirect
	github.com/go-logr/logr v1.4.2 // indirect
	github.com/go-logr/stdr v1.2.2 // indirect
	github.com/google/uuid v1.6.0 // indirect
	github.com/gorilla/mux v1.8.1 // indirect
	github.com/json-iterator/go v1.1.12 // indirect
	github.com/mattn/go-colorable v0.1.13 // indirect
	github.com/mattn/go-isatty v0.0.20 // indirect
	github.com/mattn/go-runewidth v0.0.16 // indirect
	github.com/modern-go/concurrent v0.0.0-20180306012644-bacd9c7ef1dd // indirect
	github.com/modern-go/reflect2 v1.0.2 // indirect
	github.com/munnerz/goautoneg v0.0.0-20191010083416-a7dc8b61c822 // indirect
	github.com/olekukonko/tablewriter v0.0.5 // indirect
	github.com/owenrumney/go-sarif/v2 v2.3.3 // indirect
	github.com/prometheus/client_golang v1.21.1 // indirect
	github.com/prometheus/client_model v0.6.1 // indirect
	github.com/prometheus/common v0.62.0 // indirect
	github.com/prometheus/procfs v0.15.1 // indirect
	github.com/rcrowley/go-metrics v0.0.0-20201227073835-cf1acfcdf475 // indirect
	github.com/rivo/uniseg v0.4.7 // indirect
	github.com/sirupsen/logrus v1.9.3 // indirect
	github.com/tchap/go-patricia/v2 v2.3.2 // indirect
	github.com/xeipuuv/gojsonpointer v0.0.0-20190905194746-02993c407bfb // indirect
	github.com/xeipuuv/gojsonreference v0.0.0-20180127040603-bd5ef7bd5415 // indirect
	github.com/yashtewari/glob-intersection v0.2.0 // indirect
	go.opentelemetry.io/auto/sdk v1.1.0 // indirect
	go.opentelemetry.io/otel v1.35.0 // indirect
	go.opentelemetry.io/otel/metric v1.35.0 // indirect
	go.opentelemetry.io/otel/sdk v1.35.0 // indirect
	go.opentelemetry.io/otel/trace v1.35.0 // indirect
	golang.org/x/sys v0.31.0 // indirect
	google.golang.org/protobuf v1.36.5 // indirect
	sigs.k8s.io/yaml v1.4.0 // indirect
)

replace github.com/styrainc/regal => /repo
