// Package hutil: PRNG and output helpers shared by the harness commands.
package hutil

import (
	"bufio"
	"encoding/json"
	"os"
	"strconv"
)

// Rng is splitmix64: every random choice of a run derives from one seed.
type Rng struct{ s uint64 }

func NewRng(seed uint64) *Rng { return &Rng{s: seed} }

func (r *Rng) Next() uint64 {
	r.s += 0x9E3779B97F4A7C15
	z := r.s
	z = (z ^ (z >> 30)) * 0xBF58476D1CE4E5B9
	z = (z ^ (z >> 27)) * 0x94D049BB133111EB
	return z ^ (z >> 31)
}

func (r *Rng) Below(n int) int { return int(r.Next() % uint64(n)) }

func (r *Rng) Bool() bool { return r.Next()&1 == 1 }

func Choice[T any](r *Rng, xs []T) T { return xs[r.Below(len(xs))] }

func Shuffle[T any](r *Rng, xs []T) {
	for i := len(xs) - 1; i > 0; i-- {
		j := r.Below(i + 1)
		xs[i], xs[j] = xs[j], xs[i]
	}
}

// Out writes one JSON object per line.
type Out struct {
	w *bufio.Writer
	f *os.File
}

func NewOut(path string) *Out {
	f, err := os.Create(path)
	if err != nil {
		panic(err)
	}
	return &Out{w: bufio.NewWriterSize(f, 1<<20), f: f}
}

func (o *Out) Emit(v any) {
	b, err := json.Marshal(v)
	if err != nil {
		panic(err)
	}
	o.w.Write(b)
	o.w.WriteByte('\n')
}

func (o *Out) Close() { o.w.Flush(); o.f.Close() }

func SeedFromEnv() uint64 {
	if s := os.Getenv("VERIF_SEED"); s != "" {
		if n, err := strconv.ParseUint(s, 10, 64); err == nil {
			return n
		}
	}
	return 1
}
