package corpus

import (
	"encoding/json"
	"fmt"
	"os"
	"time"

	"verifharness/hutil"
)

// Summary is what the python driver reads.
type Summary struct {
	Prop    string         `json:"prop"`
	Tier    string         `json:"tier"`
	Counts  map[string]int `json:"counts"`
	Results []BatchResult  `json:"results"`
	WallMS  int64          `json:"wall_ms"`
}

// Main is the entry point shared by cmd/c03 and cmd/c07.
//
//	<exe> corpus  <out.json> <tier> <repo> <opa testdata dir> <corpus dir> <tmp dir>
//	<exe> large   <out.json> <tier> <repo> <opa testdata dir> <corpus dir> <tmp dir>   (only the large single-call batches)
//	<exe> replay  <out.json> <replay.json> <tmp dir>
//	<exe> helpers <out.jsonl> <tier>                      (OPA evaluation of the framework helpers)
//	<exe> propagation <out.jsonl> <tier>                  (error propagation of Lint over subsets of a small pool)
//	<exe> worker  <job.json> <out.jsonl>                  (internal)
func Main(prop string) {
	if len(os.Args) < 2 {
		fmt.Fprintln(os.Stderr, "usage: corpus|replay|helpers|worker ...")
		os.Exit(2)
	}
	locate := prop == "C07"
	switch os.Args[1] {
	case "worker":
		RunWorker(os.Args[2], os.Args[3])
	case "stdinlint":
		StdinLintMain()
	case "helpers":
		RunHelpers(prop, os.Args[2], os.Args[3])
	case "propagation":
		RunPropagation(os.Args[2], os.Args[3])
	case "corpus", "large":
		// "large": only the large single-call batches (run with a harness built with -race in the thorough tier)
		out, tier, repo, opa, cdir, tmp := os.Args[2], os.Args[3], os.Args[4], os.Args[5], os.Args[6], os.Args[7]
		r := hutil.NewRng(hutil.SeedFromEnv())
		plan := Plan{Tier: tier, Repo: repo, OPADir: opa, CorpusDir: cdir, BatchSize: 96, Stress: 1, BoundaryThird: -1}
		job := &Job{Timeout: 240, Detail: 3, Locate: locate, Par: 4}
		switch {
		case tier == "quick" && !locate:
			plan.OPASample, plan.GenN, plan.MutN, plan.SingleFile = 1000, 400, 400, 24
		case tier == "quick" && locate:
			plan.OPASample, plan.GenN, plan.MutN, plan.SingleFile, plan.BundleSample = 260, 110, 110, 6, 90
			// every module is linted five times here (k-shifts): a sample of each systematic family, all of them in C03
			plan.FamilySample = 90
			// the line-break family (813 modules of a few lines, never sampled) is about the bounds of what is reported for
			// the text as it stands: one shift instead of four (thorough: all four)
			plan.BreakShifts = []int{3}
		case !locate:
			plan.OPASample, plan.GenN, plan.MutN, plan.SingleFile, plan.Stress = 0, 4000, 4000, 200, 4
			plan.Deep = true
			plan.QuotedSample = 8000 // of the 19 840 modules of the full cross product (every container x flavour x snippet x mode)
		default:
			plan.OPASample, plan.GenN, plan.MutN, plan.SingleFile, plan.Stress = 0, 2500, 2500, 100, 3
			plan.Deep = true
			plan.QuotedSample = 1500
		}
		if locate {
			// quick: per batch two of the four shifts through disk / map (rotating with the batch), 2 modules through stdin
			plan.Modes, plan.ModesStdin, plan.ModesKs = true, 2, 2
			plan.BoundaryThird = int(hutil.SeedFromEnv() % 3)
			if tier != "quick" {
				plan.BoundaryThird, plan.BoundarySample, plan.ModesStdin, plan.ModesKs = -1, 1200, 4, 2
			}
		} else if tier == "quick" {
			plan.DiskPerRoot, plan.DiskRounds = 450, 400
		} else {
			plan.BoundarySample = 6000
			plan.DiskPerRoot, plan.DiskRounds = 600, 1000
		}
		if locate {
			job.Shifts = []int{1, 3, 10, 100}
		} else if tier == "quick" {
			// large single-call runs: 2 batches of 1200 small files in one Lint call each: every rule + 2 rule subsets, 3 rule subsets
			plan.Large, plan.LargeSize, plan.LargeSets, plan.LargeRounds = 2, 1200, 2, 1
		} else {
			plan.Large, plan.LargeSize, plan.LargeSets, plan.LargeRounds = 4, 1500, 4, 2
		}
		if os.Args[1] == "large" {
			plan.LargeOnly = true
			// under the race detector an evaluation is several times slower, and a report does not need a collision in time
			plan.Large, plan.LargeSize, plan.LargeSets, plan.LargeRounds = 2, 1000, 3, 1
			plan.DiskRounds = 25
		}
		watchdog := 10 * time.Minute
		if tier == "quick" {
			// a hang must surface inside the quick tier's budget: 100 s per Lint call (context), 150 s without any
			// progress of the worker (kill). A 96-module batch takes 0.5-2 s on an idle box.
			job.Timeout = 100
			watchdog = 150 * time.Second
		}
		if v := os.Getenv("VERIF_PAR"); v != "" {
			fmt.Sscanf(v, "%d", &job.Par)
		}
		t0 := time.Now()
		a := Assemble(r, plan)
		job.Batches, job.Opts = a.Batches, a.Opts
		res := RunMaster(os.Args[0], tmp, job, watchdog)
		writeJSON(out, Summary{Prop: prop, Tier: tier, Counts: a.Counts, Results: res, WallMS: time.Since(t0).Milliseconds()})
	case "replay":
		out, rp, tmp := os.Args[2], os.Args[3], os.Args[4]
		bs, err := os.ReadFile(rp)
		if err != nil {
			panic(err)
		}
		var rf struct {
			Modules []Module  `json:"modules"`
			Opt     *BatchOpt `json:"opt"`
		}
		if err := json.Unmarshal(bs, &rf); err != nil {
			panic(err)
		}
		job := &Job{Timeout: 240, Detail: 50, Locate: locate, Par: 1, Batches: [][]Module{rf.Modules}}
		if rf.Opt != nil && !locate {
			o := *rf.Opt
			if o.Rounds < 3 {
				o.Rounds = 3 // an interleaving that showed once may need a few attempts to show again
			}
			if o.Disk && o.DiskRounds < 600 {
				o.DiskRounds = 600
			}
			job.Opts = []BatchOpt{o}
		}
		if rf.Opt != nil && locate && rf.Opt.Modes {
			job.Opts = []BatchOpt{{Modes: true, ModesStdin: len(rf.Modules), Shifts: rf.Opt.Shifts}}
		}
		if locate {
			job.Shifts = []int{1, 3, 10, 100}
		}
		res := RunMaster(os.Args[0], tmp, job, 10*time.Minute)
		writeJSON(out, Summary{Prop: prop, Tier: "replay", Counts: map[string]int{"replay": len(rf.Modules)}, Results: res})
	default:
		fmt.Fprintln(os.Stderr, "unknown mode", os.Args[1])
		os.Exit(2)
	}
}

func writeJSON(path string, v any) {
	b, err := json.Marshal(v)
	if err != nil {
		panic(err)
	}
	if err := os.WriteFile(path, b, 0o644); err != nil {
		panic(err)
	}
}
