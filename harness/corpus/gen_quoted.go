package corpus

import (
	"fmt"
	"strings"

	"verifharness/hutil"
)

// Quoted Rego (corpus (c), family "quoted-rego" + mutation "quote-rego-source").
//
// Policies ABOUT policies keep Rego source as data: test fixtures in raw strings, templates of code generators,
// documentation in comments and METADATA blocks, commented-out code. Everything that looks at the module TEXT
// instead of the parsed module (version detection heuristics, ignore-directive scanners, line based location
// helpers, "does this file import rego.v1?") meets package / import lines, rule heads, keywords, `# regal ignore:`
// directives and METADATA blocks there that are not the module's own. The family puts every Rego-looking line of a
// pool into every lexical container (raw string at line start / indented / inline, quoted string, array of lines,
// object key, rule-head key, comments of their own / trailing / inside a body, YAML values of a METADATA block) of
// modules of every syntactic flavour: v0-only, v1-only, accepted by both parsers (with and without the rego.v1 /
// future.keywords imports) — and files each module under a name whose version regal has to detect, under a
// directory configured for the accepting version(s), and under regal's `_v0.rego` convention.

// lines of Rego source as they stand at the start of a row of somebody's policy
var quotedLines = []string{
	"package fixture", "package play.a.b", "import rego.v1", "import future.keywords", "import future.keywords.if",
	"import future.keywords.contains", "import future.keywords.in", "import future.keywords.every", "import data.foo", "import input as inp",
	"import data.lib.util as u", "allow if {", "allow {", "deny contains msg if {", "deny[msg] {", "x := 1", "default allow := false",
	"default allow = false", "f(x) = y {", "f(x) := y if {", "} else := 2 if {", "} else = 2 {", "}", "some x in xs", "every x in xs { x > 0 }",
	"not allow", "x contains y if z", "allow if input.x", "p[x] { x := 1 }", "p[x] = y { y := x }", "import rego.v1 # yes", "\timport rego.v1",
	"  import future.keywords.every", "import  rego.v1", "import rego.v1.extra", "import\trego.v1", "# regal ignore:all",
	"# regal ignore:line-length,opa-fmt", "# METADATA", "# title: quoted", "# scope: rule", "# scope: package", "# entrypoint: true", "# description: |",
	"# schemas:", "# TODO: fix", "test_x if { true }", "test_x { true }", "else := 1", "with input as {}", "if", "contains", "package", "import",
}

// whole little modules, as a fixture would hold them
var quotedBlocks = []string{
	"package fixture\n\nimport rego.v1\n\nallow if {\n\tinput.x == 1\n}",
	"package fixture\n\nimport future.keywords.if\nimport future.keywords.contains\n\ndeny contains \"x\" if input.y",
	"package fixture\n\nallow {\n\tinput.x == 1\n}\n\ndeny[msg] {\n\tmsg := \"no\"\n}",
	"# METADATA\n# title: fixture\n# description: a rule\n# scope: document\nallow if true",
	"package fixture\n\n# regal ignore:all\nx = 1\n\n# regal ignore:prefer-snake-case\nfooBar := 2",
	"\n\nimport rego.v1\n\n",
	"import rego.v1\nimport future.keywords\npackage late",
	"default allow := false\n\nallow if {\n\tsome x in input.xs\n\tevery y in x { y > 0 }\n}",
}

type quotedContainer struct {
	name string
	// render: the declarations that hold the snippet; `src` is then a rule of the module (or nothing, for comments)
	render func(snippet string) string
}

func rawSafe(s string) string { return strings.ReplaceAll(s, "`", "'") }

func dq(s string) string {
	r := strings.NewReplacer("\\", "\\\\", "\"", "\\\"", "\n", "\\n", "\t", "\\t", "\r", "\\r")
	return "\"" + r.Replace(s) + "\""
}

func commentLines(s, prefix string) string {
	var out []string
	for _, l := range strings.Split(s, "\n") {
		out = append(out, prefix+l)
	}
	return strings.Join(out, "\n")
}

func yamlSingle(s string) string { return "'" + strings.ReplaceAll(s, "'", "''") + "'" }

var quotedContainers = []quotedContainer{
	{"raw-rows", func(s string) string { return "src := `\n" + rawSafe(s) + "\n`" }},
	{"raw-rows-first", func(s string) string { return "src := `" + rawSafe(s) + "\n`" }},
	{"raw-indented", func(s string) string { return "src := `\n" + commentLines(rawSafe(s), "\t") + "\n\t`" }},
	{"raw-inline", func(s string) string { return "src := ` " + rawSafe(strings.ReplaceAll(s, "\n", " ; ")) + " `" }},
	{"raw-crlf", func(s string) string { return "src := `\r\n" + strings.ReplaceAll(rawSafe(s), "\n", "\r\n") + "\r\n`" }},
	{"string", func(s string) string { return "src := " + dq(s) }},
	{"string-lines", func(s string) string {
		var ls []string
		for _, l := range strings.Split(s, "\n") {
			ls = append(ls, "\t"+dq(l)+",")
		}
		return "src := concat(\"\\n\", [\n" + strings.Join(ls, "\n") + "\n])"
	}},
	{"object-key", func(s string) string { return "src := {" + dq(s) + ": `" + rawSafe(s) + "`}" }},
	{"head-key", func(s string) string { return "table[" + dq(s) + "] := `" + rawSafe(s) + "`\n\nsrc := table" }},
	{"comment-rows", func(s string) string { return commentLines(s, "# ") + "\nsrc := 1" }},
	{"comment-rows-bare", func(s string) string { return commentLines(s, "#") + "\n\nsrc := 1" }},
	{"comment-trailing", func(s string) string { return "src := 1 # " + strings.ReplaceAll(s, "\n", " ; ") }},
	{"comment-in-term", func(s string) string {
		return "src := [\n\t1, # " + strings.ReplaceAll(s, "\n", " ; ") + "\n" + commentLines(s, "\t# ") + "\n\t2,\n]"
	}},
	{"comment-after-package", func(s string) string { return commentLines(s, "# ") + "\n\nsrc := 1" }},
	{"metadata-description", func(s string) string {
		return "# METADATA\n# title: holds source\n# description: " + yamlSingle(strings.ReplaceAll(s, "\n", " ")) + "\nsrc := 1"
	}},
	{"metadata-custom-block", func(s string) string {
		return "# METADATA\n# description: holds source\n# custom:\n#   source: |\n" + commentLines(s, "#     ") + "\nsrc := 1"
	}},
}

type quotedFlavour struct {
	name     string
	versions []string // configured versions under which the module is expected to parse ("" never listed: auto always runs)
	pre      string   // imports
	users    string   // rules using `src`, in the flavour's syntax
}

var quotedFlavours = []quotedFlavour{
	{"v1-only", []string{"v1"}, "", "allow if {\n\tinput.source == src\n}\n\ndeny contains msg if {\n\tmsg := sprintf(\"%v\", [src])\n}\n"},
	{"v0-only", []string{"v0"}, "", "allow {\n\tinput.source == src\n}\n\ndeny[msg] {\n\tmsg := sprintf(\"%v\", [src])\n}\n\nf(x) = y {\n\ty := x\n}\n"},
	{"both-plain", []string{"v0", "v1"}, "", "copy := src\n\nother := {\"source\": src}\n"},
	{"both-rego-v1", []string{"v0", "v1"}, "import rego.v1\n\n", "allow if {\n\tinput.source == src\n}\n\ndeny contains msg if msg := src\n"},
	{"both-future", []string{"v0", "v1"}, "import future.keywords\n\n", "allow if {\n\tsome s in [src]\n\tinput.source == s\n}\n\ndeny contains msg if msg := src\n"},
	{"v0-future-in", []string{"v0"}, "import future.keywords.in\n\n", "allow {\n\tsome s in [src]\n\tinput.source == s\n}\n\ndeny[msg] {\n\tmsg := src\n}\n"},
}

func quotedModule(c quotedContainer, f quotedFlavour, snippet string) string {
	if c.name == "comment-after-package" {
		// directly under the package clause, before the imports
		return "package p\n" + commentLines(snippet, "# ") + "\n\n" + f.pre + "src := 1\n\n" + f.users
	}
	return "package p\n\n" + f.pre + c.render(snippet) + "\n\n" + f.users
}

// QuotedRegoModules: the family. Quick: the containers in which a snippet line stands at the START of a row
// (raw-rows, raw-indented, comment-rows) crossed with every snippet and the v1-only and v0-only flavours, everything
// else with the flavour rotating; a sixth of the modules also under configured versions. Deep: the full cross
// product, every mode.
func QuotedRegoModules(deep bool) []Module {
	var res []Module
	seen := map[string]bool{}
	snippets := append(append([]string{}, quotedLines...), quotedBlocks...)
	n := 0
	emit := func(text, tag string, f quotedFlavour, modes bool) {
		if seen[text] {
			return
		}
		seen[text] = true
		n++
		res = append(res, Module{Name: fmt.Sprintf("quoted/q%05d.rego", n), Text: text, Src: "gen:quoted-rego:" + tag + ":detected"})
		if !modes {
			return
		}
		for _, v := range f.versions {
			dir := CfgV0Dir
			if v == "v1" {
				dir = CfgV1Dir
			}
			res = append(res, Module{Name: fmt.Sprintf("%s/quoted/q%05d.rego", dir, n), Text: text, Src: "gen:quoted-rego:" + tag + ":configured-" + v})
		}
		if f.versions[0] == "v0" && (deep || len(f.versions) == 1) {
			res = append(res, Module{Name: fmt.Sprintf("quoted/q%05d_v0.rego", n), Text: text, Src: "gen:quoted-rego:" + tag + ":suffix-v0"})
		}
	}
	rowStart := map[string]bool{"raw-rows": true, "raw-indented": true, "comment-rows": true}
	for si, sn := range snippets {
		for ci, c := range quotedContainers {
			for fi, f := range quotedFlavours {
				if !deep && (si+ci)%len(quotedFlavours) != fi && !(rowStart[c.name] && fi < 2) {
					continue
				}
				tag := fmt.Sprintf("%s:%s:%d", c.name, f.name, si)
				emit(quotedModule(c, f, sn), tag, f, deep || (si+ci+fi)%6 == 0)
			}
		}
	}
	return res
}

// mutateQuoteRegoSource: the module starts to keep Rego source as data / documentation: its own text (or lines of the
// pool) in a raw string rule appended at the end, as a comment block, or as commented-out lines between its own lines.
// The module's syntax (v0 / v1) is untouched, so real-world v0 modules of the corpora get quoted v1 source and vice versa.
func mutateQuoteRegoSource(r *hutil.Rng, t string) string {
	if strings.Contains(t, "`") && r.Below(2) == 0 {
		return t // already holds raw strings: leave half of those alone (nesting backticks is impossible anyway)
	}
	pick := func() string {
		switch r.Below(4) {
		case 0:
			return rawSafe(t)
		case 1:
			return quotedBlocks[r.Below(len(quotedBlocks))]
		default:
			var ls []string
			for i := 1 + r.Below(4); i > 0; i-- {
				ls = append(ls, quotedLines[r.Below(len(quotedLines))])
			}
			return strings.Join(ls, "\n")
		}
	}
	nl := "\n"
	if strings.Contains(t, "\r\n") {
		nl = "\r\n"
	}
	body := strings.TrimRight(t, "\r\n")
	name := fmt.Sprintf("quoted_source_%d", r.Below(1000))
	switch r.Below(5) {
	case 0:
		// v0 and v1 both accept `name := <raw string>`
		return body + nl + nl + name + " := `" + nl + strings.ReplaceAll(rawSafe(pick()), "\n", nl) + nl + "`" + nl
	case 1:
		return body + nl + nl + name + " := `" + strings.ReplaceAll(rawSafe(pick()), "\n", nl) + "`" + nl
	case 2:
		return body + nl + nl + strings.ReplaceAll(commentLines(pick(), "# "), "\n", nl) + nl
	case 3:
		// commented-out source between the module's own lines (never inside a raw string: only when there is none)
		if strings.Contains(t, "`") {
			return body + nl + nl + strings.ReplaceAll(commentLines(pick(), "#"), "\n", nl) + nl
		}
		ls := strings.Split(body, nl)
		var out []string
		for _, l := range ls {
			out = append(out, l)
			if r.Below(6) == 0 && !strings.HasPrefix(strings.TrimSpace(l), "#") {
				out = append(out, "# "+quotedLines[r.Below(len(quotedLines))])
			}
		}
		return strings.Join(out, nl) + nl
	default:
		return body + nl + nl + name + " := " + dq(pick()) + nl
	}
}
