package corpus

import (
	"bytes"
	"context"
	"encoding/json"
	"fmt"
	"os"
	"os/exec"
	"path/filepath"
	"sort"
	"strings"
	"time"

	"github.com/styrainc/regal/pkg/linter"
	"github.com/styrainc/regal/pkg/report"
	"github.com/styrainc/regal/pkg/rules"
)

// Input modes (C07, round 3).
//
// The property speaks about "the file that was linted" and "the text that was provided"; a module reaches the linter
// in several ways, each with code of its own between the bytes and the parser: files on disk (a directory argument
// that is walked, or a list of paths: rules.InputFromPaths), in-memory modules (rules.NewInput with parsed modules —
// what the ordinary batches use —, rules.InputFromMap, rules.InputFromText) and standard input (the path "-":
// inputFromStdin, file name "stdin"). Whatever one of them does to the text before parsing (trimming, normalising
// line ends, decoding) shows as a row/column/text that is not the one of the input PROVIDED, or as rows that do not
// move with leading blank lines. So, for the modules of a batch marked `Modes` and k = 0 and every shift:
//
//	disk : the k-shifted texts are written to a directory of their own and linted through WithInputPaths
//	       (the directory for even positions in the k list, the sorted list of files for odd ones)
//	map  : the same names and texts through rules.InputFromMap + WithInputModules
//	       disk == map (multisets over every field); for k = 0 also map == the ordinary report of the batch modulo the
//	       directory prefix of the file names
//	stdin: a sample of the modules, each alone, k = 0 and one shift: the text is the standard input of a PROCESS of its
//	       own (`<exe> stdinlint`, which lints the path "-"), against the same text through rules.InputFromText
//	       ("text"; rules.InputFromMap for v0 modules) under the name "stdin"; stdin == text, and stdin(k) == stdin(0)
//	       moved by k in both directions
//	every report of every mode is checked against the text provided: bounds, end >= start, text of the row.
var (
	workDir string // directory of the worker's output file (under the check's tmp dir)
	selfExe string
)

type ModeFinding struct {
	Mode   string `json:"mode"` // disk | map | text | stdin
	K      int    `json:"k"`
	Kind   string `json:"kind"` // missing-in-mode | extra-in-mode | error | not-moved-by-k:<side> | <location issue kind>
	V      *Viol  `json:"violation,omitempty"`
	Line   string `json:"line,omitempty"`
	Err    string `json:"err,omitempty"`
	Module Module `json:"module"`
}

func lintWith(l linter.Linter, timeout time.Duration) (rep *report.Report, errText string) {
	defer func() {
		if r := recover(); r != nil {
			rep, errText = nil, fmt.Sprintf("panic: %v", r)
		}
	}()
	ctx, cancel := context.WithTimeout(context.Background(), timeout)
	defer cancel()
	r, err := l.Lint(ctx)
	if err != nil {
		return nil, err.Error()
	}
	return &r, ""
}

// StdinLintMain: `<exe> stdinlint`: lint what standard input provides, the way `regal lint -` does, every rule
// enabled; the report (or the error) goes to standard output as JSON.
func StdinLintMain() {
	rep, e := lintWith(linter.NewLinter().WithEnableAll(true).WithInputPaths([]string{"-"}), 100*time.Second)
	b, _ := json.Marshal(map[string]any{"report": rep, "err": e})
	os.Stdout.Write(b)
}

func stdinLint(text string) (*report.Report, string) {
	cmd := exec.Command(selfExe, "stdinlint")
	cmd.Stdin = strings.NewReader(text)
	var out, errb bytes.Buffer
	cmd.Stdout, cmd.Stderr = &out, &errb
	done := make(chan error, 1)
	if err := cmd.Start(); err != nil {
		return nil, "harness: " + err.Error()
	}
	go func() { done <- cmd.Wait() }()
	select {
	case err := <-done:
		if err != nil {
			return nil, "process died: " + clip(errb.String(), 600)
		}
	case <-time.After(150 * time.Second):
		cmd.Process.Kill()
		<-done
		return nil, "timeout"
	}
	var r struct {
		Report *report.Report `json:"report"`
		Err    string         `json:"err"`
	}
	if err := json.Unmarshal(out.Bytes(), &r); err != nil {
		return nil, "harness: " + err.Error() + ": " + clip(out.String(), 300)
	}
	if r.Report == nil && r.Err == "" {
		r.Err = "no report"
	}
	return r.Report, r.Err
}

// sameFindings: multiset equality over every field of the violations; mapFile renames the files of `a` first.
func sameFindings(a, b *report.Report, mapFile func(string) string) (missing, extra []Viol) {
	cnt := map[string]int{}
	by := map[string]Viol{}
	for _, rv := range a.Violations {
		v := FromReport(rv)
		v.Agg = false
		if mapFile != nil && v.File != "" {
			v.File = mapFile(v.File)
		}
		s := key(v)
		cnt[s]++
		by[s] = v
	}
	for _, rv := range b.Violations {
		v := FromReport(rv)
		v.Agg = false
		s := key(v)
		if cnt[s] > 0 {
			cnt[s]--
		} else {
			extra = append(extra, v)
		}
	}
	var ks []string
	for s, n := range cnt {
		if n > 0 {
			ks = append(ks, s)
		}
	}
	sort.Strings(ks)
	for _, s := range ks {
		missing = append(missing, by[s])
	}
	sort.Slice(extra, func(i, j int) bool { return key(extra[i]) < key(extra[j]) })
	return missing, extra
}

func runModes(res *BatchResult, idx int, parsed []Parsed, base *report.Report, shifts []int, opt BatchOpt, timeout time.Duration, detail int) {
	var ms []Parsed
	for _, p := range parsed {
		// a version configured through the NAME of the file (harness convention /cfg-v0/...) has no counterpart on disk
		if ConfiguredVersion(p.Name) == "" && !strings.Contains(p.Name, "..") {
			ms = append(ms, p)
		}
	}
	if len(ms) == 0 {
		return
	}
	if res.ModePairs == nil {
		res.ModePairs = map[string]int{}
	}
	seen := map[string]int{}
	add := func(f ModeFinding) {
		t := ""
		if f.V != nil {
			t = f.V.Title
		}
		k := f.Mode + "|" + f.Kind + "|" + t
		seen[k]++
		if seen[k] <= detail {
			res.ModeIssues = append(res.ModeIssues, f)
		}
	}
	ks := []int{0}
	if opt.ModesKs > 0 && opt.ModesKs < len(shifts) {
		for j := 0; j < opt.ModesKs; j++ {
			ks = append(ks, shifts[(idx+j*len(shifts)/opt.ModesKs)%len(shifts)])
		}
	} else {
		ks = append(ks, shifts...)
	}
	for ki, k := range ks {
		dir := filepath.Join(workDir, fmt.Sprintf("modes_b%d_k%d", idx, k))
		texts := map[string]string{}
		files := map[string][]string{}
		byAbs := map[string]Module{}
		var paths []string
		okDisk := true
		for _, p := range ms {
			abs := filepath.Join(dir, strings.TrimPrefix(p.Name, "/"))
			t := strings.Repeat("\n", k) + p.Text
			texts[abs] = t
			files[abs] = Lines(t)
			byAbs[abs] = p.Module
			paths = append(paths, abs)
			if err := os.MkdirAll(filepath.Dir(abs), 0o755); err != nil {
				okDisk = false
			} else if err := os.WriteFile(abs, []byte(t), 0o644); err != nil {
				okDisk = false
			}
		}
		sort.Strings(paths)
		if !okDisk {
			panic("harness: cannot write the modules to " + dir)
		}
		check := func(mode string, rep *report.Report) {
			for _, is := range CheckLocations(rep, files) {
				if is.Kind == "end-outside" || is.Kind == "text-missing" || (is.Kind == "text-mismatch" && is.V.Agg) {
					continue
				}
				v := is.V
				add(ModeFinding{Mode: mode, K: k, Kind: is.Kind, V: &v, Line: is.Line, Module: byAbs[v.File]})
			}
		}
		var repMap *report.Report
		inMap, err := rules.InputFromMap(texts, nil)
		if err != nil {
			add(ModeFinding{Mode: "map", K: k, Kind: "error", Err: clip(err.Error(), 400), Module: ms[0].Module})
		} else {
			r, e := lintWith(linter.NewLinter().WithEnableAll(true).WithInputModules(&inMap), timeout)
			res.Lints++
			if e != "" {
				// a lint error is C03's subject; the modules passed the ordinary lint of this batch, so it belongs to the mode
				add(ModeFinding{Mode: "map", K: k, Kind: "error", Err: clip(e, 400), Module: ms[0].Module})
			} else {
				repMap = r
				res.ModePairs["map"] += len(ms)
				check("map", r)
			}
		}
		in := []string{dir}
		if ki%2 == 1 {
			in = paths
		}
		repDisk, e := lintWith(linter.NewLinter().WithEnableAll(true).WithInputPaths(in), timeout)
		res.Lints++
		if e != "" {
			add(ModeFinding{Mode: "disk", K: k, Kind: "error", Err: clip(e, 400), Module: ms[0].Module})
		} else {
			res.ModePairs["disk"] += len(ms)
			check("disk", repDisk)
		}
		if repMap != nil && repDisk != nil {
			miss, extra := sameFindings(repMap, repDisk, nil)
			for i := range miss {
				add(ModeFinding{Mode: "disk", K: k, Kind: "missing-in-mode", V: &miss[i], Module: byAbs[miss[i].File]})
			}
			for i := range extra {
				add(ModeFinding{Mode: "disk", K: k, Kind: "extra-in-mode", V: &extra[i], Module: byAbs[extra[i].File]})
			}
		}
		if k == 0 && repMap != nil && base != nil && len(ms) == len(parsed) {
			// the ordinary report of the batch (parsed modules handed over with rules.NewInput under their short names)
			pre := dir + string(filepath.Separator)
			byShort := map[string]Module{}
			for _, p := range ms {
				byShort[strings.TrimPrefix(p.Name, "/")] = p.Module
			}
			short := func(f string) string { return strings.TrimPrefix(f, pre) }
			baseShort := func(f string) string { return strings.TrimPrefix(f, "/") }
			_ = baseShort
			repMapShort := &report.Report{}
			for _, v := range repMap.Violations {
				v.Location.File = short(v.Location.File)
				repMapShort.Violations = append(repMapShort.Violations, v)
			}
			miss, extra := sameFindings(base, repMapShort, baseShort)
			for i := range miss {
				add(ModeFinding{Mode: "map", K: 0, Kind: "missing-in-mode", V: &miss[i], Module: byShort[miss[i].File]})
			}
			for i := range extra {
				add(ModeFinding{Mode: "map", K: 0, Kind: "extra-in-mode", V: &extra[i], Module: byShort[extra[i].File]})
			}
		}
		os.RemoveAll(dir)
	}
	// ---- stdin: a sample of the modules, each alone
	n := opt.ModesStdin
	if n > len(ms) {
		n = len(ms)
	}
	for i := 0; i < n; i++ {
		p := ms[(i*len(ms))/n]
		kk := []int{0}
		if len(shifts) > 0 {
			kk = append(kk, shifts[(i+idx)%len(shifts)])
		}
		var rep0 *report.Report
		for _, k := range kk {
			text := strings.Repeat("\n", k) + p.Text
			files := map[string][]string{"stdin": Lines(text)}
			mode := "text"
			inT, err := rules.InputFromText("stdin", text)
			if err != nil {
				inT, err = rules.InputFromMap(map[string]string{"stdin": text}, nil)
				mode = "map"
			}
			if err != nil {
				continue
			}
			repT, e := lintWith(linter.NewLinter().WithEnableAll(true).WithInputModules(&inT), timeout)
			res.Lints++
			if e != "" {
				continue // does not lint on its own (C03's subject)
			}
			res.ModePairs[mode+"-single"]++
			repS, e := stdinLint(text)
			res.Lints++
			if e != "" {
				add(ModeFinding{Mode: "stdin", K: k, Kind: "error", Err: clip(e, 400), Module: p.Module})
				continue
			}
			res.ModePairs["stdin"]++
			for _, is := range CheckLocations(repS, files) {
				if is.Kind == "end-outside" || is.Kind == "text-missing" {
					continue
				}
				v := is.V
				add(ModeFinding{Mode: "stdin", K: k, Kind: is.Kind, V: &v, Line: is.Line, Module: p.Module})
			}
			miss, extra := sameFindings(repT, repS, nil)
			for j := range miss {
				add(ModeFinding{Mode: "stdin", K: k, Kind: "missing-in-mode", V: &miss[j], Module: p.Module})
			}
			for j := range extra {
				add(ModeFinding{Mode: "stdin", K: k, Kind: "extra-in-mode", V: &extra[j], Module: p.Module})
			}
			if k == 0 {
				rep0 = repS
			} else if rep0 != nil {
				for _, is := range CompareShift(rep0, repS, k) {
					v := is.V
					add(ModeFinding{Mode: "stdin", K: k, Kind: "not-moved-by-k:" + is.Side, V: &v, Module: p.Module})
				}
			}
		}
	}
}
