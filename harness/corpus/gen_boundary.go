package corpus

import (
	"fmt"
	"strings"
)

// Family "boundary rows" (C07, round 3).
//
// Code that derives something from rows compares a row with "the row before" / "the row after": the first comment with a
// sentinel for "before the file", the last line with the length of the line table, a row with row-1 of an ignore
// directive. Those comparisons are only exercised when something REPORTABLE sits on the first row or on the last row of
// the file — and "k blank lines at the top" is exactly the operation that moves a thing away from row 1. The corpora had
// violations everywhere but there: modules start with `package` (or a well-formed METADATA block) and end with a newline.
//
// A module of this family is  head ++ package line ++ [tail] ++ ending:
//   - head: what stands on ROW 1 before the package clause — nothing (the package clause itself is on row 1), an empty first
//     line, or a comment block of every kind a comment-based rule has something to say about (METADATA detached from the
//     package, METADATA with an unknown attribute, annotation attributes without the METADATA header, TODO/FIXME comments,
//     a comment without a blank after `#`, an over-long comment line, an ignore directive, a block of plain comments, ...);
//   - package line: plain / not snake case / with a trailing comment / badly spaced: position-based findings on the package
//     row (which is row 1 when the head is empty, and the LAST row when there is no tail);
//   - tail: what stands on the LAST row(s): one violation of each position-based kind (assignment operator, naming, line
//     length, print call, constant condition, v0 body, duplicate rule, a multi-line term, a raw string with a line break)
//     and of each comment-based kind (a trailing comment, a comment row, a METADATA block / annotation-looking block /
//     ignore directive with nothing after it; a METADATA block cannot end a file: it
//     is a parse error);
//   - ending: final newline, none, several blank lines, CRLF, trailing blanks.
//
// Every head is combined with every tail ("none" included: the package row is the last row), package line and ending
// rotating (`third` in 0..2: only the third of these pairs chosen by it — the quick tier of C07, which lints every module
// five times and through every input mode; the seed of the run chooses the third); the deep variant takes the full cross
// product (sampled by the caller).

type bpart struct{ name, text string }

var boundaryHeads = []bpart{
	{"none", ""},
	{"empty-first-line", "\n"},
	{"blank-first-line", " \n"},
	{"metadata-detached", "# METADATA\n# title: t\n\n"},
	{"metadata-detached-long", "# METADATA\n# title: t\n# description: d\n# custom:\n#   k: v\n\n"},
	{"metadata-unknown-attribute", "# METADATA\n# titel: t\n"},
	{"metadata-unknown-attribute-detached", "# METADATA\n# titel: t\n# foo: bar\n\n"},
	{"annotation-without-header", "# title: t\n# description: d\n"},
	{"annotation-without-header-one-row", "# description: d\n"},
	{"annotation-without-header-detached", "# scope: package\n\n"},
	{"metadata-attached", "# METADATA\n# title: t\n"},
	{"metadata-entrypoint", "# METADATA\n# entrypoint: true\n"},
	{"todo", "# TODO: tidy\n"},
	{"fixme-block", "# FIXME first\n# second row\n\n"},
	{"no-space-comment", "#comment\n"},
	{"long-comment", "# " + strings.Repeat("x", 130) + "\n"},
	{"ignore-directive", "# regal ignore:directory-package-mismatch\n"},
	{"ignore-directive-detached", "# regal ignore:prefer-snake-case\n\n"},
	{"plain-block", "# Copyright\n# License\n\n"},
	{"two-blocks", "# one\n\n# METADATA\n# title: t\n\n"},
	{"unicode-todo", "# ünï TODO 日本\n"},
	{"crlf-todo", "# TODO: tidy\r\n"},
}

var boundaryPkgs = []bpart{
	{"plain", "package p"},
	{"camel", "package p.camelCase"},
	{"trailing-todo", "package p # TODO: name"},
	{"spaced", "package   p"},
}

var boundaryTails = []bpart{
	{"none", ""},
	{"assign", "x = 1"},
	{"camel", "camelCase := 1"},
	{"long-line", "y := \"" + strings.Repeat("y", 125) + "\""},
	{"print-inline", "r if print(1)"},
	{"print-body", "r if {\n\tprint(1)\n}"},
	{"constant", "r if 1 == 1"},
	{"v0-body", "r {\n\tinput.x\n}"},
	{"dup", "d := 1\n\nd := 1"},
	{"multi-line-term", "o = {\n\t\"a\": 1,\n}"},
	{"raw-string-break", "s = `a\nb`"},
	{"else", "f(x) = 1 if x else = 2"},
	{"trailing-todo", "z := 1 # TODO: t"},
	{"todo-row", "z := 1\n# TODO: t"},
	{"todo-row-detached", "z := 1\n\n# TODO: t\n# more"},
	{"no-space-comment", "z := 1\n#x"},
	{"metadata-last-rule", "z := 1\n\n# METADATA\n# title: t\nw := 2"},
	{"metadata-unknown-last-rule", "z := 1\n\n# METADATA\n# titel: t\nw := 2"},
	{"annotation-without-header-at-end", "z := 1\n\n# title: t"},
	{"ignored", "x = 1 # regal ignore:use-assignment-operator"},
	{"ignored-row-above", "# regal ignore:use-assignment-operator\nx = 1"},
	{"directive-last-row", "x = 1\n# regal ignore:use-assignment-operator"},
	{"detached-metadata-rule", "# METADATA\n# title: t\n\nz := 1"},
	{"import-last", "import data.q"},
	{"test-last", "test_a if 1 == 2"},
}

var boundaryEndings = []bpart{
	{"nl", "\n"},
	{"no-nl", ""},
	{"blank-lines", "\n\n\n"},
	{"crlf", "\r\n"},
	{"blanks", "  "},
	{"tab-nl", "\t\n"},
}

func boundaryModule(h, p, t, e bpart) string {
	s := h.text + p.text
	if t.text != "" {
		s += "\n\n" + t.text
	}
	return s + e.text
}

// BoundaryRowModules: see the comment at the top of the file.
func BoundaryRowModules(deep bool, third int) []Module {
	var res []Module
	seen := map[string]bool{}
	add := func(h, p, t, e bpart) {
		text := boundaryModule(h, p, t, e)
		if seen[text] {
			return
		}
		seen[text] = true
		i := len(res)
		// a directory per module: the names of the package and of the directory agree for none of them, which is
		// one more finding on the package row
		res = append(res, Module{Name: fmt.Sprintf("bnd/d%d/m%05d.rego", i%7, i), Text: text,
			Src: fmt.Sprintf("gen:boundary:%s|%s|%s|%s", h.name, p.name, t.name, e.name)})
	}
	if deep {
		for _, h := range boundaryHeads {
			for _, p := range boundaryPkgs {
				for _, t := range boundaryTails {
					for _, e := range boundaryEndings {
						add(h, p, t, e)
					}
				}
			}
		}
		return res
	}
	for i, h := range boundaryHeads {
		for j, t := range boundaryTails {
			if third >= 0 && (i+j)%3 != third%3 {
				continue
			}
			add(h, boundaryPkgs[(i+j)%len(boundaryPkgs)], t, boundaryEndings[(i+2*j)%len(boundaryEndings)])
		}
	}
	return res
}
