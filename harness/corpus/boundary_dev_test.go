package corpus

import (
	"os"
	"testing"
)

// development aid: which modules of the boundary-rows family are outside the domain (not run by the check)
func TestBoundaryParseRate(t *testing.T) {
	if os.Getenv("VERIF_DEV") == "" {
		t.Skip("development aid")
	}
	bad := map[string]int{}
	ms := BoundaryRowModules(false, -1)
	for _, m := range ms {
		if _, ok, _, _ := ParseChecked(m); !ok {
			bad[m.Src]++
			t.Logf("%s: %q", m.Src, m.Text)
		}
	}
	t.Logf("%d of %d do not parse; deep: %d modules", len(bad), len(ms), len(BoundaryRowModules(true, -1)))
}
