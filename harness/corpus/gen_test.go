package corpus

import (
	"fmt"
	"os"
	"sort"
	"strings"
	"testing"

	"github.com/open-policy-agent/opa/v1/ast"

	"github.com/styrainc/regal/pkg/rules"

	"verifharness/hutil"
)

// Development aid: which share of the generated modules parses, and why the rest does not.
func TestGenParseRate(t *testing.T) {
	r := hutil.NewRng(7)
	ms := GenModules(r, 600)
	reasons := map[string]int{}
	examples := map[string]string{}
	ok := 0
	for _, m := range ms {
		_, err := rules.InputFromMap(map[string]string{m.Name: m.Text}, nil)
		if err == nil {
			ok++
			continue
		}
		if _, e1 := ast.ParseModuleWithOpts(m.Name, m.Text, ast.ParserOptions{RegoVersion: ast.RegoV1}); e1 != nil {
			err = e1
		}
		msg := err.Error()
		if i := strings.Index(msg, "rego_parse_error:"); i >= 0 {
			msg = msg[i:]
		}
		if i := strings.Index(msg, "\n"); i >= 0 {
			msg = msg[:i]
		}
		reasons[msg]++
		if _, ok := examples[msg]; !ok {
			examples[msg] = err.Error()
		}
	}
	fmt.Fprintf(os.Stderr, "parsed %d of %d\n", ok, len(ms))
	var ks []string
	for k := range reasons {
		ks = append(ks, k)
	}
	sort.Slice(ks, func(i, j int) bool { return reasons[ks[i]] > reasons[ks[j]] })
	for _, k := range ks {
		fmt.Fprintf(os.Stderr, "%4d %s\n", reasons[k], k)
		if os.Getenv("VERBOSE") != "" {
			fmt.Fprintf(os.Stderr, "%s\n", examples[k])
		}
	}
	if ok*2 < len(ms) {
		t.Fatalf("fewer than half of the generated modules parse (%d of %d)", ok, len(ms))
	}
}

// Development aid: parse rates of the systematic families and of the new mutation kinds.
func TestFamiliesParseRate(t *testing.T) {
	report := func(name string, ms []Module) {
		ok := 0
		bad := map[string]int{}
		for _, m := range ms {
			_, o, _, rej := ParseChecked(m)
			if rej != nil {
				t.Errorf("%s: %s\n%s\n%s", m.Src, rej.Key, rej.Err, m.Text)
			}
			if o {
				ok++
			} else {
				parts := strings.Split(m.Src, ":")
				k := strings.Join(parts[:min(3, len(parts))], ":")
				bad[k]++
				if os.Getenv("VERBOSE") != "" {
					fmt.Fprintf(os.Stderr, "--- %s does not parse\n%s\n", m.Src, m.Text)
				}
			}
		}
		fmt.Fprintf(os.Stderr, "%s: parsed %d of %d; unparsed by kind: %v\n", name, ok, len(ms), bad)
		if ok*2 < len(ms) {
			t.Errorf("%s: fewer than half parse", name)
		}
	}
	report("uncompilable", UncompilableModules())
	report("comment-placement", CommentPlacementModules(false))
	report("comment-placement-deep", CommentPlacementModules(true))
	{
		by := map[string]int{}
		for _, m := range QuotedRegoModules(false) {
			parts := strings.Split(m.Src, ":")
			by[parts[len(parts)-1]]++
		}
		fmt.Fprintf(os.Stderr, "quoted-rego by mode: %v\n", by)
	}
	report("quoted-rego", QuotedRegoModules(false))
	report("quoted-rego-deep", QuotedRegoModules(true))
	report("line-breaks", LineBreakModules(false))
	report("line-breaks-deep", LineBreakModules(true))
	r := hutil.NewRng(3)
	base := GenModules(r, 150)
	base = append(base, StressModules(1)...)
	for _, k := range []string{"shadow-imports", "dup-heads", "uncompilable-body", "comments-at-boundaries", "quote-rego-source", "break-lines"} {
		var ms []Module
		same := 0
		for i, b := range base {
			if _, o := Parse(b); !o {
				continue
			}
			tx := mutate(r, k, b.Text)
			if tx == b.Text {
				same++
				continue
			}
			ms = append(ms, Module{Name: fmt.Sprintf("m%d.rego", i), Text: tx, Src: "mut:" + k})
		}
		report(fmt.Sprintf("mutation %s (unchanged %d)", k, same), ms)
	}
}
