package corpus

import (
	"fmt"
	"sort"

	"verifharness/hutil"
)

// Large single-call runs (C03: "no panic ... one unusual file never aborts the run" includes runtime fatals).
//
// Lint evaluates every file in a goroutine of its own and merges the results into one shared report. What is wrong
// with that merge (a map written outside the lock, a slice appended to concurrently, a pool that drops or repeats
// work) does not depend on any one module but on HOW MANY goroutines finish together: batches of 96 modules meet it
// once in many runs, a thousand small files in one call practically always — the more so the fewer rules are
// enabled, as evaluations get shorter. A large batch is linted in ONE call with every rule enabled and then once
// per rule subset, for several rounds, alone in a worker process with GOMAXPROCS >= 16 (runner.go); the thorough
// tier repeats it with a harness built with -race (a race report is a failure with the two stacks as evidence).

// smallModule: a few lines, every one different (name, package, literals), with ignore directives, imports and
// aggregates-relevant constructs so that every map of the shared report gets entries from every file.
func smallModule(r *hutil.Rng, i int) string {
	pkg := fmt.Sprintf("large.d%d.m%d", i%17, i)
	switch r.Below(8) {
	case 0:
		return fmt.Sprintf("package %s\n\nallow if input.x == %d\n", pkg, i)
	case 1:
		return fmt.Sprintf("package %s\n\nimport data.large.d%d.m%d\n\nallow if m%d.allow # regal ignore:prefer-package-imports\n", pkg, (i+1)%17, i+1, i+1)
	case 2:
		return fmt.Sprintf("package %s\n\n# regal ignore:prefer-snake-case\ncamelCase%d := %d\n", pkg, i, i)
	case 3:
		return fmt.Sprintf("# METADATA\n# description: module %d\n# entrypoint: true\npackage %s\n\nx := %d\n", i, pkg, i)
	case 4:
		return fmt.Sprintf("package %s\n\ndeny contains msg if {\n\tsome x in input.xs\n\tx > %d\n\tmsg := sprintf(\"%%d\", [x]) # regal ignore:all\n}\n", pkg, i)
	case 5:
		return fmt.Sprintf("package %s\n\nx = %d\n\ny {\n\tx == %d\n}\n", pkg, i, i) // v0
	case 6:
		return fmt.Sprintf("package %s\n\n# TODO: %d\nf(a) := a + %d\n\ntest_f if f(1) == %d\n", pkg, i, i, i+1)
	default:
		return fmt.Sprintf("package %s\n", pkg)
	}
}

// ruleSubsets: a few subsets of the rule names: single rules, a handful, half of them.
func ruleSubsets(r *hutil.Rng, all []string, n int) [][]string {
	var res [][]string
	if len(all) == 0 {
		return res
	}
	sizes := []int{1, 1, 3, 1, len(all) / 2, 2, 8}
	for i := 0; i < n; i++ {
		k := sizes[i%len(sizes)]
		idx := map[int]bool{}
		for len(idx) < k && len(idx) < len(all) {
			idx[r.Below(len(all))] = true
		}
		var rs []string
		for j := range idx {
			rs = append(rs, all[j])
		}
		sort.Strings(rs)
		res = append(res, rs)
	}
	return res
}

// LargeBatches: `count` batches of `size` small modules each: the first all generated, the others drawn from `pool`
// (the small modules of the other corpora, under their own names) topped up with generated ones. Every second batch
// skips the call with every rule enabled and has one more rule subset instead (a single-rule call over 1200 files
// costs a quarter of the all-rules call, and its goroutines finish closer together).
func LargeBatches(r *hutil.Rng, pool []Module, count, size, nSets, rounds int) ([][]Module, []BatchOpt) {
	var bs [][]Module
	var opts []BatchOpt
	all := AllRuleNames()
	var small []Module
	for _, m := range pool {
		if len(m.Text) <= 600 {
			small = append(small, m)
		}
	}
	for b := 0; b < count; b++ {
		var ms []Module
		names := map[string]bool{}
		if b > 0 && len(small) > 0 {
			cand := append([]Module{}, small...)
			hutil.Shuffle(r, cand)
			for _, m := range cand {
				if len(ms) >= size*2/3 {
					break
				}
				if !names[m.Name] {
					names[m.Name] = true
					ms = append(ms, m)
				}
			}
		}
		for i := 0; len(ms) < size; i++ {
			ms = append(ms, Module{Name: fmt.Sprintf("large/b%d/d%d/m%05d.rego", b, i%17, i), Text: smallModule(r, i), Src: fmt.Sprintf("gen:large:%d:%d", b, i)})
		}
		bs = append(bs, ms)
		// the pooled modules are linted with every rule enabled in their ordinary batches: rule subsets only
		opts = append(opts, BatchOpt{Large: true, RuleSets: ruleSubsets(r, all, nSets+b%2), NoAll: b%2 == 1, Rounds: rounds})
	}
	return bs, opts
}
