package corpus

import (
	"fmt"
	"strings"

	"verifharness/hutil"
)

// Comment placement (corpus (c), family "comment-placement" + mutation "comments-at-boundaries").
//
// Comments are where parsers and formatters are fragile: the parser attaches them to the module, not to
// terms, and everything that re-derives structure from rows/columns or re-prints the module (opa fmt through
// regal.is_formatted, location -> text helpers, ignore directives, metadata blocks) meets them in places
// nobody wrote a test for. A multi-line term has a token boundary after its opening bracket, around every
// separator, before its closing bracket and after it; the family below puts a comment (which forces a line
// break) at every boundary, at every PAIR of boundaries, and at all of them, with the remaining boundaries
// either left alone or broken by a bare newline — for every bracketed construct of the language.

type cpTemplate struct {
	name string
	pre  string   // up to and including the first token's start
	toks []string // a boundary follows every token; the one after the last token ends the line
	post string   // rest of the module, starts on a new line
	ind  string   // indentation of continuation lines
}

var cpTemplates = []cpTemplate{
	{"array", "x := ", []string{"[", "1", ",", " 2", "]"}, "", "\t"},
	{"array1", "x := ", []string{"[", "1", "]"}, "", "\t"},
	{"object", "x := ", []string{"{", "\"a\"", ":", " 1", ",", " \"b\": 2", "}"}, "", "\t"},
	{"object1", "x := ", []string{"{", "\"a\": 1", "}"}, "", "\t"},
	{"set", "x := ", []string{"{", "1", ",", " 2", "}"}, "", "\t"},
	{"nested", "x := ", []string{"[", "[", "1", "]", ",", " {", "\"a\": [2]", "}", "]"}, "", "\t"},
	{"call1", "x := ", []string{"count(", "[1]", ")"}, "", "\t"},
	{"call2", "x := ", []string{"startswith(", "\"a\"", ",", " \"b\"", ")"}, "", "\t"},
	{"call-nested", "x := ", []string{"count(", "[", "1", "]", ")"}, "", "\t"},
	{"ref", "x := ", []string{"input.a[", "1", "]"}, "", "\t"},
	{"ref2", "x := ", []string{"input.a[", "1", "][", "\"k\"", "]", ".b"}, "", "\t"},
	{"ref-var", "x := y if y := ", []string{"input[", "_", "][", "\"a b\"", "]"}, "", "\t"},
	{"parens", "x := ", []string{"(", "1 + 2", ")", " * 3"}, "", "\t"},
	{"infix", "x := ", []string{"[", "1 +", " 2", ",", " 3 -", " 4", "]"}, "", "\t"},
	{"array-compr", "x := ", []string{"[", "y", " |", " some y in input.ys", ";", " y > 1", "]"}, "", "\t"},
	{"set-compr", "x := ", []string{"{", "y", " |", " some y in input.ys", "}"}, "", "\t"},
	{"object-compr", "x := ", []string{"{", "k", ":", " v", " |", " some k, v in input.kv", "}"}, "", "\t"},
	{"some-in", "r if {\n\tsome y in ", []string{"[", "1", ",", " 2", "]"}, "\ty == 1\n}\n", "\t\t"},
	{"some-in-object", "r if {\n\tsome k, v in ", []string{"{", "\"a\": 1", "}"}, "\tk == v\n}\n", "\t\t"},
	{"every-domain", "r if {\n\tevery y in ", []string{"[", "1", ",", " 2", "]", " {", " y == 1", " }"}, "}\n", "\t\t"},
	{"every-body", "r if {\n\t", []string{"every k, v in input.kv {", " k == 1", ";", " v == [", "2", "]", " }"}, "}\n", "\t\t"},
	{"with-value", "r if input.a with input.b as ", []string{"[", "1", "]", " with data.c as {", "\"k\": 2", "}"}, "", "\t"},
	{"head-key", "", []string{"p[", "\"k\"", "] := ", "1"}, "", "\t"},
	{"head-contains", "p contains ", []string{"[", "1", ",", " 2", "]"}, "", "\t"},
	{"head-args", "", []string{"f(", "a", ",", " b", ") := ", "a"}, "", "\t"},
	{"head-args-pattern", "", []string{"f(", "[", "a", ",", " _", "]", ",", " {", "\"k\": b", "}", ") := a if b"}, "", "\t"},
	{"body-call", "r if {\n\t", []string{"g(", "[", "1", "]", ",", " {", "\"a\"", ":", " 2", "}", ")"}, "}\n\ng(a, b) if a == b\n", "\t\t"},
	{"membership", "r if 1 in ", []string{"[", "1", "]"}, "", "\t"},
	{"not-call", "r if not f(", []string{"", "[", "1", "]", ")"}, "\nf(a) := a\n", "\t"},
	{"else-values", "x := ", []string{"[", "1", "] if input.a else := [", "2", "]"}, "", "\t"},
	{"default-value", "default x := ", []string{"[", "1", ",", " {", "2", "}", "]"}, "", "\t"},
	{"body-braces", "r if ", []string{"{", " input.a", ";", " input.b", " }"}, "", "\t"},
	{"rule-body", "r := v if ", []string{"{", "\n\tv := [", "1", "]", "\n}"}, "", "\t\t"},
	{"else-body", "r := 1 if ", []string{"{", " input.a", " }", " else := 2 if {", " input.b", " }"}, "", "\t"},
	{"string-keys", "x := ", []string{"{", "\"# not a comment\"", ":", " \"]\"", ",", " `}`: `# raw`", "}"}, "", "\t"},
	{"sprintf", "x := ", []string{"sprintf(", "\"%v # %v\"", ",", " [", "1", ",", " 2", "]", ")"}, "", "\t"},
	{"import-alias", "import data.foo", []string{"", " as bar"}, "\nx := bar\n", ""},
}

// render: state per boundary 0 = nothing, 1 = newline, 2 = comment + newline
func (tp cpTemplate) render(state []int) string {
	var sb strings.Builder
	sb.WriteString("package p\n\n" + tp.pre)
	n := len(tp.toks)
	for i, tk := range tp.toks {
		sb.WriteString(tk)
		last := i == n-1
		switch state[i] {
		case 1:
			if !last {
				sb.WriteString("\n" + tp.ind)
			}
		case 2:
			sb.WriteString(fmt.Sprintf(" # c%d", i))
			if !last {
				sb.WriteString("\n" + tp.ind)
			}
		}
	}
	sb.WriteString("\n" + tp.post)
	return sb.String()
}

// CommentPlacementModules: singles on both backgrounds, pairs on the plain one, and "all" over every template;
// when `deep` pairs on both backgrounds and triples.
func CommentPlacementModules(deep bool) []Module {
	var res []Module
	seen := map[string]bool{}
	emit := func(tp cpTemplate, state []int, tag string) {
		t := tp.render(state)
		if seen[t] {
			return
		}
		seen[t] = true
		res = append(res, Module{Name: fmt.Sprintf("comments/%s_%04d.rego", tp.name, len(res)), Text: t,
			Src: fmt.Sprintf("gen:comment-placement:%s:%s", tp.name, tag)})
	}
	for _, tp := range cpTemplates {
		n := len(tp.toks)
		for bg := 0; bg <= 1; bg++ {
			base := make([]int, n)
			for i := range base {
				base[i] = bg
			}
			emit(tp, base, fmt.Sprintf("bg%d", bg))
			for i := 0; i < n; i++ {
				s := append([]int{}, base...)
				s[i] = 2
				emit(tp, s, fmt.Sprintf("bg%d:%d", bg, i))
				if bg == 1 && !deep {
					continue // quick tier: pairs on the plain background only
				}
				for j := i + 1; j < n; j++ {
					s2 := append([]int{}, s...)
					s2[j] = 2
					emit(tp, s2, fmt.Sprintf("bg%d:%d,%d", bg, i, j))
					if deep {
						for k := j + 1; k < n; k++ {
							s3 := append([]int{}, s2...)
							s3[k] = 2
							emit(tp, s3, fmt.Sprintf("bg%d:%d,%d,%d", bg, i, j, k))
						}
					}
				}
			}
		}
		all := make([]int, n)
		for i := range all {
			all[i] = 2
		}
		emit(tp, all, "all")
	}
	return res
}

// ---- the same as a mutation of existing modules ---------------------------------------------------------

type boundary struct {
	pos   int  // byte offset at which to insert
	after bool // boundary is after a closing bracket at the end of its line: a comment alone, no line break
}

// tokenBoundaries scans Rego text (strings, raw strings and comments respected) and returns the insertion
// points inside bracketed terms: after every opening bracket, after every comma and before every closing
// bracket while inside brackets, and after a closing bracket that ends its line.
func tokenBoundaries(t string) []boundary {
	var res []boundary
	depth := 0
	for i := 0; i < len(t); i++ {
		c := t[i]
		switch c {
		case '"':
			i++
			for i < len(t) && t[i] != '"' && t[i] != '\n' {
				if t[i] == '\\' {
					i++
				}
				i++
			}
		case '`':
			i++
			for i < len(t) && t[i] != '`' {
				i++
			}
		case '#':
			for i < len(t) && t[i] != '\n' {
				i++
			}
		case '[', '{', '(':
			depth++
			res = append(res, boundary{pos: i + 1})
		case ',':
			if depth > 0 {
				res = append(res, boundary{pos: i + 1})
			}
		case ']', '}', ')':
			if depth > 0 {
				depth--
				res = append(res, boundary{pos: i})
				j := i + 1
				for j < len(t) && (t[j] == ' ' || t[j] == '\t' || t[j] == '\r') {
					j++
				}
				if j >= len(t) || t[j] == '\n' {
					res = append(res, boundary{pos: i + 1, after: true})
				}
			}
		}
	}
	return res
}

func lineIndent(t string, pos int) string {
	s := strings.LastIndexByte(t[:pos], '\n') + 1
	e := s
	for e < len(t) && (t[e] == ' ' || t[e] == '\t') {
		e++
	}
	return t[s:e]
}

// mutateCommentsAtBoundaries inserts comments at a random non-empty subset of the token boundaries.
func mutateCommentsAtBoundaries(r *hutil.Rng, t string) string {
	bs := tokenBoundaries(t)
	if len(bs) == 0 {
		return t
	}
	rate := 2 + r.Below(6) // one boundary in `rate`
	chosen := map[int]bool{r.Below(len(bs)): true}
	for i := range bs {
		if r.Below(rate) == 0 {
			chosen[i] = true
		}
	}
	// (a comment STARTING with METADATA would open an annotation block: YAML errors are parse errors, outside the domain)
	words := []string{"c", "first", "é 日本", "regal ignore:all", "TODO", "see METADATA", "]", "{", "\"", "`", "regal ignore:opa-fmt,line-length"}
	var sb strings.Builder
	prev := 0
	for i, b := range bs {
		if !chosen[i] {
			continue
		}
		sb.WriteString(t[prev:b.pos])
		prev = b.pos
		cm := " # " + words[r.Below(len(words))]
		if b.after {
			sb.WriteString(cm)
		} else {
			sb.WriteString(cm + "\n" + lineIndent(t, b.pos) + "\t")
		}
	}
	sb.WriteString(t[prev:])
	return sb.String()
}
