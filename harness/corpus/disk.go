package corpus

import (
	"fmt"
	"os"
	"path/filepath"
	"sort"
	"strings"
	"time"

	"github.com/open-policy-agent/opa/v1/ast"

	"github.com/styrainc/regal/pkg/config"
	"github.com/styrainc/regal/pkg/linter"
	"github.com/styrainc/regal/pkg/rules"
)

// Large runs through the DISK path with a MIXED-VERSION configuration (C03, round 3).
//
// The large single-call runs (large.go) hand parsed modules to the linter; a project on disk is READ first: one
// goroutine per file in rules.InputFromPaths, each looking up the Rego version configured for the directory of its
// file. State shared by those goroutines (parser options, the versions map, the result maps) only matters when the
// files do not all want the same thing — a project with a v0 root and a v1 root — and when many of them are read at
// the same moment. So: a tree of >= 800 small files under two roots, `v0/` (configured rego-version 0) and `v1/`
// (rego-version 1), files of each kind alternating in the list of paths; a third of the files is valid in its own
// version ONLY (v0: bodies without `if`, `p[x] { ... }`; v1: `if` / `contains` without imports), the rest in both
// (there the version a module was parsed with is observed through Module.RegoVersion). The tree is read with
// rules.InputFromPaths(paths, root, versions) DiskRounds times and linted through WithInputPaths/WithPathPrefix and a
// config with the two roots (the way `regal lint` reaches InputFromPaths: config.AllRegoVersions builds the map) with
// every rule enabled and once per rule subset. Every file is valid for the version of its root (checked with OPA's own
// parser first), so ANY error of any round is a violation of C03; so is a module parsed with the version of the other
// root, and a report that does not cover every file. Replay: the tree (module names and texts) + roots + rounds.

func diskModuleText(r interface{ Below(int) int }, root string, i int) string {
	pkg := fmt.Sprintf("disk.%s.m%d", root, i)
	if root == "v0" {
		switch r.Below(6) {
		case 0:
			return fmt.Sprintf("package %s\n\nallow {\n\tinput.x == %d\n}\n", pkg, i)
		case 1:
			return fmt.Sprintf("package %s\n\ndeny[msg] {\n\tinput.y > %d\n\tmsg := \"no\"\n}\n", pkg, i)
		case 2:
			return fmt.Sprintf("package %s\n\nf(x) = y {\n\ty := x + %d\n}\n", pkg, i)
		case 3:
			return fmt.Sprintf("package %s\n\nx := %d\n", pkg, i) // valid in both versions
		case 4:
			return fmt.Sprintf("package %s\n\nimport data.disk.v1.m%d\n\ny = m%d.x\n", pkg, i, i)
		default:
			return fmt.Sprintf("# METADATA\n# description: legacy %d\npackage %s\n\nz := {%d, %d}\n", i, pkg, i, i+1)
		}
	}
	switch r.Below(6) {
	case 0:
		return fmt.Sprintf("package %s\n\nallow if {\n\tinput.x == %d\n}\n", pkg, i)
	case 1:
		return fmt.Sprintf("package %s\n\ndeny contains msg if {\n\tinput.y > %d\n\tmsg := \"no\"\n}\n", pkg, i)
	case 2:
		return fmt.Sprintf("package %s\n\nf(x) := y if {\n\ty := x + %d\n}\n", pkg, i)
	case 3:
		return fmt.Sprintf("package %s\n\nx := %d\n", pkg, i)
	case 4:
		return fmt.Sprintf("package %s\n\nimport data.disk.v0.m%d\n\ny := m%d.x\n", pkg, i, i)
	default:
		return fmt.Sprintf("# METADATA\n# description: modern %d\npackage %s\n\nz := {%d, %d}\n", i, pkg, i, i+1)
	}
}

// DiskBatch: n files per root, the two roots alternating in the order of the batch (= the order of the path list).
func DiskBatch(r interface{ Below(int) int }, b, perRoot, rounds int, ruleSets [][]string) ([]Module, BatchOpt) {
	var ms []Module
	for i := 0; i < perRoot; i++ {
		for _, root := range []string{"v0", "v1"} {
			ms = append(ms, Module{Name: fmt.Sprintf("%s/d%d/p%04d.rego", root, i%5, i), Text: diskModuleText(r, root, i),
				Src: fmt.Sprintf("gen:disk:%d:%s:%d", b, root, i)})
		}
	}
	return ms, BatchOpt{Large: true, Disk: true, Roots: map[string]int{"v0": 0, "v1": 1}, DiskRounds: rounds, RuleSets: ruleSets}
}

func rootOf(name string, roots map[string]int) (string, bool) {
	i := strings.Index(name, "/")
	if i <= 0 {
		return "", false
	}
	_, ok := roots[name[:i]]
	return name[:i], ok
}

func runDisk(res *BatchResult, idx int, mods []Module, opt BatchOpt, timeout time.Duration) {
	dir := filepath.Join(workDir, fmt.Sprintf("disk_b%d", idx))
	defer os.RemoveAll(dir)
	versions := map[string]ast.RegoVersion{}
	var roots []config.Root
	var rootNames []string
	for name := range opt.Roots {
		rootNames = append(rootNames, name)
	}
	sort.Strings(rootNames)
	for _, name := range rootNames {
		v := opt.Roots[name]
		versions[name] = ast.RegoV1
		if v == 0 {
			versions[name] = ast.RegoV0
		}
		roots = append(roots, config.Root{Path: name, RegoVersion: &v})
	}
	res.Oracle = map[string]int{}
	var kept []Module
	var paths []string
	want := map[string]ast.RegoVersion{}
	for _, m := range mods {
		root, ok := rootOf(m.Name, opt.Roots)
		if !ok || strings.Contains(m.Name, "..") || !oracleParses(m.Name, m.Text, versions[root]) {
			res.Unparsed = append(res.Unparsed, m.Src) // not valid for the version of its root: outside the domain
			continue
		}
		abs := filepath.Join(dir, m.Name)
		if err := os.MkdirAll(filepath.Dir(abs), 0o755); err != nil {
			panic(err)
		}
		if err := os.WriteFile(abs, []byte(m.Text), 0o644); err != nil {
			panic(err)
		}
		kept = append(kept, m)
		paths = append(paths, abs) // in the order of the batch: the roots alternate
		want[abs] = versions[root]
		res.Oracle[fmt.Sprintf("v%d (configured root, on disk)", opt.Roots[root])]++
	}
	if len(kept) == 0 {
		return
	}
	o := opt
	fail := func(key, err string, round int) {
		o2 := o
		o2.DiskRounds = round + 1
		res.Failures = append(res.Failures, Failure{Key: key, Modules: kept, Err: err, Opt: &o2})
	}
	rounds := opt.DiskRounds
	if rounds < 1 {
		rounds = 1
	}
	// ---- reading the tree: rules.InputFromPaths with the versions map, many rounds
	for round := 0; round < rounds; round++ {
		res.DiskRounds++
		in, err := func() (in rules.Input, err error) {
			defer func() {
				if r := recover(); r != nil {
					err = fmt.Errorf("panic: %v", r)
				}
			}()
			return rules.InputFromPaths(paths, dir, versions)
		}()
		if err != nil {
			e := strings.ReplaceAll(err.Error(), dir+"/", "")
			fail("disk: reading a mixed-version tree of valid files fails (rules.InputFromPaths)",
				fmt.Sprintf("round %d of rules.InputFromPaths over %d files (roots %v): %s", round, len(paths), opt.Roots, e), round)
			return
		}
		if len(in.FileNames) != len(paths) {
			fail("disk: rules.InputFromPaths does not return every file",
				fmt.Sprintf("round %d: %d of %d files", round, len(in.FileNames), len(paths)), round)
			return
		}
		for _, p := range paths {
			m := in.Modules[p]
			if m == nil {
				fail("disk: rules.InputFromPaths does not return every file", fmt.Sprintf("round %d: no module for %s", round, strings.TrimPrefix(p, dir+"/")), round)
				return
			}
			if got := m.RegoVersion(); got != want[p] && !(want[p] == ast.RegoV0 && got == ast.RegoV0CompatV1) {
				fail("disk: a module is parsed with the Rego version of another root",
					fmt.Sprintf("round %d: %s parsed as %v, its root is configured %v", round, strings.TrimPrefix(p, dir+"/"), got, want[p]), round)
				return
			}
		}
	}
	// ---- linting the tree the way `regal lint` does: paths + path prefix + the roots in the configuration
	sets := append([][]string{nil}, opt.RuleSets...)
	if opt.NoAll && len(opt.RuleSets) > 0 {
		sets = opt.RuleSets
	}
	cfg := config.Config{Project: &config.Project{Roots: &roots}}
	for _, rs := range sets {
		l := linter.NewLinter().WithEnableAll(true)
		if rs != nil {
			l = linter.NewLinter().WithDisableAll(true).WithEnabledRules(rs...)
		}
		rep, e := lintWith(l.WithUserConfig(cfg).WithPathPrefix(dir).WithInputPaths(paths), timeout)
		res.Lints++
		if e != "" {
			e = strings.ReplaceAll(e, dir+"/", "")
			key := "disk: linting a mixed-version tree of valid files fails: " + FailureKey(e)
			if strings.Contains(e, "failed to parse") {
				key = "disk: reading a mixed-version tree of valid files fails (linter.Lint with input paths)"
			}
			fail(key, fmt.Sprintf("linter.Lint (rules: %v) over %d files on disk (roots %v): %s", rs, len(paths), opt.Roots, e), rounds)
			return
		}
		if rep.Summary.FilesScanned != len(paths) {
			fail("disk: the report does not cover every file", fmt.Sprintf("files_scanned=%d for %d files (rules: %v)", rep.Summary.FilesScanned, len(paths), rs), rounds)
			return
		}
		if rs == nil {
			res.Violations = len(rep.Violations)
			for _, v := range rep.Violations {
				res.ByRule[v.Category+"/"+v.Title]++
			}
		}
	}
}
