package corpus

// RunHelpers is filled in by helpers_eval.go

func RunHelpers(prop, out, tier string) {}
