package corpus

import (
	"context"
	"encoding/base64"
	"fmt"
	"strings"

	"github.com/open-policy-agent/opa/v1/ast"
	"github.com/open-policy-agent/opa/v1/rego"

	rbundle "github.com/styrainc/regal/bundle"
	"github.com/styrainc/regal/pkg/builtins"
	"github.com/styrainc/roast/pkg/transform"

	"verifharness/hutil"
)

// Evaluation of regal's internal Rego helpers through OPA with the REAL embedded bundle
// (rego.ParsedBundle("regal", &rbundle.LoadedBundle) + the regal builtins), the way pkg/linter prepares
// its queries. One prepared query per helper; the arguments travel in `input`.

type helperQ struct {
	name string
	pq   rego.PreparedEvalQuery
}

func prepare(name, query string) helperQ {
	args := []func(*rego.Rego){
		rego.ParsedBundle("regal", &rbundle.LoadedBundle),
		rego.Query(query),
	}
	args = append(args, builtins.RegalBuiltinRegoFuncs...)
	pq, err := rego.New(args...).PrepareForEval(context.Background())
	if err != nil {
		panic(fmt.Sprintf("prepare %s: %v", name, err))
	}
	return helperQ{name: name, pq: pq}
}

// Obs is what OPA did: undefined, a value, or an evaluation error (class only).
type Obs struct {
	Defined bool   `json:"defined"`
	Err     string `json:"err,omitempty"`
	Val     any    `json:"val,omitempty"`
}

func (h helperQ) eval(input map[string]any) Obs {
	rs, err := h.pq.Eval(context.Background(), rego.EvalInput(input))
	if err != nil {
		return Obs{Err: ErrClass(err.Error())}
	}
	if len(rs) == 0 {
		return Obs{}
	}
	return Obs{Defined: true, Val: rs[0].Bindings["x"]}
}

// HCase is one helper call with what OPA answered.
type HCase struct {
	Helper string         `json:"helper"`
	Lines  []string       `json:"lines"`
	File   string         `json:"file"`
	Args   map[string]any `json:"args"`
	Got    Obs            `json:"got"`
}

var linePool = [][]string{
	{},
	{""},
	{"abc"},
	{"package p", "", "x := 1"},
	{"package p", "", "allow if {", "\tinput.x == 1", "\tinput.y", "}", ""},
	{"héllo wörld := \"日本語\"", "😀 := 1 # 😀", "\tx"},
	{"a", "bb", "ccc", "dddd", "eeeee", "ffffff"},
	{"日本語テキスト", "ßß", "", "ascii only"},
	{"0123456789"},
}

func genQuadParts(r *hutil.Rng, n int) [4]int {
	rowish := func() int { return r.Below(n+4) - 1 }
	colish := func() int { return r.Below(14) - 1 }
	row := rowish()
	er := row
	switch r.Below(4) {
	case 0:
		er = rowish()
	case 1:
		er = row + 1 + r.Below(3)
	}
	return [4]int{row, colish(), er, colish()}
}

var malformed = []string{"", ":", ":::", "1:2:3", "1:2:3:4:5", "a:b:c:d", "1:x:1:2", "x:1:1:2", "1:1:y:2", "1:1:1:z", " 1:1:1:1", "1:1:1:1 ", "1:1:1:", ":1:1:1", "1::1:1", "--1:1:1:1", "1:1:1:-", "one:1:1:1"}

func genLocString(r *hutil.Rng, n int) string {
	if r.Below(12) == 0 {
		return Pick(r, malformed)
	}
	q := genQuadParts(r, n)
	return fmt.Sprintf("%d:%d:%d:%d", q[0], q[1], q[2], q[3])
}

func genLocObj(r *hutil.Rng, n int) map[string]any {
	o := map[string]any{}
	q := genQuadParts(r, n)
	if r.Below(6) != 0 {
		o["row"] = q[0]
	}
	if r.Below(6) != 0 {
		o["col"] = q[1]
	}
	if r.Below(3) != 0 {
		o["text"] = Pick(r, []string{"", "some text", "日本"})
	}
	if r.Below(3) != 0 {
		o["end"] = map[string]any{"row": q[2], "col": q[3]}
	}
	if r.Below(3) == 0 {
		o["file"] = Pick(r, []string{"other.rego", ""})
	}
	return o
}

// a node: object with (or without) a "location" attribute
func genNode(r *hutil.Rng, n int) map[string]any {
	switch r.Below(10) {
	case 0:
		return map[string]any{"type": "var", "value": "x"} // no location
	case 1:
		return map[string]any{"location": genLocObj(r, n), "type": "var"}
	case 2:
		return map[string]any{"location": 17, "type": "var"}
	default:
		return map[string]any{"location": genLocString(r, n), "type": "var", "value": "x"}
	}
}

func genArg(r *hutil.Rng, n int) any {
	switch r.Below(10) {
	case 0:
		return genLocString(r, n)
	case 1:
		var arr []any
		for i := r.Below(4); i > 0; i-- {
			arr = append(arr, genNode(r, n))
		}
		if arr == nil {
			return []any{}
		}
		return arr
	case 2:
		return Pick(r, []string{"42", "true", "null"}) // decoded below into a non-string scalar
	default:
		return genNode(r, n)
	}
}

func scalarFix(v any) any {
	if s, ok := v.(string); ok {
		switch s {
		case "42":
			return 42
		case "true":
			return true
		case "null":
			return nil
		}
	}
	return v
}

func mkInput(lines []string, file string, args map[string]any) map[string]any {
	ls := make([]any, len(lines))
	for i := range lines {
		ls[i] = lines[i]
	}
	in := map[string]any{"regal": map[string]any{"file": map[string]any{"name": file, "lines": ls}}}
	for k, v := range args {
		in[k] = v
	}
	return in
}

// RunHelpers writes one JSON line per case.
func RunHelpers(prop, out, tier string) {
	r := hutil.NewRng(hutil.SeedFromEnv() ^ 0x5EED)
	o := hutil.NewOut(out)
	defer o.Close()
	if prop == "C07" {
		runLocationHelpers(r, o, tier)
	} else {
		runFrameworkHelpers(r, o, tier)
	}
}

func runLocationHelpers(r *hutil.Rng, o *hutil.Out, tier string) {
	n := 260
	if tier != "quick" {
		n = 2500
	}
	qTLO := prepare("to_location_object", "x = data.regal.util.to_location_object(input.x)")
	qLoc := prepare("location", "x = data.regal.result.location(input.x)")
	qRLB := prepare("ranged_location_between", "x = data.regal.result.ranged_location_between(input.x, input.y)")
	qRFR := prepare("ranged_from_ref", "x = data.regal.result.ranged_from_ref(input.ref)")
	qInf := prepare("infix_expr_location", "x = data.regal.result.infix_expr_location(input.expr)")
	qCut := prepare("cut_col", "x = data.regal.util._cut_col(input.i, input.len, input.line, input.col, input.end_col)")
	qL2T := prepare("location_to_text", "x = data.regal.util._location_to_text(input.row, input.col, input.end_row, input.end_col)")
	qSub := prepare("substring", "x = substring(input.s, input.off, input.len)")
	emit := func(h helperQ, lines []string, args map[string]any) {
		file := "p/file.rego"
		o.Emit(HCase{Helper: h.name, Lines: lines, File: file, Args: args, Got: h.eval(mkInput(lines, file, args))})
	}
	// exhaustive small block: every quad over a 3-line table with rows/cols in a small window
	small := []string{"ab", "", "cdé"}
	for row := -1; row <= 4; row++ {
		for er := -1; er <= 4; er++ {
			for _, c := range []int{-1, 0, 1, 2, 4} {
				for _, ec := range []int{-1, 0, 1, 3, 5} {
					s := fmt.Sprintf("%d:%d:%d:%d", row, c, er, ec)
					emit(qTLO, small, map[string]any{"x": s})
					if tier != "quick" || (row+er+c+ec)%3 == 0 {
						emit(qLoc, small, map[string]any{"x": map[string]any{"location": s}})
					}
				}
			}
		}
	}
	for _, m := range malformed {
		emit(qTLO, small, map[string]any{"x": m})
		emit(qLoc, small, map[string]any{"x": m})
		emit(qInf, small, map[string]any{"expr": []any{map[string]any{"location": "1:1:1:2"}, map[string]any{"location": m}, map[string]any{"location": "1:1:1:2"}}})
		emit(qInf, small, map[string]any{"expr": []any{map[string]any{"location": "1:1:1:2"}, map[string]any{"location": "1:1:1:2"}, map[string]any{"location": m}}})
	}
	for i := 0; i < n; i++ {
		lines := linePool[r.Below(len(linePool))]
		nl := len(lines)
		emit(qTLO, lines, map[string]any{"x": scalarFix(func() any {
			if r.Below(5) == 0 {
				return genLocObj(r, nl)
			}
			if r.Below(12) == 0 {
				return "42"
			}
			return genLocString(r, nl)
		}())})
		emit(qLoc, lines, map[string]any{"x": scalarFix(genArg(r, nl))})
		emit(qRLB, lines, map[string]any{"x": scalarFix(genArg(r, nl)), "y": scalarFix(genArg(r, nl))})
		var ref []any
		for j := r.Below(5); j > 0; j-- {
			ref = append(ref, scalarFix(genArg(r, nl)))
		}
		if ref == nil {
			ref = []any{}
		}
		emit(qRFR, lines, map[string]any{"ref": ref})
		var expr []any
		for j := r.Below(5); j > 0; j-- {
			expr = append(expr, genNode(r, nl))
		}
		if expr == nil {
			expr = []any{}
		}
		emit(qInf, lines, map[string]any{"expr": expr})
		q := genQuadParts(r, nl)
		emit(qL2T, lines, map[string]any{"row": q[0], "col": q[1], "end_row": q[2], "end_col": q[3]})
		line := "x"
		if nl > 0 {
			line = lines[r.Below(nl)]
		}
		emit(qCut, lines, map[string]any{"i": r.Below(5) - 1, "len": r.Below(5) - 1, "line": line, "col": r.Below(12) - 1, "end_col": r.Below(12) - 1})
		emit(qSub, nil, map[string]any{"s": line, "off": r.Below(14) - 2, "len": r.Below(14) - 2})
	}
	// ---- in-domain block: well-formed, ordered locations (the premises of the in-file theorems)
	wf := func(lines []string, minRow int) (string, int) {
		row := minRow + r.Below(len(lines)-minRow+1)
		er := row + r.Below(3)
		c := 1 + r.Below(len(lines[row-1])+1)
		ec := c + r.Below(6)
		if er != row {
			ec = 1 + r.Below(9)
		}
		return fmt.Sprintf("%d:%d:%d:%d", row, c, er, ec), row
	}
	for i := 0; i < n/2; i++ {
		lines := linePool[2+r.Below(len(linePool)-2)]
		a, ra := wf(lines, 1)
		b, _ := wf(lines, ra)
		na := map[string]any{"location": a, "type": "var", "value": "a"}
		nb := map[string]any{"location": b, "type": "var", "value": "b"}
		mid, _ := wf(lines, 1)
		emit(qLoc, lines, map[string]any{"x": []any{na, nb}})
		emit(qRLB, lines, map[string]any{"x": na, "y": nb})
		emit(qRLB, lines, map[string]any{"x": a, "y": []any{nb}})
		emit(qRFR, lines, map[string]any{"ref": []any{na, map[string]any{"location": mid}, nb}})
		emit(qRFR, lines, map[string]any{"ref": []any{na}})
		emit(qInf, lines, map[string]any{"expr": []any{map[string]any{"location": mid}, na, nb}})
		emit(qInf, lines, map[string]any{"expr": []any{map[string]any{"location": mid}, na, map[string]any{"location": mid}, nb}})
	}
	// ---- the line table: roast's transform.ToAST is what pkg/linter feeds every file through
	mod := ast.MustParseModule("package p\n")
	contents := []string{"", "\n", "a", "a\n", "a\nb", "a\r\nb", "a\r\nb\r\n", "\r\n", "\r", "a\rb", "a\r\r\nb", "a\n\rb", "\r\n\r\n", "a\r\n\nb\n\r\n", "é\r\n日本\n", "\n\n\npackage p\r\n"}
	for i := 0; i < n/4; i++ {
		var sb strings.Builder
		for j := r.Below(12); j > 0; j-- {
			sb.WriteString(Pick(r, []string{"a", "b", "\n", "\r\n", "\r", "é", " ", "\t", "\n\n", "x := 1"}))
		}
		contents = append(contents, sb.String())
	}
	for _, c := range contents {
		v, err := transform.ToAST("f.rego", c, mod, false)
		var lines []string
		if err == nil {
			if lt := v.(ast.Object).Get(ast.StringTerm("regal")).Get(ast.StringTerm("file")).Get(ast.StringTerm("lines")); lt != nil {
				lt.Value.(*ast.Array).Foreach(func(t *ast.Term) { lines = append(lines, string(t.Value.(ast.String))) })
			}
		}
		o.Emit(map[string]any{"helper": "file_lines", "content": c, "lines": lines, "err": err != nil})
		for _, k := range []int{1, 3} {
			v2, err2 := transform.ToAST("f.rego", strings.Repeat("\n", k)+c, mod, false)
			var l2 []string
			if err2 == nil {
				v2.(ast.Object).Get(ast.StringTerm("regal")).Get(ast.StringTerm("file")).Get(ast.StringTerm("lines")).Value.(*ast.Array).Foreach(func(t *ast.Term) { l2 = append(l2, string(t.Value.(ast.String))) })
			}
			o.Emit(map[string]any{"helper": "file_lines_shift", "content": c, "k": k, "lines": l2, "err": err2 != nil})
		}
	}
}

func b64(s string) string { return base64.StdEncoding.EncodeToString([]byte(s)) }

// evalLiteral evaluates a closed query (no input): used where the argument cannot travel as JSON (sets).
func evalLiteral(query string) Obs {
	h := prepare("literal", query)
	return h.eval(map[string]any{})
}

func runFrameworkHelpers(r *hutil.Rng, o *hutil.Out, tier string) {
	n := 150
	if tier != "quick" {
		n = 1500
	}
	emit := func(h helperQ, args map[string]any) {
		lines := []string{"package p", "", "# c", "x := 1 # d", "", "y := 2"}
		o.Emit(HCase{Helper: h.name, Lines: lines, File: "p/file.rego", Args: args, Got: h.eval(mkInput(lines, "p/file.rego", args))})
	}
	// ---- _category_title_from_path
	qCTP := prepare("category_title_from_path", "x = data.regal.result._category_title_from_path(input.path)")
	words := []any{"regal", "rules", "custom", "bugs", "x", 7, nil}
	for l := 0; l <= 6; l++ {
		for i := 0; i < 1+l*6; i++ {
			var path []any
			for j := 0; j < l; j++ {
				switch {
				case r.Below(3) != 0 && l == 4 && j < 2:
					path = append(path, []any{"regal", "rules"}[j])
				case r.Below(3) != 0 && l == 5 && j < 3:
					path = append(path, []any{"custom", "regal", "rules"}[j])
				default:
					path = append(path, words[r.Below(len(words))])
				}
			}
			if path == nil {
				path = []any{}
			}
			emit(qCTP, map[string]any{"path": path})
		}
	}
	emit(qCTP, map[string]any{"path": "regal"})
	// ---- _related_resources
	qRR := prepare("related_resources", "x = data.regal.result._related_resources(input.ann, \"cat\", \"title\")")
	for _, ann := range []any{
		map[string]any{}, map[string]any{"related_resources": []any{map[string]any{"ref": "https://e.x"}}},
		map[string]any{"related_resources": []any{}}, map[string]any{"related_resources": false},
		map[string]any{"related_resources": true}, map[string]any{"related_resources": nil},
		map[string]any{"related_resources": 0}, map[string]any{"related_resources": ""},
		map[string]any{"title": "t"}, "not an object", []any{}, nil,
	} {
		emit(qRR, map[string]any{"ann": ann})
	}
	// ---- fail: the selection structure
	qFail := prepare("fail", "x = data.regal.result.fail(input.meta, input.details)")
	link := func(kind int) map[string]any {
		switch kind {
		case 0: // rule-scoped link
			return map[string]any{"annotations": map[string]any{"scope": "rule", "description": "d"}, "path": []any{"regal", "rules", "bugs", "x", "report"}}
		case 1: // package link of a provided rule
			return map[string]any{"annotations": map[string]any{"scope": "package", "description": "d"}, "path": []any{"regal", "rules", Pick(r, []string{"bugs", "style"}), Pick(r, []string{"x", "y", "z"})}}
		case 2: // package link of a custom rule
			return map[string]any{"annotations": map[string]any{"scope": "package", "description": "d"}, "path": []any{"custom", "regal", "rules", Pick(r, []string{"bugs", "style"}), Pick(r, []string{"x", "y", "z"})}}
		case 3: // package link of something else
			return map[string]any{"annotations": map[string]any{"scope": "package", "description": "d"}, "path": []any{"foo", "bar"}}
		case 4: // subpackages
			return map[string]any{"annotations": map[string]any{"scope": "subpackages", "title": "s"}, "path": []any{"regal"}}
		default: // no annotations
			return map[string]any{"path": []any{"regal", "rules", "bugs", "x"}}
		}
	}
	details := []any{map[string]any{}, map[string]any{"location": map[string]any{"row": 1, "col": 1}}, "nope"}
	for i := 0; i < n; i++ {
		var chain []any
		for j := r.Below(5); j > 0; j-- {
			chain = append(chain, link(r.Below(6)))
		}
		if chain == nil {
			chain = []any{}
		}
		emit(qFail, map[string]any{"meta": chain, "details": details[r.Below(len(details))]})
	}
	full := map[string]any{"title": "t", "description": "d", "custom": map[string]any{"category": "c"}, "related_resources": []any{map[string]any{"ref": "https://e.x", "description": "documentation"}}}
	noTitle := map[string]any{"description": "d", "custom": map[string]any{"category": "c"}, "related_resources": []any{}}
	for _, m := range []any{full, noTitle, map[string]any{}, "s", 3, nil} {
		for _, d := range details {
			emit(qFail, map[string]any{"meta": m, "details": d})
		}
	}
	// ---- _file_name_relative_to_root
	qFNR := prepare("file_name_relative_to_root", "x = data.regal.main._file_name_relative_to_root(input.f, input.root)")
	for i := 0; i < n; i++ {
		root := Pick(r, []string{"/", "", "/ws", "/ws/", "ws", "//", "file:///ws", "/a/b"})
		f := Pick(r, []string{"", "/", "/ws", root, root + "/", ""}) + Pick(r, []string{"", "p.rego", "/p.rego", "a/p.rego", "/ws/p.rego", "//p.rego"})
		emit(qFNR, map[string]any{"f": f, "root": root})
	}
	// ---- ignore_directives[row]
	qID := prepare("ignore_directives", "x = data.regal.ast.ignore_directives")
	texts := []string{" regal ignore:a", " regal ignore:a,b", " plain", " regal ignore:line-length", "regal ignore:x"}
	for i := 0; i < n; i++ {
		var cs []any
		for j := r.Below(5); j > 0; j-- {
			row := 1 + r.Below(6)
			cs = append(cs, map[string]any{"location": fmt.Sprintf("%d:1:%d:5", row, row), "text": b64(Pick(r, texts))})
		}
		if cs == nil {
			cs = []any{}
		}
		emit(qID, map[string]any{"comments": cs})
	}
	// ---- ast/imports.rego: _imported_identifier, imported_identifiers, resolved_imports on import lists as the
	// PARSER may deliver them: several imports under one identifier (same last component, alias = another import's
	// name, alias = alias, input vs data), exact duplicates, bare input/data, non-document heads
	qIds := prepare("imports_ids", "x = [i | some i in data.regal.ast.imported_identifiers]")
	qRes := prepare("imports_resolved", "x = [[k, v] | some k, v in data.regal.ast.resolved_imports]")
	type impForm struct {
		path  []string
		alias any // nil = none
	}
	forms := []impForm{
		{[]string{"data", "a", "foo"}, nil}, {[]string{"data", "b", "foo"}, nil}, {[]string{"data", "b", "bar"}, "foo"},
		{[]string{"input", "foo"}, nil}, {[]string{"data", "foo"}, nil}, {[]string{"data", "foo"}, "bar"}, {[]string{"data", "bar"}, nil},
		{[]string{"input"}, nil}, {[]string{"data"}, nil}, {[]string{"data"}, "foo"}, {[]string{"rego", "v1"}, nil}, {[]string{"data", "a", "v1"}, nil},
		{[]string{"future", "keywords", "if"}, nil}, {[]string{"data", "a", "b c"}, nil}, {[]string{"x", "foo"}, nil}, {[]string{"x", "y"}, "foo"},
		{[]string{"data", "foo", "bar"}, nil}, {[]string{"data", "x"}, "_"},
	}
	mkImp := func(f impForm) map[string]any {
		var parts []any
		for i, p := range f.path {
			ty := "string"
			if i == 0 {
				ty = "var"
			}
			parts = append(parts, map[string]any{"type": ty, "value": p})
		}
		if parts == nil {
			parts = []any{}
		}
		m := map[string]any{"path": map[string]any{"type": "ref", "value": parts}}
		if f.alias != nil {
			m["alias"] = f.alias
		}
		return m
	}
	emitImports := func(fs []impForm) {
		var imps, desc []any
		for _, f := range fs {
			imps = append(imps, mkImp(f))
			desc = append(desc, map[string]any{"path": f.path, "alias": f.alias})
		}
		if imps == nil {
			imps, desc = []any{}, []any{}
		}
		in := map[string]any{"imports": imps}
		o.Emit(map[string]any{"helper": "imports", "args": map[string]any{"imports": desc}, "got_ids": qIds.eval(in), "got_res": qRes.eval(in)})
	}
	emitImports(nil)
	for _, a := range forms {
		emitImports([]impForm{a})
		for _, b := range forms {
			emitImports([]impForm{a, b})
		}
	}
	// outside the premise (the parser never delivers it): an alias that is the value false, alone and next to others
	falseAlias := impForm{[]string{"data", "x"}, false}
	emitImports([]impForm{falseAlias})
	emitImports([]impForm{{[]string{"x"}, false}})
	emitImports([]impForm{forms[0], {[]string{"x", "y"}, false}})
	emitImports([]impForm{{[]string{"x", "y"}, false}})
	for i := 0; i < n; i++ {
		var fs []impForm
		for j := 3 + r.Below(3); j > 0; j-- {
			f := forms[r.Below(len(forms))]
			if r.Below(40) == 0 {
				f = falseAlias
			}
			fs = append(fs, f)
		}
		emitImports(fs)
	}
	// ---- ast.function_decls: several definitions per name (different arities, functions next to plain rules)
	qDecl := prepare("function_decls", "x = {n: count(d.decl.args) | some n, d in data.regal.ast.function_decls(input.rules)}")
	mkRule := func(name string, arity int) map[string]any {
		head := map[string]any{"ref": []any{map[string]any{"type": "var", "value": name}}}
		if arity >= 0 {
			args := []any{}
			for k := 0; k < arity; k++ {
				args = append(args, map[string]any{"type": "var", "value": fmt.Sprintf("a%d", k)})
			}
			head["args"] = args
		}
		return map[string]any{"head": head}
	}
	emitDecls := func(sigs [][2]any) {
		var rs, desc []any
		for _, sg := range sigs {
			rs = append(rs, mkRule(sg[0].(string), sg[1].(int)))
			desc = append(desc, []any{sg[0], sg[1]})
		}
		if rs == nil {
			rs, desc = []any{}, []any{}
		}
		o.Emit(map[string]any{"helper": "function_decls", "args": map[string]any{"rules": desc}, "got": qDecl.eval(map[string]any{"rules": rs})})
	}
	emitDecls(nil)
	for _, a1 := range []int{-1, 0, 1, 2} {
		emitDecls([][2]any{{"f", a1}})
		for _, a2 := range []int{-1, 0, 1, 2} {
			emitDecls([][2]any{{"f", a1}, {"f", a2}})
			emitDecls([][2]any{{"f", a1}, {"g", a2}, {"f", a2}})
		}
	}
	for i := 0; i < n/3; i++ {
		var sigs [][2]any
		for j := r.Below(6); j > 0; j-- {
			sigs = append(sigs, [2]any{Pick(r, []string{"f", "g", "h"}), r.Below(5) - 1})
		}
		emitDecls(sigs)
	}
	// ---- to_set / to_array (closed queries: sets cannot be passed as JSON input)
	for _, q := range []string{"{1, 2}", "[1, 2, 2]", "set()", "[]", "{\"a\": 1}", "5", "\"s\"", "null", "{[1], [2]}"} {
		o.Emit(map[string]any{"helper": "to_set", "arg": q, "got": evalLiteral("y = data.regal.util.to_set(" + q + "); x = [is_set(y), count(y)]")})
		o.Emit(map[string]any{"helper": "to_array", "arg": q, "got": evalLiteral("y = data.regal.util.to_array(" + q + "); x = [is_array(y), count(y)]")})
	}
	// ---- the location helpers (shared with C07): any evaluation error there is a conflict in util/result
	runLocationHelpers(r, o, "quick")
}
