package corpus

import (
	"context"
	"fmt"
	"sort"
	"testing/fstest"
	"time"

	"github.com/open-policy-agent/opa/v1/ast"
	"github.com/open-policy-agent/opa/v1/rego"

	rbundle "github.com/styrainc/regal/bundle"
	"github.com/styrainc/regal/pkg/builtins"
	"github.com/styrainc/regal/pkg/linter"
	"github.com/styrainc/regal/pkg/rules"
	"github.com/styrainc/roast/pkg/transform"

	"verifharness/hutil"
)

// Error propagation of linter.Lint (tie of Model/LintErr.v to the code): a small pool of files, two of which
// fail in different phases (transform: number beyond float64; evaluation: a custom rule with a conflicting
// complete rule that fires for package "boom"), is linted file by file (these outcomes are the oracle table
// per_file) and in subsets; the model predicts the outcome of every subset from the table.

const boomRule = `# METADATA
# description: raises eval_conflict_error for files of package boom
package custom.regal.rules.testing.boom

import data.regal.result

_x := v if {
	input["package"].path[1].value == "boom"
	some v in [1, 2]
}

report contains violation if {
	_x == 3
	violation := result.fail(rego.metadata.chain(), {})
}
`

var propPool = []Module{
	{Name: "a.rego", Text: "package a\n\nx := 1\n"},
	{Name: "b.rego", Text: "package b\n\nimport data.a\n\ny if a.x == 1\n"},
	{Name: "c_test.rego", Text: "package c_test\n\ntest_x if true\n"},
	{Name: "big.rego", Text: "package big\n\nx := 2e308\n"},
	{Name: "boom.rego", Text: "package boom\n\nx := 1\n"},
	{Name: "d.rego", Text: "package d\n\nallow if {\n\tevery x in input.xs { x > 0 }\n}\n"},
}

type PropCase struct {
	Helper  string   `json:"helper"`
	Files   []string `json:"files"`
	Singles []bool   `json:"singles"` // oracle table: did the file lint without error on its own
	GotOK   bool     `json:"got_ok"`
	Err     string   `json:"err,omitempty"`
	NFiles  int      `json:"files_scanned"`
}

func lintSubset(mods []Parsed) (bool, string, int) {
	fc := map[string]string{}
	ms := map[string]*ast.Module{}
	for _, p := range mods {
		fc[p.Name] = p.Text
		ms[p.Name] = p.AST
	}
	in := rules.NewInput(fc, ms)
	ctx, cancel := context.WithTimeout(context.Background(), 120*time.Second)
	defer cancel()
	fsys := fstest.MapFS{"rules/boom.rego": &fstest.MapFile{Data: []byte(boomRule)}}
	rep, err := linter.NewLinter().WithEnableAll(true).WithCustomRulesFromFS(fsys, "rules").WithInputModules(&in).Lint(ctx)
	if err != nil {
		return false, ErrClass(err.Error()), 0
	}
	return true, "", rep.Summary.FilesScanned
}

// directOutcome decides, WITHOUT going through pkg/linter, whether the per-file step of this file fails:
// roast's transform, and the evaluation of the custom rule on the transformed input by OPA itself.
func directOutcome(p Parsed, pq rego.PreparedEvalQuery) bool {
	v, err := transform.ToAST(p.Name, p.Text, p.AST, false)
	if err != nil {
		return false
	}
	if _, err := pq.Eval(context.Background(), rego.EvalParsedInput(v)); err != nil {
		return false
	}
	return true
}

func RunPropagation(out, tier string) {
	r := hutil.NewRng(hutil.SeedFromEnv() ^ 0xE44)
	o := hutil.NewOut(out)
	defer o.Close()
	var pool []Parsed
	for _, m := range propPool {
		p, ok := Parse(m)
		if !ok {
			panic("propagation pool does not parse: " + m.Name)
		}
		pool = append(pool, p)
	}
	args := []func(*rego.Rego){
		rego.ParsedBundle("regal", &rbundle.LoadedBundle),
		rego.Module("boom.rego", boomRule),
		rego.Query("x = data.custom.regal.rules.testing.boom.report"),
	}
	args = append(args, builtins.RegalBuiltinRegoFuncs...)
	pq, err := rego.New(args...).PrepareForEval(context.Background())
	if err != nil {
		panic(err)
	}
	// the oracle table comes from the direct evaluation; Lint on the single file must agree with it too
	single := make([]bool, len(pool))
	for i, p := range pool {
		single[i] = directOutcome(p, pq)
		ok, e, nf := lintSubset([]Parsed{p})
		o.Emit(PropCase{Helper: "propagation", Files: []string{p.Name}, Singles: []bool{single[i]}, GotOK: ok, Err: e, NFiles: nf})
	}
	n := 14
	if tier != "quick" {
		n = 1 << len(pool)
	}
	seen := map[string]bool{}
	for i := 0; i < n; i++ {
		mask := i
		if tier == "quick" {
			mask = 1 + r.Below((1<<len(pool))-1)
		}
		var sub []Parsed
		var singles []bool
		var names []string
		for j := range pool {
			if mask&(1<<j) != 0 {
				sub = append(sub, pool[j])
				singles = append(singles, single[j])
				names = append(names, pool[j].Name)
			}
		}
		sort.Strings(names)
		k := fmt.Sprint(names)
		if len(sub) < 2 || seen[k] {
			continue
		}
		seen[k] = true
		// random order of the input: completion order is not controlled, the model quantifies over it
		hutil.Shuffle(r, sub)
		singles = singles[:0]
		names = names[:0]
		for _, p := range sub {
			names = append(names, p.Name)
			for j := range pool {
				if pool[j].Name == p.Name {
					singles = append(singles, single[j])
				}
			}
		}
		ok, e, nf := lintSubset(sub)
		o.Emit(PropCase{Helper: "propagation", Files: names, Singles: singles, GotOK: ok, Err: e, NFiles: nf})
	}
}
