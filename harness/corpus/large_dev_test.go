package corpus

import (
	"fmt"
	"os"
	"testing"
	"time"

	"verifharness/hutil"
)

// Development aid: what one large single-call run costs.
func TestLargeTiming(t *testing.T) {
	if os.Getenv("VERIF_DEV") == "" {
		t.Skip("development aid")
	}
	r := hutil.NewRng(1)
	bs, opts := LargeBatches(r, nil, 1, 1200, 3, 1)
	var parsed []Parsed
	for _, m := range bs[0] {
		if p, ok := Parse(m); ok {
			parsed = append(parsed, p)
		}
	}
	for _, rs := range append([][]string{nil}, opts[0].RuleSets...) {
		t0 := time.Now()
		o := LintBatchRules(parsed, 100*time.Second, rs)
		n := 0
		if o.Report != nil {
			n = len(o.Report.Violations)
		}
		fmt.Fprintf(os.Stderr, "%d files, rules %v: %v err=%q violations=%d\n", len(parsed), rs, time.Since(t0), o.Err, n)
	}
}
