package corpus

import (
	"encoding/json"
	"fmt"
	"regexp"
	"sort"
	"strconv"

	"github.com/styrainc/regal/pkg/report"
)

// The C07 predicate, computed on the implementation's own output, independently of the Coq model.

// Viol is the part of a violation the property speaks about.
type Viol struct {
	Category string `json:"category"`
	Title    string `json:"title"`
	Desc     string `json:"description"`
	Level    string `json:"level"`
	File     string `json:"file"`
	Row      int    `json:"row"`
	Col      int    `json:"col"`
	HasEnd   bool   `json:"has_end"`
	EndRow   int    `json:"end_row"`
	EndCol   int    `json:"end_col"`
	HasText  bool   `json:"has_text"`
	Text     string `json:"text"`
	Agg      bool   `json:"aggregate"`
}

func FromReport(v report.Violation) Viol {
	r := Viol{Category: v.Category, Title: v.Title, Desc: v.Description, Level: v.Level, File: v.Location.File,
		Row: v.Location.Row, Col: v.Location.Column, Agg: v.IsAggregate}
	if v.Location.End != nil {
		r.HasEnd, r.EndRow, r.EndCol = true, v.Location.End.Row, v.Location.End.Column
	}
	if v.Location.Text != nil {
		r.HasText, r.Text = true, *v.Location.Text
	}
	return r
}

// LocIssue: one violation of the bounds/text part of C07.
type LocIssue struct {
	Kind string `json:"kind"` // file-not-linted | row-outside | col-outside | end-before-start | end-outside | text-mismatch
	V    Viol   `json:"violation"`
	Line string `json:"line,omitempty"`
}

// CheckLocations checks every violation of a report against the files of the batch.
//
//	file   : names a linted file (a violation without position — row 0, no file — carries no location)
//	row    : 1 <= row <= |lines|
//	col    : 1 <= col <= len(line)+1   (bytes; OPA columns count code points, so this is the weaker bound)
//	end    : (end.row, end.col) >= (row, col) lexicographically, end.row <= |lines|, 1 <= end.col <= len(endline)+1
//	text   : equals lines[row-1]
func CheckLocations(rep *report.Report, files map[string][]string) []LocIssue {
	var res []LocIssue
	for _, rv := range rep.Violations {
		v := FromReport(rv)
		noPos := v.Row == 0 && v.Col == 0 && !v.HasEnd && !v.HasText
		if v.File == "" && noPos {
			continue // no location at all (aggregate rules about the whole workspace)
		}
		lines, ok := files[v.File]
		if !ok {
			res = append(res, LocIssue{Kind: "file-not-linted", V: v})
			continue
		}
		if noPos {
			continue // names a linted file but carries no position (rules about the file as a whole)
		}
		if v.Row < 1 || v.Row > len(lines) {
			res = append(res, LocIssue{Kind: "row-outside", V: v})
			continue
		}
		line := lines[v.Row-1]
		if v.Col < 1 || v.Col > len(line)+1 {
			res = append(res, LocIssue{Kind: "col-outside", V: v, Line: line})
		}
		if v.HasEnd {
			if v.EndRow < v.Row || (v.EndRow == v.Row && v.EndCol < v.Col) {
				res = append(res, LocIssue{Kind: "end-before-start", V: v, Line: line})
			} else if v.EndRow > len(lines) || v.EndCol < 1 || v.EndCol > len(lines[v.EndRow-1])+1 {
				res = append(res, LocIssue{Kind: "end-outside", V: v, Line: line})
			}
		}
		if v.HasText && v.Text != line {
			res = append(res, LocIssue{Kind: "text-mismatch", V: v, Line: line})
		}
		if !v.HasText && !v.Agg {
			res = append(res, LocIssue{Kind: "text-missing", V: v, Line: line})
		}
	}
	return res
}

// ShiftExempt: rules whose verdict depends, by definition, on the absolute length or the formatting of the
// file, so that k blank lines at the top legitimately change them.
var ShiftExempt = map[string]string{
	"file-length": "counts the lines of the file against max-file-length",
	"opa-fmt":     "blank lines at the top are not `opa fmt` output: the rule's verdict is about formatting",
}

// DescQuotesRows: rules whose description quotes rows of the file ("Duplicate rule found at line 5");
// those numbers are rows and must move by k like every other reported row.
var DescQuotesRows = map[string]bool{"duplicate-rule": true}

var decRE = regexp.MustCompile(`[0-9]+`)

func key(v Viol) string {
	b, _ := json.Marshal(v)
	return string(b)
}

// ShiftIssue: the k-shift relation failed for one violation (present on one side only).
type ShiftIssue struct {
	K       int    `json:"k"`
	Side    string `json:"side"` // missing-after-shift | extra-after-shift
	V       Viol   `json:"violation"`
	Nearest *Viol  `json:"nearest,omitempty"`
}

// CompareShift: report of the shifted batch must equal the original report with every row moved by k
// (multiset equality on all fields), apart from exempt rules.
func CompareShift(r0, rk *report.Report, k int) []ShiftIssue {
	cnt := map[string]int{}
	byKey := map[string]Viol{}
	for _, rv := range r0.Violations {
		v := FromReport(rv)
		if _, ex := ShiftExempt[v.Title]; ex {
			continue
		}
		if v.Row != 0 || v.HasEnd || v.HasText {
			v.Row += k
			if v.HasEnd {
				v.EndRow += k
			}
		}
		if DescQuotesRows[v.Title] {
			v.Desc = decRE.ReplaceAllStringFunc(v.Desc, func(d string) string {
				n, err := strconv.Atoi(d)
				if err != nil {
					return d
				}
				return strconv.Itoa(n + k)
			})
		}
		s := key(v)
		cnt[s]++
		byKey[s] = v
	}
	var res []ShiftIssue
	var extra []Viol
	for _, rv := range rk.Violations {
		v := FromReport(rv)
		if _, ex := ShiftExempt[v.Title]; ex {
			continue
		}
		s := key(v)
		if cnt[s] > 0 {
			cnt[s]--
		} else {
			extra = append(extra, v)
		}
	}
	var keys []string
	for s, n := range cnt {
		if n > 0 {
			keys = append(keys, s)
		}
	}
	sort.Strings(keys)
	for _, s := range keys {
		v := byKey[s]
		is := ShiftIssue{K: k, Side: "missing-after-shift", V: v}
		for i := range extra {
			if extra[i].Title == v.Title && extra[i].File == v.File {
				e := extra[i]
				is.Nearest = &e
				break
			}
		}
		res = append(res, is)
	}
	sort.Slice(extra, func(i, j int) bool { return key(extra[i]) < key(extra[j]) })
	for _, v := range extra {
		res = append(res, ShiftIssue{K: k, Side: "extra-after-shift", V: v})
	}
	return res
}

func (i LocIssue) String() string {
	return fmt.Sprintf("%s %s/%s %s:%d:%d", i.Kind, i.V.Category, i.V.Title, i.V.File, i.V.Row, i.V.Col)
}
