package corpus

import (
	"fmt"
	"strings"

	"verifharness/hutil"
)

// Grammar-generated modules and structure-preserving mutations (corpus (c)).
// Everything derives from the one PRNG handed in; modules that do not parse are dropped by the caller.

type gen struct {
	r     *hutil.Rng
	depth int
}

var idents = []string{"x", "y", "z", "foo", "bar_baz", "allow", "deny", "users", "input_x", "v1", "_tmp", "camelCase", "i", "item"}
var strs = []string{"", "a", "foo", "a=b", "regal ignore:all", "héllo wörld", "日本語テキスト", "emoji 😀 ok", "tab\\there", "quote\\\"q", "a/b/c", "%s %d", "http://x.y", " sp ", "🙂"}
var nums = []string{"0", "1", "-1", "42", "3.14", "1e3", "1E-3", "1e100", "123456789012345678901234567890", "0.000000000000000000001",
	"9223372036854775807", "9223372036854775808", "-9223372036854775809", "1e308", "1e-400", "18446744073709551616", "1.7976931348623157e308", "0.1e1", "00" /* invalid on purpose */}

// numbers beyond float64 are kept out of the random pools (they abort the run, known finding C03/transform) and
// live in a few dedicated stress modules only, so that one known defect does not mask everything else
var builtinsCalls = []string{"count(%s)", "sum(%s)", "lower(%s)", "to_number(%s)", "is_string(%s)", "sprintf(\"%%v\", [%s])", "object.get(%s, \"k\", null)", "json.marshal(%s)", "abs(%s)", "array.concat(%s, [])", "startswith(%s, \"a\")", "regex.match(\"^a\", %s)", "print(%s)", "trace(%s)"}

func (g *gen) pick(xs []string) string { return xs[g.r.Below(len(xs))] }

func (g *gen) ident() string { return g.pick(idents) }

func (g *gen) str() string {
	if g.r.Below(8) == 0 {
		return "`raw " + strings.ReplaceAll(g.pick(strs), "`", "") + "`"
	}
	return "\"" + g.pick(strs) + "\""
}

func (g *gen) scalar() string {
	switch g.r.Below(7) {
	case 0:
		return g.str()
	case 1:
		return g.pick(nums[:len(nums)-1])
	case 2:
		return g.pick([]string{"true", "false", "null"})
	case 3:
		return g.ident()
	case 4:
		return "_"
	default:
		return g.ref()
	}
}

func (g *gen) ref() string {
	base := g.pick([]string{"input", "data", g.ident(), "data.foo", "input.a"})
	n := g.r.Below(4)
	for i := 0; i < n; i++ {
		switch g.r.Below(6) {
		case 0:
			base += g.wrap("[", g.str(), "]")
		case 1:
			base += "[_]"
		case 2:
			base += g.wrap("[", g.ident(), "]")
		case 3:
			base += fmt.Sprintf("[%d]", g.r.Below(5))
		default:
			base += "." + g.ident()
		}
	}
	return base
}

func (g *gen) term() string {
	if g.depth > 4 {
		return g.scalar()
	}
	g.depth++
	defer func() { g.depth-- }()
	switch g.r.Below(16) {
	case 0:
		return g.wrap("[", g.terms(g.r.Below(4)), "]")
	case 1:
		n := g.r.Below(3)
		if n == 0 {
			return "set()"
		}
		return g.wrap("{", g.terms(n), "}")
	case 2:
		var kv []string
		for i := g.r.Below(4); i > 0; i-- {
			kv = append(kv, g.str()+":"+g.brk(" ")+g.term())
		}
		return g.wrap("{", strings.Join(kv, ","+g.brk(" ")), "}")
	case 3:
		return g.wrap("[", g.headTerm()+" |"+g.brk(" ")+g.body(1+g.r.Below(2), "; "), "]")
	case 4:
		return g.wrap("{", g.headTerm()+" |"+g.brk(" ")+g.body(1+g.r.Below(2), "; "), "}")
	case 5:
		return g.wrap("{", g.str()+": "+g.headTerm()+" | "+g.body(1, "; "), "}")
	case 6:
		return fmt.Sprintf(g.pick(builtinsCalls), g.brk("")+g.term()+g.brk(""))
	case 7:
		return g.term() + " " + g.pick([]string{"+", "-", "*", "/", "%", "|", "&"}) + " " + g.term()
	case 8:
		return "(" + g.term() + ")"
	case 9:
		// a call of a name of the ident pool: user function, rule, import or nothing at all; any arity
		return g.wrap(g.ident()+"(", g.terms(g.r.Below(4)), ")")
	default:
		return g.scalar()
	}
}

// headTerm: head of a comprehension — an infix expression there would turn `|` into the union operator
func (g *gen) headTerm() string {
	switch g.r.Below(6) {
	case 0:
		return "[" + g.scalar() + ", " + g.scalar() + "]"
	case 1:
		return "{" + g.str() + ": " + g.scalar() + "}"
	case 2:
		return fmt.Sprintf(g.pick(builtinsCalls), g.scalar())
	case 3:
		return "(" + g.term() + ")"
	default:
		return g.scalar()
	}
}

func (g *gen) terms(n int) string {
	var sb strings.Builder
	for i := 0; i < n; i++ {
		if i > 0 {
			sb.WriteString("," + g.brk(" "))
		}
		sb.WriteString(g.term())
	}
	return sb.String()
}

// brk: what stands at a token boundary inside a bracketed term — mostly `dflt`, sometimes a line break,
// sometimes a comment (which forces the line break). Comments at token boundaries are a dimension of their own
// (gen_comments.go enumerates them for fixed terms; here they meet random terms).
func (g *gen) brk(dflt string) string {
	switch g.r.Below(14) {
	case 0:
		return "\n\t\t"
	case 1:
		return " # " + g.pick([]string{"c", "first", "é", "regal ignore:all", "]", "TODO x"}) + "\n\t\t"
	}
	return dflt
}

// open / close wrap the content of a bracket pair with boundaries after the opening and before the closing one
func (g *gen) wrap(open, content, close string) string {
	return open + g.brk("") + content + g.brk("") + close
}

func (g *gen) expr() string {
	if g.depth > 5 {
		return g.scalar() + " == " + g.scalar()
	}
	g.depth++
	defer func() { g.depth-- }()
	switch g.r.Below(18) {
	case 0:
		return g.ident() + " := " + g.term()
	case 1:
		return g.term() + " == " + g.term()
	case 2:
		return g.term() + " " + g.pick([]string{"!=", "<", ">", "<=", ">=", "="}) + " " + g.term()
	case 3:
		return "not " + g.term()
	case 4:
		return "some " + g.ident() + " in " + g.term()
	case 5:
		return "some " + g.ident() + ", " + g.ident() + " in " + g.term()
	case 6:
		return "some " + g.ident() + ", " + g.ident()
	case 7:
		return "every " + g.ident() + " in " + g.term() + " { " + g.body(1+g.r.Below(2), "; ") + " }"
	case 8:
		return "every " + g.ident() + ", " + g.ident() + " in " + g.term() + " {\n\t\t" + g.body(1+g.r.Below(3), "\n\t\t") + "\n\t}"
	case 9:
		return g.term() + " in " + g.term()
	case 10:
		return g.term() + " with input as " + g.term()
	case 11:
		return g.term() + " with input.x as " + g.term() + " with data.y as " + g.term()
	case 12:
		return "[" + g.ident() + ", " + g.ident() + "] := " + g.term()
	case 13:
		return "not " + g.term() + " in " + g.term()
	case 14:
		return g.ref()
	case 15:
		// built-in called with an explicit return value: eq(a, 2, x), count(xs, n), plus(1, 2, s)
		return fmt.Sprintf(g.pick([]string{"eq(%s, %s, %s)", "neq(%s, %s, %s)", "plus(%s, %s, %s)", "gt(%s, %s, %s)", "startswith(%s, %s, %s)",
			"concat(%s, %s, %s)", "array.concat(%s, %s, %s)", "object.get(%s, \"k\", %s, %s)", "equal(%s, %s, %s)", "assign(%s, %s)%.0s"}),
			g.scalar(), g.scalar(), g.ident())
	default:
		return g.term()
	}
}

func (g *gen) body(n int, sep string) string {
	var es []string
	for i := 0; i < n; i++ {
		es = append(es, g.expr())
	}
	return strings.Join(es, sep)
}

func (g *gen) headRef() string {
	h := g.ident()
	switch g.r.Below(8) {
	case 0:
		return h + "." + g.ident()
	case 1:
		return h + "[" + g.str() + "]"
	case 2:
		return h + "." + g.ident() + "[" + g.ident() + "]"
	case 3:
		return h + "[" + g.ident() + "][" + g.ident() + "]"
	case 4:
		return h + "[" + g.ident() + "]." + g.ident() + "." + g.ident()
	}
	return h
}

func (g *gen) elseChain() string {
	var sb strings.Builder
	for i := g.r.Below(4); i > 0; i-- {
		switch g.r.Below(3) {
		case 0:
			sb.WriteString(" else := " + g.term() + " if {\n\t" + g.body(1+g.r.Below(2), "\n\t") + "\n}")
		case 1:
			sb.WriteString(" else if {\n\t" + g.body(1, "\n\t") + "\n}")
		default:
			sb.WriteString(" else := " + g.term())
			return sb.String()
		}
	}
	return sb.String()
}

func (g *gen) rule() string {
	var sb strings.Builder
	if g.r.Below(8) == 0 {
		sb.WriteString("# regal ignore:" + g.pick([]string{"line-length", "all", "prefer-snake-case,todo-comment", ""}) + "\n")
	}
	if g.r.Below(6) == 0 {
		sb.WriteString("# METADATA\n# description: " + g.pick(strs[:6]) + " x\n")
		if g.r.Bool() {
			sb.WriteString("# scope: rule\n")
		}
	}
	bodyN := 1 + g.r.Below(4)
	switch g.r.Below(14) {
	case 0:
		sb.WriteString("default " + g.ident() + " := " + g.pick([]string{"false", "0", "[]", "{}", "\"d\"", "{\"a\": [1, {2}]}"}))
	case 1:
		sb.WriteString(g.headRef() + " := " + g.term())
	case 2:
		if g.r.Bool() {
			sb.WriteString(g.ident() + " if {\n\t" + g.body(bodyN, "\n\t") + "\n}" + g.elseChain())
		} else {
			sb.WriteString(g.headRef() + " if {\n\t" + g.body(bodyN, "\n\t") + "\n}")
		}
	case 3:
		if g.r.Bool() {
			sb.WriteString(g.ident() + "." + g.ident() + " := " + g.term() + " if {\n\t" + g.body(bodyN, "\n\t") + "\n}" + g.elseChain())
		} else {
			sb.WriteString(g.headRef() + " := " + g.term() + " if {\n\t" + g.body(bodyN, "\n\t") + "\n}")
		}
	case 4:
		sb.WriteString(g.headRef() + " contains " + g.term() + " if {\n\t" + g.body(bodyN, "\n\t") + "\n}")
	case 5:
		sb.WriteString(g.ident() + "(" + g.pick([]string{"x", "_", "x, y", "_, _", "[a, b]", "{\"k\": v}", "1", "\"s\"", "x, _"}) + ") := " + g.term() + " if {\n\t" + g.body(bodyN, "\n\t") + "\n}" + g.elseChain())
	case 6:
		sb.WriteString(g.ident() + "(" + g.pick([]string{"x", "_", "x, y"}) + ") if " + g.expr())
	case 7:
		sb.WriteString(g.headRef() + " if " + g.expr())
	case 8:
		sb.WriteString(g.headRef() + " contains " + g.term())
	case 9:
		sb.WriteString("test_" + g.ident() + " if {\n\t" + g.body(bodyN, "\n\t") + "\n}")
	case 10:
		sb.WriteString("default " + g.ident() + "(_) := " + g.pick([]string{"false", "1"}))
	case 11:
		sb.WriteString(g.cmpFunction())
	default:
		sb.WriteString(g.headRef() + "[" + g.ident() + "] := " + g.term() + " if {\n\t" + g.body(bodyN, "\n\t") + "\n}")
	}
	if g.r.Below(10) == 0 {
		sb.WriteString(" # trailing comment " + g.pick(strs[:8]))
	}
	return sb.String()
}

// cmpFunction: small functions whose body or value is ONE comparison / membership between every kind of
// operand — the shape many idiomatic/* rules pattern-match on with several overlapping definitions
func (g *gen) cmpFunction() string {
	args := g.pick([]string{"x", "x, y", "o, k", "_", "x, _", "xs, x", "[a, b]", "x, 1"})
	operand := func() string {
		return g.pick([]string{"x", "y", "o", "k", "xs", "_", "1", "\"s\"", "null", "true", "1.5", "o[k]", "xs[_]", "x[_]", "o[_]", "x.y", "input.x",
			"data.p.q", "[1]", "{\"a\": 1}", "{1}", "count(x)", "x[y]", "o[\"k\"]", "y[x]", "a", "b", "input", "xs[i]"})
	}
	op := g.pick([]string{"==", "=", "!=", "in", "==", "="})
	name := g.pick([]string{"f", "g", "has_key", "contains_x", "is_" + g.ident()})
	cmp := operand() + " " + op + " " + operand()
	switch g.r.Below(7) {
	case 0:
		return name + "(" + args + ") := " + cmp
	case 1:
		return name + "(" + args + ") if " + cmp
	case 2:
		return name + "(" + args + ") if {\n\t" + cmp + "\n}"
	case 3:
		return name + "(" + args + ") = " + cmp
	case 4:
		return name + "(" + args + ") := " + operand() + " if " + cmp
	case 5:
		return name + "(" + args + ") if {\n\t" + cmp + "\n\t" + operand() + " " + op + " " + operand() + "\n}"
	default:
		return name + "(" + args + ") if " + cmp + "\n\n" + name + "(" + args + ") if " + operand() + " " + op + " " + operand()
	}
}

func (g *gen) module() string {
	var sb strings.Builder
	if g.r.Below(5) == 0 {
		sb.WriteString("# METADATA\n# title: t\n# description: d\n# authors:\n# - name: n\n# custom:\n#   k: v\n")
	}
	if g.r.Below(10) == 0 {
		sb.WriteString("# leading comment\n\n")
	}
	sb.WriteString("package " + g.pick([]string{"p", "a.b.c", "foo.bar_test", "p[\"q-r\"].s", "data_p", "regal.rules.x", "policy[\"日本\"]"}) + "\n\n")
	for i := g.r.Below(5); i > 0; i-- {
		// the pool has several imports per identifier (foo, x, baz, users): the parser accepts what the compiler refuses
		sb.WriteString("import " + g.pick([]string{"rego.v1", "data.foo", "data.foo.bar as baz", "input.x", "input as inp", "future.keywords", "future.keywords.in", "data.a[\"b c\"] as bc", "data.foo",
			"data.b.foo", "input.foo", "data.c as foo", "data.y.x", "data.baz", "input.q as baz", "data." + g.ident(), "input." + g.ident(), "data.zz as " + g.ident()}) + "\n")
	}
	sb.WriteString("\n")
	for i := 1 + g.r.Below(6); i > 0; i-- {
		sb.WriteString(g.rule() + "\n\n")
	}
	return sb.String()
}

// GenModules returns n grammar-generated module texts.
func GenModules(r *hutil.Rng, n int) []Module {
	g := &gen{r: r}
	var res []Module
	for i := 0; i < n; i++ {
		res = append(res, Module{Name: fmt.Sprintf("gen/g%05d.rego", i), Text: g.module(), Src: fmt.Sprintf("gen:grammar:%d", i)})
	}
	return res
}

// ---- fixed stress shapes ----------------------------------------------------------------------------

func nest(open, close, core string, n int) string {
	return strings.Repeat(open, n) + core + strings.Repeat(close, n)
}

// StressModules: deep nesting, huge numbers, long chains, empty things; sizes scale with `scale`.
func StressModules(scale int) []Module {
	d := 20 * scale
	var ms []string
	ms = append(ms,
		"package p\n\nx := "+nest("[", "]", "1", d)+"\n",
		"package p\n\nx := "+nest("{\"a\": ", "}", "1", d)+"\n",
		"package p\n\nx := "+nest("{", "}", "1", d)+"\n",
		"package p\n\nx := "+nest("(", ")", "1", d)+"\n",
		"package p\n\nx := "+nest("count([", "])", "1", d)+"\n",
		"package p\n\nx := "+nest("[y | y := ", "]", "1", d/2+1)+"\n",
		"package p\n\nx if {\n"+nest("every a in [1] {\n", "\n}", "a == 1", d/2+1)+"\n}\n",
		"package p\n\nx if {\n\t"+nest("not f(", ")", "1", d)+"\n}\n\nf(a) := a\n",
		"package p\n\nx := "+strings.Repeat("1 + ", d*3)+"1\n",
		"package p\n\nx := input"+strings.Repeat(".a", d*3)+"\n",
		"package p\n\nx := input"+strings.Repeat("[_]", d)+"\n",
		"package p\n\nx := 1"+strings.Repeat(" else := 2 if {\n\tinput.x\n}", d)+"\n",
		"package p\n\nx if {\n\tinput.y\n}"+strings.Repeat(" else if {\n\tinput.x\n}", d)+"\n",
		"package p\n\nx if {\n"+strings.Repeat("\tsome i in input.xs\n", d)+"}\n",
		"package p\n\nx if {\n\tinput.a"+strings.Repeat(" with input.b as 1", d)+"\n}\n",
		"package p\n\n"+strings.Repeat("import data.x\n", d)+"\nx := 1\n",
		"package p\n\n"+strings.Repeat("# c\n", d*5)+"x := 1\n",
		"package p\n\n"+strings.Repeat("r contains 1\n\n", d*2),
		"package p\n\nx := \""+strings.Repeat("é", d*50)+"\"\n",
		"package p\n\nx := `"+strings.Repeat("line\n", d)+"`\n",
		"package "+"a"+strings.Repeat(".b", d)+"\n\nx := 1\n",
		"package p\n\n"+"a"+strings.Repeat(".b", d)+" := 1\n",
		"package p\n\n"+"a"+strings.Repeat("[\"k\"]", d)+" := 1\n",
		"package p\n\nf("+strings.Repeat("_, ", d)+"_) := 1\n",
		"package p\n\nx := f("+strings.Repeat("1, ", d)+"1)\n",
		"package p\n",
		"package p\n\n",
		"package p",
		"package p # c",
		"\n\n\npackage p\n\n\n\n",
		"#\n#\npackage p\n#",
		"package p\n\nx := {}\n\ny := []\n\nz := set()\n\nw := \"\"\n\nv := ``\n",
		"package p\n\nx if {\n\ttrue\n}\n\ny if true\n\nz if {\n\t{}\n}\n",
		"package p\r\n\r\nx := 1\r\n",
		"package p\r\n\r\nx if {\r\n\tinput.a == \"é\"\r\n\t# c\r\n}\r\n",
		"package p\n\nx := 1\r\n\r\ny := 2\n",
		"package p\n\nx := `a\r\nb`\n",
		"\ufeffpackage p\n\nx := 1\n",
		"package p\n\nx := 1 # \t tab\n\t\ty := 2\n",
		"package p\n\nx := "+strings.Repeat("9", 300)+"\n",
		"package p\n\nx := 0."+strings.Repeat("0", d*20)+"1\n",
		"package p\n\nx := -0\n\ny := -0.0\n\nz := 0e0\n",
		"package p\n\nx := {1e308, 1e-400, 1E-400}\n",
		"package p\n\nx[2e308] := 1\n",
		"package p\n\nimport rego.v1\n\nx := 1\n",
		"package p\n\nimport future.keywords.if\nimport future.keywords.contains\n\nx contains 1 if true\n",
		"package p\n\nx { true }\n",
		"package p\n\nx[y] { y := 1 }\n\nz[a] = b { a := 1; b := 2 }\n",
		"package p\n\nx = 1 { true } else = 2 { true } else { false }\n",
		"package p\n\nimport rego.v1\n\nx[y] { y := 1 }\n",
		"package p\n\na.b.c.d := 1\n\na.b[x].d contains y if {\n\tsome x, y in input\n}\n\na[x][y][z] := 1 if {\n\tsome x, y, z\n\tinput[x][y][z]\n}\n",
		"package p\n\np[\"a b\"].c := 1\n\np[1] := 2\n\np[true] := 3\n\np[null] := 4\n\np[[1]] := 5\n",
		"package p\n\nf(x) := y if {\n\ty := x\n} else := z if {\n\tz := 1\n} else := 3\n\nf(1) := 2\n\nf(\"a\") := 3\n\nf([x, y]) := x\n\nf({\"a\": x}) := x\n",
		"package p\n\nallow if {\n\tevery x in input.xs {\n\t\tevery y in x {\n\t\t\tsome z in y\n\t\t\tz == 1\n\t\t}\n\t}\n}\n",
		"package p\n\nallow if every x in input.xs { x }\n\nallow if some x in input.xs\n\nallow if not input.y\n",
		"package p\n\nallow if {\n\tsome x\n\tsome y, z\n\tsome a in input\n\tsome b, c in input\n\tsome [d, e] in input\n\tsome {\"k\": f} in input\n\tsome g, [h, i] in input\n\tsome 1 in input\n\tsome \"k\", \"v\" in input\n}\n",
		"package p\n\nx := 1 if {\n\tinput.a\n} else := 2 if {\n\tinput.b\n} else := 3 if {\n\tinput.c\n} else := 4\n",
		"package p\n\n# METADATA\n# title: x\n# description: y\n# related_resources:\n# - ref: https://example.com\n# - https://example.org\n# authors:\n# - a <b@c.d>\n# organizations:\n# - o\n# schemas:\n# - input: schema.x\n# - data.y: {type: string}\n# entrypoint: true\n# custom:\n#   a: {b: [1, 2.5, null]}\nx := 1\n",
		"# METADATA\n# scope: subpackages\n# title: t\npackage p\n\n# METADATA\n# scope: document\n# description: d\n\n# METADATA\n# scope: rule\nx := 1\n",
		"package p\n\n# regal ignore:all\nx := 1 # regal ignore:foo,bar ,baz\n# regal ignore:\n#regal ignore:x regal ignore:y\ny := 2\n",
		"package p\n\n# TODO: x\n# todo\n# FIXME 日本語\nx := 1\n",
		"package p\n\nx := input[\"ключ\"][\"日本\"].ok\n\ny := {\"ключ\": \"значение\", \"😀\": \"🙂\"}\n\n# комментарий 😀\nz := \"\\u00e9\\n\\t\\\\\"\n",
		"package p\n\nx := \"é\" == \"é\"\n\ny if \"日本\" in {\"日本\"}\n\nz := sprintf(\"%s😀\", [\"é\"])\t# 😀\n",
		"package p\n\ntest_a if {\n\ttrue\n}\n\ntest_b if {\n\tnot false with input as {}\n}\n\ntodo_test_c if {\n\tfalse\n}\n",
		"package p_test\n\nimport data.p\n\ntest_x if p.x with input as {\"a\": 1} with data.y as 2\n",
		"package p\n\nx := [a |\n\tsome a in input\n\ta > 1\n]\n\ny := {a: b |\n\tsome a, b in input\n}\n\nz := {a |\n\tsome a in input\n}\n",
		"package p\n\nx := {\n\t\"a\": 1,\n\t\"b\": [\n\t\t1,\n\t\t2,\n\t],\n\t\"c\": {\n\t\t\"d\": {1, 2},\n\t},\n}\n",
		"package p\n\nx := f(\n\t1,\n\t2,\n)\n\nf(\n\ta,\n\tb\n) := a + b\n",
		"package p\n\nallow if {\n\tinput.a ==\n\t\tinput.b\n\tinput.c in\n\t\tinput.d\n}\n",
		"package p\n\nx := 1 + 2 * 3 - 4 / 5 % 6\n\ny := {1} | {2} & {3} - {4}\n\nz if 1 < 2\n\nw if {\n\t1 < 2\n\t2 > 1\n\t1 <= 1\n\t1 >= 1\n\t1 != 2\n\t1 = 1\n}\n",
		"package p\n\nx := data.p.x\n\ny := data.p\n\nz := data\n\nw := input\n",
		"package p\n\nimport data.p.x\n\nx := 1\n\nimport data.q\n",
		"package p\n\nprint := 1\n\ncount(x) := 2\n\ninput := 3\n",
		"package p\n\nx if {\n\tprint(\"a\")\n\ttrace(\"b\")\n\thttp.send({})\n\topa.runtime()\n\trand.intn(\"a\", 2)\n\ttime.now_ns()\n}\n",
		"package p\n\nx := any([true])\n\ny := all([true])\n\nz := re_match(\"a\", \"a\")\n\nw := cast_array([])\n",
		"package p\n\nevery_thing if every x in input.xs { x }\n\nsome_thing if some x in input.xs\n\nnot_thing if not input.x\n\nwith_thing if input.x with input as {}\n",
		"package system.authz\n\ndefault allow := false\n\nallow if input.identity == \"admin\"\n",
		"package main\n\nmain := 1\n\ndeny contains msg if {\n\tmsg := \"x\"\n}\n\nviolation contains {\"msg\": msg} if msg := \"y\"\n",
	)
	var res []Module
	for i, t := range ms {
		res = append(res, Module{Name: fmt.Sprintf("stress/s%03d.rego", i), Text: t, Src: fmt.Sprintf("gen:stress:%d", i)})
	}
	return res
}

// ---- mutations of existing modules --------------------------------------------------------------------

var mutKinds = []string{"crlf", "unicode-strings", "unicode-comments", "huge-numbers", "tabs", "trailing-ws", "no-final-newline",
	"blank-lines", "dup-rules", "comment-each-line", "ignore-directives", "long-lines", "cr-only-tail",
	// parseable-but-not-compilable (gen_invalid.go) and comment placement (gen_comments.go); the latter twice: it is
	// the one mutation that reaches every bracketed term of the real-world modules
	"shadow-imports", "dup-heads", "uncompilable-body", "comments-at-boundaries", "comments-at-boundaries",
	// Rego source kept as data / documentation inside the module (gen_quoted.go); the rest of a row moved to the next
	// row at operators and keywords (gen_breaks.go), twice: it reaches every head and expression of the real-world modules
	"quote-rego-source", "break-lines", "break-lines"}

func mutate(r *hutil.Rng, kind, t string) string {
	switch kind {
	case "crlf":
		return strings.ReplaceAll(strings.ReplaceAll(t, "\r\n", "\n"), "\n", "\r\n")
	case "unicode-strings":
		// put non-ASCII text into (some) double-quoted string literals that have simple content
		var sb strings.Builder
		in := false
		for i := 0; i < len(t); i++ {
			c := t[i]
			if c == '"' && (i == 0 || t[i-1] != '\\') {
				in = !in
				sb.WriteByte(c)
				if in && r.Below(2) == 0 {
					sb.WriteString(Pick(r, []string{"é", "日本", "😀", "ß", "‮"}))
				}
				continue
			}
			if c == '\n' {
				in = false
			}
			sb.WriteByte(c)
		}
		return sb.String()
	case "unicode-comments":
		ls := strings.Split(t, "\n")
		for i := range ls {
			if r.Below(4) == 0 && !strings.Contains(ls[i], "`") && strings.Count(ls[i], "\"")%2 == 0 {
				ls[i] += " # " + Pick(r, []string{"é", "日本語", "😀😀", "комментарий", "TODO é"})
			}
		}
		return strings.Join(ls, "\n")
	case "huge-numbers":
		var sb strings.Builder
		for i := 0; i < len(t); i++ {
			c := t[i]
			prevOK := i == 0 || strings.ContainsRune(" \t[({,:=+-*/<>|&", rune(t[i-1]))
			if c >= '1' && c <= '9' && prevOK && (i+1 == len(t) || strings.ContainsRune(" \t\n])},;", rune(t[i+1]))) && r.Below(2) == 0 {
				sb.WriteString(Pick(r, []string{"123456789012345678901234567890", "1e308", "9223372036854775808", "1e-400", "0.000000000000000000000000001", "18446744073709551616"}))
				continue
			}
			sb.WriteByte(c)
		}
		return sb.String()
	case "tabs":
		return strings.ReplaceAll(t, "  ", "\t")
	case "trailing-ws":
		ls := strings.Split(t, "\n")
		for i := range ls {
			if r.Below(3) == 0 && !strings.Contains(ls[i], "`") {
				ls[i] += Pick(r, []string{" ", "\t", "   ", " \t "})
			}
		}
		return strings.Join(ls, "\n")
	case "no-final-newline":
		return strings.TrimRight(t, "\r\n")
	case "blank-lines":
		ls := strings.Split(t, "\n")
		var out []string
		for _, l := range ls {
			out = append(out, l)
			if r.Below(5) == 0 && !strings.Contains(t, "`") {
				out = append(out, "")
			}
		}
		return strings.Join(out, "\n")
	case "dup-rules":
		// append a copy of everything after the imports: duplicate rules / else chains stay valid Rego
		idx := strings.Index(t, "\n\n")
		if idx < 0 {
			return t
		}
		return t + "\n" + t[idx:]
	case "comment-each-line":
		ls := strings.Split(t, "\n")
		var out []string
		for _, l := range ls {
			if !strings.Contains(t, "`") && r.Below(3) == 0 {
				out = append(out, "# c "+Pick(r, []string{"x", "regal ignore:all", "METADATA", "TODO"}))
			}
			out = append(out, l)
		}
		return strings.Join(out, "\n")
	case "ignore-directives":
		ls := strings.Split(t, "\n")
		for i := range ls {
			if r.Below(4) == 0 && !strings.Contains(t, "`") && strings.Count(ls[i], "\"")%2 == 0 && !strings.HasPrefix(strings.TrimSpace(ls[i]), "#") {
				ls[i] += " # regal ignore:" + Pick(r, []string{"all", "line-length", "opa-fmt,use-assignment-operator", "", "x y"})
			}
		}
		return strings.Join(ls, "\n")
	case "long-lines":
		return strings.ReplaceAll(t, "input", "input"+strings.Repeat(".aaaaaaaaaa", 15))
	case "cr-only-tail":
		return t + "\r\n\r\n"
	case "shadow-imports":
		return mutateShadowImports(r, t)
	case "dup-heads":
		return mutateDupHeads(r, t)
	case "uncompilable-body":
		return mutateUncompilableBody(r, t)
	case "comments-at-boundaries":
		return mutateCommentsAtBoundaries(r, t)
	case "quote-rego-source":
		return mutateQuoteRegoSource(r, t)
	case "break-lines":
		return mutateBreakLines(r, t)
	}
	return t
}

func Pick(r *hutil.Rng, xs []string) string { return xs[r.Below(len(xs))] }

// Mutations applies one random mutation kind to each of n modules drawn from base.
func Mutations(r *hutil.Rng, base []Module, n int) []Module {
	var res []Module
	if len(base) == 0 {
		return res
	}
	for i := 0; i < n; i++ {
		b := base[r.Below(len(base))]
		k := mutKinds[r.Below(len(mutKinds))]
		t := mutate(r, k, b.Text)
		if t == b.Text {
			continue
		}
		res = append(res, Module{Name: fmt.Sprintf("mut/x%05d.rego", i), Text: t, Src: "mut:" + k + ":" + b.Src})
	}
	return res
}
