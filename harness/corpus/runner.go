package corpus

import (
	"bufio"
	"encoding/json"
	"fmt"
	"os"
	"os/exec"
	"path/filepath"
	"runtime"
	"sort"
	"strings"
	"sync"
	"time"

	"verifharness/hutil"
)

// Master/worker runner. Linting happens in a worker process (the same executable started with
// "worker <job> <out>"), because a panic in one of the linter's per-file goroutines cannot be recovered
// in-process and a hang must be killable. The worker writes one line when it starts a batch and one when
// it finishes it; the master restarts it after a crash / watchdog kill and re-queues the batch that was
// in flight as single-module batches.

// BatchOpt: how a batch is linted, when not "once, every rule enabled".
type BatchOpt struct {
	// Large: a LARGE single-call run (>= 1000 small files in ONE Lint call): what only shows with many per-file
	// goroutines in one call (unsynchronised writes to the shared report, pools, chunking). Processed before everything
	// else, alone in its worker process; a crash is narrowed by halving, never re-queued module by module.
	Large bool `json:"large,omitempty"`
	// RuleSets: after the call with every rule enabled, one Lint call per entry with exactly these rules enabled
	// ("any subset of rules"; few rules = short evaluations = the per-file goroutines finish together)
	RuleSets [][]string `json:"rule_sets,omitempty"`
	NoAll    bool       `json:"no_all,omitempty"` // skip the call with every rule enabled (the modules get that in their ordinary batches)
	Rounds   int        `json:"rounds,omitempty"` // the whole sequence is repeated this many times (>= 1)
	// Shifts (C07): the k values for this batch instead of the job's (quick tier: families of many tiny modules whose point
	// is the bounds check of the unshifted text get one shift instead of four)
	Shifts []int `json:"shifts,omitempty"`
	// Modes (C07, round 3): the batch is additionally linted through every way a module reaches the linter (modes.go):
	// files on disk (a directory argument and InputFromPaths), InputFromMap, InputFromText and stdin ("-", a process of
	// its own whose standard input is the module), for k = 0 and every shift; the reports must agree with each other
	// and every one of them must lie inside the text that was provided. Stdin: this many modules of the batch.
	Modes      bool `json:"modes,omitempty"`
	ModesStdin int  `json:"modes_stdin,omitempty"`
	ModesKs    int  `json:"modes_ks,omitempty"` // how many of the shifts (besides k = 0) the disk / map modes take, rotating with the batch (0 = all)
	// Disk (C03, round 3): the modules are written to a tree on disk, one directory per entry of Roots (module names
	// start with the root), each root configured with its Rego version (0 / 1); the tree is read with
	// rules.InputFromPaths DiskRounds times and linted through WithInputPaths (disk.go)
	Disk       bool           `json:"disk,omitempty"`
	Roots      map[string]int `json:"roots,omitempty"`
	DiskRounds int            `json:"disk_rounds,omitempty"`
}

type Job struct {
	Batches [][]Module `json:"batches"`
	Opts    []BatchOpt `json:"opts,omitempty"` // parallel to Batches (missing = zero value)
	Shifts  []int      `json:"shifts"`         // C07: k values; empty for C03
	Locate  bool       `json:"locate"`         // C07: check bounds/text
	Timeout int        `json:"timeout"`        // seconds per Lint call
	Detail  int        `json:"detail"`         // max issues of one kind+rule reported in full per batch
	Par     int        `json:"par"`            // batches processed concurrently inside the worker
	Todo    []int      `json:"todo"`           // indices of the batches this worker run has to process
	noShift bool
}

func (j *Job) opt(i int) BatchOpt {
	if i >= 0 && i < len(j.Opts) {
		return j.Opts[i]
	}
	return BatchOpt{}
}

type BatchResult struct {
	Batch       int            `json:"batch"`
	Start       bool           `json:"start,omitempty"`
	N           int            `json:"n"`
	Unparsed    []string       `json:"unparsed,omitempty"` // srcs outside the domain
	Oracle      map[string]int `json:"oracle,omitempty"`   // linted modules by the Rego version they were parsed as
	Millis      int64          `json:"ms"`
	Lints       int            `json:"lints"`
	Failures    []Failure      `json:"failures,omitempty"`
	Violations  int            `json:"violations"`
	ByRule      map[string]int `json:"by_rule,omitempty"`
	Located     int            `json:"located"` // violations with a position that were checked
	TextChecked int            `json:"text_checked"`
	EndPastLine int            `json:"end_past_line"`
	AggTextDiff int            `json:"agg_text_diff"`
	LocIssues   []LocFinding   `json:"loc_issues,omitempty"`
	ShiftIssues []ShiftFinding `json:"shift_issues,omitempty"`
	ShiftPairs  int            `json:"shift_pairs"` // (violation, k) pairs compared
	ShiftSkips  []string       `json:"shift_skips,omitempty"`
	ModeIssues  []ModeFinding  `json:"mode_issues,omitempty"`
	ModePairs   map[string]int `json:"mode_pairs,omitempty"` // input mode -> (module, k) pairs linted through it
	DiskRounds  int            `json:"disk_rounds,omitempty"`
	Crash       string         `json:"crash,omitempty"` // filled by the master
	Large       bool           `json:"large,omitempty"` // a large single-call run (its modules are partly those of ordinary batches)
}

type LocFinding struct {
	Issue  LocIssue `json:"issue"`
	Module Module   `json:"module"`
}

type ShiftFinding struct {
	Issue  ShiftIssue `json:"issue"`
	Module Module     `json:"module"`
}

// RunWorker processes the batches listed in job.Todo, `Par` of them concurrently; results go to out
// (JSON lines: one "start" line and one result line per batch, synced).
func RunWorker(jobPath, outPath string) {
	bs, err := os.ReadFile(jobPath)
	if err != nil {
		panic(err)
	}
	var job Job
	if err := json.Unmarshal(bs, &job); err != nil {
		panic(err)
	}
	f, err := os.OpenFile(outPath, os.O_APPEND|os.O_CREATE|os.O_WRONLY, 0o644)
	if err != nil {
		panic(err)
	}
	defer f.Close()
	workDir = filepath.Dir(outPath)
	selfExe = os.Args[0]
	var mu sync.Mutex
	emit := func(r BatchResult) {
		b, _ := json.Marshal(r)
		mu.Lock()
		defer mu.Unlock()
		f.Write(append(b, '\n'))
		f.Sync()
	}
	par := job.Par
	if par < 1 {
		par = 1
	}
	ch := make(chan int)
	var wg sync.WaitGroup
	for w := 0; w < par; w++ {
		wg.Add(1)
		go func() {
			defer wg.Done()
			for i := range ch {
				emit(BatchResult{Batch: i, Start: true, N: len(job.Batches[i])})
				emit(runBatch(i, job.Batches[i], &job))
			}
		}()
	}
	for _, i := range job.Todo {
		ch <- i
	}
	close(ch)
	wg.Wait()
}

var (
	minimised    = map[string]bool{}
	minimisedMu  sync.Mutex
	bisectBudget = 12 // per worker process
)

func findTimeouts(mods []Parsed, timeout time.Duration) []Failure {
	var mu sync.Mutex
	var res []Failure
	sem := make(chan struct{}, 16)
	var wg sync.WaitGroup
	for _, p := range mods {
		wg.Add(1)
		sem <- struct{}{}
		go func(p Parsed) {
			defer wg.Done()
			defer func() { <-sem }()
			o := LintBatch([]Parsed{p}, timeout)
			if o.Err != "" {
				k := FailureKey(o.Err)
				if o.Timeout {
					k = "timeout: linting one module exceeds the per-call limit"
				}
				mu.Lock()
				res = append(res, Failure{Key: k, Modules: []Module{p.Module}, Err: o.Err, Timeout: o.Timeout})
				mu.Unlock()
			}
		}(p)
	}
	wg.Wait()
	sort.Slice(res, func(i, j int) bool { return res[i].Modules[0].Name < res[j].Modules[0].Name })
	return res
}

func takeBisectBudget() bool {
	minimisedMu.Lock()
	defer minimisedMu.Unlock()
	if bisectBudget <= 0 {
		return false
	}
	bisectBudget--
	return true
}

func runBatch(idx int, mods []Module, job *Job) BatchResult {
	if o := job.opt(idx); len(o.Shifts) > 0 && job.Locate && len(job.Shifts) > 0 {
		j := *job
		j.Shifts = o.Shifts
		job = &j
	}
	res := BatchResult{Batch: idx, N: len(mods), ByRule: map[string]int{}}
	t0 := time.Now()
	timeout := time.Duration(job.Timeout) * time.Second
	var parsed []Parsed
	if !job.noShift {
		res.Oracle = map[string]int{}
	}
	for _, m := range mods {
		p, ok, which, rejected := ParseChecked(m)
		if res.Oracle != nil && ok {
			res.Oracle[which]++
		}
		switch {
		case ok:
			parsed = append(parsed, p)
		case rejected != nil:
			// in the domain (OPA's parser accepts it) and regal cannot even parse it: the run is lost for every file
			minimisedMu.Lock()
			first := !minimised[rejected.Key]
			minimised[rejected.Key] = true
			minimisedMu.Unlock()
			if first {
				key := rejected.Key
				rejected.Modules[0] = MinimiseRaw(m, func(mm Module) bool {
					_, o, _, rj := ParseChecked(mm)
					return !o && rj != nil && rj.Key == key
				}, 120)
				if _, _, _, rj := ParseChecked(rejected.Modules[0]); rj != nil {
					rejected.Err = rj.Err
				}
			}
			res.Failures = append(res.Failures, *rejected)
		default:
			res.Unparsed = append(res.Unparsed, m.Src)
		}
	}
	if opt := job.opt(idx); opt.Disk {
		res = BatchResult{Batch: idx, N: len(mods), ByRule: map[string]int{}, Large: opt.Large}
		runDisk(&res, idx, mods, opt, timeout)
		res.Millis = time.Since(t0).Milliseconds()
		return res
	}
	if opt := job.opt(idx); opt.Large || len(opt.RuleSets) > 0 {
		runLarge(&res, parsed, opt, timeout)
		res.Large = opt.Large
		res.Millis = time.Since(t0).Milliseconds()
		return res
	}
	// modules whose shifted text does not parse (a byte-order mark must stay first) are outside the domain
	// of the shift relation: they are linted and bounds-checked in a batch of their own, without shifts
	if job.Locate && len(job.Shifts) > 0 && !job.noShift {
		var keep, apart []Module
		for _, p := range parsed {
			ok := true
			for _, k := range job.Shifts {
				if _, o := Shift(p, k); !o {
					ok = false
					break
				}
			}
			if ok {
				keep = append(keep, p.Module)
			} else {
				apart = append(apart, p.Module)
			}
		}
		if len(apart) > 0 {
			j2 := *job
			j2.noShift = true
			r1 := runBatch(idx, keep, job)
			j2.Shifts = nil
			r2 := runBatch(idx, apart, &j2)
			for _, m := range apart {
				r1.ShiftSkips = append(r1.ShiftSkips, m.Src+": text with blank lines on top does not parse")
			}
			r1.N += r2.N
			r1.Lints += r2.Lints
			r1.Failures = append(r1.Failures, r2.Failures...)
			r1.Violations += r2.Violations
			r1.Located += r2.Located
			r1.TextChecked += r2.TextChecked
			r1.EndPastLine += r2.EndPastLine
			r1.AggTextDiff += r2.AggTextDiff
			r1.LocIssues = append(r1.LocIssues, r2.LocIssues...)
			r1.Unparsed = append(r1.Unparsed, res.Unparsed...)
			r1.Failures = append(r1.Failures, res.Failures...)
			r1.Oracle = res.Oracle
			r1.Millis = time.Since(t0).Milliseconds()
			return r1
		}
	}
	// ---- C03: lint; on error find the culprit(s), drop them, lint the rest
	var out Outcome
	for len(parsed) > 0 {
		out = LintBatch(parsed, timeout)
		res.Lints++
		if out.Err == "" {
			break
		}
		if out.Timeout {
			// bisecting a hang costs one full time limit per step: lint every module on its own instead,
			// 16 at a time (the healthy ones finish in well under a second)
			culprits := findTimeouts(parsed, timeout)
			res.Lints += len(parsed)
			bad := map[string]bool{}
			for _, c := range culprits {
				res.Failures = append(res.Failures, c)
				for _, m := range c.Modules {
					bad[m.Name] = true
				}
			}
			if len(culprits) == 0 {
				fl := Failure{Key: "timeout: batch exceeded the per-call limit, no single module does", Err: out.Err, Timeout: true}
				for _, p := range parsed {
					fl.Modules = append(fl.Modules, p.Module)
				}
				res.Failures = append(res.Failures, fl)
				parsed = nil
				out = Outcome{}
				break
			}
			var rest []Parsed
			for _, p := range parsed {
				if !bad[p.Name] {
					rest = append(rest, p)
				}
			}
			parsed = rest
			continue
		}
		// when a change breaks linting wholesale, bisecting every batch would take hours: after a few
		// culprits with minimised witnesses the remaining failing batches are recorded as they are
		if !takeBisectBudget() {
			fl := Failure{Key: FailureKey(out.Err), Err: out.Err + " (batch not bisected: too many failures in this run)", Timeout: out.Timeout}
			for _, p := range parsed {
				fl.Modules = append(fl.Modules, p.Module)
			}
			res.Failures = append(res.Failures, fl)
			parsed = nil
			out = Outcome{}
			break
		}
		fl := Bisect(parsed, timeout)
		res.Lints += 8
		if len(fl.Modules) == 0 { // not reproducible on its own
			fl = Failure{Key: "flaky: " + FailureKey(out.Err), Err: out.Err + " (not reproducible when re-run)", Timeout: out.Timeout}
			for _, p := range parsed {
				fl.Modules = append(fl.Modules, p.Module)
			}
			res.Failures = append(res.Failures, fl)
			parsed = nil
			break
		}
		fl.Key = FailureKey(fl.Err)
		minimisedMu.Lock()
		first := !minimised[fl.Key]
		minimised[fl.Key] = true // one minimised witness per failure signature and worker is enough
		minimisedMu.Unlock()
		if len(fl.Modules) == 1 && first {
			key := fl.Key
			fl.Modules[0] = MinimiseText(fl.Modules[0], func(p Parsed) bool {
				o := LintBatch([]Parsed{p}, timeout)
				return o.Err != "" && FailureKey(o.Err) == key
			}, 80)
		}
		res.Failures = append(res.Failures, fl)
		bad := map[string]bool{}
		for _, m := range fl.Modules {
			bad[m.Name] = true
		}
		var rest []Parsed
		for _, p := range parsed {
			if !bad[p.Name] {
				rest = append(rest, p)
			}
		}
		parsed = rest
	}
	if out.Report != nil {
		res.Violations = len(out.Report.Violations)
		for _, v := range out.Report.Violations {
			res.ByRule[v.Category+"/"+v.Title]++
		}
	}
	// ---- C07
	if out.Report != nil && job.Locate {
		files := map[string][]string{}
		byName := map[string]Module{}
		for _, p := range parsed {
			files[p.Name] = Lines(p.Text)
			byName[p.Name] = p.Module
		}
		seen := map[string]int{}
		for _, v := range out.Report.Violations {
			if v.Location.Row != 0 {
				res.Located++
				if v.Location.Text != nil && !v.IsAggregate {
					res.TextChecked++
				}
			}
		}
		for _, is := range CheckLocations(out.Report, files) {
			switch {
			case is.Kind == "end-outside":
				res.EndPastLine++ // not part of the property statement (see notes/C07.md); counted
				continue
			case is.Kind == "text-mismatch" && is.V.Agg:
				res.AggTextDiff++ // the statement restricts text equality to single-file rules; counted
				continue
			}
			k := is.Kind + "|" + is.V.Title
			seen[k]++
			if seen[k] <= job.Detail {
				res.LocIssues = append(res.LocIssues, LocFinding{Issue: is, Module: byName[is.V.File]})
			}
		}
		for _, k := range job.Shifts {
			var sb []Parsed
			for _, p := range parsed {
				sp, _ := Shift(p, k) // parses: checked before the base lint
				sb = append(sb, sp)
			}
			ok := LintBatch(sb, timeout)
			res.Lints++
			if ok.Err != "" {
				fl := Bisect(sb, timeout)
				fl.Key = "shifted: " + FailureKey(fl.Err)
				fl.Err = fmt.Sprintf("after inserting %d blank lines: %s", k, fl.Err)
				res.Failures = append(res.Failures, fl)
				continue
			}
			res.ShiftPairs += len(out.Report.Violations)
			for _, is := range CompareShift(out.Report, ok.Report, k) {
				kk := fmt.Sprintf("shift|%s|%d", is.V.Title, k)
				seen[kk]++
				if seen[kk] <= job.Detail {
					res.ShiftIssues = append(res.ShiftIssues, ShiftFinding{Issue: is, Module: byName[is.V.File]})
				}
			}
		}
	}
	if opt := job.opt(idx); opt.Modes && out.Report != nil && job.Locate {
		runModes(&res, idx, parsed, out.Report, job.Shifts, opt, timeout, job.Detail)
	}
	res.Millis = time.Since(t0).Milliseconds()
	return res
}

// runLarge: the rounds of a large single-call run. Every call must return a report that covers every file.
func runLarge(res *BatchResult, parsed []Parsed, opt BatchOpt, timeout time.Duration) {
	rounds := opt.Rounds
	if rounds < 1 {
		rounds = 1
	}
	sets := append([][]string{nil}, opt.RuleSets...)
	if opt.NoAll && len(opt.RuleSets) > 0 {
		sets = opt.RuleSets
	}
	for round := 0; round < rounds && len(parsed) > 0; round++ {
		for _, rs := range sets {
			if len(parsed) == 0 {
				break
			}
			rs := rs
			lint := func(ms []Parsed) Outcome { return LintBatchRules(ms, timeout, rs) }
			out := lint(parsed)
			res.Lints++
			if out.Err == "" {
				if out.Report.Summary.FilesScanned != len(parsed) {
					fl := Failure{Key: "large run: the report does not cover every file", Opt: &BatchOpt{Large: true, RuleSets: [][]string{rs}, NoAll: rs != nil},
						Err: fmt.Sprintf("files_scanned=%d for %d files in one Lint call (rules: %v)", out.Report.Summary.FilesScanned, len(parsed), rs)}
					for _, p := range parsed {
						fl.Modules = append(fl.Modules, p.Module)
					}
					res.Failures = append(res.Failures, fl)
				}
				if rs == nil && round == 0 {
					res.Violations = len(out.Report.Violations)
					for _, v := range out.Report.Violations {
						res.ByRule[v.Category+"/"+v.Title]++
					}
				}
				continue
			}
			fl := Failure{Key: FailureKey(out.Err), Err: out.Err, Timeout: out.Timeout}
			if !out.Timeout && takeBisectBudget() {
				if b := BisectWith(parsed, lint); len(b.Modules) > 0 {
					fl = b
					fl.Key = FailureKey(fl.Err)
				}
				res.Lints += 8
			}
			if len(fl.Modules) == 0 {
				for _, p := range parsed {
					fl.Modules = append(fl.Modules, p.Module)
				}
			}
			fl.Opt = &BatchOpt{Large: len(fl.Modules) > 200, RuleSets: [][]string{rs}, NoAll: true}
			if rs == nil {
				fl.Opt.RuleSets, fl.Opt.NoAll = nil, false
			}
			res.Failures = append(res.Failures, fl)
			bad := map[string]bool{}
			for _, m := range fl.Modules {
				bad[m.Name] = true
			}
			var rest []Parsed
			for _, p := range parsed {
				if !bad[p.Name] {
					rest = append(rest, p)
				}
			}
			parsed = rest
		}
	}
}

// RunMaster runs the job in worker subprocesses and returns one result per batch (batches re-queued after a
// crash are appended as single-module batches). The large single-call batches are run by a master of their own,
// next to the one for the ordinary batches: each large batch has a worker process to itself, and the machine is
// busy while it runs, as it is when a project of that size is linted.
func RunMaster(self, tmp string, job *Job, watchdog time.Duration) []BatchResult {
	var li, ri []int
	for i := range job.Batches {
		if job.opt(i).Large {
			li = append(li, i)
		} else {
			ri = append(ri, i)
		}
	}
	if len(li) == 0 || len(ri) == 0 {
		return runMaster(self, tmp, job, watchdog)
	}
	sub := func(idx []int, dir string) (*Job, string) {
		j := *job
		j.Batches, j.Opts = nil, nil
		for _, i := range idx {
			j.Batches = append(j.Batches, job.Batches[i])
			j.Opts = append(j.Opts, job.opt(i))
		}
		d := filepath.Join(tmp, dir)
		if err := os.MkdirAll(d, 0o755); err != nil {
			panic(err)
		}
		return &j, d
	}
	jl, dl := sub(li, "large")
	jr, dr := sub(ri, "ordinary")
	var rl, rr []BatchResult
	var wg sync.WaitGroup
	wg.Add(2)
	go func() { defer wg.Done(); rl = runMaster(self, dl, jl, watchdog) }()
	go func() { defer wg.Done(); rr = runMaster(self, dr, jr, watchdog) }()
	wg.Wait()
	res := append(rr, rl...)
	for i := range res {
		res[i].Batch = i
	}
	return res
}

func runMaster(self, tmp string, job *Job, watchdog time.Duration) []BatchResult {
	results := map[int]BatchResult{}
	crashFailures := 0
	nOriginal := len(job.Batches)
	todo := make([]int, len(job.Batches))
	for i := range todo {
		todo[i] = i
	}
	round := 0
	for len(todo) > 0 {
		round++
		if crashFailures >= 6 || round > 400 {
			// the code under test crashes wholesale: enough witnesses, the remaining batches are not run
			for _, i := range todo {
				results[i] = BatchResult{Batch: i, N: 0, Crash: "not run: too many worker crashes in this run"}
			}
			break
		}
		jp := filepath.Join(tmp, fmt.Sprintf("job_%d.json", round))
		op := filepath.Join(tmp, fmt.Sprintf("out_%d.jsonl", round))
		job.Todo = todo
		savedPar := job.Par
		for _, i := range todo {
			if job.opt(i).Large {
				// a large single-call run has a worker process to itself: whatever dies, dies because of it
				job.Todo, job.Par = []int{i}, 1
				break
			}
		}
		jb, _ := json.Marshal(job)
		job.Par = savedPar
		if err := os.WriteFile(jp, jb, 0o644); err != nil {
			panic(err)
		}
		cmd := exec.Command(self, "worker", jp, op)
		cmd.Env = workerEnv()
		var tail tailBuf
		cmd.Stdout = &tail
		cmd.Stderr = &tail
		if err := cmd.Start(); err != nil {
			panic(err)
		}
		done := make(chan error, 1)
		go func() { done <- cmd.Wait() }()
		killed := false
		lastSize := int64(-1)
		lastChange := time.Now()
		tick := time.NewTicker(300 * time.Millisecond)
	wait:
		for {
			select {
			case <-done:
				break wait
			case <-tick.C:
				if st, err := os.Stat(op); err == nil && st.Size() != lastSize {
					lastSize, lastChange = st.Size(), time.Now()
				}
				if time.Since(lastChange) > watchdog {
					killed = true
					cmd.Process.Kill()
					<-done
					break wait
				}
			}
		}
		tick.Stop()
		inflight := map[int]bool{}
		progressed := false
		if f, err := os.Open(op); err == nil {
			sc := bufio.NewScanner(f)
			sc.Buffer(make([]byte, 1<<20), 1<<28)
			for sc.Scan() {
				var r BatchResult
				if json.Unmarshal(sc.Bytes(), &r) != nil {
					continue
				}
				progressed = true
				if r.Start {
					inflight[r.Batch] = true
				} else {
					results[r.Batch] = r
					delete(inflight, r.Batch)
				}
			}
			f.Close()
		}
		if !progressed {
			panic("worker failed to start: " + tail.String())
		}
		why := "worker crashed: " + tail.String()
		if killed {
			why = fmt.Sprintf("worker made no progress for %s and was killed (hang)", watchdog)
		}
		var inf []int
		for i := range inflight {
			inf = append(inf, i)
		}
		sort.Ints(inf)
		onlyLarge := len(inf) > 0
		if key := FailureKey(why); !killed && len(inf) > 0 && isConcurrencyCrash(key) {
			// concurrent map writes, a race report, a broken lock: the signature says that goroutines of ONE Lint call collided.
			// No single module is the culprit, so nothing is re-queued module by module (every module alone would pass, after
			// hundreds of single-module calls): the batches in flight are the witnesses, the smallest one narrowed by halving
			crashFailures++
			small := inf[0]
			for _, i := range inf {
				if len(job.Batches[i]) < len(job.Batches[small]) {
					small = i
				}
			}
			for _, i := range inf {
				b, o := job.Batches[i], job.opt(i)
				if i == small {
					b = shrinkLargeCrash(self, tmp, job, b, o, key)
				}
				results[i] = BatchResult{Batch: i, N: len(b), Crash: why, Failures: []Failure{{Key: key, Modules: b, Err: why, Opt: &o}}}
			}
			inf = nil
		}
		for _, i := range inf {
			// the worker died (or was killed) while this batch was in flight
			b := job.Batches[i]
			if opt := job.opt(i); opt.Large {
				// runtime fatals (concurrent map writes), panics and race reports of a large run depend on how many per-file
				// goroutines meet, not on one module: narrow the batch by halving (each probe in a fresh process, tried twice)
				crashFailures++
				key := FailureKey(why)
				if !killed {
					b = shrinkLargeCrash(self, tmp, job, b, opt, key)
				}
				o := opt
				results[i] = BatchResult{Batch: i, N: len(b), Crash: why,
					Failures: []Failure{{Key: key, Modules: b, Err: why, Timeout: killed, Opt: &o}}}
				continue
			}
			onlyLarge = false
			if len(b) == 1 && len(inf) == 1 {
				crashFailures++
				key := FailureKey(why)
				if !killed && firstCrashWitness(key) {
					// the culprit is known: shrink it (one witness per crash signature), each attempt in a process of its own
					m := MinimiseText(b[0], func(p Parsed) bool {
						c, w := crashesAlone(self, tmp, job, p.Module)
						return c && FailureKey(w) == key
					}, 60)
					b = []Module{m}
				}
				results[i] = BatchResult{Batch: i, N: 1, Crash: why,
					Failures: []Failure{{Key: key, Modules: b, Err: why, Timeout: killed}}}
			} else if len(b) == 1 {
				// several batches were in flight: run this one again, alone
				job.Batches = append(job.Batches, b)
				results[i] = BatchResult{Batch: i, N: 0, Crash: "re-queued alone"}
			} else {
				results[i] = BatchResult{Batch: i, N: 0, Crash: "re-queued as single-module batches: " + clip(why, 300)}
				for _, m := range b {
					job.Batches = append(job.Batches, []Module{m})
				}
			}
		}
		if len(inf) > 0 && !onlyLarge {
			job.Par = 1 // after a crash continue one batch at a time so that the culprit is unambiguous
		}
		// batches re-queued after a crash first: isolating the culprits matters more than finishing the rest
		todo = todo[:0]
		for i := nOriginal; i < len(job.Batches); i++ {
			if _, ok := results[i]; !ok {
				todo = append(todo, i)
			}
		}
		for i := 0; i < nOriginal; i++ {
			if _, ok := results[i]; !ok {
				todo = append(todo, i)
			}
		}
	}
	var res []BatchResult
	var idx []int
	for i := range results {
		idx = append(idx, i)
	}
	sort.Ints(idx)
	for _, i := range idx {
		res = append(res, results[i])
	}
	return res
}

var (
	crashMinimised = map[string]bool{}
	crashMu        sync.Mutex
	crashProbeSeq  int
)

func firstCrashWitness(key string) bool {
	crashMu.Lock()
	defer crashMu.Unlock()
	if crashMinimised[key] {
		return false
	}
	crashMinimised[key] = true
	return true
}

func nextProbe() int {
	crashMu.Lock()
	defer crashMu.Unlock()
	crashProbeSeq++
	return crashProbeSeq
}

// workerEnv: the worker processes run with at least 16 Ps, whatever the machine: the concurrency of one Lint call
// (one goroutine per file) is part of what is exercised.
func workerEnv() []string {
	env := os.Environ()
	n := runtime.NumCPU()
	if n < 16 {
		n = 16
	}
	for _, e := range env {
		if strings.HasPrefix(e, "GOMAXPROCS=") {
			return env
		}
	}
	return append(env, fmt.Sprintf("GOMAXPROCS=%d", n))
}

// crashesAlone runs ONE module through a fresh worker process with the job's settings and reports whether the
// process died (panic in a goroutine of the linter, fatal error, os.Exit); a hang counts as "did not crash".
func crashesAlone(self, tmp string, job *Job, m Module) (bool, string) {
	return crashesBatch(self, tmp, job, []Module{m}, BatchOpt{})
}

func crashesBatch(self, tmp string, job *Job, ms []Module, opt BatchOpt) (bool, string) {
	seq := nextProbe()
	j2 := *job
	j2.Batches = [][]Module{ms}
	j2.Opts = []BatchOpt{opt}
	j2.Todo = []int{0}
	j2.Par = 1
	jp := filepath.Join(tmp, fmt.Sprintf("probe_%d.json", seq))
	op := filepath.Join(tmp, fmt.Sprintf("probe_%d.jsonl", seq))
	jb, _ := json.Marshal(&j2)
	if err := os.WriteFile(jp, jb, 0o644); err != nil {
		panic(err)
	}
	defer os.Remove(jp)
	defer os.Remove(op)
	cmd := exec.Command(self, "worker", jp, op)
	cmd.Env = workerEnv()
	var tail tailBuf
	cmd.Stdout = &tail
	cmd.Stderr = &tail
	if err := cmd.Start(); err != nil {
		panic(err)
	}
	done := make(chan error, 1)
	go func() { done <- cmd.Wait() }()
	select {
	case err := <-done:
		if err == nil {
			return false, ""
		}
		return true, "worker crashed: " + tail.String()
	case <-time.After(3 * time.Minute):
		cmd.Process.Kill()
		<-done
		return false, ""
	}
}

// isConcurrencyCrash: crash signatures that come from goroutines colliding, not from what one module contains
func isConcurrencyCrash(key string) bool {
	for _, k := range []string{"concurrent map", "data race", "unlock of unlocked", "sync: ", "all goroutines are asleep", "negative WaitGroup", "close of closed channel", "send on closed channel"} {
		if strings.Contains(key, k) {
			return true
		}
	}
	return false
}

// shrinkLargeCrash halves a crashing large batch while one half still crashes with the same signature.
func shrinkLargeCrash(self, tmp string, job *Job, ms []Module, opt BatchOpt, key string) []Module {
	probes := 0
	crashes := func(c []Module) bool {
		for t := 0; t < 2; t++ {
			probes++
			if died, w := crashesBatch(self, tmp, job, c, opt); died && FailureKey(w) == key {
				return true
			}
		}
		return false
	}
	for len(ms) >= 4 && probes < 20 {
		h := len(ms) / 2
		if crashes(ms[:h]) {
			ms = ms[:h]
			continue
		}
		if crashes(ms[h:]) {
			ms = ms[h:]
			continue
		}
		break
	}
	return ms
}

func clip(s string, n int) string {
	if len(s) > n {
		return s[len(s)-n:]
	}
	return s
}

type tailBuf struct {
	mu sync.Mutex
	b  []byte
}

func (t *tailBuf) Write(p []byte) (int, error) {
	t.mu.Lock()
	defer t.mu.Unlock()
	t.b = append(t.b, p...)
	if len(t.b) > 1<<16 {
		// keep head (panic message) and tail
		t.b = append(t.b[:1<<14], t.b[len(t.b)-(1<<14):]...)
	}
	return len(p), nil
}

func (t *tailBuf) String() string {
	t.mu.Lock()
	defer t.mu.Unlock()
	s := string(t.b)
	if len(s) > 4000 {
		s = s[:4000]
	}
	return strings.TrimSpace(s)
}

// ---- corpus assembly ---------------------------------------------------------------------------------

type Plan struct {
	Tier         string
	Repo         string
	OPADir       string
	CorpusDir    string // /verif/corpus/<ID>: regression seeds, linted first
	OPASample    int    // 0 = all
	GenN         int
	MutN         int
	Stress       int
	BatchSize    int
	BundleSample int // 0 = all bundle files
	SingleFile   int // this many modules are additionally linted alone (single-file mode: no aggregate phase)
	FamilySample int // 0 = all modules of the systematic families (uncompilable, comment placement, quoted rego), else a sample of each
	Deep         bool
	BreakShifts  []int // C07: the k values for the line-break family (nil = the job's)
	QuotedSample int   // cap on the quoted-rego family when FamilySample is 0 (C07 thorough lints every module five times)
	Large        int   // number of large single-call batches (C03), each of LargeSize small modules
	LargeSize    int
	LargeSets    int // rule subsets per large batch (one Lint call each, after the all-rules call)
	LargeRounds  int
	LargeOnly    bool // only the large batches (the -race pass of the thorough tier)
	// round 3
	BoundaryThird  int  // -1: every (head, tail) pair of the boundary-rows family; 0..2: that third of them
	BoundarySample int  // cap on the boundary-rows family (0 = all of the variant chosen by Deep)
	Modes          bool // C07: the boundary-rows batches and one batch sampled from the other corpora go through every input mode
	ModesStdin     int  // modules per such batch that are also linted through stdin
	ModesKs        int  // shifts per such batch in the disk / map modes (0 = all)
	DiskPerRoot    int  // C03: files per root of the mixed-version tree on disk (0 = no such run)
	DiskRounds     int
}

type Assembled struct {
	Batches [][]Module
	Opts    []BatchOpt // parallel to Batches
	Counts  map[string]int
}

func batchUp(ms []Module, n int) [][]Module {
	var res [][]Module
	for i := 0; i < len(ms); i += n {
		e := i + n
		if e > len(ms) {
			e = len(ms)
		}
		res = append(res, ms[i:e])
	}
	return res
}

// Assemble builds the batches: regression seeds (one module per batch), bundle, OPA sample, stress,
// generated, mutations.
func Assemble(r *hutil.Rng, p Plan) Assembled {
	a := Assembled{Counts: map[string]int{}}
	// regression seeds
	if ents, err := os.ReadDir(p.CorpusDir); err == nil {
		var names []string
		for _, e := range ents {
			if strings.HasSuffix(e.Name(), ".rego") {
				names = append(names, e.Name())
			}
		}
		sort.Strings(names)
		for _, n := range names {
			bs, err := os.ReadFile(filepath.Join(p.CorpusDir, n))
			if err != nil {
				continue
			}
			a.Batches = append(a.Batches, []Module{{Name: "seed/" + n, Text: string(bs), Src: "seed:" + n}})
			a.Counts["seed"]++
		}
	}
	bundle := LoadBundle(p.Repo)
	a.Counts["bundle_files"] = len(bundle)
	allBundle := bundle
	if p.BundleSample > 0 && p.BundleSample < len(bundle) {
		bundle = append([]Module{}, bundle...)
		hutil.Shuffle(r, bundle)
		bundle = bundle[:p.BundleSample]
		sort.Slice(bundle, func(i, j int) bool { return bundle[i].Name < bundle[j].Name })
	}
	a.Counts["bundle"] = len(bundle)
	a.Batches = append(a.Batches, batchUp(bundle, 64)...)
	opa, files := LoadOPA(p.OPADir)
	a.Counts["opa_yaml_files"] = files
	a.Counts["opa_distinct_modules"] = len(opa)
	if p.OPASample > 0 && p.OPASample < len(opa) {
		hutil.Shuffle(r, opa)
		opa = opa[:p.OPASample]
		sort.Slice(opa, func(i, j int) bool { return opa[i].Name < opa[j].Name })
	}
	a.Counts["opa"] = len(opa)
	a.Batches = append(a.Batches, batchUp(opa, p.BatchSize)...)
	stress := StressModules(p.Stress)
	a.Counts["stress"] = len(stress)
	a.Batches = append(a.Batches, batchUp(stress, p.BatchSize)...)
	// the systematic families: parseable-but-not-compilable modules, comments at every token boundary
	sample := func(ms []Module) []Module {
		if p.FamilySample > 0 && p.FamilySample < len(ms) {
			ms = append([]Module{}, ms...)
			hutil.Shuffle(r, ms)
			ms = ms[:p.FamilySample]
			sort.Slice(ms, func(i, j int) bool { return ms[i].Name < ms[j].Name })
		}
		return ms
	}
	unc := sample(UncompilableModules())
	a.Counts["uncompilable"] = len(unc)
	a.Batches = append(a.Batches, batchUp(unc, p.BatchSize)...)
	cpl := sample(CommentPlacementModules(p.Deep))
	a.Counts["comment_placement"] = len(cpl)
	a.Batches = append(a.Batches, batchUp(cpl, p.BatchSize)...)
	// Rego-looking text inside strings, raw strings, comments and METADATA, in v0-only / v1-only / both-version modules,
	// version detected and configured (gen_quoted.go)
	quo := QuotedRegoModules(p.Deep)
	if p.QuotedSample > 0 && p.FamilySample == 0 && p.QuotedSample < len(quo) {
		hutil.Shuffle(r, quo)
		quo = quo[:p.QuotedSample]
		sort.Slice(quo, func(i, j int) bool { return quo[i].Name < quo[j].Name })
	}
	quo = sample(quo)
	a.Counts["quoted_rego"] = len(quo)
	a.Batches = append(a.Batches, batchUp(quo, p.BatchSize)...)
	// a line break at every token boundary of rule heads and body expressions (gen_breaks.go): never sampled, the
	// modules are a few lines each and location helpers index into exactly these rows
	brk := LineBreakModules(p.Deep)
	a.Counts["line_breaks"] = len(brk)
	for _, b := range batchUp(brk, p.BatchSize) {
		for len(a.Opts) < len(a.Batches) {
			a.Opts = append(a.Opts, BatchOpt{})
		}
		a.Batches = append(a.Batches, b)
		a.Opts = append(a.Opts, BatchOpt{Shifts: p.BreakShifts})
	}
	// something reportable on the first row and on the last row of the file (gen_boundary.go): never sampled in the quick
	// tier; C07 sends these batches through every input mode
	bnd := BoundaryRowModules(p.Deep, p.BoundaryThird)
	if p.BoundarySample > 0 && p.BoundarySample < len(bnd) {
		r2 := hutil.NewRng(uint64(len(bnd))*7919 + hutil.SeedFromEnv()) // a generator of its own: the sequence of `r` is not disturbed
		hutil.Shuffle(r2, bnd)
		bnd = bnd[:p.BoundarySample]
		sort.Slice(bnd, func(i, j int) bool { return bnd[i].Name < bnd[j].Name })
	}
	a.Counts["boundary_rows"] = len(bnd)
	for _, b := range batchUp(bnd, p.BatchSize) {
		for len(a.Opts) < len(a.Batches) {
			a.Opts = append(a.Opts, BatchOpt{})
		}
		a.Batches = append(a.Batches, b)
		a.Opts = append(a.Opts, BatchOpt{Modes: p.Modes, ModesStdin: p.ModesStdin, ModesKs: p.ModesKs})
	}
	gen := GenModules(r, p.GenN)
	a.Counts["gen"] = len(gen)
	a.Batches = append(a.Batches, batchUp(gen, p.BatchSize)...)
	base := append(append([]Module{}, opa...), allBundle...)
	base = append(base, gen...)
	mut := Mutations(r, base, p.MutN)
	a.Counts["mut"] = len(mut)
	a.Batches = append(a.Batches, batchUp(mut, p.BatchSize)...)
	// single-file mode for a sample: one file per Lint call exercises the path without the aggregate phase
	all := append(append(append([]Module{}, stress...), gen...), mut...)
	all = append(append(all, unc...), cpl...)
	all = append(append(all, quo...), brk...)
	for i := 0; i < p.SingleFile && len(all) > 0; i++ {
		a.Batches = append(a.Batches, []Module{all[r.Below(len(all))]})
		a.Counts["single_file_runs"]++
	}
	if p.Modes {
		// one batch drawn from the other corpora through every input mode (a generator of its own)
		r2 := hutil.NewRng(hutil.SeedFromEnv() ^ 0xC0706)
		var pick []Module
		names := map[string]bool{}
		for tries := 0; len(pick) < p.BatchSize && tries < 20*p.BatchSize && len(all) > 0; tries++ {
			m := all[r2.Below(len(all))]
			if !names[m.Name] && len(m.Text) < 4000 && ConfiguredVersion(m.Name) == "" {
				names[m.Name] = true
				pick = append(pick, m)
			}
		}
		if len(pick) > 0 {
			for len(a.Opts) < len(a.Batches) {
				a.Opts = append(a.Opts, BatchOpt{})
			}
			a.Batches = append(a.Batches, pick)
			a.Opts = append(a.Opts, BatchOpt{Modes: true, ModesStdin: p.ModesStdin, ModesKs: p.ModesKs})
			a.Counts["input_modes_sample"] = len(pick)
		}
	}
	if p.Large > 0 {
		// large single-call runs (large.go); drawn last from the generator so that they do not disturb the sequence above
		// pool: the generated corpora (the stress shapes and mutations hold the numbers of the known float64 finding, which
		// fails a whole call: those modules have their ordinary batches)
		pool := append(append(append(append([]Module{}, gen...), unc...), cpl...), quo...)
		pool = append(pool, brk...)
		lb, lo := LargeBatches(r, pool, p.Large, p.LargeSize, p.LargeSets, p.LargeRounds)
		if p.LargeOnly {
			a.Batches, a.Opts, a.Counts = nil, nil, map[string]int{}
		}
		for len(a.Opts) < len(a.Batches) {
			a.Opts = append(a.Opts, BatchOpt{})
		}
		a.Batches = append(a.Batches, lb...)
		a.Opts = append(a.Opts, lo...)
		if p.DiskPerRoot > 0 {
			// the same through the disk path with a mixed-version configuration (disk.go)
			dm, do := DiskBatch(r, 0, p.DiskPerRoot, p.DiskRounds, ruleSubsets(r, AllRuleNames(), 2))
			a.Batches = append(a.Batches, dm)
			a.Opts = append(a.Opts, do)
			a.Counts["disk_mixed_version_files"] = len(dm)
			a.Counts["disk_read_rounds"] = p.DiskRounds
		}
		a.Counts["large_batches"] = len(lb)
		for _, b := range lb {
			a.Counts["large_modules"] += len(b)
		}
		for _, o := range lo {
			n := 1 + len(o.RuleSets)
			if o.NoAll {
				n--
			}
			a.Counts["large_lint_calls"] += n * o.Rounds
		}
	}
	return a
}
