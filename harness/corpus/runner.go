package corpus

import (
	"bufio"
	"encoding/json"
	"fmt"
	"os"
	"os/exec"
	"path/filepath"
	"sort"
	"strings"
	"sync"
	"time"

	"verifharness/hutil"
)

// Master/worker runner. Linting happens in a worker process (the same executable started with
// "worker <job> <out>"), because a panic in one of the linter's per-file goroutines cannot be recovered
// in-process and a hang must be killable. The worker writes one line when it starts a batch and one when
// it finishes it; the master restarts it after a crash / watchdog kill and re-queues the batch that was
// in flight as single-module batches.

type Job struct {
	Batches [][]Module `json:"batches"`
	Shifts  []int      `json:"shifts"`  // C07: k values; empty for C03
	Locate  bool       `json:"locate"`  // C07: check bounds/text
	Timeout int        `json:"timeout"` // seconds per Lint call
	Detail  int        `json:"detail"`  // max issues of one kind+rule reported in full per batch
	Par     int        `json:"par"`     // batches processed concurrently inside the worker
	Todo    []int      `json:"todo"`    // indices of the batches this worker run has to process
	noShift bool
}

type BatchResult struct {
	Batch       int            `json:"batch"`
	Start       bool           `json:"start,omitempty"`
	N           int            `json:"n"`
	Unparsed    []string       `json:"unparsed,omitempty"` // srcs outside the domain
	Millis      int64          `json:"ms"`
	Lints       int            `json:"lints"`
	Failures    []Failure      `json:"failures,omitempty"`
	Violations  int            `json:"violations"`
	ByRule      map[string]int `json:"by_rule,omitempty"`
	Located     int            `json:"located"` // violations with a position that were checked
	TextChecked int            `json:"text_checked"`
	EndPastLine int            `json:"end_past_line"`
	AggTextDiff int            `json:"agg_text_diff"`
	LocIssues   []LocFinding   `json:"loc_issues,omitempty"`
	ShiftIssues []ShiftFinding `json:"shift_issues,omitempty"`
	ShiftPairs  int            `json:"shift_pairs"` // (violation, k) pairs compared
	ShiftSkips  []string       `json:"shift_skips,omitempty"`
	Crash       string         `json:"crash,omitempty"` // filled by the master
}

type LocFinding struct {
	Issue  LocIssue `json:"issue"`
	Module Module   `json:"module"`
}

type ShiftFinding struct {
	Issue  ShiftIssue `json:"issue"`
	Module Module     `json:"module"`
}

// RunWorker processes the batches listed in job.Todo, `Par` of them concurrently; results go to out
// (JSON lines: one "start" line and one result line per batch, synced).
func RunWorker(jobPath, outPath string) {
	bs, err := os.ReadFile(jobPath)
	if err != nil {
		panic(err)
	}
	var job Job
	if err := json.Unmarshal(bs, &job); err != nil {
		panic(err)
	}
	f, err := os.OpenFile(outPath, os.O_APPEND|os.O_CREATE|os.O_WRONLY, 0o644)
	if err != nil {
		panic(err)
	}
	defer f.Close()
	var mu sync.Mutex
	emit := func(r BatchResult) {
		b, _ := json.Marshal(r)
		mu.Lock()
		defer mu.Unlock()
		f.Write(append(b, '\n'))
		f.Sync()
	}
	par := job.Par
	if par < 1 {
		par = 1
	}
	ch := make(chan int)
	var wg sync.WaitGroup
	for w := 0; w < par; w++ {
		wg.Add(1)
		go func() {
			defer wg.Done()
			for i := range ch {
				emit(BatchResult{Batch: i, Start: true, N: len(job.Batches[i])})
				emit(runBatch(i, job.Batches[i], &job))
			}
		}()
	}
	for _, i := range job.Todo {
		ch <- i
	}
	close(ch)
	wg.Wait()
}

var (
	minimised    = map[string]bool{}
	minimisedMu  sync.Mutex
	bisectBudget = 12 // per worker process
)

func findTimeouts(mods []Parsed, timeout time.Duration) []Failure {
	var mu sync.Mutex
	var res []Failure
	sem := make(chan struct{}, 16)
	var wg sync.WaitGroup
	for _, p := range mods {
		wg.Add(1)
		sem <- struct{}{}
		go func(p Parsed) {
			defer wg.Done()
			defer func() { <-sem }()
			o := LintBatch([]Parsed{p}, timeout)
			if o.Err != "" {
				k := FailureKey(o.Err)
				if o.Timeout {
					k = "timeout: linting one module exceeds the per-call limit"
				}
				mu.Lock()
				res = append(res, Failure{Key: k, Modules: []Module{p.Module}, Err: o.Err, Timeout: o.Timeout})
				mu.Unlock()
			}
		}(p)
	}
	wg.Wait()
	sort.Slice(res, func(i, j int) bool { return res[i].Modules[0].Name < res[j].Modules[0].Name })
	return res
}

func takeBisectBudget() bool {
	minimisedMu.Lock()
	defer minimisedMu.Unlock()
	if bisectBudget <= 0 {
		return false
	}
	bisectBudget--
	return true
}

func runBatch(idx int, mods []Module, job *Job) BatchResult {
	res := BatchResult{Batch: idx, N: len(mods), ByRule: map[string]int{}}
	t0 := time.Now()
	timeout := time.Duration(job.Timeout) * time.Second
	var parsed []Parsed
	for _, m := range mods {
		if p, ok := Parse(m); ok {
			parsed = append(parsed, p)
		} else {
			res.Unparsed = append(res.Unparsed, m.Src)
		}
	}
	// modules whose shifted text does not parse (a byte-order mark must stay first) are outside the domain
	// of the shift relation: they are linted and bounds-checked in a batch of their own, without shifts
	if job.Locate && len(job.Shifts) > 0 && !job.noShift {
		var keep, apart []Module
		for _, p := range parsed {
			ok := true
			for _, k := range job.Shifts {
				if _, o := Shift(p, k); !o {
					ok = false
					break
				}
			}
			if ok {
				keep = append(keep, p.Module)
			} else {
				apart = append(apart, p.Module)
			}
		}
		if len(apart) > 0 {
			j2 := *job
			j2.noShift = true
			r1 := runBatch(idx, keep, job)
			j2.Shifts = nil
			r2 := runBatch(idx, apart, &j2)
			for _, m := range apart {
				r1.ShiftSkips = append(r1.ShiftSkips, m.Src+": text with blank lines on top does not parse")
			}
			r1.N += r2.N
			r1.Lints += r2.Lints
			r1.Failures = append(r1.Failures, r2.Failures...)
			r1.Violations += r2.Violations
			r1.Located += r2.Located
			r1.TextChecked += r2.TextChecked
			r1.EndPastLine += r2.EndPastLine
			r1.AggTextDiff += r2.AggTextDiff
			r1.LocIssues = append(r1.LocIssues, r2.LocIssues...)
			r1.Unparsed = append(r1.Unparsed, res.Unparsed...)
			r1.Millis = time.Since(t0).Milliseconds()
			return r1
		}
	}
	// ---- C03: lint; on error find the culprit(s), drop them, lint the rest
	var out Outcome
	for len(parsed) > 0 {
		out = LintBatch(parsed, timeout)
		res.Lints++
		if out.Err == "" {
			break
		}
		if out.Timeout {
			// bisecting a hang costs one full time limit per step: lint every module on its own instead,
			// 16 at a time (the healthy ones finish in well under a second)
			culprits := findTimeouts(parsed, timeout)
			res.Lints += len(parsed)
			bad := map[string]bool{}
			for _, c := range culprits {
				res.Failures = append(res.Failures, c)
				for _, m := range c.Modules {
					bad[m.Name] = true
				}
			}
			if len(culprits) == 0 {
				fl := Failure{Key: "timeout: batch exceeded the per-call limit, no single module does", Err: out.Err, Timeout: true}
				for _, p := range parsed {
					fl.Modules = append(fl.Modules, p.Module)
				}
				res.Failures = append(res.Failures, fl)
				parsed = nil
				out = Outcome{}
				break
			}
			var rest []Parsed
			for _, p := range parsed {
				if !bad[p.Name] {
					rest = append(rest, p)
				}
			}
			parsed = rest
			continue
		}
		// when a change breaks linting wholesale, bisecting every batch would take hours: after a few
		// culprits with minimised witnesses the remaining failing batches are recorded as they are
		if !takeBisectBudget() {
			fl := Failure{Key: FailureKey(out.Err), Err: out.Err + " (batch not bisected: too many failures in this run)", Timeout: out.Timeout}
			for _, p := range parsed {
				fl.Modules = append(fl.Modules, p.Module)
			}
			res.Failures = append(res.Failures, fl)
			parsed = nil
			out = Outcome{}
			break
		}
		fl := Bisect(parsed, timeout)
		res.Lints += 8
		if len(fl.Modules) == 0 { // not reproducible on its own
			fl = Failure{Key: "flaky: " + FailureKey(out.Err), Err: out.Err + " (not reproducible when re-run)", Timeout: out.Timeout}
			for _, p := range parsed {
				fl.Modules = append(fl.Modules, p.Module)
			}
			res.Failures = append(res.Failures, fl)
			parsed = nil
			break
		}
		fl.Key = FailureKey(fl.Err)
		minimisedMu.Lock()
		first := !minimised[fl.Key]
		minimised[fl.Key] = true // one minimised witness per failure signature and worker is enough
		minimisedMu.Unlock()
		if len(fl.Modules) == 1 && first {
			key := fl.Key
			fl.Modules[0] = MinimiseText(fl.Modules[0], func(p Parsed) bool {
				o := LintBatch([]Parsed{p}, timeout)
				return o.Err != "" && FailureKey(o.Err) == key
			}, 80)
		}
		res.Failures = append(res.Failures, fl)
		bad := map[string]bool{}
		for _, m := range fl.Modules {
			bad[m.Name] = true
		}
		var rest []Parsed
		for _, p := range parsed {
			if !bad[p.Name] {
				rest = append(rest, p)
			}
		}
		parsed = rest
	}
	if out.Report != nil {
		res.Violations = len(out.Report.Violations)
		for _, v := range out.Report.Violations {
			res.ByRule[v.Category+"/"+v.Title]++
		}
	}
	// ---- C07
	if out.Report != nil && job.Locate {
		files := map[string][]string{}
		byName := map[string]Module{}
		for _, p := range parsed {
			files[p.Name] = Lines(p.Text)
			byName[p.Name] = p.Module
		}
		seen := map[string]int{}
		for _, v := range out.Report.Violations {
			if v.Location.Row != 0 {
				res.Located++
				if v.Location.Text != nil && !v.IsAggregate {
					res.TextChecked++
				}
			}
		}
		for _, is := range CheckLocations(out.Report, files) {
			switch {
			case is.Kind == "end-outside":
				res.EndPastLine++ // not part of the property statement (see notes/C07.md); counted
				continue
			case is.Kind == "text-mismatch" && is.V.Agg:
				res.AggTextDiff++ // the statement restricts text equality to single-file rules; counted
				continue
			}
			k := is.Kind + "|" + is.V.Title
			seen[k]++
			if seen[k] <= job.Detail {
				res.LocIssues = append(res.LocIssues, LocFinding{Issue: is, Module: byName[is.V.File]})
			}
		}
		for _, k := range job.Shifts {
			var sb []Parsed
			for _, p := range parsed {
				sp, _ := Shift(p, k) // parses: checked before the base lint
				sb = append(sb, sp)
			}
			ok := LintBatch(sb, timeout)
			res.Lints++
			if ok.Err != "" {
				fl := Bisect(sb, timeout)
				fl.Key = "shifted: " + FailureKey(fl.Err)
				fl.Err = fmt.Sprintf("after inserting %d blank lines: %s", k, fl.Err)
				res.Failures = append(res.Failures, fl)
				continue
			}
			res.ShiftPairs += len(out.Report.Violations)
			for _, is := range CompareShift(out.Report, ok.Report, k) {
				kk := fmt.Sprintf("shift|%s|%d", is.V.Title, k)
				seen[kk]++
				if seen[kk] <= job.Detail {
					res.ShiftIssues = append(res.ShiftIssues, ShiftFinding{Issue: is, Module: byName[is.V.File]})
				}
			}
		}
	}
	res.Millis = time.Since(t0).Milliseconds()
	return res
}

// RunMaster runs the job in worker subprocesses and returns one result per batch (batches re-queued after a
// crash are appended as single-module batches).
func RunMaster(self, tmp string, job *Job, watchdog time.Duration) []BatchResult {
	results := map[int]BatchResult{}
	crashFailures := 0
	nOriginal := len(job.Batches)
	todo := make([]int, len(job.Batches))
	for i := range todo {
		todo[i] = i
	}
	round := 0
	for len(todo) > 0 {
		round++
		if crashFailures >= 6 || round > 400 {
			// the code under test crashes wholesale: enough witnesses, the remaining batches are not run
			for _, i := range todo {
				results[i] = BatchResult{Batch: i, N: 0, Crash: "not run: too many worker crashes in this run"}
			}
			break
		}
		jp := filepath.Join(tmp, fmt.Sprintf("job_%d.json", round))
		op := filepath.Join(tmp, fmt.Sprintf("out_%d.jsonl", round))
		job.Todo = todo
		jb, _ := json.Marshal(job)
		if err := os.WriteFile(jp, jb, 0o644); err != nil {
			panic(err)
		}
		cmd := exec.Command(self, "worker", jp, op)
		var tail tailBuf
		cmd.Stdout = &tail
		cmd.Stderr = &tail
		if err := cmd.Start(); err != nil {
			panic(err)
		}
		done := make(chan error, 1)
		go func() { done <- cmd.Wait() }()
		killed := false
		lastSize := int64(-1)
		lastChange := time.Now()
		tick := time.NewTicker(300 * time.Millisecond)
	wait:
		for {
			select {
			case <-done:
				break wait
			case <-tick.C:
				if st, err := os.Stat(op); err == nil && st.Size() != lastSize {
					lastSize, lastChange = st.Size(), time.Now()
				}
				if time.Since(lastChange) > watchdog {
					killed = true
					cmd.Process.Kill()
					<-done
					break wait
				}
			}
		}
		tick.Stop()
		inflight := map[int]bool{}
		progressed := false
		if f, err := os.Open(op); err == nil {
			sc := bufio.NewScanner(f)
			sc.Buffer(make([]byte, 1<<20), 1<<28)
			for sc.Scan() {
				var r BatchResult
				if json.Unmarshal(sc.Bytes(), &r) != nil {
					continue
				}
				progressed = true
				if r.Start {
					inflight[r.Batch] = true
				} else {
					results[r.Batch] = r
					delete(inflight, r.Batch)
				}
			}
			f.Close()
		}
		if !progressed {
			panic("worker failed to start: " + tail.String())
		}
		why := "worker crashed: " + tail.String()
		if killed {
			why = fmt.Sprintf("worker made no progress for %s and was killed (hang)", watchdog)
		}
		var inf []int
		for i := range inflight {
			inf = append(inf, i)
		}
		sort.Ints(inf)
		for _, i := range inf {
			// the worker died (or was killed) while this batch was in flight
			b := job.Batches[i]
			if len(b) == 1 && len(inf) == 1 {
				crashFailures++
				key := FailureKey(why)
				if !killed && !crashMinimised[key] {
					// the culprit is known: shrink it (one witness per crash signature), each attempt in a process of its own
					crashMinimised[key] = true
					m := MinimiseText(b[0], func(p Parsed) bool {
						c, w := crashesAlone(self, tmp, job, p.Module)
						return c && FailureKey(w) == key
					}, 60)
					b = []Module{m}
				}
				results[i] = BatchResult{Batch: i, N: 1, Crash: why,
					Failures: []Failure{{Key: key, Modules: b, Err: why, Timeout: killed}}}
			} else if len(b) == 1 {
				// several batches were in flight: run this one again, alone
				job.Batches = append(job.Batches, b)
				results[i] = BatchResult{Batch: i, N: 0, Crash: "re-queued alone"}
			} else {
				results[i] = BatchResult{Batch: i, N: 0, Crash: "re-queued as single-module batches: " + clip(why, 300)}
				for _, m := range b {
					job.Batches = append(job.Batches, []Module{m})
				}
			}
		}
		if len(inf) > 0 {
			job.Par = 1 // after a crash continue one batch at a time so that the culprit is unambiguous
		}
		// batches re-queued after a crash first: isolating the culprits matters more than finishing the rest
		todo = todo[:0]
		for i := nOriginal; i < len(job.Batches); i++ {
			if _, ok := results[i]; !ok {
				todo = append(todo, i)
			}
		}
		for i := 0; i < nOriginal; i++ {
			if _, ok := results[i]; !ok {
				todo = append(todo, i)
			}
		}
	}
	var res []BatchResult
	var idx []int
	for i := range results {
		idx = append(idx, i)
	}
	sort.Ints(idx)
	for _, i := range idx {
		res = append(res, results[i])
	}
	return res
}

var (
	crashMinimised = map[string]bool{}
	crashProbeSeq  int
)

// crashesAlone runs ONE module through a fresh worker process with the job's settings and reports whether the
// process died (panic in a goroutine of the linter, fatal error, os.Exit); a hang counts as "did not crash".
func crashesAlone(self, tmp string, job *Job, m Module) (bool, string) {
	crashProbeSeq++
	j2 := *job
	j2.Batches = [][]Module{{m}}
	j2.Todo = []int{0}
	j2.Par = 1
	jp := filepath.Join(tmp, fmt.Sprintf("probe_%d.json", crashProbeSeq))
	op := filepath.Join(tmp, fmt.Sprintf("probe_%d.jsonl", crashProbeSeq))
	jb, _ := json.Marshal(&j2)
	if err := os.WriteFile(jp, jb, 0o644); err != nil {
		panic(err)
	}
	defer os.Remove(jp)
	defer os.Remove(op)
	cmd := exec.Command(self, "worker", jp, op)
	var tail tailBuf
	cmd.Stdout = &tail
	cmd.Stderr = &tail
	if err := cmd.Start(); err != nil {
		panic(err)
	}
	done := make(chan error, 1)
	go func() { done <- cmd.Wait() }()
	select {
	case err := <-done:
		if err == nil {
			return false, ""
		}
		return true, "worker crashed: " + tail.String()
	case <-time.After(3 * time.Minute):
		cmd.Process.Kill()
		<-done
		return false, ""
	}
}

func clip(s string, n int) string {
	if len(s) > n {
		return s[len(s)-n:]
	}
	return s
}

type tailBuf struct {
	mu sync.Mutex
	b  []byte
}

func (t *tailBuf) Write(p []byte) (int, error) {
	t.mu.Lock()
	defer t.mu.Unlock()
	t.b = append(t.b, p...)
	if len(t.b) > 1<<16 {
		// keep head (panic message) and tail
		t.b = append(t.b[:1<<14], t.b[len(t.b)-(1<<14):]...)
	}
	return len(p), nil
}

func (t *tailBuf) String() string {
	t.mu.Lock()
	defer t.mu.Unlock()
	s := string(t.b)
	if len(s) > 4000 {
		s = s[:4000]
	}
	return strings.TrimSpace(s)
}

// ---- corpus assembly ---------------------------------------------------------------------------------

type Plan struct {
	Tier         string
	Repo         string
	OPADir       string
	CorpusDir    string // /verif/corpus/<ID>: regression seeds, linted first
	OPASample    int    // 0 = all
	GenN         int
	MutN         int
	Stress       int
	BatchSize    int
	BundleSample int // 0 = all bundle files
	SingleFile   int // this many modules are additionally linted alone (single-file mode: no aggregate phase)
	FamilySample int // 0 = all modules of the systematic families (uncompilable, comment placement), else a sample of each
	Deep         bool
}

type Assembled struct {
	Batches [][]Module
	Counts  map[string]int
}

func batchUp(ms []Module, n int) [][]Module {
	var res [][]Module
	for i := 0; i < len(ms); i += n {
		e := i + n
		if e > len(ms) {
			e = len(ms)
		}
		res = append(res, ms[i:e])
	}
	return res
}

// Assemble builds the batches: regression seeds (one module per batch), bundle, OPA sample, stress,
// generated, mutations.
func Assemble(r *hutil.Rng, p Plan) Assembled {
	a := Assembled{Counts: map[string]int{}}
	// regression seeds
	if ents, err := os.ReadDir(p.CorpusDir); err == nil {
		var names []string
		for _, e := range ents {
			if strings.HasSuffix(e.Name(), ".rego") {
				names = append(names, e.Name())
			}
		}
		sort.Strings(names)
		for _, n := range names {
			bs, err := os.ReadFile(filepath.Join(p.CorpusDir, n))
			if err != nil {
				continue
			}
			a.Batches = append(a.Batches, []Module{{Name: "seed/" + n, Text: string(bs), Src: "seed:" + n}})
			a.Counts["seed"]++
		}
	}
	bundle := LoadBundle(p.Repo)
	a.Counts["bundle_files"] = len(bundle)
	allBundle := bundle
	if p.BundleSample > 0 && p.BundleSample < len(bundle) {
		bundle = append([]Module{}, bundle...)
		hutil.Shuffle(r, bundle)
		bundle = bundle[:p.BundleSample]
		sort.Slice(bundle, func(i, j int) bool { return bundle[i].Name < bundle[j].Name })
	}
	a.Counts["bundle"] = len(bundle)
	a.Batches = append(a.Batches, batchUp(bundle, 64)...)
	opa, files := LoadOPA(p.OPADir)
	a.Counts["opa_yaml_files"] = files
	a.Counts["opa_distinct_modules"] = len(opa)
	if p.OPASample > 0 && p.OPASample < len(opa) {
		hutil.Shuffle(r, opa)
		opa = opa[:p.OPASample]
		sort.Slice(opa, func(i, j int) bool { return opa[i].Name < opa[j].Name })
	}
	a.Counts["opa"] = len(opa)
	a.Batches = append(a.Batches, batchUp(opa, p.BatchSize)...)
	stress := StressModules(p.Stress)
	a.Counts["stress"] = len(stress)
	a.Batches = append(a.Batches, batchUp(stress, p.BatchSize)...)
	// the systematic families: parseable-but-not-compilable modules, comments at every token boundary
	sample := func(ms []Module) []Module {
		if p.FamilySample > 0 && p.FamilySample < len(ms) {
			ms = append([]Module{}, ms...)
			hutil.Shuffle(r, ms)
			ms = ms[:p.FamilySample]
			sort.Slice(ms, func(i, j int) bool { return ms[i].Name < ms[j].Name })
		}
		return ms
	}
	unc := sample(UncompilableModules())
	a.Counts["uncompilable"] = len(unc)
	a.Batches = append(a.Batches, batchUp(unc, p.BatchSize)...)
	cpl := sample(CommentPlacementModules(p.Deep))
	a.Counts["comment_placement"] = len(cpl)
	a.Batches = append(a.Batches, batchUp(cpl, p.BatchSize)...)
	gen := GenModules(r, p.GenN)
	a.Counts["gen"] = len(gen)
	a.Batches = append(a.Batches, batchUp(gen, p.BatchSize)...)
	base := append(append([]Module{}, opa...), allBundle...)
	base = append(base, gen...)
	mut := Mutations(r, base, p.MutN)
	a.Counts["mut"] = len(mut)
	a.Batches = append(a.Batches, batchUp(mut, p.BatchSize)...)
	// single-file mode for a sample: one file per Lint call exercises the path without the aggregate phase
	all := append(append(append([]Module{}, stress...), gen...), mut...)
	all = append(append(all, unc...), cpl...)
	for i := 0; i < p.SingleFile && len(all) > 0; i++ {
		a.Batches = append(a.Batches, []Module{all[r.Below(len(all))]})
		a.Counts["single_file_runs"]++
	}
	return a
}
