// Package corpus: the module corpora shared by the C03 (linting is total) and C07 (locations) checks,
// and the batch runner that lints them through the public API of regal (linter.Linter.Lint) with all
// rules enabled.
//
//	(a) the regal bundle's own .rego files            (LoadBundle)
//	(b) modules of the OPA conformance corpus (YAML)  (LoadOPA)
//	(c) grammar-generated modules and mutations       (gen.go)
//
// A module that parses neither as Rego v1 nor as v0 (regal's own parse order) is outside the domain of
// both properties and only counted.
package corpus

import (
	"context"
	"crypto/sha1"
	"encoding/hex"
	"fmt"
	"os"
	"path/filepath"
	"regexp"
	"sort"
	"strings"
	"time"

	"gopkg.in/yaml.v3"

	"github.com/open-policy-agent/opa/v1/ast"

	"github.com/styrainc/regal/pkg/linter"
	"github.com/styrainc/regal/pkg/report"
	"github.com/styrainc/regal/pkg/rules"
)

// Module is one corpus entry. Name is the file name it is linted under (unique inside a batch).
type Module struct {
	Name string `json:"name"`
	Text string `json:"text"`
	Src  string `json:"src"` // provenance: bundle:<path> | opa:<yaml>#<case>#<i> | gen:<kind>:<n> | mut:<kind>:<base src>
}

func (m Module) Hash() string {
	h := sha1.Sum([]byte(m.Text))
	return hex.EncodeToString(h[:6])
}

// LoadBundle returns every .rego file under <repo>/bundle (rules, tests, framework packages).
func LoadBundle(repo string) []Module {
	var res []Module
	root := filepath.Join(repo, "bundle")
	_ = filepath.Walk(root, func(p string, info os.FileInfo, err error) error {
		if err != nil || info.IsDir() || !strings.HasSuffix(p, ".rego") {
			return nil
		}
		bs, err := os.ReadFile(p)
		if err != nil {
			return nil
		}
		rel, _ := filepath.Rel(repo, p)
		res = append(res, Module{Name: rel, Text: string(bs), Src: "bundle:" + rel})
		return nil
	})
	sort.Slice(res, func(i, j int) bool { return res[i].Name < res[j].Name })
	return res
}

type yamlCases struct {
	Cases []struct {
		Note    string   `yaml:"note"`
		Modules []string `yaml:"modules"`
	} `yaml:"cases"`
}

// LoadOPA extracts the `modules:` of every case of the OPA conformance corpus, de-duplicated by text.
func LoadOPA(dir string) (mods []Module, files int) {
	seen := map[string]bool{}
	var paths []string
	_ = filepath.Walk(dir, func(p string, info os.FileInfo, err error) error {
		if err == nil && !info.IsDir() && strings.HasSuffix(p, ".yaml") {
			paths = append(paths, p)
		}
		return nil
	})
	sort.Strings(paths)
	for _, p := range paths {
		bs, err := os.ReadFile(p)
		if err != nil {
			continue
		}
		var yc yamlCases
		if err := yaml.Unmarshal(bs, &yc); err != nil {
			continue
		}
		files++
		rel, _ := filepath.Rel(dir, p)
		for ci, c := range yc.Cases {
			for mi, m := range c.Modules {
				if seen[m] {
					continue
				}
				seen[m] = true
				mods = append(mods, Module{Text: m, Src: fmt.Sprintf("opa:%s#%d#%d", rel, ci, mi)})
			}
		}
	}
	for i := range mods {
		mods[i].Name = fmt.Sprintf("opa/m%05d.rego", i)
	}
	return mods, files
}

// Parsed is a module regal's parser accepted.
type Parsed struct {
	Module
	AST *ast.Module
}

// Parse parses the way regal does for input of unknown version (v1 first, then v0).
func Parse(m Module) (Parsed, bool) {
	return parseAs(m.Name, m)
}

func parseAs(name string, m Module) (p Parsed, ok bool) {
	defer func() {
		if r := recover(); r != nil {
			ok = false
		}
	}()
	in, err := rules.InputFromMap(map[string]string{name: m.Text}, nil)
	if err != nil {
		return Parsed{}, false
	}
	mm := m
	mm.Name = name
	return Parsed{Module: mm, AST: in.Modules[name]}, true
}

// Shift returns the module with k blank lines inserted at the very top (before anything else).
// The text is re-parsed: the parser is part of what the metamorphic relation exercises.
func Shift(p Parsed, k int) (Parsed, bool) {
	if k == 0 {
		return p, true
	}
	m := p.Module
	m.Text = strings.Repeat("\n", k) + m.Text
	return parseAs(p.Name, m)
}

// Lines is the line table as the property defines it (independent of regal's code): CRLF normalised,
// split on LF.
func Lines(text string) []string {
	return strings.Split(strings.ReplaceAll(text, "\r\n", "\n"), "\n")
}

// Outcome of one Lint call over a batch.
type Outcome struct {
	Report  *report.Report
	Err     string
	Timeout bool
	Millis  int64
}

// LintBatch lints the modules in ONE linter.Lint call with every rule enabled.
func LintBatch(mods []Parsed, timeout time.Duration) (out Outcome) {
	fc := map[string]string{}
	ms := map[string]*ast.Module{}
	for _, p := range mods {
		fc[p.Name] = p.Text
		ms[p.Name] = p.AST
	}
	in := rules.NewInput(fc, ms)
	ctx, cancel := context.WithTimeout(context.Background(), timeout)
	defer cancel()
	t0 := time.Now()
	defer func() {
		out.Millis = time.Since(t0).Milliseconds()
		if r := recover(); r != nil {
			out.Err = fmt.Sprintf("panic: %v", r)
		}
	}()
	rep, err := linter.NewLinter().WithEnableAll(true).WithInputModules(&in).Lint(ctx)
	if err != nil {
		out.Err = err.Error()
		if ctx.Err() != nil {
			out.Timeout = true
		}
		return out
	}
	out.Report = &rep
	return out
}

// Failure is a module (set) on which Lint returned an error / timed out, after bisection.
type Failure struct {
	Key     string   `json:"key"`
	Modules []Module `json:"modules"` // minimal failing subset found (usually one module)
	Err     string   `json:"err"`
	Timeout bool     `json:"timeout"`
}

// Bisect narrows a failing batch down to a smallest failing subset (1-minimal with respect to removing
// halves, then single modules).
func Bisect(mods []Parsed, timeout time.Duration) Failure {
	cur := mods
	out := LintBatch(cur, timeout)
	if out.Err == "" {
		return Failure{}
	}
	for len(cur) > 1 {
		half := len(cur) / 2
		a, b := cur[:half], cur[half:]
		if o := LintBatch(a, timeout); o.Err != "" {
			cur, out = a, o
			continue
		}
		if o := LintBatch(b, timeout); o.Err != "" {
			cur, out = b, o
			continue
		}
		// needs modules of both halves: drop single modules while the failure persists
		changed := true
		for changed && len(cur) > 1 {
			changed = false
			for i := range cur {
				rest := append(append([]Parsed{}, cur[:i]...), cur[i+1:]...)
				if o := LintBatch(rest, timeout); o.Err != "" {
					cur, out, changed = rest, o, true
					break
				}
			}
		}
		break
	}
	f := Failure{Err: out.Err, Timeout: out.Timeout}
	for _, p := range cur {
		f.Modules = append(f.Modules, p.Module)
	}
	return f
}

// ErrClass canonicalises an error message: error code / first stable words, no locations.
func ErrClass(e string) string {
	for _, k := range []string{"eval_conflict_error", "eval_type_error", "eval_builtin_error", "eval_internal_error",
		"eval_cancel_error", "object insert conflict", "panic", "context cancelled", "context deadline exceeded",
		"JSON rountrip failed", "expected 1 item in resultset", "failed to transform input value"} {
		if strings.Contains(e, k) {
			return k
		}
	}
	if len(e) > 60 {
		return e[:60]
	}
	return e
}

var reEval = regexp.MustCompile(`(/regal/[^: ]+\.rego):\d+: (eval_\w+): ([^\n]{0,80})`)

// FailureKey is the canonical signature of a lint failure: error code + the bundle file of the rule that
// raised it (no line numbers, no input-dependent text), or the failing phase for Go-side errors.
func FailureKey(e string) string {
	if m := reEval.FindStringSubmatch(e); m != nil {
		msg := m[3]
		if i := strings.IndexAny(msg, "\"`"); i >= 0 {
			msg = msg[:i]
		}
		return m[2] + " " + m[1] + ": " + strings.TrimSpace(msg)
	}
	if strings.Contains(e, "strconv.ParseFloat") && strings.Contains(e, "value out of range") {
		return "transform: number literal outside float64 range (JSON round trip of the module)"
	}
	if strings.Contains(e, "worker made no progress") {
		return "hang"
	}
	if strings.Contains(e, "worker crashed") {
		if i := strings.Index(e, "panic:"); i >= 0 {
			l := e[i:]
			if j := strings.Index(l, "\n"); j >= 0 {
				l = l[:j]
			}
			return clipTo(l, 120)
		}
		return "worker crashed"
	}
	return ErrClass(e)
}

func clipTo(s string, n int) string {
	if len(s) > n {
		return s[:n]
	}
	return s
}

// MinimiseText deletes lines (chunks, then single lines) of a single failing module while the module still
// parses and the predicate still fails.
func MinimiseText(m Module, fails func(Parsed) bool, budget int) Module {
	lines := strings.Split(m.Text, "\n")
	try := func(ls []string) bool {
		if budget <= 0 {
			return false
		}
		budget--
		mm := m
		mm.Text = strings.Join(ls, "\n")
		p, ok := Parse(mm)
		return ok && fails(p)
	}
	for chunk := len(lines) / 2; chunk >= 1; chunk /= 2 {
		for i := 0; i+chunk <= len(lines); {
			cand := append(append([]string{}, lines[:i]...), lines[i+chunk:]...)
			if len(cand) > 0 && try(cand) {
				lines = cand
			} else {
				i += chunk
			}
		}
	}
	m.Text = strings.Join(lines, "\n")
	return m
}
