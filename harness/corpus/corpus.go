// Package corpus: the module corpora shared by the C03 (linting is total) and C07 (locations) checks,
// and the batch runner that lints them through the public API of regal (linter.Linter.Lint) with all
// rules enabled.
//
//	(a) the regal bundle's own .rego files            (LoadBundle)
//	(b) modules of the OPA conformance corpus (YAML)  (LoadOPA)
//	(c) grammar-generated modules and mutations       (gen.go)
//
// A module that OPA's own parser accepts neither as Rego v1 nor as v0 (see InDomain: the oracle is independent
// of regal's version detection) is outside the domain of both properties and only counted; one that OPA accepts
// and regal fails to parse is a failure.
package corpus

import (
	"context"
	"crypto/sha1"
	"encoding/hex"
	"fmt"
	"os"
	"path/filepath"
	"regexp"
	"sort"
	"strings"
	"time"

	"gopkg.in/yaml.v3"

	"github.com/open-policy-agent/opa/v1/ast"

	"github.com/styrainc/regal/pkg/linter"
	"github.com/styrainc/regal/pkg/report"
	"github.com/styrainc/regal/pkg/rules"
)

// Module is one corpus entry. Name is the file name it is linted under (unique inside a batch).
type Module struct {
	Name string `json:"name"`
	Text string `json:"text"`
	Src  string `json:"src"` // provenance: bundle:<path> | opa:<yaml>#<case>#<i> | gen:<kind>:<n> | mut:<kind>:<base src>
}

func (m Module) Hash() string {
	h := sha1.Sum([]byte(m.Text))
	return hex.EncodeToString(h[:6])
}

// LoadBundle returns every .rego file under <repo>/bundle (rules, tests, framework packages).
func LoadBundle(repo string) []Module {
	var res []Module
	root := filepath.Join(repo, "bundle")
	_ = filepath.Walk(root, func(p string, info os.FileInfo, err error) error {
		if err != nil || info.IsDir() || !strings.HasSuffix(p, ".rego") {
			return nil
		}
		bs, err := os.ReadFile(p)
		if err != nil {
			return nil
		}
		rel, _ := filepath.Rel(repo, p)
		res = append(res, Module{Name: rel, Text: string(bs), Src: "bundle:" + rel})
		return nil
	})
	sort.Slice(res, func(i, j int) bool { return res[i].Name < res[j].Name })
	return res
}

type yamlCases struct {
	Cases []struct {
		Note    string   `yaml:"note"`
		Modules []string `yaml:"modules"`
	} `yaml:"cases"`
}

// LoadOPA extracts the `modules:` of every case of the OPA conformance corpus, de-duplicated by text.
func LoadOPA(dir string) (mods []Module, files int) {
	seen := map[string]bool{}
	var paths []string
	_ = filepath.Walk(dir, func(p string, info os.FileInfo, err error) error {
		if err == nil && !info.IsDir() && strings.HasSuffix(p, ".yaml") {
			paths = append(paths, p)
		}
		return nil
	})
	sort.Strings(paths)
	for _, p := range paths {
		bs, err := os.ReadFile(p)
		if err != nil {
			continue
		}
		var yc yamlCases
		if err := yaml.Unmarshal(bs, &yc); err != nil {
			continue
		}
		files++
		rel, _ := filepath.Rel(dir, p)
		for ci, c := range yc.Cases {
			for mi, m := range c.Modules {
				if seen[m] {
					continue
				}
				seen[m] = true
				mods = append(mods, Module{Text: m, Src: fmt.Sprintf("opa:%s#%d#%d", rel, ci, mi)})
			}
		}
	}
	for i := range mods {
		mods[i].Name = fmt.Sprintf("opa/m%05d.rego", i)
	}
	return mods, files
}

// Parsed is a module regal's parser accepted.
type Parsed struct {
	Module
	AST *ast.Module
}

// ---- the domain of the properties: "any module the parser accepts (as Rego v1 or v0)" -----------------------
//
// The oracle for "parses" is OPA's own parser, tried as v1 and as v0 with OPA's own capabilities — independent
// of regal's version detection (internal/parse), which is part of the code under test: a module OPA accepts
// that regal fails to parse is a violation of C03 (the run is lost for every file), not "outside the domain".
//
// A file's version is either detected by regal (plain names) or configured: the directories CfgV0Dir / CfgV1Dir
// stand for project roots with `rego-version: 0` / `1` (the versions map every entry point hands to the parser),
// and regal's own convention `*_v0.rego`. For a configured version the oracle is OPA's parser in that version.

const (
	CfgV0Dir = "/cfg-v0"
	CfgV1Dir = "/cfg-v1"
)

var cfgVersions = map[string]ast.RegoVersion{CfgV0Dir: ast.RegoV0, CfgV1Dir: ast.RegoV1}

var oracleCaps = ast.CapabilitiesForThisVersion()

// ConfiguredVersion: the Rego version a file name is configured for ("" = regal has to detect it).
func ConfiguredVersion(name string) string {
	switch {
	case strings.HasPrefix(name, CfgV0Dir+"/"):
		return "v0"
	case strings.HasPrefix(name, CfgV1Dir+"/"):
		return "v1"
	case strings.HasSuffix(name, "_v0.rego"):
		return "v0"
	}
	return ""
}

func oracleParses(name, text string, v ast.RegoVersion) (ok bool) {
	defer func() {
		if r := recover(); r != nil {
			ok = false
		}
	}()
	_, err := ast.ParseModuleWithOpts(name, text, ast.ParserOptions{ProcessAnnotation: true, RegoVersion: v, Capabilities: oracleCaps})
	return err == nil
}

// OracleVersions: under which versions OPA's parser accepts the text.
func OracleVersions(name, text string) (v1, v0 bool) {
	return oracleParses(name, text, ast.RegoV1), oracleParses(name, text, ast.RegoV0)
}

// InDomain: the module is one "the parser accepts": under its configured version, or else as v1 or v0.
// The second result names the accepting version(s): "v1", "v0", "v1+v0".
func InDomain(m Module) (bool, string) {
	v1, v0 := OracleVersions(m.Name, m.Text)
	which := ""
	switch {
	case v1 && v0:
		which = "v1+v0"
	case v1:
		which = "v1"
	case v0:
		which = "v0"
	}
	switch ConfiguredVersion(m.Name) {
	case "v0":
		return v0, which
	case "v1":
		return v1, which
	}
	return v1 || v0, which
}

// Parse parses the way regal does (rules.InputFromMap with the versions map of the configured directories: version
// detection v1 first, then v0, for every other name).
func Parse(m Module) (Parsed, bool) {
	return parseAs(m.Name, m)
}

func parseAs(name string, m Module) (Parsed, bool) {
	p, err := parseErr(name, m)
	return p, err == ""
}

func parseErr(name string, m Module) (p Parsed, errText string) {
	defer func() {
		if r := recover(); r != nil {
			p, errText = Parsed{}, fmt.Sprintf("panic: %v", r)
		}
	}()
	in, err := rules.InputFromMap(map[string]string{name: m.Text}, cfgVersions)
	if err != nil {
		return Parsed{}, err.Error()
	}
	mm := m
	mm.Name = name
	return Parsed{Module: mm, AST: in.Modules[name]}, ""
}

// ParseChecked: regal's parse, and the oracle whenever regal says no. rejected != nil: the module is in the domain
// (OPA's parser accepts it under the configured version, or as v1 or v0) and regal fails to parse it. `which`: the
// version regal parsed the module as ("v1", "v0", "v0+rego.v1"), or the version(s) the oracle accepts.
func ParseChecked(m Module) (p Parsed, ok bool, which string, rejected *Failure) {
	p, e := parseErr(m.Name, m)
	if e == "" {
		switch p.AST.RegoVersion() {
		case ast.RegoV0:
			which = "v0"
		case ast.RegoV0CompatV1:
			which = "v0+rego.v1"
		default:
			which = "v1"
		}
		if cv := ConfiguredVersion(m.Name); cv != "" {
			which += " (configured)"
		}
		return p, true, which, nil
	}
	in, which := InDomain(m)
	if !in {
		return Parsed{}, false, "", nil
	}
	mode := "version detected by regal"
	if cv := ConfiguredVersion(m.Name); cv != "" {
		mode = "version configured: " + cv
		which = cv
	}
	return Parsed{}, false, which, &Failure{Key: "parse: regal rejects a module that OPA's parser accepts as " + which + " (" + mode + ")",
		Modules: []Module{m}, Err: "OPA's parser accepts the module as " + which + "; regal: " + e}
}

// Shift returns the module with k blank lines inserted at the very top (before anything else).
// The text is re-parsed: the parser is part of what the metamorphic relation exercises.
func Shift(p Parsed, k int) (Parsed, bool) {
	if k == 0 {
		return p, true
	}
	m := p.Module
	m.Text = strings.Repeat("\n", k) + m.Text
	return parseAs(p.Name, m)
}

// Lines is the line table as the property defines it (independent of regal's code): CRLF normalised,
// split on LF.
func Lines(text string) []string {
	return strings.Split(strings.ReplaceAll(text, "\r\n", "\n"), "\n")
}

// Outcome of one Lint call over a batch.
type Outcome struct {
	Report  *report.Report
	Err     string
	Timeout bool
	Millis  int64
}

// LintBatch lints the modules in ONE linter.Lint call with every rule enabled.
func LintBatch(mods []Parsed, timeout time.Duration) (out Outcome) {
	return LintBatchRules(mods, timeout, nil)
}

// AllRuleNames: the names of all rules of the bundle under test (what "any subset of rules" ranges over).
func AllRuleNames() []string {
	names, err := linter.NewLinter().WithEnableAll(true).DetermineEnabledRules(context.Background())
	if err != nil {
		return nil
	}
	sort.Strings(names)
	return names
}

// LintBatchRules: ONE linter.Lint call over the modules with every rule enabled (only == nil) or with exactly the
// rules named in `only` enabled (the property quantifies over any subset of rules).
func LintBatchRules(mods []Parsed, timeout time.Duration, only []string) (out Outcome) {
	fc := map[string]string{}
	ms := map[string]*ast.Module{}
	for _, p := range mods {
		fc[p.Name] = p.Text
		ms[p.Name] = p.AST
	}
	in := rules.NewInput(fc, ms)
	ctx, cancel := context.WithTimeout(context.Background(), timeout)
	defer cancel()
	t0 := time.Now()
	defer func() {
		out.Millis = time.Since(t0).Milliseconds()
		if r := recover(); r != nil {
			out.Err = fmt.Sprintf("panic: %v", r)
		}
	}()
	l := linter.NewLinter().WithEnableAll(true)
	if only != nil {
		l = linter.NewLinter().WithDisableAll(true).WithEnabledRules(only...)
	}
	rep, err := l.WithInputModules(&in).Lint(ctx)
	if err != nil {
		out.Err = err.Error()
		if ctx.Err() != nil {
			out.Timeout = true
		}
		return out
	}
	out.Report = &rep
	return out
}

// Failure is a module (set) on which Lint returned an error / timed out, after bisection.
type Failure struct {
	Key     string   `json:"key"`
	Modules []Module `json:"modules"` // minimal failing subset found (usually one module)
	Err     string   `json:"err"`
	Timeout bool     `json:"timeout"`
	// Opt: how the modules have to be linted to see the failure, when not "once, every rule enabled" (large runs,
	// rule subsets); part of the replay
	Opt *BatchOpt `json:"opt,omitempty"`
}

// Bisect narrows a failing batch down to a smallest failing subset (1-minimal with respect to removing
// halves, then single modules).
func Bisect(mods []Parsed, timeout time.Duration) Failure {
	return BisectWith(mods, func(ms []Parsed) Outcome { return LintBatch(ms, timeout) })
}

// BisectWith: Bisect for any way of linting a batch (rule subsets).
func BisectWith(mods []Parsed, LintBatch func([]Parsed) Outcome) Failure {
	cur := mods
	out := LintBatch(cur)
	if out.Err == "" {
		return Failure{}
	}
	for len(cur) > 1 {
		half := len(cur) / 2
		a, b := cur[:half], cur[half:]
		if o := LintBatch(a); o.Err != "" {
			cur, out = a, o
			continue
		}
		if o := LintBatch(b); o.Err != "" {
			cur, out = b, o
			continue
		}
		// needs modules of both halves: drop single modules while the failure persists
		changed := true
		for changed && len(cur) > 1 {
			changed = false
			for i := range cur {
				rest := append(append([]Parsed{}, cur[:i]...), cur[i+1:]...)
				if o := LintBatch(rest); o.Err != "" {
					cur, out, changed = rest, o, true
					break
				}
			}
		}
		break
	}
	f := Failure{Err: out.Err, Timeout: out.Timeout}
	for _, p := range cur {
		f.Modules = append(f.Modules, p.Module)
	}
	return f
}

// ErrClass canonicalises an error message: error code / first stable words, no locations.
func ErrClass(e string) string {
	for _, k := range []string{"eval_conflict_error", "eval_type_error", "eval_builtin_error", "eval_internal_error",
		"eval_cancel_error", "object insert conflict", "panic", "context cancelled", "context deadline exceeded",
		"JSON rountrip failed", "expected 1 item in resultset", "failed to transform input value"} {
		if strings.Contains(e, k) {
			return k
		}
	}
	if len(e) > 60 {
		return e[:60]
	}
	return e
}

var reEval = regexp.MustCompile(`(/regal/[^: ]+\.rego):\d+: (eval_\w+): ([^\n]{0,80})`)

// FailureKey is the canonical signature of a lint failure: error code + the bundle file of the rule that
// raised it (no line numbers, no input-dependent text), or the failing phase for Go-side errors.
func FailureKey(e string) string {
	if m := reEval.FindStringSubmatch(e); m != nil {
		msg := m[3]
		if i := strings.IndexAny(msg, "\"`"); i >= 0 {
			msg = msg[:i]
		}
		return m[2] + " " + m[1] + ": " + strings.TrimSpace(msg)
	}
	if strings.Contains(e, "strconv.ParseFloat") && strings.Contains(e, "value out of range") {
		return "transform: number literal outside float64 range (JSON round trip of the module)"
	}
	if strings.Contains(e, "worker made no progress") {
		return "hang"
	}
	if strings.Contains(e, "worker crashed") {
		if strings.Contains(e, "WARNING: DATA RACE") {
			return raceKey(e)
		}
		if i := strings.Index(e, "fatal error:"); i >= 0 && (strings.Index(e, "panic:") < 0 || i < strings.Index(e, "panic:")) {
			// runtime fatals (concurrent map writes, all goroutines asleep, stack overflow) are not panics: nothing recovers them
			l := e[i:]
			if j := strings.Index(l, "\n"); j >= 0 {
				l = l[:j]
			}
			return clipTo(l, 120)
		}
		if i := strings.Index(e, "panic:"); i >= 0 {
			l := e[i:]
			if j := strings.Index(l, "\n"); j >= 0 {
				l = l[:j]
			}
			return clipTo(l, 120)
		}
		return "worker crashed"
	}
	return ErrClass(e)
}

var reRaceFrame = regexp.MustCompile(`(?m)^  (github\.com/styrainc/regal/[^\s(]+)`)

// raceKey: signature of a race detector report — the first functions of the code under test on the two stacks
// (no line numbers, no goroutine ids).
func raceKey(e string) string {
	i := strings.Index(e, "WARNING: DATA RACE")
	var fs []string
	for _, m := range reRaceFrame.FindAllStringSubmatch(e[i:], -1) {
		f := strings.TrimPrefix(m[1], "github.com/styrainc/regal/")
		if len(fs) == 0 || fs[len(fs)-1] != f {
			fs = append(fs, f)
		}
		if len(fs) == 2 {
			break
		}
	}
	return clipTo("data race: "+strings.Join(fs, " / "), 160)
}

func clipTo(s string, n int) string {
	if len(s) > n {
		return s[:n]
	}
	return s
}

// MinimiseRaw deletes lines (chunks, then single lines) of a module text while the predicate on the TEXT holds
// (for failures before a module is parsed by regal).
func MinimiseRaw(m Module, holds func(Module) bool, budget int) Module {
	lines := strings.Split(m.Text, "\n")
	try := func(ls []string) bool {
		if budget <= 0 {
			return false
		}
		budget--
		mm := m
		mm.Text = strings.Join(ls, "\n")
		return holds(mm)
	}
	for chunk := len(lines) / 2; chunk >= 1; chunk /= 2 {
		for i := 0; i+chunk <= len(lines); {
			cand := append(append([]string{}, lines[:i]...), lines[i+chunk:]...)
			if len(cand) > 0 && try(cand) {
				lines = cand
			} else {
				i += chunk
			}
		}
	}
	m.Text = strings.Join(lines, "\n")
	return m
}

// MinimiseText deletes lines (chunks, then single lines) of a single failing module while the module still
// parses and the predicate still fails.
func MinimiseText(m Module, fails func(Parsed) bool, budget int) Module {
	lines := strings.Split(m.Text, "\n")
	try := func(ls []string) bool {
		if budget <= 0 {
			return false
		}
		budget--
		mm := m
		mm.Text = strings.Join(ls, "\n")
		p, ok := Parse(mm)
		return ok && fails(p)
	}
	for chunk := len(lines) / 2; chunk >= 1; chunk /= 2 {
		for i := 0; i+chunk <= len(lines); {
			cand := append(append([]string{}, lines[:i]...), lines[i+chunk:]...)
			if len(cand) > 0 && try(cand) {
				lines = cand
			} else {
				i += chunk
			}
		}
	}
	m.Text = strings.Join(lines, "\n")
	return m
}
