package corpus

import (
	"fmt"
	"regexp"
	"strings"

	"verifharness/hutil"
)

// Parseable-but-not-compilable modules (corpus (c), family "uncompilable").
//
// Regal lints whatever PARSES: ast.ParseModule does no name resolution, no safety / recursion / type / arity
// checks, no duplicate-import or rule-conflict checks — those belong to the compiler, which regal never runs
// on linted files. A rule that relies on "the compiler would have refused that" evaluates on such modules
// anyway, and a helper that maps several source constructs to ONE value (imports -> identifier, rules -> name,
// defaults -> name, functions -> arity) meets two values there. The families below enumerate the compiler's
// checks one by one and violate each in every small way, systematically (cross products over small pools),
// not by example.

// ---- imports: every pair over a pool of import forms (both orders where the identifiers collide) --------------------------------------------
//
// identifier collisions (same last component, alias = other import's name, alias = alias, input vs data),
// exact duplicates, bare input/data, wildcard alias, keyword alias, own package, rego.v1 next to
// future.keywords, quoted path components.
var importForms = []string{
	"data.a.foo", "data.b.foo", "data.b.bar as foo", "input.foo", "data.foo", "data.foo as bar", "data.bar",
	"input.bar as foo", "data.foo.bar", "data.x as _", "input", "data", "data.a[\"b c\"] as foo", "rego.v1",
	"future.keywords.if", "data.p", "data.p.foo", "data.foo as if", "data.a.v1",
}

// the identifiers are used the way rules look at imports: as ref heads, negated, called, assigned to, shadowed
const importUsers = `
allow if foo.bar == input.bar

deny contains msg if {
	not bar.ok
	not foo
	msg := sprintf("%v %v", [bar, v1])
}

r := foo.f(1) if {
	foo := 1
	some bar in input.xs
}
`

func importModules() []string {
	var res []string
	ident := func(f string) string {
		if i := strings.Index(f, " as "); i >= 0 {
			return f[i+4:]
		}
		return reLastIdent.FindString(f)
	}
	for i, a := range importForms {
		for j := i; j < len(importForms); j++ {
			b := importForms[j]
			res = append(res, "package p\n\nimport "+a+"\nimport "+b+"\n"+importUsers)
			if i != j && ident(a) == ident(b) {
				// two imports under one identifier: the order decides which one a "first wins" helper sees
				res = append(res, "package p\n\nimport "+b+"\nimport "+a+"\n"+importUsers)
			}
		}
	}
	// three under one identifier, import after the rules, imports only
	res = append(res,
		"package p\n\nimport data.a.foo\nimport data.b.foo\nimport input.foo\nimport data.c.d as foo\n"+importUsers,
		"package p\n\nimport data.a.foo\n"+importUsers+"\nimport data.b.foo\n",
		"package p\n\nimport data.a.foo\nimport data.b.foo\n",
		"package p\n\nimport data.a.foo as x\nimport data.a.foo as y\nimport data.a.foo as x\n\nr := [x, y]\n",
	)
	return res
}

// ---- rules: every unordered pair of rule KINDS under one name -------------------------------------------
//
// complete / conditional / partial set / partial object / function (arities 1, 2, wildcard) / default (two
// values, function default) / ref heads below the name / else chain / test / v0-style `=`.
var ruleKinds = []string{
	"x := 1",
	"x := 2 if input.a",
	"x contains 3",
	"x contains y if some y in input.ys",
	"x[k] := v if some k, v in input.kv",
	"x[\"k\"] := 4",
	"x(a) := a",
	"x(a, b) := a + b",
	"x(_) := 5",
	"default x := 0",
	"default x := 9",
	"default x(_) := 0",
	"default x(_, _) := 1",
	"x.y := 6",
	"x.y.z := 7",
	"x[a].b contains c if some a, c in input.kv",
	"x if input.b",
	"x := 8 if input.c else := 9",
	"x = 10",
	"x.y contains 1",
	"x[1] := 2",
}

const ruleUsers = `
u1 := x

u2 := x[1]

u3 := x(1)

u4 if not x

u5 := x.y

test_u if x with input as {}
`

func ruleKindModules() []string {
	var res []string
	for i, a := range ruleKinds {
		for j := i; j < len(ruleKinds); j++ {
			res = append(res, "package p\n\n"+a+"\n\n"+ruleKinds[j]+"\n"+ruleUsers)
		}
	}
	return res
}

// ---- one module per compiler check, each violated in several small ways --------------------------------
var uncompilableSingles = map[string][]string{
	"unsafe-var": {
		"x := y", "x := [y, z]", "f(a) := b", "p contains z if not q[z]\n\nq contains 1", "x if input[_] == y",
		"x := {k: v}", "x if {\n\ty > 1\n}", "x if not y", "x if {\n\tnot input[y]\n}", "x if count(y) > 0",
		"x := y if z", "p[k] := v", "p contains v", "x if every a in input.xs { a == b }",
		"x := [a | b]", "x if y.z", "f(a) := a if b", "x if {\n\tsome y\n}", "x if {\n\tsome y\n\tnot input[y]\n}",
		"x if input.a with input.b as y",
	},
	"recursion": {
		"x := x", "a := b\n\nb := a", "f(n) := f(n - 1)", "p contains x if p[x]", "x := data.p.x", "x := data.p",
		"a := b\n\nb := c\n\nc := a", "f(n) := g(n)\n\ng(n) := f(n)", "p[k] := v if v := p[k]", "x if not x",
		"x := count(x)", "x := [y | y := x[_]]", "default x := 1\n\nx := x + 1", "x if data.p.x",
		"x := y if {\n\ty := data[\"p\"].x\n}", "x.y := x.z\n\nx.z := x.y",
	},
	"unknown-function-or-ref": {
		"x := nosuch(1)", "x := nosuch.fn(1)", "x := data.nosuch.f(1)", "x := unknown_fn()", "x := input.f(1)",
		"x := data.p.missing", "x if nosuch.a.b.c(1, 2)", "x := count.foo", "x := count", "x := http.send",
		"x := foo.bar", "x := io.jwt.nosuch(\"a\")", "x := regal.nosuch(1)", "x := f(1)", "x := x.y.z(1)",
		"x if nosuch", "x := [nosuch(y) | some y in input.ys]", "x := \"s\"(1)\n", "x := input(1)", "x := data(1)",
	},
	"wrong-arity": {
		"x if count()", "x := count(1, 2, 3)", "x := startswith(\"a\")", "f(x) := x\n\ny := f(1, 2)", "f(x) := x\n\ny := f()",
		"f(x) := x\n\nf(x, y) := x", "f(x) := x\n\nf := 1", "x := sprintf(\"%v\")", "x := concat(\",\")", "x := object.get({})",
		"x := time.now_ns(1)", "x := plus(1)", "x := plus(1, 2, 3, 4)", "x := eq(1)", "x := array.concat([], [], [], [])",
		"x := json.marshal()", "x if print()", "x := walk(input)", "x := walk(input, a, b)", "f() := 1\n\ny := f()",
		"f(x) := x\n\ny := f(1)(2)", "x := count(1)(2)", "x := opa.runtime(1)", "x := rand.intn(\"a\")",
	},
	"assignment-to-taken-name": {
		"import data.foo\n\nx if {\n\tfoo := 1\n\tfoo == 1\n}", "import data.foo\n\nfoo := 1", "import data.foo\n\nfoo contains 1",
		"import data.foo\n\nfoo(a) := a", "import data.foo\n\nx := [foo | some foo in input.xs]", "import data.foo\n\nf(foo) := foo",
		"import data.foo\n\nx if every foo in input.xs { foo }", "import data.foo as bar\n\nx if {\n\tsome bar\n\tinput[bar]\n}",
		"x if {\n\ty := 1\n\ty := 2\n}", "x if {\n\tsome y\n\tsome y\n\tinput[y]\n}", "x if {\n\tinput := 1\n\tinput == 1\n}",
		"x if {\n\tdata := 2\n}", "f(input) := input", "f(data) := data", "f(x, x) := x", "input := 3", "data := 4", "input.x := 1",
		"data.foo := 1", "count := 1", "count(x) := 2", "startswith(a, b) := 1", "print := 1\n\nx if print(1)", "every := 1", "x := 1\n\nf(x) := x",
		"x := 1\n\ny if {\n\tx := 2\n\tx == 2\n}", "x if {\n\ty := 1\n\tsome y in input.xs\n}", "x if {\n\tsome y in input.xs\n\ty := 1\n}",
		"x if {\n\t[y, y] := input.pair\n}", "x if {\n\t_ := 1\n\t_ := 2\n}", "f(x) := y if {\n\tx := 1\n\ty := x\n}",
		"x := y if {\n\ty := 1\n} else := y if {\n\ty := 2\n\ty := 3\n}",
	},
	"conflicting-defaults": {
		"default x := 1\n\ndefault x := 2", "default x := 1\n\ndefault x := 1", "default f(_) := 1\n\ndefault f(_) := 2",
		"default x := 1\n\ndefault x := 2\n\ndefault x := 3\n\nx := 4 if input.a", "default x := [y | y := 1]", "default x := {\"a\": {1, [2]}}",
		"default x.y := 1\n\ndefault x.y := 2", "default f(x) := 1", "default f(1) := 1", "default f(_, _) := 1\n\ndefault f(_) := 2",
		"default x := 1\n\nx contains 2", "default x := 1\n\nx[k] := 2 if some k in input.ks", "default x := 1\n\nx(a) := a",
		"default x := set()\n\ndefault x := []", "default allow := false\n\ndefault allow := true\n\nallow if input.a",
	},
	"with-targets": {
		"x if true with y as 2", "x if input.a with x as 1", "x if input.a with data.p.f as 2\n\nf(a) := a", "x if input.a with count as 2 with count as 3",
		"x if count([]) with count as nosuch", "x if input.a with input as 1 with input as 2", "x if input.a with input.a.b as 1 with input.a as 2",
		"x if input.a with data as {}", "x if input.a with data.p as {}", "x if input.a with data.p.x as 1", "x if input.a with nosuch.fn as 1",
		"x if input.a with http.send as {}", "x if input.a with input[y] as 1", "x if not input.a with input as {} with data.b as y",
	},
	"type-errors": {
		"x := 1 + \"a\"", "x := count(1)", "x if \"a\" > 1", "x := input.x[1][2] == {}", "x if {\n\ty := 1\n\ty.foo\n}", "x := [1][\"a\"]",
		"x := {\"a\": 1}[0][1]", "x := \"s\".foo", "x := 1.foo", "x := null[0]", "x := true.a", "x if 1", "x if \"s\"", "x if null", "x if [] == {}",
		"x := sprintf(1, 2)", "x := startswith(1, 2)", "x := {1} | [2]", "x := -\"a\"", "x if 1 in 2", "x if every a in 1 { a }", "x := [1, 2][true]",
		"x := concat(1, 2)", "x := regex.match(1, 2)", "x := to_number([])", "x := {\"a\": 1}.a.b.c", "x := set()[0]", "x := 1 if 2 else := 3 if \"s\"",
	},
	"head-oddities": {
		"package data\n\nx := 1", "package input\n\nx := 1", "package data.data\n\nx := 1", "p := 1", "p.q := 2\n\np := 1", "a.b := 1\n\na := {\"b\": 2}",
		"a.b.c := 1\n\na.b := 2\n\na := 3", "a[x].b[y] := 1 if some x, y in input.kv", "a[x][x] := 1 if some x in input.xs", "a[1][2][3] contains 4",
		"a[\"b\"].c(x) := x", "a.b(x) := x\n\na.b := 1", "test_f(x) := 1", "test_ := 1", "todo_test_x if false", "test_x.y if true", "x[input.k] := 1",
		"x[data.p.y] := 1\n\ny := 2", "x[[1, 2]] := 3", "x[{\"a\": 1}] := 2", "x[null] := 1\n\nx[null] := 2", "x[_] := 1", "x contains _", "f(_) := _",
		"f([_, _]) := 1", "f({\"a\": _}) := 1", "f(1, \"a\", null, true) := 1", "f(x) := 1\n\nf(1) := 2\n\nf(x) := 3", "f(x) = y if y := x",
		"x := {\"a\": 1, \"a\": 2}", "x := {1, 1}", "x := {\"a\": 1, \"a\": 1}", "x := {k: 1 | some k in [1, 1]}", "x := {1: 2, 1: 3}[1]",
		"x if {\n\tinput.a\n}\n\nx := false", "x := true\n\nx := false", "x := 1\n\nx := 2", "f(1) := 2\n\nf(1) := 3", "x[\"a\"] := 1\n\nx[\"a\"] := 2", "x.a := 1\n\nx[\"a\"] := 2",
		"x if every y in 1 { y }", "x if every _ in [] { true }", "x if every x in x { x }", "x if some x in x", "x if some x, x in input",
		"allow if input.a\n\nallow := true if input.b\n\nallow = false if input.c", "x = y = 1", "x := y := 1", "x if y := z := 1", "x if input.a = input.b = 1",
	},
}

var uncompilableClasses = []string{"unsafe-var", "recursion", "unknown-function-or-ref", "wrong-arity", "assignment-to-taken-name",
	"conflicting-defaults", "with-targets", "type-errors", "head-oddities"}

// UncompilableModules: the systematic families above. Modules that do not parse are dropped by the runner
// (counted as outside the domain).
func UncompilableModules() []Module {
	var res []Module
	add := func(kind string, texts []string) {
		for i, t := range texts {
			if !strings.HasPrefix(t, "package ") {
				t = "package p\n\n" + t
			}
			if !strings.HasSuffix(t, "\n") {
				t += "\n"
			}
			res = append(res, Module{Name: fmt.Sprintf("uncompilable/%s_%03d.rego", kind, i), Text: t, Src: fmt.Sprintf("gen:uncompilable:%s:%d", kind, i)})
		}
	}
	add("imports", importModules())
	add("rule-kinds", ruleKindModules())
	for _, c := range uncompilableClasses {
		add(c, uncompilableSingles[c])
	}
	add("operator-names", operatorNameModules())
	return res
}

// operatorNameModules (round 3): `x = 1` IS eq(x, 1) in the AST, `a + b` is plus(a, b), `x := 1` is assign(x, 1): a rule
// that takes a call apart by the NAME of its operator finds a user-defined rule or function of that name among the
// names of the package (the parser accepts the definition; regal never compiles the linted files). Every infix operator
// name x every kind of definition (plain rule, functions of arity 1, 2 and 3, a ref head) x a body that uses every
// infix operator as sugar, and one that calls the name with 1, 2 and 3 arguments.
func operatorNameModules() []string {
	names := []string{"eq", "assign", "equal", "neq", "gt", "gte", "lt", "lte", "plus", "minus", "mul", "div", "rem", "and", "or"}
	sugar := "r if {\n\tx = 1\n\ty := 2\n\tx == y\n\tx != y\n\tx < y\n\tx <= y\n\tx > y\n\tx >= y\n\tz := ((x + y) - (x * y)) / (x % y)\n\tw := {1} & {2} | {z}\n\tw\n}\n\ns = 1 if input.x = 2\n"
	var res []string
	for _, n := range names {
		defs := []string{
			fmt.Sprintf("%s := 1", n),
			fmt.Sprintf("%s(a) := a", n),
			fmt.Sprintf("%s(a, b) := a if b", n),
			fmt.Sprintf("%s(a, b, c) := a if {\n\tb\n\tc\n}", n),
			fmt.Sprintf("%s.sub(a) := a", n),
		}
		for i, d := range defs {
			res = append(res, d+"\n\n"+sugar)
			if i > 0 {
				res = append(res, fmt.Sprintf("%s\n\nr if {\n\t%s(input.a)\n\t%s(input.a, 2)\n\t%s(input.a, 2, v)\n\tv\n}\n", d, n, n, n))
			}
		}
	}
	return res
}

// ---- the same ideas as mutations of EXISTING modules ----------------------------------------------------

var reImportLine = regexp.MustCompile(`(?m)^import\s+((?:data|input)[^\s#]*)(?:\s+as\s+([A-Za-z_][A-Za-z0-9_]*))?`)
var reHeadName = regexp.MustCompile(`(?m)^([a-z_][A-Za-z0-9_]*)\b`)
var reLastIdent = regexp.MustCompile(`([A-Za-z_][A-Za-z0-9_]*)$`)

var regoWords = map[string]bool{"package": true, "import": true, "default": true, "else": true, "not": true, "some": true, "every": true,
	"if": true, "in": true, "contains": true, "with": true, "as": true, "true": true, "false": true, "null": true}

// importedIdentifiers / headNames read a module text superficially (line starts only): good enough to aim the
// mutations; whatever they produce is parsed by the real parser afterwards.
func importedIdentifiers(t string) []string {
	var ids []string
	for _, m := range reImportLine.FindAllStringSubmatch(t, -1) {
		if m[2] != "" {
			ids = append(ids, m[2])
		} else if l := reLastIdent.FindString(m[1]); l != "" && l != "data" && l != "input" {
			ids = append(ids, l)
		}
	}
	return ids
}

func headNames(t string) []string {
	seen := map[string]bool{}
	var ns []string
	for _, m := range reHeadName.FindAllStringSubmatch(t, -1) {
		if !regoWords[m[1]] && !seen[m[1]] {
			seen[m[1]] = true
			ns = append(ns, m[1])
		}
	}
	return ns
}

// insertAfterPackage puts lines right after the package clause (and the imports that follow it)
func insertImports(t string, lines []string) string {
	ls := strings.Split(t, "\n")
	at := -1
	for i, l := range ls {
		s := strings.TrimSpace(l)
		if strings.HasPrefix(s, "package ") || strings.HasPrefix(s, "import ") {
			at = i
		} else if at >= 0 && s != "" && !strings.HasPrefix(s, "#") {
			break
		}
	}
	if at < 0 {
		return t
	}
	out := append([]string{}, ls[:at+1]...)
	out = append(out, lines...)
	out = append(out, ls[at+1:]...)
	return strings.Join(out, "\n")
}

// mutateShadowImports: add imports that collide with the module's own imports and rule names.
func mutateShadowImports(r *hutil.Rng, t string) string {
	ids := importedIdentifiers(t)
	names := headNames(t)
	var add []string
	pick := func(xs []string) string { return xs[r.Below(len(xs))] }
	for n := 1 + r.Below(3); n > 0; n-- {
		switch {
		case len(ids) > 0 && r.Below(3) != 0:
			id := pick(ids)
			add = append(add, pick([]string{"import data.zz." + id, "import input.zz.qq as " + id, "import input." + id, "import data." + id, "import data.zz[\"y y\"] as " + id}))
		case len(names) > 0:
			nm := pick(names)
			add = append(add, pick([]string{"import data.zz." + nm, "import input.qq as " + nm, "import data.zz." + nm + "\nimport input." + nm}))
		default:
			add = append(add, "import data.zz.foo\nimport input.foo")
		}
	}
	return insertImports(t, add)
}

// mutateDupHeads: append rules of OTHER kinds under names the module already defines (and under imported names).
func mutateDupHeads(r *hutil.Rng, t string) string {
	names := append(headNames(t), importedIdentifiers(t)...)
	if len(names) == 0 {
		return t
	}
	var sb strings.Builder
	sb.WriteString(strings.TrimRight(t, "\r\n") + "\n")
	for n := 1 + r.Below(3); n > 0; n-- {
		nm := names[r.Below(len(names))]
		k := ruleKinds[r.Below(len(ruleKinds))]
		// ruleKinds are written for the name x
		k = regexp.MustCompile(`\bx\b`).ReplaceAllString(k, nm)
		sb.WriteString("\n" + k + "\n")
	}
	return sb.String()
}

// mutateUncompilableBody: append a rule whose body breaks one compiler check while using the module's own names.
func mutateUncompilableBody(r *hutil.Rng, t string) string {
	names := append(headNames(t), importedIdentifiers(t)...)
	nm := "x"
	if len(names) > 0 {
		nm = names[r.Below(len(names))]
	}
	shapes := []string{
		"zz_a if {\n\t%[1]s := 1\n\t%[1]s == 1\n}", "zz_b := %[1]s(1, 2, 3)", "zz_c if %[1]s with %[1]s as 1", "zz_d := zz_unsafe if not %[1]s[zz_unsafe]",
		"zz_e(%[1]s) := %[1]s", "zz_f := [%[1]s | some %[1]s in %[1]s]", "zz_g if every %[1]s in %[1]s { %[1]s }", "zz_h := data.zz.nosuch(%[1]s)",
		"zz_i if {\n\tsome %[1]s\n\tsome %[1]s\n\tinput[%[1]s]\n}", "zz_j := %[1]s.a.b.c + \"s\"", "zz_k := zz_k + %[1]s", "zz_l if not %[1]s\n\nzz_l if not %[1]s.zz",
	}
	return strings.TrimRight(t, "\r\n") + "\n\n" + fmt.Sprintf(shapes[r.Below(len(shapes))], nm) + "\n"
}
