package corpus

import (
	"fmt"
	"strings"

	"verifharness/hutil"
)

// Line breaks (corpus (c), family "line-breaks" + mutation "break-lines").
//
// Rego is free-form between tokens: `foo =` may end a row and the value start the next one, the `if`, the `else`,
// the key, the arguments, the operator of an expression may each stand at the start or the end of a row. `opa fmt`
// joins such rows, so formatted code never shows them — and every helper that derives a column from the TEXT of a
// row (the position of `=`, of `else`, of a keyword; "the text before the value"; ranges of heads) was written
// looking at formatted code. Locations index into lines: a row of the wrong token, an empty prefix, a column 0.
// The family breaks the line at EVERY token boundary of every kind of rule head and body expression (one boundary
// at a time with three indentations of the continuation row, neighbouring pairs, all boundaries; thorough: all pairs
// and triples); the mutation does the same at the operators and keywords of existing modules.

type lbTemplate struct {
	name string
	pre  string   // text before the first token (e.g. the opening of a rule body), ends where the first token starts
	toks []string // a boundary follows every token but the last; a token's leading blank is dropped after a break
	post string   // rest of the module, starts on a new line
	ind  string   // indentation of a continuation row
}

const lbBodyPre = "r if {\n\t"
const lbBodyPost = "}\n"

var lbTemplates = []lbTemplate{
	// ---- heads: the operator, the value, `if`, the body brace
	{"rule-eq", "", []string{"foo", " =", " \"bar\""}, "", "\t"},
	{"rule-assign", "", []string{"foo", " :=", " \"bar\""}, "", "\t"},
	{"rule-eq-body", "", []string{"foo", " =", " \"bar\"", " if", " {", " input.x", " }"}, "", "\t"},
	{"rule-assign-body", "", []string{"foo", " :=", " \"bar\"", " if", " {", " input.x", " }"}, "", "\t"},
	{"rule-eq-if-inline", "", []string{"foo", " =", " 1", " if", " input.x", " ==", " 2"}, "", "\t"},
	{"rule-eq-var", "", []string{"foo", " =", " x", " if", " x", " :=", " 1"}, "", "\t"},
	{"rule-eq-object", "", []string{"foo", " =", " {", "\"a\"", ":", " 1", "}"}, "", "\t"},
	{"rule-eq-array", "", []string{"foo", " =", " [", "1", ",", " 2", "]"}, "", "\t"},
	{"rule-eq-infix", "", []string{"foo", " =", " input.a", " +", " 1"}, "", "\t"},
	{"rule-eq-call", "", []string{"foo", " =", " count(", "input.xs", ")"}, "", "\t"},
	{"rule-eq-string-with-eq", "", []string{"foo[", "\"a=b\"", "]", " =", " \"c=d\""}, "", "\t"},
	{"rule-two-on-a-row", "one := 1 ", []string{"two", " =", " 2"}, "", "\t"},
	{"default-eq", "", []string{"default", " allow", " =", " false"}, "", "\t"},
	{"default-assign", "", []string{"default", " allow", " :=", " false"}, "", "\t"},
	{"default-object", "", []string{"default", " conf", " =", " {", "\"a\"", ":", " [1]", "}"}, "", "\t"},
	{"default-function", "", []string{"default", " f(", "_", ")", " :=", " 1"}, "", "\t"},
	{"default-function-eq", "", []string{"default", " f(", "_", ")", " =", " 1"}, "", "\t"},
	{"function-eq", "", []string{"f(", "a", ",", " b", ")", " =", " a", " if", " {", " a > b", " }"}, "", "\t"},
	{"function-assign", "", []string{"f(", "a", ",", " b", ")", " :=", " a", " if", " {", " a > b", " }"}, "", "\t"},
	{"function-eq-no-body", "", []string{"f(", "a", ")", " =", " a + 1"}, "", "\t"},
	{"function-bool", "", []string{"f(", "a", ")", " if", " a", " ==", " 1"}, "", "\t"},
	{"function-pattern-args", "", []string{"f(", "[", "a", ",", " _", "]", ",", " {", "\"k\"", ":", " b", "}", ")", " =", " a", " if", " b"}, "", "\t"},
	{"object-rule-eq", "", []string{"obj[", "k", "]", " =", " v", " if", " {", " some k, v in input.kv", " }"}, "", "\t"},
	{"object-rule-assign", "", []string{"obj[", "k", "]", " :=", " v", " if", " {", " some k, v in input.kv", " }"}, "", "\t"},
	{"object-rule-const", "", []string{"obj[", "\"k\"", "]", " =", " 1"}, "", "\t"},
	{"ref-head", "", []string{"a.b[", "x", "].c", " :=", " 1", " if", " some x in input.xs"}, "", "\t"},
	{"ref-head-eq", "", []string{"a.b.c", " =", " 1"}, "", "\t"},
	{"set-rule", "", []string{"s", " contains", " x", " if", " {", " some x in input.xs", " }"}, "", "\t"},
	{"set-rule-term", "", []string{"s", " contains", " {", "\"k\"", ":", " v", "}", " if", " v := input.v"}, "", "\t"},
	{"set-rule-no-body", "", []string{"s", " contains", " \"x\""}, "", "\t"},
	{"ref-set-rule", "", []string{"a.s[", "k", "]", " contains", " x", " if", " some k, x in input.kv"}, "", "\t"},
	// ---- else chains
	{"else-eq", "", []string{"foo", " =", " 1", " if", " {", " input.a", " }", " else", " =", " 2", " if", " {", " input.b", " }", " else", " =", " 3"}, "", "\t"},
	{"else-assign", "", []string{"foo", " :=", " 1", " if", " {", " input.a", " }", " else", " :=", " 2", " if", " {", " input.b", " }", " else", " :=", " 3"}, "", "\t"},
	{"else-bare", "", []string{"foo", " if", " {", " input.a", " }", " else", " if", " {", " input.b", " }"}, "", "\t"},
	{"else-inline", "", []string{"foo", " =", " 1", " if", " input.a", " else", " =", " 2", " if", " input.b", " else", " =", " 3"}, "\n", "\t"},
	{"function-else", "", []string{"f(", "x", ")", " =", " 1", " if", " {", " x == 1", " }", " else", " =", " 2", " if", " {", " x == 2", " }", " else", " =", " 3"}, "", "\t"},
	{"function-else-assign", "", []string{"f(", "x", ")", " :=", " \"a\"", " if", " x == 1", " else", " :=", " \"b\""}, "", "\t"},
	// ---- v0 spellings (no `if` / `contains`: these parse as v0 only)
	{"v0-rule-eq", "", []string{"foo", " =", " \"bar\"", " {", " input.x", " }"}, "", "\t"},
	{"v0-function", "", []string{"f(", "x", ")", " =", " y", " {", " y := x", " }"}, "", "\t"},
	{"v0-set", "", []string{"p[", "x", "]", " {", " x := 1", " }"}, "", "\t"},
	{"v0-object", "", []string{"p[", "k", "]", " =", " v", " {", " v := input[k]", " }"}, "", "\t"},
	{"v0-else", "", []string{"foo", " =", " 1", " {", " input.a", " }", " else", " =", " 2", " {", " input.b", " }", " else", " =", " 3"}, "", "\t"},
	{"v0-default", "", []string{"default", " allow", " =", " false", "\n\nallow", " {", " input.x", " }"}, "", "\t"},
	// ---- body expressions
	{"body-assign", lbBodyPre, []string{"x", " :=", " input.a"}, "\tx == 1\n" + lbBodyPost, "\t\t"},
	{"body-unify", lbBodyPre, []string{"x", " =", " input.a"}, "\tx == 1\n" + lbBodyPost, "\t\t"},
	{"body-compare", lbBodyPre, []string{"input.a", " ==", " input.b"}, lbBodyPost, "\t\t"},
	{"body-compare-chain", lbBodyPre, []string{"input.a", " +", " 1", " >=", " input.b", " *", " 2"}, lbBodyPost, "\t\t"},
	{"body-not", lbBodyPre, []string{"not", " input.a", " ==", " 1"}, lbBodyPost, "\t\t"},
	{"body-not-call", lbBodyPre, []string{"not", " startswith(", "input.a", ",", " \"x\"", ")"}, lbBodyPost, "\t\t"},
	{"body-some-in", lbBodyPre, []string{"some", " k", ",", " v", " in", " input.kv"}, "\tk == v\n" + lbBodyPost, "\t\t"},
	{"body-some-decl", lbBodyPre, []string{"some", " i", ",", " j"}, "\tinput.xs[i] == input.ys[j]\n" + lbBodyPost, "\t\t"},
	{"body-every", lbBodyPre, []string{"every", " x", " in", " input.xs", " {", " x", " >", " 1", " }"}, lbBodyPost, "\t\t"},
	{"body-with", lbBodyPre, []string{"input.a", " ==", " 1", " with", " input.a", " as", " 1", " with", " data.b", " as", " 2"}, lbBodyPost, "\t\t"},
	{"body-call-infix", lbBodyPre, []string{"count(", "input.xs", ")", " >", " 0"}, lbBodyPost, "\t\t"},
	{"body-in", lbBodyPre, []string{"\"a\"", " in", " input.xs"}, lbBodyPost, "\t\t"},
	{"body-ref", lbBodyPre, []string{"input.a[", "_", "].b[", "\"k\"", "]"}, lbBodyPost, "\t\t"},
	{"body-yoda", lbBodyPre, []string{"\"x\"", " ==", " input.a"}, lbBodyPost, "\t\t"},
	{"body-semicolons", "r if { ", []string{"input.a", ";", " input.b", ";", " x", " :=", " 1", " }"}, "", "\t"},
	// ---- comprehensions as values
	{"compr-array", "", []string{"xs", " :=", " [", "x", " |", " some x in input.xs", ";", " x", " >", " 1", "]"}, "", "\t"},
	{"compr-set-eq", "", []string{"s", " =", " {", "x", " |", " some x in input.xs", "}"}, "", "\t"},
	{"compr-object-eq", "", []string{"o", " =", " {", "k", ":", " v", " |", " some k, v in input.kv", "}"}, "", "\t"},
	{"compr-in-body", lbBodyPre, []string{"ys", " :=", " {", "y", " |", " y", " :=", " input.ys[_]", "}"}, "\tcount(ys) > 0\n" + lbBodyPost, "\t\t"},
	// ---- package / imports / tests
	{"import-alias", "", []string{"import", " data.foo", " as", " bar"}, "\nx := bar\n", "\t"},
	{"test-with", "", []string{"test_foo", " if", " {", " foo", " ==", " 1", " with", " input", " as", " {}", " }"}, "\nfoo := 1\n", "\t"},
	{"metadata-then-eq", "# METADATA\n# title: t\n", []string{"foo", " =", " 1"}, "", "\t"},
}

// render: state per boundary (after token i, i < n-1): 0 = nothing, 1 = line break + indentation `ind`
func (tp lbTemplate) render(state []int, ind string) string {
	var sb strings.Builder
	sb.WriteString("package p\n\n" + tp.pre)
	broke := false
	for i, tk := range tp.toks {
		if broke {
			tk = strings.TrimLeft(tk, " ")
		}
		sb.WriteString(tk)
		broke = false
		if i < len(tp.toks)-1 && state[i] == 1 {
			sb.WriteString("\n" + ind)
			broke = true
		}
	}
	sb.WriteString("\n" + tp.post)
	return sb.String()
}

// LineBreakModules: every template plain, broken at each single boundary (continuation indented by the template's
// indentation, not at all — the next token in column 1 —, or by four blanks: quick rotates the three over the
// boundaries, deep takes all), at each pair of neighbouring boundaries (quick: templates of at most 9 tokens), at all
// boundaries; deep: every pair and every triple.
func LineBreakModules(deep bool) []Module {
	var res []Module
	seen := map[string]bool{}
	emit := func(tp lbTemplate, state []int, ind, tag string) {
		t := tp.render(state, ind)
		if seen[t] {
			return
		}
		seen[t] = true
		res = append(res, Module{Name: fmt.Sprintf("breaks/%s_%04d.rego", tp.name, len(res)), Text: t,
			Src: fmt.Sprintf("gen:line-breaks:%s:%s", tp.name, tag)})
	}
	for _, tp := range lbTemplates {
		n := len(tp.toks) - 1 // boundaries
		zero := make([]int, n+1)
		emit(tp, zero, tp.ind, "plain")
		for i := 0; i < n; i++ {
			s := append([]int{}, zero...)
			s[i] = 1
			inds := []string{tp.ind, "", tp.ind[:len(tp.ind)-1] + "    "}
			for x, ind := range inds {
				if deep || x == i%3 || (x == 0 && n <= 3) {
					emit(tp, s, ind, fmt.Sprintf("%d:%s", i, []string{"indented", "col1", "blanks"}[x]))
				}
			}
			for j := i + 1; j < n; j++ {
				if !deep && (j != i+1 || n > 8) {
					continue
				}
				s2 := append([]int{}, s...)
				s2[j] = 1
				emit(tp, s2, tp.ind, fmt.Sprintf("%d,%d", i, j))
				if deep {
					for k := j + 1; k < n && n <= 12; k++ {
						s3 := append([]int{}, s2...)
						s3[k] = 1
						emit(tp, s3, tp.ind, fmt.Sprintf("%d,%d,%d", i, j, k))
					}
				}
			}
		}
		all := make([]int, n+1)
		for i := range all {
			all[i] = 1
		}
		emit(tp, all, tp.ind, "all")
		emit(tp, all, "", "all:col1")
	}
	return res
}

// ---- the same as a mutation of existing modules ---------------------------------------------------------

var breakAfterWords = map[string]bool{"if": true, "contains": true, "else": true, "default": true, "in": true, "some": true, "every": true,
	"not": true, "with": true, "as": true, "import": true}

// breakPoints scans Rego text (strings, raw strings and comments respected) and returns the byte offsets right
// after an operator (= := == != < > <= >= + * / | &), a keyword, a comma, a colon or an opening bracket: places
// where the rest of the row can move to the next row without changing the module.
func breakPoints(t string) []int {
	var res []int
	isOp := func(c byte) bool { return strings.IndexByte("=:!<>+*/|&", c) >= 0 }
	isWord := func(c byte) bool {
		return c == '_' || (c >= 'a' && c <= 'z') || (c >= 'A' && c <= 'Z') || (c >= '0' && c <= '9')
	}
	for i := 0; i < len(t); i++ {
		c := t[i]
		switch {
		case c == '"':
			i++
			for i < len(t) && t[i] != '"' && t[i] != '\n' {
				if t[i] == '\\' {
					i++
				}
				i++
			}
		case c == '`':
			i++
			for i < len(t) && t[i] != '`' {
				i++
			}
		case c == '#':
			for i < len(t) && t[i] != '\n' {
				i++
			}
		case isOp(c):
			j := i
			for j < len(t) && isOp(t[j]) {
				j++
			}
			res = append(res, j)
			i = j - 1
		case c == ',' || c == '[' || c == '{' || c == '(':
			res = append(res, i+1)
		case isWord(c):
			j := i
			for j < len(t) && isWord(t[j]) {
				j++
			}
			if breakAfterWords[t[i:j]] && (i == 0 || (t[i-1] != '.' && t[i-1] != '"')) {
				res = append(res, j)
			}
			i = j - 1
		}
	}
	return res
}

// mutateBreakLines moves the rest of the row to the next row at a random non-empty subset of the break points
// (only where something follows on the row).
func mutateBreakLines(r *hutil.Rng, t string) string {
	var bs []int
	for _, p := range breakPoints(t) {
		j := p
		for j < len(t) && (t[j] == ' ' || t[j] == '\t') {
			j++
		}
		if j < len(t) && t[j] != '\n' && t[j] != '\r' && t[j] != '#' {
			bs = append(bs, p)
		}
	}
	if len(bs) == 0 {
		return t
	}
	rate := 2 + r.Below(10)
	chosen := map[int]bool{bs[r.Below(len(bs))]: true}
	for _, p := range bs {
		if r.Below(rate) == 0 {
			chosen[p] = true
		}
	}
	cont := []string{"\t", "", "    ", "\t\t"}[r.Below(4)]
	nl := "\n"
	if strings.Contains(t, "\r\n") {
		nl = "\r\n"
	}
	var sb strings.Builder
	prev := 0
	for _, p := range bs {
		if !chosen[p] {
			continue
		}
		sb.WriteString(t[prev:p])
		j := p
		for j < len(t) && (t[j] == ' ' || t[j] == '\t') {
			j++
		}
		prev = j
		sb.WriteString(nl + lineIndent(t, p) + cont)
	}
	sb.WriteString(t[prev:])
	return sb.String()
}
