// lspshape: go/ast extraction (no type information) for the regenerated obligations of C15 / C17 about
// internal/lsp.  Output: one JSON object on stdout.
//
//	guarded  every risky access of internal/lsp/*.go (non-test) PAIRED with the guards that dominate it:
//	         kind 1 = index with an integer literal (xs[0]), 6 = index with a computed index (base not known to be a
//	         map), 7 = slice expression with a bound other than the literal 0 (x[:n], x[a:b], x[1:]),
//	         3 = explicit pointer dereference (*p).
//	         A guard is the condition of an enclosing `if` (negated in the else branch), the negated condition of a
//	         preceding `if` of an enclosing block whose body always leaves (return / continue / break / panic / goto),
//	         the condition of an enclosing `for`, an enclosing `range` clause or `case` clause - kept when it is
//	         about the site: it mentions the base / pointer expression or a variable of the index / bounds.
//	         `protected` says whether one of them is a LENGTH test of the base (`len(base)` occurs in it, or the index
//	         is the key of an enclosing `range base`), resp. a nil test of the pointer.
//	lintwrites  internal/lsp/lint.go: every write to the cache (cache.Set* / Delete* / Clear*) that follows a call of
//	         the linter (`.Lint(`) in the same function, with its key argument and how the key is known to be still
//	         present in the cache: "range-post" = inside `for k := range X` where X was assigned from
//	         cache.GetAllFiles() AFTER the lint (and the key is k, or the write is under `k == key`),
//	         "range-pre" = the same with a snapshot taken BEFORE the lint, "whole" = no key (whole-map operation),
//	         "none" = unconditional.
//	limiter  internal/lsp/server.go, StartDiagnosticsWorker: the condition of the drop branch (`if C { ...; continue }`)
//	         of the clause receiving from l.lintWorkspaceJobs, translated to a Coq boolean expression over
//	         `aggonly` (job.AggregateReportOnly), `overwrite` (job.OverwriteAggregates) and `qlen`
//	         (len(workspaceLintRuns)); integer constants assigned once in the function are resolved.
//
// usage: lspshape <repo-root>
package main

import (
	"bytes"
	"encoding/json"
	"fmt"
	"go/ast"
	"go/parser"
	"go/printer"
	"go/token"
	"os"
	"path/filepath"
	"regexp"
	"sort"
	"strconv"
	"strings"
)

type Site struct {
	File      string   `json:"file"`
	Func      string   `json:"func"`
	Kind      int      `json:"kind"`
	Expr      string   `json:"expr"`
	Guards    []string `json:"guards"`
	Protected bool     `json:"protected"`
	Line      int      `json:"line"`
}

type LintWrite struct {
	Func   string `json:"func"`
	Method string `json:"method"`
	Key    string `json:"key"`
	Guard  string `json:"guard"`
	Line   int    `json:"line"`
}

type Limiter struct {
	Found        bool   `json:"found"`
	Cond         string `json:"cond"`
	Coq          string `json:"coq"`
	Translatable bool   `json:"translatable"`
	Capacity     int    `json:"capacity"`
	Drops        int    `json:"drops"` // number of drop branches found in the clause
}

type Out struct {
	Guarded    []Site      `json:"guarded"`
	LintWrites []LintWrite `json:"lintwrites"`
	LintFound  bool        `json:"lint_found"`
	Limiter    Limiter     `json:"limiter"`
}

var fset = token.NewFileSet()

func text(n ast.Node) string {
	if n == nil {
		return ""
	}
	var b bytes.Buffer
	_ = printer.Fprint(&b, fset, n)
	return strings.Join(strings.Fields(b.String()), " ")
}

// ---------------------------------------------------------------------------------------------- guards
type fact struct {
	txt    string
	rangeX string // base text of a range clause
	rangeK string // key variable of a range clause
}

func leaves(b *ast.BlockStmt) bool {
	if b == nil || len(b.List) == 0 {
		return false
	}
	switch s := b.List[len(b.List)-1].(type) {
	case *ast.ReturnStmt:
		return true
	case *ast.BranchStmt:
		return s.Tok == token.CONTINUE || s.Tok == token.BREAK || s.Tok == token.GOTO
	case *ast.ExprStmt:
		if c, ok := s.X.(*ast.CallExpr); ok {
			f := text(c.Fun)
			return f == "panic" || f == "os.Exit" || strings.HasSuffix(f, ".Fatal") || strings.HasSuffix(f, ".Fatalf")
		}
	}
	return false
}

func condText(s *ast.IfStmt) string {
	if s.Init != nil {
		return text(s.Init) + "; " + text(s.Cond)
	}
	return text(s.Cond)
}

type walker struct {
	file  string
	fn    string
	maps  map[string]bool // identifiers known to be maps in the current function
	sites []Site
}

var stop = map[string]bool{"len": true, "cap": true, "uint": true, "int": true, "string": true, "nil": true, "true": true,
	"false": true, "strings": true, "bytes": true, "l": true, "ok": true, "err": true, "_": true, "byte": true, "rune": true,
	"uint64": true, "int64": true, "min": true, "max": true}

func idents(n ast.Node) []string {
	seen := map[string]bool{}
	var out []string
	if n == nil {
		return out
	}
	ast.Inspect(n, func(x ast.Node) bool {
		switch e := x.(type) {
		case *ast.SelectorExpr:
			// only the root of a selector chain counts (fields are not variables)
			ast.Inspect(e.X, func(y ast.Node) bool {
				if id, ok := y.(*ast.Ident); ok && !stop[id.Name] && !seen[id.Name] {
					seen[id.Name] = true
					out = append(out, id.Name)
				}
				return true
			})
			return false
		case *ast.Ident:
			if !stop[e.Name] && !seen[e.Name] {
				seen[e.Name] = true
				out = append(out, e.Name)
			}
		}
		return true
	})
	return out
}

func wordIn(word, s string) bool {
	re := regexp.MustCompile(`(^|[^\w.])` + regexp.QuoteMeta(word) + `($|[^\w])`)
	return re.MatchString(s)
}

func (w *walker) record(kind int, n ast.Node, base ast.Expr, idx []ast.Expr, facts []fact) {
	bt := text(base)
	keys := []string{}
	for _, e := range idx {
		keys = append(keys, idents(e)...)
	}
	var guards []string
	prot := false
	for _, f := range facts {
		rel := strings.Contains(f.txt, bt)
		for _, k := range keys {
			if wordIn(k, f.txt) {
				rel = true
			}
		}
		if !rel {
			continue
		}
		guards = append(guards, f.txt)
		switch kind {
		case 1, 6, 7:
			if strings.Contains(f.txt, "len("+bt+")") {
				prot = true
			}
			if f.rangeX == bt && len(idx) == 1 && text(idx[0]) == f.rangeK && f.rangeK != "" {
				prot = true
			}
		case 3:
			if strings.Contains(f.txt, bt+" != nil") || strings.Contains(f.txt, "!("+bt+" == nil") {
				prot = true
			}
		}
	}
	if guards == nil {
		guards = []string{}
	}
	w.sites = append(w.sites, Site{File: w.file, Func: w.fn, Kind: kind, Expr: text(n), Guards: guards, Protected: prot,
		Line: fset.Position(n.Pos()).Line})
}

func isIntLit(e ast.Expr) bool {
	b, ok := e.(*ast.BasicLit)
	return ok && b.Kind == token.INT
}

func isZero(e ast.Expr) bool {
	b, ok := e.(*ast.BasicLit)
	return ok && b.Kind == token.INT && b.Value == "0"
}

// expression walk: records risky accesses, does not descend into type positions
func (w *walker) expr(e ast.Node, facts []fact) {
	if e == nil {
		return
	}
	switch x := e.(type) {
	case *ast.IndexExpr:
		bt := text(x.X)
		_, isStr := x.Index.(*ast.BasicLit)
		if isIntLit(x.Index) {
			w.record(1, x, x.X, []ast.Expr{x.Index}, facts)
		} else if !(isStr || w.maps[bt]) {
			w.record(6, x, x.X, []ast.Expr{x.Index}, facts)
		}
		w.expr(x.X, facts)
		w.expr(x.Index, facts)
	case *ast.SliceExpr:
		var bs []ast.Expr
		risky := false
		for _, b := range []ast.Expr{x.Low, x.High, x.Max} {
			if b != nil {
				bs = append(bs, b)
				if !isZero(b) {
					risky = true
				}
			}
		}
		if risky {
			w.record(7, x, x.X, bs, facts)
		}
		w.expr(x.X, facts)
		for _, b := range bs {
			w.expr(b, facts)
		}
	case *ast.StarExpr:
		w.record(3, x, x.X, nil, facts)
		w.expr(x.X, facts)
	case *ast.CallExpr:
		// conversion to a pointer type: (*T)(x)
		if p, ok := x.Fun.(*ast.ParenExpr); ok {
			if _, ok := p.X.(*ast.StarExpr); ok {
				for _, a := range x.Args {
					w.expr(a, facts)
				}
				return
			}
		}
		// make / new: first argument is a type
		if id, ok := x.Fun.(*ast.Ident); ok && (id.Name == "make" || id.Name == "new") {
			for _, a := range x.Args[1:] {
				w.expr(a, facts)
			}
			return
		}
		w.expr(x.Fun, facts)
		for _, a := range x.Args {
			w.expr(a, facts)
		}
	case *ast.CompositeLit:
		for _, el := range x.Elts {
			w.expr(el, facts)
		}
	case *ast.KeyValueExpr:
		w.expr(x.Key, facts)
		w.expr(x.Value, facts)
	case *ast.FuncLit:
		w.block(x.Body, facts)
	case *ast.TypeAssertExpr:
		w.expr(x.X, facts)
	case *ast.ParenExpr:
		w.expr(x.X, facts)
	case *ast.SelectorExpr:
		w.expr(x.X, facts)
	case *ast.UnaryExpr:
		w.expr(x.X, facts)
	case *ast.BinaryExpr:
		// short-circuit: the right operand of && is evaluated under the left one, of || under its negation
		w.expr(x.X, facts)
		if x.Op == token.LAND {
			w.expr(x.Y, append(append([]fact{}, facts...), fact{txt: text(x.X)}))
		} else if x.Op == token.LOR {
			w.expr(x.Y, append(append([]fact{}, facts...), fact{txt: "!(" + text(x.X) + ")"}))
		} else {
			w.expr(x.Y, facts)
		}
	case *ast.IndexListExpr, *ast.ArrayType, *ast.MapType, *ast.ChanType, *ast.FuncType, *ast.StructType, *ast.InterfaceType,
		*ast.Ident, *ast.BasicLit, *ast.Ellipsis:
	}
}

func (w *walker) noteMaps(lhs []ast.Expr, rhs []ast.Expr) {
	if len(lhs) != len(rhs) {
		return
	}
	for i, r := range rhs {
		id, ok := lhs[i].(*ast.Ident)
		if !ok {
			continue
		}
		switch v := r.(type) {
		case *ast.CallExpr:
			if f, ok := v.Fun.(*ast.Ident); ok && f.Name == "make" && len(v.Args) > 0 {
				if _, ok := v.Args[0].(*ast.MapType); ok {
					w.maps[id.Name] = true
				}
			}
		case *ast.CompositeLit:
			if _, ok := v.Type.(*ast.MapType); ok {
				w.maps[id.Name] = true
			}
		}
	}
}

func (w *walker) stmt(s ast.Stmt, facts []fact) {
	switch x := s.(type) {
	case nil:
	case *ast.BlockStmt:
		w.block(x, facts)
	case *ast.ExprStmt:
		w.expr(x.X, facts)
	case *ast.AssignStmt:
		w.noteMaps(x.Lhs, x.Rhs)
		// `v, ok := m[k]` is a map lookup (two-value form exists only for maps): not risky
		if len(x.Lhs) == 2 && len(x.Rhs) == 1 {
			if ie, ok := x.Rhs[0].(*ast.IndexExpr); ok {
				w.expr(ie.X, facts)
				w.expr(ie.Index, facts)
				return
			}
		}
		for _, e := range x.Lhs {
			w.expr(e, facts)
		}
		for _, e := range x.Rhs {
			w.expr(e, facts)
		}
	case *ast.DeclStmt:
		if g, ok := x.Decl.(*ast.GenDecl); ok {
			for _, sp := range g.Specs {
				if vs, ok := sp.(*ast.ValueSpec); ok {
					if _, ok := vs.Type.(*ast.MapType); ok {
						for _, n := range vs.Names {
							w.maps[n.Name] = true
						}
					}
					for _, v := range vs.Values {
						w.expr(v, facts)
					}
				}
			}
		}
	case *ast.ReturnStmt:
		for _, e := range x.Results {
			w.expr(e, facts)
		}
	case *ast.IfStmt:
		w.stmt(x.Init, facts)
		w.expr(x.Cond, facts)
		c := condText(x)
		w.block(x.Body, append(append([]fact{}, facts...), fact{txt: c}))
		if x.Else != nil {
			w.stmt(x.Else, append(append([]fact{}, facts...), fact{txt: "!(" + c + ")"}))
		}
	case *ast.ForStmt:
		w.stmt(x.Init, facts)
		nf := facts
		if x.Cond != nil {
			w.expr(x.Cond, facts)
			nf = append(append([]fact{}, facts...), fact{txt: "for " + text(x.Cond)})
		}
		w.stmt(x.Post, nf)
		w.block(x.Body, nf)
	case *ast.RangeStmt:
		w.expr(x.X, facts)
		k := text(x.Key)
		t := "range " + text(x.X) + " as " + k
		if x.Value != nil {
			t += ", " + text(x.Value)
		}
		w.block(x.Body, append(append([]fact{}, facts...), fact{txt: t, rangeX: text(x.X), rangeK: k}))
	case *ast.SwitchStmt:
		w.stmt(x.Init, facts)
		w.expr(x.Tag, facts)
		for _, c := range x.Body.List {
			cc := c.(*ast.CaseClause)
			var parts []string
			for _, e := range cc.List {
				w.expr(e, facts)
				parts = append(parts, text(e))
			}
			t := "case " + text(x.Tag) + ": " + strings.Join(parts, ", ")
			if cc.List == nil {
				t = "case " + text(x.Tag) + ": default"
			}
			w.stmts(cc.Body, append(append([]fact{}, facts...), fact{txt: t}))
		}
	case *ast.TypeSwitchStmt:
		w.stmt(x.Init, facts)
		w.stmt(x.Assign, facts)
		for _, c := range x.Body.List {
			w.stmts(c.(*ast.CaseClause).Body, facts)
		}
	case *ast.SelectStmt:
		for _, c := range x.Body.List {
			cc := c.(*ast.CommClause)
			w.stmt(cc.Comm, facts)
			w.stmts(cc.Body, facts)
		}
	case *ast.SendStmt:
		w.expr(x.Chan, facts)
		w.expr(x.Value, facts)
	case *ast.GoStmt:
		w.expr(x.Call, facts)
	case *ast.DeferStmt:
		w.expr(x.Call, facts)
	case *ast.IncDecStmt:
		w.expr(x.X, facts)
	case *ast.LabeledStmt:
		w.stmt(x.Stmt, facts)
	}
}

func (w *walker) block(b *ast.BlockStmt, facts []fact) {
	if b != nil {
		w.stmts(b.List, facts)
	}
}

func (w *walker) stmts(list []ast.Stmt, facts []fact) {
	cur := append([]fact{}, facts...)
	for _, s := range list {
		w.stmt(s, cur)
		if is, ok := s.(*ast.IfStmt); ok && is.Else == nil && leaves(is.Body) {
			cur = append(cur, fact{txt: "!(" + condText(is) + ")"})
		}
	}
}

func guardedSites(dir string) []Site {
	var out []Site
	ents, _ := os.ReadDir(dir)
	var names []string
	for _, e := range ents {
		if !e.IsDir() && strings.HasSuffix(e.Name(), ".go") && !strings.HasSuffix(e.Name(), "_test.go") {
			names = append(names, e.Name())
		}
	}
	sort.Strings(names)
	for _, n := range names {
		f, err := parser.ParseFile(fset, filepath.Join(dir, n), nil, 0)
		if err != nil {
			continue
		}
		for _, d := range f.Decls {
			fd, ok := d.(*ast.FuncDecl)
			if !ok || fd.Body == nil {
				continue
			}
			w := &walker{file: n, fn: fd.Name.Name, maps: map[string]bool{}}
			if fd.Type.Params != nil {
				for _, p := range fd.Type.Params.List {
					if _, ok := p.Type.(*ast.MapType); ok {
						for _, nm := range p.Names {
							w.maps[nm.Name] = true
						}
					}
				}
			}
			w.block(fd.Body, nil)
			out = append(out, w.sites...)
		}
	}
	return out
}

// ---------------------------------------------------------------------------------------------- lint.go
var writeRe = regexp.MustCompile(`^(Set|Delete|Clear|Rename)`)

func lintWrites(path string) ([]LintWrite, bool) {
	f, err := parser.ParseFile(fset, path, nil, 0)
	if err != nil {
		return nil, false
	}
	var out []LintWrite
	for _, d := range f.Decls {
		fd, ok := d.(*ast.FuncDecl)
		if !ok || fd.Body == nil {
			continue
		}
		// position of the first linter call
		lintPos := token.NoPos
		ast.Inspect(fd.Body, func(n ast.Node) bool {
			if c, ok := n.(*ast.CallExpr); ok {
				if s, ok := c.Fun.(*ast.SelectorExpr); ok && s.Sel.Name == "Lint" && lintPos == token.NoPos {
					lintPos = c.Pos()
				}
			}
			return true
		})
		if lintPos == token.NoPos {
			continue
		}
		// variables assigned from cache.GetAllFiles(): name -> position of the assignment
		snap := map[string]token.Pos{}
		ast.Inspect(fd.Body, func(n ast.Node) bool {
			if a, ok := n.(*ast.AssignStmt); ok && len(a.Lhs) == 1 && len(a.Rhs) == 1 {
				if strings.HasSuffix(text(a.Rhs[0]), "ache.GetAllFiles()") {
					snap[text(a.Lhs[0])] = a.Pos()
				}
			}
			return true
		})
		type frame struct {
			key  string
			post bool
		}
		var visit func(n ast.Node, ranges []frame, eqs []string)
		visitList := func(list []ast.Stmt, ranges []frame, eqs []string) {
			for _, s := range list {
				visit(s, ranges, eqs)
			}
		}
		visit = func(n ast.Node, ranges []frame, eqs []string) {
			switch x := n.(type) {
			case nil:
				return
			case *ast.RangeStmt:
				xt := text(x.X)
				fr := frame{}
				if strings.HasSuffix(xt, "ache.GetAllFiles()") {
					fr = frame{key: text(x.Key), post: x.Pos() > lintPos}
				} else if p, ok := snap[xt]; ok {
					fr = frame{key: text(x.Key), post: p > lintPos}
				}
				if fr.key != "" {
					visitList(x.Body.List, append(append([]frame{}, ranges...), fr), eqs)
				} else {
					visitList(x.Body.List, ranges, eqs)
				}
				return
			case *ast.IfStmt:
				visit(x.Init, ranges, eqs)
				visitList(x.Body.List, ranges, append(append([]string{}, eqs...), text(x.Cond)))
				visit(x.Else, ranges, eqs)
				return
			case *ast.BlockStmt:
				visitList(x.List, ranges, eqs)
				return
			case *ast.ForStmt:
				visitList(x.Body.List, ranges, eqs)
				return
			case *ast.FuncLit:
				visitList(x.Body.List, ranges, eqs)
				return
			}
			ast.Inspect(n, func(m ast.Node) bool {
				c, ok := m.(*ast.CallExpr)
				if !ok {
					return true
				}
				s, ok := c.Fun.(*ast.SelectorExpr)
				if !ok || !writeRe.MatchString(s.Sel.Name) || !strings.HasSuffix(strings.ToLower(text(s.X)), "cache") || c.Pos() < lintPos {
					return true
				}
				key := ""
				if len(c.Args) > 1 {
					key = text(c.Args[0])
				}
				g := "none"
				if key == "" {
					g = "whole"
				}
				for _, fr := range ranges {
					hit := fr.key == key
					for _, e := range eqs {
						if e == fr.key+" == "+key || e == key+" == "+fr.key {
							hit = true
						}
					}
					if hit {
						if fr.post {
							g = "range-post"
						} else if g != "range-post" {
							g = "range-pre"
						}
					}
				}
				out = append(out, LintWrite{Func: fd.Name.Name, Method: s.Sel.Name, Key: key, Guard: g, Line: fset.Position(c.Pos()).Line})
				return true
			})
		}
		visitList(fd.Body.List, nil, nil)
	}
	return out, true
}

// ---------------------------------------------------------------------------------------------- limiter
func limiter(path string) Limiter {
	lim := Limiter{}
	f, err := parser.ParseFile(fset, path, nil, 0)
	if err != nil {
		return lim
	}
	for _, d := range f.Decls {
		fd, ok := d.(*ast.FuncDecl)
		if !ok || fd.Body == nil || fd.Name.Name != "StartDiagnosticsWorker" {
			continue
		}
		consts := map[string]int{}
		assigned := map[string]int{}
		ast.Inspect(fd.Body, func(n ast.Node) bool {
			if a, ok := n.(*ast.AssignStmt); ok {
				for i, l := range a.Lhs {
					if id, ok := l.(*ast.Ident); ok {
						assigned[id.Name]++
						if i < len(a.Rhs) && isIntLit(a.Rhs[i]) {
							v, _ := strconv.Atoi(a.Rhs[i].(*ast.BasicLit).Value)
							consts[id.Name] = v
						}
					}
				}
			}
			return true
		})
		// capacity of workspaceLintRuns
		ast.Inspect(fd.Body, func(n ast.Node) bool {
			if a, ok := n.(*ast.AssignStmt); ok && len(a.Lhs) == 1 && text(a.Lhs[0]) == "workspaceLintRuns" {
				if c, ok := a.Rhs[0].(*ast.CallExpr); ok && text(c.Fun) == "make" && len(c.Args) == 2 {
					if isIntLit(c.Args[1]) {
						lim.Capacity, _ = strconv.Atoi(c.Args[1].(*ast.BasicLit).Value)
					} else if v, ok := consts[text(c.Args[1])]; ok && assigned[text(c.Args[1])] == 1 {
						lim.Capacity = v
					}
				}
			}
			return true
		})
		var tr func(e ast.Expr) (string, bool)
		tr = func(e ast.Expr) (string, bool) {
			switch x := e.(type) {
			case *ast.ParenExpr:
				return tr(x.X)
			case *ast.BasicLit:
				if x.Kind == token.INT {
					return x.Value, true
				}
			case *ast.Ident:
				if v, ok := consts[x.Name]; ok && assigned[x.Name] == 1 {
					return strconv.Itoa(v), true
				}
				if x.Name == "true" || x.Name == "false" {
					return x.Name, true
				}
			case *ast.SelectorExpr:
				switch text(x) {
				case "job.AggregateReportOnly":
					return "aggonly", true
				case "job.OverwriteAggregates":
					return "overwrite", true
				}
			case *ast.CallExpr:
				if text(x) == "len(workspaceLintRuns)" {
					return "qlen", true
				}
			case *ast.UnaryExpr:
				if x.Op == token.NOT {
					a, ok := tr(x.X)
					return "(negb " + a + ")", ok
				}
			case *ast.BinaryExpr:
				a, ok1 := tr(x.X)
				b, ok2 := tr(x.Y)
				ok := ok1 && ok2
				switch x.Op {
				case token.LAND:
					return "(andb " + a + " " + b + ")", ok
				case token.LOR:
					return "(orb " + a + " " + b + ")", ok
				case token.GTR:
					return "(N.ltb " + b + " " + a + ")", ok
				case token.GEQ:
					return "(N.leb " + b + " " + a + ")", ok
				case token.LSS:
					return "(N.ltb " + a + " " + b + ")", ok
				case token.LEQ:
					return "(N.leb " + a + " " + b + ")", ok
				case token.EQL:
					return "(N.eqb " + a + " " + b + ")", ok
				case token.NEQ:
					return "(negb (N.eqb " + a + " " + b + "))", ok
				case token.QUO:
					return "(N.div " + a + " " + b + ")", ok
				case token.ADD:
					return "(N.add " + a + " " + b + ")", ok
				case token.SUB:
					return "(N.sub " + a + " " + b + ")", ok
				case token.MUL:
					return "(N.mul " + a + " " + b + ")", ok
				}
			}
			return "true", false
		}
		ast.Inspect(fd.Body, func(n ast.Node) bool {
			cc, ok := n.(*ast.CommClause)
			if !ok || cc.Comm == nil || !strings.Contains(text(cc.Comm), "<-l.lintWorkspaceJobs") {
				return true
			}
			lim.Found = true
			// every `if` of the clause (at any depth) whose body leaves the iteration without forwarding the job
			var conds []string
			var coqs []string
			allok := true
			for _, s := range cc.Body {
				ast.Inspect(s, func(m ast.Node) bool {
					is, ok := m.(*ast.IfStmt)
					if !ok {
						return true
					}
					if leaves(is.Body) && !strings.Contains(text(is.Body), "workspaceLintRuns <-") {
						c, ok := tr(is.Cond)
						if is.Init != nil {
							ok = false
						}
						allok = allok && ok
						conds = append(conds, text(is.Cond))
						coqs = append(coqs, c)
					}
					return true
				})
			}
			lim.Drops = len(conds)
			lim.Cond = strings.Join(conds, " || ")
			lim.Translatable = allok
			switch len(coqs) {
			case 0:
				lim.Coq = "false"
			default:
				lim.Coq = coqs[0]
				for _, c := range coqs[1:] {
					lim.Coq = "(orb " + lim.Coq + " " + c + ")"
				}
			}
			// the job must be forwarded unconditionally otherwise
			if !strings.Contains(text(&ast.BlockStmt{List: cc.Body}), "workspaceLintRuns <- job") {
				lim.Translatable = false
			}
			return false
		})
	}
	return lim
}

func main() {
	if len(os.Args) < 2 {
		fmt.Fprintln(os.Stderr, "usage: lspshape <repo-root>")
		os.Exit(2)
	}
	dir := filepath.Join(os.Args[1], "internal", "lsp")
	out := Out{Guarded: guardedSites(dir)}
	out.LintWrites, out.LintFound = lintWrites(filepath.Join(dir, "lint.go"))
	out.Limiter = limiter(filepath.Join(dir, "server.go"))
	if out.Guarded == nil {
		out.Guarded = []Site{}
	}
	if out.LintWrites == nil {
		out.LintWrites = []LintWrite{}
	}
	b, _ := json.MarshalIndent(out, "", " ")
	fmt.Println(string(b))
}
