// C19 harness: rules needing a capability the target lacks are skipped, never misfire.
// For every target (embedded OPA / EOPA capabilities version, capabilities file, plus / minus edits) it
// loads the configuration the way a user's file is loaded (yaml -> Config.UnmarshalYAML), evaluates
// regal's own capability predicates and every rule's `notices` / `report` directly (bypassing main.rego;
// these are the oracle tables of the model), and runs the real Linter.Lint on trigger policies.
//
//	c19 <out.jsonl> <quick|thorough|replay> <repo-root> <tmp-dir> [cases.json [generated.json]]
//
// generated.json: [{"set": name, "in": CaseIn}] -- targets whose capabilities come from a GENERATED capabilities file
// (capabilities.from.file): tools/props/c19.py derives the capability dimensions the gates read (built-in functions,
// future keywords, features) and asks for every subset of them, which no embedded version and no plus/minus edit
// can produce (minus cannot remove keywords or features).
package main

import (
	"context"
	"crypto/sha256"
	"encoding/hex"
	"encoding/json"
	"fmt"
	"os"
	"path/filepath"
	"runtime"
	"sort"
	"strings"
	"sync"
	"testing/fstest"
	"time"

	"github.com/open-policy-agent/opa/v1/ast"
	"github.com/open-policy-agent/opa/v1/rego"
	"github.com/open-policy-agent/opa/v1/topdown/print"
	"gopkg.in/yaml.v3"

	rbundle "github.com/styrainc/regal/bundle"
	"github.com/styrainc/regal/pkg/builtins"
	"github.com/styrainc/regal/pkg/config"
	"github.com/styrainc/regal/pkg/linter"
	"github.com/styrainc/regal/pkg/report"
	"github.com/styrainc/regal/pkg/rules"
	"github.com/styrainc/roast/pkg/transform"

	"verifharness/hutil"
)

// a Rego v0 module (parsed as v0) and a Rego v1 module that together trigger every gated rule
const v0Policy = `package p

import data.foo
import data.bar.foo

allow {
	input.x
}

deny[msg] {
	msg := "x"
}

y := any([true])

z := true if {
	input.y
}
`

const v1Policy = `package p

import future.keywords

obj if {}

lit if {
	input.x: 10
}

one if {
	input.x
}

n := count(indexof_n("foobarfoo", "foo"))

has_key(map, key) if {
	_ = map[key]
}

s := sprintf("%s %s", [1])

test_one if {
	one
}
`

const helper = `package verif.c19

import data.regal.capabilities

b(x) := true if x

b(x) := false if not x

default p_has_object_keys := false

p_has_object_keys if capabilities.has_object_keys

default p_has_strings_count := false

p_has_strings_count if capabilities.has_strings_count

default p_has_if := false

p_has_if if capabilities.has_if

default p_has_contains := false

p_has_contains if capabilities.has_contains

default p_has_rego_v1_feature := false

p_has_rego_v1_feature if capabilities.has_rego_v1_feature

default p_is_opa_v1 := false

p_is_opa_v1 if capabilities.is_opa_v1

out := {
	"preds": {
		"has_object_keys": p_has_object_keys,
		"has_strings_count": p_has_strings_count,
		"has_if": p_has_if,
		"has_contains": p_has_contains,
		"has_rego_v1_feature": p_has_rego_v1_feature,
		"is_opa_v1": p_is_opa_v1,
	},
	"notices": [n | some c, t; some n in data.regal.rules[c][t].notices],
	"reports": {sprintf("%s/%s", [c, t]): count(data.regal.rules[c][t].report) |
		some c, t
		data.regal.rules[c][t].notices
	},
}
`

type Target struct {
	Engine   string   `json:"engine"` // "" = no capabilities section at all
	Version  string   `json:"version"`
	File     bool     `json:"file"` // load the same version from a capabilities JSON file instead
	Minus    []string `json:"minus"`
	Plus     []string `json:"plus"`      // added with decl {type: function, args: [string, string], result: number}
	PlusBare []string `json:"plus_bare"` // added by name only (no decl)
	// added the way the README writes it: type and result next to decl ({name, type, decl: {args}, result})
	PlusReadme []string `json:"plus_readme"`
	// capabilities.from.file pointing at a generated file: the embedded capabilities of Version (this OPA's when
	// empty) with exactly these future_keywords and features and without these built-in functions
	Gen *GenCaps `json:"gen,omitempty"`
}

type GenCaps struct {
	FutureKeywords  []string `json:"future_keywords"`
	Features        []string `json:"features"`
	WithoutBuiltins []string `json:"without_builtins"`
}

func (t Target) key() string { b, _ := json.Marshal(t); return string(b) }

// FileSpec: which trigger module under which name
type FileSpec struct {
	Name string `json:"name"`
	Kind string `json:"kind"` // "v0" | "v1"
}

type CaseIn struct {
	Target Target     `json:"target"`
	Files  []FileSpec `json:"files"` // empty: function level only
	// gated rules ("category/title") switched off in the configuration (level: ignore): they must neither
	// report nor be listed as skipped
	Disabled []string `json:"disabled"`
	// the other linter options that rewrite or wrap the user configuration before it reaches Rego (nil: none)
	Pipe *Pipe `json:"pipe,omitempty"`
}

// Pipe: linter options crossed with the target. Whatever they are, the capabilities the Rego side sees
// (data.internal.combined_config.capabilities) must be those of the configured target.
type Pipe struct {
	// custom rules loaded: "" none | "fs" WithCustomRulesFromFS (in-memory) | "paths" WithCustomRules (directory on disk) |
	// "file" WithCustomRules (one file) | "fs-configured" in-memory, and the rule's category/title is also in the user config
	Custom string `json:"custom"`
	// user configuration: "" the yaml document with a rules section (as in every other case) | "caps-only" the yaml document
	// with the capabilities section alone | "more" rules + ignore + project + features sections |
	// "nil" no WithUserConfig at all | "empty" WithUserConfig(config.Config{})   (the last two: target without capabilities section)
	Cfg string `json:"cfg"`
	// "" | "enable-all" | "disable-all-enable" (Enable = titles) | "disable-category" (bugs) | "enable-category" (idiomatic, after disable-all) |
	// "disable" (Enable = titles to disable)
	Flags  string   `json:"flags"`
	Enable []string `json:"enable"`
	Prefix bool     `json:"prefix"` // WithPathPrefix(<directory of the files>)
	Input  string   `json:"input"`  // "" WithInputModules | "paths" files written to disk, WithInputPaths
	Debug  bool     `json:"debug"`  // WithDebugMode (GetConfig marshals the merged configuration)
}

type Notice struct {
	Category    string `json:"category"`
	Title       string `json:"title"`
	Description string `json:"description"`
	Level       string `json:"level"`
	Severity    string `json:"severity"`
}

type FnOut struct {
	Preds   map[string]bool `json:"preds"`
	Notices []Notice        `json:"notices"`
	Reports map[string]int  `json:"reports"` // "cat/title" -> number of violations of the rule body itself (no gate)
}

type CaseOut struct {
	ConfigErr string `json:"config_err,omitempty"`
	// capabilities as loaded
	NBuiltins      int      `json:"n_builtins"`
	Builtins       []string `json:"builtins"` // only the interesting names that are present
	FutureKeywords []string `json:"future_keywords"`
	Features       []string `json:"features"`
	PlusDecl       []string `json:"plus_decl"` // decl of each plus builtin as loaded: "name(args)->result"
	// function level, per file kind: "v0", "v1", "stdin"
	Fn    map[string]FnOut `json:"fn"`
	FnErr string           `json:"fn_err,omitempty"`
	// Lint
	LintErr      string         `json:"lint_err,omitempty"`
	Violations   map[string]int `json:"violations"` // "file|cat/title" -> count, gated rules only
	Notices      []Notice       `json:"notices"`
	RulesSkipped int            `json:"rules_skipped"`
	FilesScanned int            `json:"files_scanned"`
	// pipeline cases: the capabilities of the configuration handed to evaluation (GetConfig of the fully configured
	// linter = data.internal.combined_config) next to those of the configured target (fields above)
	Eval *CapsSeen `json:"eval_caps,omitempty"`
	// regal's own capabilities (config.CapabilitiesForThisVersion), for the pipeline cases
	This *CapsSeen `json:"this_caps,omitempty"`
	// the user configuration has a capabilities section (pointer not nil)
	UserHasCaps bool `json:"user_has_caps"`
	// violations of the custom rule loaded through Pipe.Custom (it fires once per file)
	CustomFired int `json:"custom_fired"`
}

type CapsSeen struct {
	NBuiltins      int      `json:"n_builtins"`
	Builtins       []string `json:"builtins"`
	FutureKeywords []string `json:"future_keywords"`
	Features       []string `json:"features"`
}

func capsSeen(c *config.Capabilities) *CapsSeen {
	o := &CapsSeen{Builtins: []string{}, FutureKeywords: []string{}, Features: []string{}}
	if c == nil {
		return o
	}
	o.NBuiltins = len(c.Builtins)
	for _, n := range interesting {
		if _, ok := c.Builtins[n]; ok {
			o.Builtins = append(o.Builtins, n)
		}
	}
	o.FutureKeywords = append(o.FutureKeywords, c.FutureKeywords...)
	o.Features = append(o.Features, c.Features...)
	return o
}

const customRule = `# METADATA
# description: every package is reported (loaded by the C19 harness; nothing to do with capabilities)
package custom.regal.rules.naming["verif-custom-rule"]

import data.regal.result

report contains violation if {
	violation := result.fail(rego.metadata.chain(), result.location(input["package"].path[1]))
}
`

var interesting = []string{"sprintf", "strings.count", "object.keys", "count", "indexof_n", "any", "regex.match"}

func addInteresting(n string) {
	for _, x := range interesting {
		if x == n {
			return
		}
	}
	interesting = append(interesting, n)
}

func must(err error) {
	if err != nil {
		panic(err)
	}
}

type env struct {
	ctx    context.Context
	pq     rego.PreparedEvalQuery
	inputs map[string]ast.Object // per kind
	mods   map[string]*ast.Module
	tmp    string
	gated  map[string]bool
	nDirs  int
}

func parseKind(name, kind string) *ast.Module {
	opts := ast.ParserOptions{ProcessAnnotation: true, RegoVersion: ast.RegoV1}
	text := v1Policy
	if kind == "v0" {
		opts.RegoVersion = ast.RegoV0
		text = v0Policy
	}
	in, err := rules.InputFromTextWithOptions(name, text, opts)
	must(err)
	return in.Modules[name]
}

func textOf(kind string) string {
	if kind == "v0" {
		return v0Policy
	}
	return v1Policy
}

func newEnv(tmp string) *env {
	e := &env{ctx: context.Background(), tmp: tmp, inputs: map[string]ast.Object{}, gated: map[string]bool{}}
	hm, err := ast.ParseModuleWithOpts("verif_helper.rego", helper, ast.ParserOptions{})
	must(err)
	q := `o := data.verif.c19.out with data.internal.combined_config as input.verif.cfg`
	args := append([]func(*rego.Rego){
		rego.ParsedQuery(ast.MustParseBody(q)), rego.StoreReadAST(true),
		rego.ParsedBundle("regal", &rbundle.LoadedBundle), rego.ParsedModule(hm),
	}, builtins.RegalBuiltinRegoFuncs...)
	e.pq, err = rego.New(args...).PrepareForEval(e.ctx)
	must(err)
	for kind, name := range map[string]string{"v0": "q/v0.rego", "v1": "q/v1.rego", "stdin": "stdin"} {
		k := kind
		if kind == "stdin" {
			k = "v1"
		}
		v, err := transform.ToAST(name, textOf(k), parseKind(name, k), false)
		must(err)
		e.inputs[kind] = v.(ast.Object)
	}
	return e
}

func (t Target) yamlDoc(e *env, disabled []string) map[string]any { return t.yamlDocCfg(e, disabled, "", "") }

func (t Target) yamlDocCfg(e *env, disabled []string, cfg, custom string) map[string]any {
	rulesDoc := map[string]any{
		"bugs":   map[string]any{"if-empty-object": map[string]any{"level": "error"}},
		"custom": map[string]any{"one-liner-rule": map[string]any{"level": "error"}},
	}
	for _, d := range disabled {
		ct := strings.SplitN(d, "/", 2)
		cat, _ := rulesDoc[ct[0]].(map[string]any)
		if cat == nil {
			cat = map[string]any{}
		}
		cat[ct[1]] = map[string]any{"level": "ignore"}
		rulesDoc[ct[0]] = cat
	}
	doc := map[string]any{"rules": rulesDoc}
	if custom == "fs-configured" {
		rulesDoc["naming"] = map[string]any{"verif-custom-rule": map[string]any{"level": "warning"}}
	}
	switch cfg {
	case "caps-only":
		doc = map[string]any{}
	case "more":
		doc["ignore"] = map[string]any{"files": []any{"ignored/**"}}
		doc["project"] = map[string]any{"roots": []any{"q"}}
		doc["features"] = map[string]any{"remote": map[string]any{"check-version": false}}
	}
	caps := map[string]any{}
	if t.Gen != nil {
		caps["from"] = map[string]any{"file": e.genCapsFile(t.Version, t.Gen)}
	} else if t.Engine != "" {
		if t.File {
			caps["from"] = map[string]any{"file": e.capsFile(t.Version)}
		} else {
			caps["from"] = map[string]any{"engine": t.Engine, "version": t.Version}
		}
	}
	if len(t.Minus) > 0 {
		var bs []any
		for _, n := range t.Minus {
			bs = append(bs, map[string]any{"name": n})
		}
		caps["minus"] = map[string]any{"builtins": bs}
	}
	if len(t.Plus) > 0 {
		var bs []any
		for _, n := range t.Plus {
			bs = append(bs, map[string]any{"name": n, "decl": map[string]any{
				"type": "function", "args": []any{map[string]any{"type": "string"}, map[string]any{"type": "string"}},
				"result": map[string]any{"type": "number"}}})
		}
		caps["plus"] = map[string]any{"builtins": bs}
	}
	if len(t.PlusReadme) > 0 {
		pl, _ := caps["plus"].(map[string]any)
		if pl == nil {
			pl = map[string]any{"builtins": []any{}}
		}
		bs, _ := pl["builtins"].([]any)
		for _, n := range t.PlusReadme {
			bs = append(bs, map[string]any{"name": n, "type": "function",
				"decl":   map[string]any{"args": []any{map[string]any{"type": "string"}, map[string]any{"type": "string"}}},
				"result": map[string]any{"type": "number"}})
		}
		pl["builtins"] = bs
		caps["plus"] = pl
	}
	if len(t.PlusBare) > 0 {
		pl, _ := caps["plus"].(map[string]any)
		if pl == nil {
			pl = map[string]any{"builtins": []any{}}
		}
		bs, _ := pl["builtins"].([]any)
		for _, n := range t.PlusBare {
			bs = append(bs, map[string]any{"name": n})
		}
		pl["builtins"] = bs
		caps["plus"] = pl
	}
	if len(caps) > 0 {
		doc["capabilities"] = caps
	}
	return doc
}

var capsFileMu sync.Mutex

// capsFile writes OPA's embedded capabilities of a version as a JSON file (the `from.file` way of loading)
func (e *env) capsFile(version string) string {
	capsFileMu.Lock()
	defer capsFileMu.Unlock()
	p := filepath.Join(e.tmp, "caps_"+version+".json")
	if _, err := os.Stat(p); err == nil {
		return p
	}
	c, err := ast.LoadCapabilitiesVersion(version)
	must(err)
	bs, err := json.Marshal(c)
	must(err)
	must(os.WriteFile(p, bs, 0o644))
	return p
}

// genCapsFile writes a capabilities file made from the embedded capabilities of a version: the built-in functions
// without the listed ones, exactly the given future keywords and features
func (e *env) genCapsFile(version string, g *GenCaps) string {
	capsFileMu.Lock()
	defer capsFileMu.Unlock()
	key, _ := json.Marshal([]any{version, g})
	sum := sha256.Sum256(key)
	p := filepath.Join(e.tmp, "gencaps_"+hex.EncodeToString(sum[:8])+".json")
	if _, err := os.Stat(p); err == nil {
		return p
	}
	var base *ast.Capabilities
	if version == "" {
		base = ast.CapabilitiesForThisVersion()
	} else {
		var err error
		base, err = ast.LoadCapabilitiesVersion(version)
		must(err)
	}
	c := *base
	c.Builtins = nil
	for _, b := range base.Builtins {
		drop := false
		for _, n := range g.WithoutBuiltins {
			drop = drop || b.Name == n
		}
		if !drop {
			c.Builtins = append(c.Builtins, b)
		}
	}
	c.FutureKeywords = append([]string{}, g.FutureKeywords...)
	c.Features = append([]string{}, g.Features...)
	bs, err := json.Marshal(&c)
	must(err)
	must(os.WriteFile(p, bs, 0o644))
	return p
}

func toNotices(x any) []Notice {
	out := []Notice{}
	arr, _ := x.([]any)
	for _, it := range arr {
		m, _ := it.(map[string]any)
		s := func(k string) string { v, _ := m[k].(string); return v }
		out = append(out, Notice{s("category"), s("title"), s("description"), s("level"), s("severity")})
	}
	sortNotices(out)
	return out
}

func sortNotices(ns []Notice) {
	sort.Slice(ns, func(i, j int) bool {
		a, _ := json.Marshal(ns[i])
		b, _ := json.Marshal(ns[j])
		return string(a) < string(b)
	})
}

// loaded: a case after its configuration was loaded (phase 1, one case after the other in job order: loading edits
// capabilities maps, and whatever one load leaves behind for the next is then the same in every run)
type loaded struct {
	uc   config.Config
	o    CaseOut
	done bool // nothing to evaluate (the configuration did not load)
}

func (e *env) loadCase(c *CaseIn) (l loaded) {
	defer func() {
		if r := recover(); r != nil {
			l.o.ConfigErr = fmt.Sprintf("panic: %v", r)
			l.done = true
		}
	}()
	l.uc, l.o, l.done = e.loadConfig(c)
	return l
}

func (e *env) loadConfig(c *CaseIn) (uc config.Config, o CaseOut, done bool) {
	pipe := Pipe{}
	if c.Pipe != nil {
		pipe = *c.Pipe
	}
	bs, err := json.Marshal(c.Target.yamlDocCfg(e, c.Disabled, pipe.Cfg, pipe.Custom))
	must(err)
	switch pipe.Cfg {
	case "nil", "empty":
		// no configuration file at all: the configured target is this version's capabilities
		uc = config.Config{}
		def := config.CapabilitiesForThisVersion()
		o.NBuiltins = len(def.Builtins)
		for _, n := range interesting {
			if _, ok := def.Builtins[n]; ok {
				o.Builtins = append(o.Builtins, n)
			}
		}
		o.FutureKeywords = append([]string{}, def.FutureKeywords...)
		o.Features = append([]string{}, def.Features...)
	default:
		if err := yaml.Unmarshal(bs, &uc); err != nil {
			o.ConfigErr = err.Error()
			return uc, o, true
		}
	}
	if uc.Capabilities != nil {
		o.NBuiltins = len(uc.Capabilities.Builtins)
		for _, n := range interesting {
			if _, ok := uc.Capabilities.Builtins[n]; ok {
				o.Builtins = append(o.Builtins, n)
			}
		}
		for _, n := range append(append(append([]string{}, c.Target.Plus...), c.Target.PlusReadme...), c.Target.PlusBare...) {
			if b, ok := uc.Capabilities.Builtins[n]; ok && b != nil {
				o.PlusDecl = append(o.PlusDecl, fmt.Sprintf("%s(%s)->%s", n, strings.Join(b.Decl.Args, ","), b.Decl.Result))
			} else {
				o.PlusDecl = append(o.PlusDecl, n+" MISSING")
			}
		}
		o.FutureKeywords = append([]string{}, uc.Capabilities.FutureKeywords...)
		o.Features = append([]string{}, uc.Capabilities.Features...)
	}
	return uc, o, false
}

// runCase: phase 2, in parallel
func (e *env) runCase(c *CaseIn, ld loaded) (o CaseOut) {
	o = ld.o
	if ld.done {
		return o
	}
	defer func() {
		if r := recover(); r != nil {
			o.ConfigErr = fmt.Sprintf("panic: %v", r)
		}
	}()
	uc := ld.uc
	pipe := Pipe{}
	if c.Pipe != nil {
		pipe = *c.Pipe
	}
	// the reference: the configured target alone, no other option (rule bodies are evaluated under ITS merged configuration)
	base := linter.NewLinter()
	if pipe.Cfg != "nil" {
		base = base.WithUserConfig(uc)
	}
	merged, err := base.GetConfig()
	if err != nil {
		o.ConfigErr = "merge: " + err.Error()
		return o
	}
	cv, err := transform.ToOPAInputValue(config.ToMap(*merged))
	must(err)
	verif := ast.ObjectTerm(ast.Item(ast.StringTerm("cfg"), ast.NewTerm(cv)))
	o.Fn = map[string]FnOut{}
	for kind, baseIn := range e.inputs {
		in := ast.NewObject()
		baseIn.Foreach(func(k, v *ast.Term) { in.Insert(k, v) })
		in.Insert(ast.StringTerm("verif"), verif)
		rs, err := e.pq.Eval(e.ctx, rego.EvalParsedInput(in))
		if err != nil || len(rs) != 1 {
			o.FnErr = fmt.Sprintf("%s: %v (%d results)", kind, err, len(rs))
			continue
		}
		r := rs[0].Bindings["o"].(map[string]any)
		fo := FnOut{Preds: map[string]bool{}, Reports: map[string]int{}}
		for k, v := range r["preds"].(map[string]any) {
			fo.Preds[k], _ = v.(bool)
		}
		fo.Notices = toNotices(r["notices"])
		for k, v := range r["reports"].(map[string]any) {
			n, _ := v.(json.Number)
			i, _ := n.Int64()
			fo.Reports[k] = int(i)
		}
		o.Fn[kind] = fo
	}
	if len(c.Files) == 0 {
		return o
	}
	gatedTitles := map[string]string{}
	for _, fo := range o.Fn {
		for k := range fo.Reports {
			ct := strings.SplitN(k, "/", 2)
			gatedTitles[ct[1]] = ct[0]
		}
	}
	content := map[string]string{}
	mods := map[string]*ast.Module{}
	for _, f := range c.Files {
		content[f.Name] = textOf(f.Kind)
		mods[f.Name] = parseKind(f.Name, f.Kind)
	}
	input := rules.NewInput(content, mods)
	l := base
	nameOf := func(file string) string { return file }
	if c.Pipe != nil {
		var dir string
		l, dir, err = e.piped(base, pipe, c.Files, &input)
		if err != nil {
			o.LintErr = "pipeline set-up: " + err.Error()
			return o
		}
		nameOf = func(file string) string {
			// files linted from disk are reported with the path given (or relative to the prefix)
			file = strings.TrimPrefix(strings.TrimPrefix(file, dir), "/")
			return file
		}
		ec, err := l.GetConfig()
		if err != nil {
			o.LintErr = "GetConfig of the configured linter: " + err.Error()
			return o
		}
		o.Eval = capsSeen(ec.Capabilities)
		o.This = capsSeen(config.CapabilitiesForThisVersion())
		o.UserHasCaps = uc.Capabilities != nil
	} else {
		l = base.WithInputModules(&input)
	}
	rep, err := l.Lint(e.ctx)
	if err != nil {
		o.LintErr = err.Error()
		return o
	}
	o.Violations = map[string]int{}
	for _, v := range rep.Violations {
		if cat, ok := gatedTitles[v.Title]; ok && cat == v.Category {
			o.Violations[nameOf(v.Location.File)+"|"+v.Category+"/"+v.Title]++
		}
		if v.Title == "verif-custom-rule" {
			o.CustomFired++
		}
	}
	o.Notices = []Notice{}
	for _, n := range rep.Notices {
		o.Notices = append(o.Notices, fromReportNotice(n))
	}
	o.RulesSkipped = rep.Summary.RulesSkipped
	o.FilesScanned = rep.Summary.FilesScanned
	return o
}

// piped applies the other linter options of a pipeline case; files linted from disk are written below a fresh directory
func (e *env) piped(base linter.Linter, p Pipe, files []FileSpec, input *rules.Input) (linter.Linter, string, error) {
	l := base
	dir := ""
	if p.Input == "paths" || p.Prefix || p.Custom == "paths" || p.Custom == "file" {
		capsFileMu.Lock()
		e.nDirs++
		dir = filepath.Join(e.tmp, fmt.Sprintf("pipe_%d", e.nDirs))
		capsFileMu.Unlock()
		if err := os.MkdirAll(dir, 0o755); err != nil {
			return l, dir, err
		}
	}
	switch p.Custom {
	case "fs", "fs-configured":
		l = l.WithCustomRulesFromFS(fstest.MapFS{"rules/naming.rego": &fstest.MapFile{Data: []byte(customRule)}}, ".")
	case "paths", "file":
		rd := filepath.Join(dir, "custom_rules", "naming")
		if err := os.MkdirAll(rd, 0o755); err != nil {
			return l, dir, err
		}
		if err := os.WriteFile(filepath.Join(rd, "rule.rego"), []byte(customRule), 0o644); err != nil {
			return l, dir, err
		}
		if p.Custom == "paths" {
			l = l.WithCustomRules([]string{filepath.Join(dir, "custom_rules")})
		} else {
			l = l.WithCustomRules([]string{filepath.Join(rd, "rule.rego")})
		}
	}
	switch p.Flags {
	case "enable-all":
		l = l.WithEnableAll(true)
	case "disable-all-enable":
		l = l.WithDisableAll(true).WithEnabledRules(p.Enable...)
	case "disable-category":
		l = l.WithDisabledCategories("bugs")
	case "enable-category":
		l = l.WithDisableAll(true).WithEnabledCategories("idiomatic")
	case "disable":
		l = l.WithDisabledRules(p.Enable...)
	}
	if p.Debug {
		l = l.WithDebugMode(true).WithPrintHook(nopHook{})
	}
	src := filepath.Join(dir, "src")
	if p.Prefix {
		l = l.WithPathPrefix(src)
	}
	if p.Input == "paths" {
		var paths []string
		for _, f := range files {
			fp := filepath.Join(src, f.Name)
			if err := os.MkdirAll(filepath.Dir(fp), 0o755); err != nil {
				return l, dir, err
			}
			if err := os.WriteFile(fp, []byte(textOf(f.Kind)), 0o644); err != nil {
				return l, dir, err
			}
			paths = append(paths, fp)
		}
		return l.WithInputPaths(paths), src, nil
	}
	return l.WithInputModules(input), src, nil
}

type nopHook struct{}

func (nopHook) Print(print.Context, string) error { return nil }

// signature: what the gates can see of a target's capabilities
func (e *env) signature(t Target) string {
	bs, err := json.Marshal(t.yamlDoc(e, nil))
	must(err)
	var uc config.Config
	if err := yaml.Unmarshal(bs, &uc); err != nil || uc.Capabilities == nil {
		return "error"
	}
	var present []string
	for _, n := range interesting {
		if _, ok := uc.Capabilities.Builtins[n]; ok {
			present = append(present, n)
		}
	}
	return fmt.Sprint(present, uc.Capabilities.FutureKeywords, uc.Capabilities.Features)
}

func fromReportNotice(n report.Notice) Notice {
	return Notice{n.Category, n.Title, n.Description, n.Level, n.Severity}
}

// ---------------------------------------------------------------------------------------------

func eopaVersions(repo string) []string {
	ents, err := os.ReadDir(filepath.Join(repo, "internal", "capabilities", "embedded", "eopa"))
	must(err)
	var vs []string
	for _, e := range ents {
		if strings.HasSuffix(e.Name(), ".json") {
			vs = append(vs, strings.TrimSuffix(e.Name(), ".json"))
		}
	}
	sort.Strings(vs)
	return vs
}

// presence: which of the names the target's capabilities have once its configuration is loaded (nil: it does not load)
func (e *env) presence(t Target, names []string) (p []bool) {
	defer func() {
		if r := recover(); r != nil {
			p = nil
		}
	}()
	bs, err := json.Marshal(t.yamlDoc(e, nil))
	must(err)
	var uc config.Config
	if err := yaml.Unmarshal(bs, &uc); err != nil {
		return nil
	}
	caps := uc.Capabilities
	if caps == nil {
		caps = config.CapabilitiesForThisVersion()
	}
	for _, n := range names {
		_, ok := caps.Builtins[n]
		p = append(p, ok)
	}
	return p
}

func permutations(xs []string) [][]string {
	if len(xs) <= 1 {
		return [][]string{append([]string{}, xs...)}
	}
	var out [][]string
	for i := range xs {
		rest := append(append([]string{}, xs[:i]...), xs[i+1:]...)
		for _, p := range permutations(rest) {
			out = append(out, append([]string{xs[i]}, p...))
		}
	}
	return out
}

func insertAt(xs []string, i int, x string) []string {
	out := append([]string{}, xs[:i]...)
	out = append(out, x)
	return append(out, xs[i:]...)
}

// listJobs: the minus and plus sections are LISTS. For base targets in which each gate-relevant built-in is present /
// absent (the oldest and the newest embedded version of every presence pattern found in the tree under test, the target
// without a capabilities section, a generated file without sprintf): every ordering of the relevant names, entries the
// base does not have (names of later engine versions, unknown names) at every position, duplicates, the same name in
// minus and in plus, random lists. What must come out is (base \ minus) U plus as a SET (theorem c19_plus_minus).
// Function level for all of them, Lint (v0 + v1 trigger policies) for the orderings with an absent entry in front
// and a seeded eighth of the rest (all in the thorough tier).
func listJobs(e *env, rng *hutil.Rng, tier string, targets []Target, rel []string) []job {
	const unknown, filler = "verif.no_such_builtin", "http.send"
	type grp struct{ oldest, newest Target }
	groups := map[string]*grp{}
	var order []string
	for _, t := range targets { // per engine in ascending version order
		p := e.presence(t, rel)
		if p == nil {
			continue
		}
		k := t.Engine + fmt.Sprint(p)
		if g, ok := groups[k]; ok {
			g.newest = t
		} else {
			groups[k] = &grp{t, t}
			order = append(order, k)
		}
	}
	var bases []Target
	seenBase := map[string]bool{}
	add := func(t Target) {
		if !seenBase[t.key()] {
			seenBase[t.key()] = true
			bases = append(bases, t)
		}
	}
	for _, k := range order {
		add(groups[k].oldest)
		add(groups[k].newest)
	}
	this := ast.CapabilitiesForThisVersion()
	add(Target{Gen: &GenCaps{FutureKeywords: append([]string{}, this.FutureKeywords...), Features: append([]string{}, this.Features...),
		WithoutBuiltins: []string{"sprintf"}}})
	var jobs []job
	for _, b := range bases {
		if b.Engine != "" || b.Gen != nil {
			jobs = append(jobs, job{"list", "", CaseIn{Target: b}}) // the base itself (embedded versions also have one in stream fn)
		}
		pres := e.presence(b, rel)
		var absent, present []string
		for i, n := range rel {
			if pres != nil && pres[i] {
				present = append(present, n)
			} else {
				absent = append(absent, n)
			}
		}
		absent = append(absent, unknown)
		type edit struct {
			minus, plus, bare []string
			lint              bool
		}
		var es []edit
		for _, p := range permutations(rel) {
			// an ordering whose first entry the base lacks while a later one is there
			_, firstAbsent := indexOf(absent, p[0])
			es = append(es, edit{minus: p, lint: firstAbsent && len(present) > 0})
		}
		for i := range rel { // two of the three, every order, an entry the base lacks at every position
			two := append(append([]string{}, rel[:i]...), rel[i+1:]...)
			for _, p := range permutations(two) {
				for pos := 0; pos <= len(p); pos++ {
					es = append(es, edit{minus: insertAt(p, pos, hutil.Choice(rng, absent)), lint: pos == 0 && rng.Below(2) == 0})
				}
			}
		}
		for _, n := range rel { // single entries next to an absent one, both orders; duplicates
			a := hutil.Choice(rng, absent)
			es = append(es, edit{minus: []string{a, n}, lint: true}, edit{minus: []string{n, a}}, edit{minus: []string{n, n}},
				edit{minus: []string{a, a, n}}, edit{minus: []string{n, filler, n}})
			// the same name in both lists: plus wins, whatever the base has
			es = append(es, edit{minus: []string{n}, plus: []string{n}}, edit{minus: []string{a, n}, plus: []string{n, n}},
				edit{minus: []string{n, unknown}, bare: []string{n}}, edit{plus: []string{n, unknown}, minus: []string{unknown, n}})
		}
		for _, p := range permutations(rel)[:3] {
			es = append(es, edit{plus: p}, edit{plus: p[:2], minus: []string{p[2], p[0]}})
		}
		pool := append(append([]string{}, rel...), unknown, filler, "verif.another_unknown")
		nRandom := 8
		if tier == "thorough" {
			nRandom = 40
		}
		for i := 0; i < nRandom; i++ {
			var ed edit
			for k := 1 + rng.Below(5); k > 0; k-- {
				ed.minus = append(ed.minus, hutil.Choice(rng, pool))
			}
			for k := rng.Below(3); k > 0; k-- {
				ed.plus = append(ed.plus, hutil.Choice(rng, pool[:4]))
			}
			es = append(es, ed)
		}
		seen := map[string]bool{}
		for _, ed := range es {
			t := b
			t.Minus, t.Plus, t.PlusBare = ed.minus, ed.plus, ed.bare
			if seen[t.key()] {
				continue
			}
			seen[t.key()] = true
			in := CaseIn{Target: t}
			set := ""
			if ed.lint || tier == "thorough" || rng.Below(8) == 0 {
				set = "mixed"
				in.Files = fileSets[set]
			}
			jobs = append(jobs, job{"list", set, in})
		}
	}
	return jobs
}

func indexOf(xs []string, x string) (int, bool) {
	for i, y := range xs {
		if x == y {
			return i, true
		}
	}
	return -1, false
}

var fileSets = map[string][]FileSpec{
	"v0x1":  {{"q/a.rego", "v0"}},
	"v0x3":  {{"q/a.rego", "v0"}, {"q/b.rego", "v0"}, {"q/c.rego", "v0"}},
	"v1x1":  {{"q/a.rego", "v1"}},
	"v1x3":  {{"q/a.rego", "v1"}, {"q/b.rego", "v1"}, {"q/c.rego", "v1"}},
	"mixed": {{"q/a.rego", "v0"}, {"q/b.rego", "v1"}},
	"stdin": {{"stdin", "v1"}},
}

var setNames = []string{"v0x1", "v0x3", "v1x1", "v1x3", "mixed", "stdin"}

type job struct {
	stream string
	set    string
	in     CaseIn
}

func main() {
	if len(os.Args) < 5 {
		fmt.Fprintln(os.Stderr, "usage: c19 <out.jsonl> <quick|thorough|replay> <repo-root> <tmp-dir> [cases.json]")
		os.Exit(2)
	}
	out := hutil.NewOut(os.Args[1])
	defer out.Close()
	tier, repo, tmp := os.Args[2], os.Args[3], os.Args[4]
	e := newEnv(tmp)
	rng := hutil.NewRng(hutil.SeedFromEnv())
	var jobs []job
	if len(os.Args) > 5 {
		bs, err := os.ReadFile(os.Args[5])
		must(err)
		var ins []CaseIn
		must(json.Unmarshal(bs, &ins))
		for _, in := range ins {
			if in.Target.Gen != nil {
				for _, n := range in.Target.Gen.WithoutBuiltins {
					addInteresting(n)
				}
			}
			jobs = append(jobs, job{"corpus", "", in})
		}
	}
	if len(os.Args) > 6 {
		bs, err := os.ReadFile(os.Args[6])
		must(err)
		var gs []struct {
			Set string `json:"set"`
			In  CaseIn `json:"in"`
		}
		must(json.Unmarshal(bs, &gs))
		for _, g := range gs {
			if g.In.Target.Gen != nil {
				// the names the generated files vary are reported back among the builtins as loaded
				for _, n := range g.In.Target.Gen.WithoutBuiltins {
					addInteresting(n)
				}
			}
			if g.Set != "" && len(g.In.Files) == 0 {
				g.In.Files = fileSets[g.Set]
			}
			jobs = append(jobs, job{"gen", g.Set, g.In})
		}
	}
	if tier != "replay" {
		opaVs, err := ast.LoadCapabilitiesVersions()
		must(err)
		sort.Strings(opaVs)
		var targets []Target
		targets = append(targets, Target{})
		for _, v := range opaVs {
			targets = append(targets, Target{Engine: "opa", Version: v})
		}
		for _, v := range eopaVersions(repo) {
			targets = append(targets, Target{Engine: "eopa", Version: v})
		}
		// function level for every embedded version
		for _, t := range targets {
			jobs = append(jobs, job{"fn", "", CaseIn{Target: t}})
		}
		// Lint: every version in the thorough tier; in the quick tier one version per distinct set of
		// relevant capabilities (decided after the function level ran) -- see below
		// plus / minus: all subsets of the builtins the gates look at, on a new and on an old base
		rel := []string{"sprintf", "strings.count", "object.keys"}
		var edits []Target
		for _, baseT := range []Target{{}, {Engine: "opa", Version: "v0.46.0"}, {Engine: "opa", Version: "v0.46.0", File: true}} {
			for m := 0; m < 8; m++ {
				if baseT.File && tier == "quick" && m != 0 && m != 5 {
					continue
				}
				var minus []string
				for i, n := range rel {
					if m&(1<<i) != 0 {
						minus = append(minus, n)
					}
				}
				t := baseT
				t.Minus = minus
				edits = append(edits, t)
				if m != 0 {
					// put one of the removed ones (or one the base never had) back through plus
					t2 := t
					t2.Plus = []string{rel[rng.Below(3)]}
					edits = append(edits, t2)
				}
			}
		}
		edits = append(edits, Target{Engine: "opa", Version: "v0.46.0", Plus: []string{"strings.count", "object.keys"}})
		edits = append(edits, Target{Engine: "eopa", Version: eopaVersions(repo)[0], Minus: []string{"sprintf"}})
		edits = append(edits, Target{Plus: []string{"my.fn"}})
		edits = append(edits, Target{Engine: "opa", Version: "v0.46.0", PlusReadme: []string{"object.keys"}, Minus: []string{"sprintf"}})
		edits = append(edits, Target{Engine: "opa", Version: "v0.46.0", PlusBare: []string{"strings.count"}})
		edits = append(edits, Target{Minus: []string{"object.keys"}, PlusBare: []string{"object.keys", "my.fn"}})
		for _, t := range edits {
			for _, s := range setNames {
				if tier == "quick" && (s == "v0x3" || s == "mixed") && len(t.Minus) > 1 && len(t.Plus) == 0 {
					continue
				}
				jobs = append(jobs, job{"edit", s, CaseIn{Target: t, Files: fileSets[s]}})
			}
		}
		// representatives: run the function level first (cheap) to group versions by what the gates can see
		sig := map[string]Target{}
		var order []string
		for _, t := range targets {
			k := e.signature(t)
			if _, ok := sig[k]; !ok {
				order = append(order, k)
			}
			sig[k] = t // the newest version with this signature
		}
		lintTargets := []Target{}
		for _, k := range order {
			lintTargets = append(lintTargets, sig[k])
		}
		if tier == "thorough" {
			lintTargets = targets
		} else {
			for i := 0; i < 3; i++ {
				lintTargets = append(lintTargets, hutil.Choice(rng, targets))
			}
		}
		for _, t := range lintTargets {
			for _, s := range setNames {
				jobs = append(jobs, job{"lint", s, CaseIn{Target: t, Files: fileSets[s]}})
			}
		}
		// some gated rules switched off in the configuration
		gatedAll := []string{"idiomatic/use-if", "idiomatic/use-contains", "idiomatic/use-strings-count", "imports/use-rego-v1",
			"idiomatic/custom-has-key-construct", "bugs/if-object-literal", "custom/one-liner-rule", "bugs/deprecated-builtin",
			"bugs/sprintf-arguments-mismatch", "imports/implicit-future-keywords"}
		nDis := 8
		if tier == "thorough" {
			nDis = 60
		}
		for i := 0; i < nDis; i++ {
			t := hutil.Choice(rng, lintTargets)
			var dis []string
			for _, g := range gatedAll {
				if rng.Below(3) == 0 {
					dis = append(dis, g)
				}
			}
			s := hutil.Choice(rng, setNames)
			jobs = append(jobs, job{"lint", s + "-disabled", CaseIn{Target: t, Files: fileSets[s], Disabled: dis}})
		}
		// minus / plus LISTS as lists (stream "list"; drawn last so that the streams above stay as they were)
		jobs = append(jobs, listJobs(e, rng, tier, targets, rel)...)
	}
	results := make([]CaseOut, len(jobs))
	loads := make([]loaded, len(jobs))
	tLoad := time.Now()
	for i := range jobs {
		loads[i] = e.loadCase(&jobs[i].in)
	}
	fmt.Fprintf(os.Stderr, "c19: %d configurations loaded one after the other in %s\n", len(jobs), time.Since(tLoad).Round(time.Millisecond))
	var wg sync.WaitGroup
	ch := make(chan int, 256)
	for w := 0; w < runtime.NumCPU(); w++ {
		wg.Add(1)
		go func() {
			defer wg.Done()
			for i := range ch {
				results[i] = e.runCase(&jobs[i].in, loads[i])
			}
		}()
	}
	for i := range jobs {
		ch <- i
	}
	close(ch)
	wg.Wait()
	for i, j := range jobs {
		out.Emit(map[string]any{"stream": j.stream, "id": i, "set": j.set, "in": j.in, "out": results[i]})
	}
}
