// C18 harness: (1) builds real directory trees with the two kinds of configuration placed on a
// chain and records what config.FindConfig / FindRegalDirectory / FindRegalConfigFile and the
// real `regal lint` binary pick; (2) generates user configurations from the documented keys,
// loads them with the real yaml decoder, merges them with (real and synthetic) provided
// configurations through config.LoadConfigWithDefaultsFromBundle (real mergo) and round-trips
// them through yaml. One JSON object per line; no verdicts about the model here, only the
// implementation-side predicates (pred_* fields).
//
// usage: c18 tree  OUT WORKDIR TIER REGALBIN [SPECS]
//
//	c18 roottree OUT TIER REGALBIN [SPECS]     (inside a chroot jail only: the tree root is "/")
//
//	c18 merge OUT WORKDIR TIER [SPECS]
package main

import (
	"bytes"
	"encoding/json"
	"fmt"
	"hash/fnv"
	"os"
	"os/exec"
	"path/filepath"
	"reflect"
	"sort"
	"strings"
	"sync"

	"gopkg.in/yaml.v3"

	"github.com/open-policy-agent/opa/v1/ast"
	"github.com/open-policy-agent/opa/v1/bundle"

	rbundle "github.com/styrainc/regal/bundle"
	"github.com/styrainc/regal/pkg/config"

	"verifharness/hutil"
)

func must(err error) {
	if err != nil {
		panic(err)
	}
}

// ------------------------------------------------------------------------------------------
// trees
// ------------------------------------------------------------------------------------------

type dirSpec struct {
	Regal string `json:"regal"` // none | file | empty | cfg
	Yaml  string `json:"yaml"`  // none | file | dir
}

type treeSpec struct {
	Kind      string    `json:"kind"`
	Dirs      []dirSpec `json:"dirs"`       // index 0 = tree root, then one per level
	StartFile bool      `json:"start_file"` // start the search from a file in the deepest directory
	Home      string    `json:"home"`       // none | dir | cfg   (user-level ~/.config/regal[/config.yaml])
	CLI       bool      `json:"cli"`
	Spell     bool      `json:"spell"` // also ask with other spellings of the start path
}

var levelNames = []string{"a", "bb", "c", "dd", "e", "ff"}

// four rules whose presence in the report encodes which configuration file was applied
var probeRules = []string{"todo-comment", "prefer-snake-case", "use-assignment-operator", "no-whitespace-comment"}

const probePolicy = "package p\n\nimport rego.v1\n\n# TODO: x\ncamelCase := 1\n\n#nospace\ny = 2\n"

// configuration text that disables the rules of the bits set in id (1..15)
func configText(id int) string {
	var b strings.Builder
	b.WriteString("rules:\n  style:\n")
	for bit, r := range probeRules {
		if id&(1<<bit) != 0 {
			fmt.Fprintf(&b, "    %s:\n      level: ignore\n", r)
		}
	}
	return b.String()
}

const globalID = 15

func fileID(level int, yamlKind bool) int {
	id := 1 + 2*level
	if yamlKind {
		id++
	}
	return id
}

func errClass(err error) string {
	if err == nil {
		return ""
	}
	s := err.Error()
	switch {
	case strings.Contains(s, "conflicting config files"):
		return "conflict"
	case strings.Contains(s, "could not find Regal config"):
		return "notfound"
	case strings.Contains(s, "config file was not found in .regal directory"):
		return "noconfigindir"
	case strings.Contains(s, "can't traverse past root"), strings.Contains(s, "stopping as dir is root"):
		return "notfound"
	case strings.Contains(s, "failed to stat path"):
		return "stat"
	}
	return "other:" + s
}

// the same search asked for with another spelling of the start path (or of its parent directory)
type spelledObs struct {
	Cwd      string `json:"cwd"`    // working directory of the call ("" = irrelevant, the argument is absolute)
	Arg      string `json:"arg"`    // the path as handed to FindConfig
	Target   string `json:"target"` // self | parent : which directory the spelling denotes
	Found    string `json:"found"`
	FoundErr string `json:"found_err"`
	RegalDir string `json:"regal_dir"`
	RegalErr string `json:"regal_dir_err"`
	YamlFile string `json:"yaml_file"`
	YamlErr  string `json:"yaml_file_err"`
}

type treeObs struct {
	Spelled    []spelledObs `json:"spelled,omitempty"`
	Spec       treeSpec `json:"spec"`
	Root       string   `json:"root"`  // absolute path of the tree root
	Names      []string `json:"names"` // names of the levels below the tree root
	Start      string   `json:"start"`
	Found      string   `json:"found"`
	FoundErr   string   `json:"found_err"`
	RegalDir   string   `json:"regal_dir"`
	RegalErr   string   `json:"regal_dir_err"`
	YamlFile   string   `json:"yaml_file"`
	YamlErr    string   `json:"yaml_file_err"`
	CLIChoice  string   `json:"cli_choice,omitempty"` // file:<path> | global | defaults | fatal | undecodable:<...>
	CLIFired   []string `json:"cli_fired,omitempty"`
	CLIExit    int      `json:"cli_exit,omitempty"`
	CLIDebug   string   `json:"cli_debug_file,omitempty"` // "found user config file: ..." line of --debug
	PredBroken string   `json:"pred_broken,omitempty"`
}

func buildTree(root string, spec treeSpec) (start string, names []string, idToPath map[int]string) {
	idToPath = map[int]string{}
	dir := root
	must(os.MkdirAll(dir, 0o755))
	for i, d := range spec.Dirs {
		if i > 0 {
			names = append(names, levelNames[i-1])
			dir = filepath.Join(dir, levelNames[i-1])
			must(os.Mkdir(dir, 0o755))
		}
		switch d.Regal {
		case "file":
			must(os.WriteFile(filepath.Join(dir, ".regal"), []byte("x"), 0o644))
		case "empty":
			must(os.Mkdir(filepath.Join(dir, ".regal"), 0o755))
		case "cfg":
			must(os.Mkdir(filepath.Join(dir, ".regal"), 0o755))
			p := filepath.Join(dir, ".regal", "config.yaml")
			must(os.WriteFile(p, []byte(configText(fileID(i, false))), 0o644))
			idToPath[fileID(i, false)] = p
		}
		switch d.Yaml {
		case "file":
			p := filepath.Join(dir, ".regal.yaml")
			must(os.WriteFile(p, []byte(configText(fileID(i, true))), 0o644))
			idToPath[fileID(i, true)] = p
		case "dir":
			must(os.Mkdir(filepath.Join(dir, ".regal.yaml"), 0o755))
		}
	}
	must(os.WriteFile(filepath.Join(dir, "p.rego"), []byte(probePolicy), 0o644))
	start = dir
	if spec.StartFile {
		start = filepath.Join(dir, "p.rego")
	}
	return start, names, idToPath
}

func makeHome(dir string, kind string) {
	must(os.MkdirAll(dir, 0o755))
	switch kind {
	case "dir":
		must(os.MkdirAll(filepath.Join(dir, ".config", "regal"), 0o755))
	case "cfg":
		must(os.MkdirAll(filepath.Join(dir, ".config", "regal"), 0o755))
		must(os.WriteFile(filepath.Join(dir, ".config", "regal", "config.yaml"), []byte(configText(globalID)), 0o644))
	}
}

// atRoot: the tree root is "/" itself (only inside the chroot jail the driver sets up)
func runTree(id int, work string, regalBin string, spec treeSpec, atRoot bool) treeObs {
	base := filepath.Join(work, fmt.Sprintf("t%d", id))
	root := filepath.Join(base, "tree")
	if atRoot {
		base = "/h"
		root = "/"
		defer func() {
			for _, n := range []string{".regal", ".regal.yaml", levelNames[0], "p.rego"} {
				os.RemoveAll("/" + n)
			}
		}()
	}
	start, names, idToPath := buildTree(root, spec)
	defer os.RemoveAll(base)

	o := treeObs{Spec: spec, Root: root, Names: names, Start: start}

	// a nil file with a nil error is an observation of its own, not a crash of the harness
	obs := func(f *os.File, err error) (string, string) {
		switch {
		case err != nil:
			return "", errClass(err)
		case f == nil:
			return "", "nil-file-nil-error"
		}
		defer f.Close()
		return f.Name(), ""
	}
	o.Found, o.FoundErr = obs(config.FindConfig(start))
	o.RegalDir, o.RegalErr = obs(config.FindRegalDirectory(start))
	o.YamlFile, o.YamlErr = obs(config.FindRegalConfigFile(start))

	if spec.Spell {
		dirPath := start
		if spec.StartFile {
			dirPath = filepath.Dir(start)
		}
		parent, base := filepath.Dir(dirPath), filepath.Base(dirPath)
		tail := ""
		if spec.StartFile {
			tail = "/p.rego"
		}
		type sp struct{ cwd, arg, target string }
		var sps []sp
		if len(spec.Dirs) >= 2 {
			sps = append(sps,
				sp{"", parent + "/./" + base + tail, "self"},
				sp{"", dirPath + "/../" + base + tail, "self"},
				sp{"", parent + "//" + base + tail, "self"})
			if !spec.StartFile {
				sps = append(sps, sp{"", dirPath + "/..", "parent"}, sp{"", dirPath + "/../", "parent"})
			}
		}
		if !spec.StartFile {
			sps = append(sps, sp{"", dirPath + "/", "self"}, sp{"", dirPath + "/.", "self"})
		}
		if atRoot {
			// relative spellings need the working directory of the process: only in the (sequential) jail
			rel := strings.TrimPrefix(dirPath, "/")
			if rel != "" {
				sps = append(sps, sp{"/", rel + tail, "self"}, sp{"/", "./" + rel + tail, "self"})
				if len(spec.Dirs) >= 3 {
					sps = append(sps, sp{parent, base + tail, "self"}, sp{parent, "../" + filepath.Base(parent) + "/" + base + tail, "self"})
				}
			}
			if !spec.StartFile {
				sps = append(sps, sp{dirPath, ".", "self"})
				if len(spec.Dirs) >= 2 {
					sps = append(sps, sp{dirPath, "..", "parent"})
				}
			}
		}
		for _, x := range sps {
			if x.cwd != "" {
				must(os.Chdir(x.cwd))
			}
			so := spelledObs{Cwd: x.cwd, Arg: x.arg, Target: x.target}
			so.Found, so.FoundErr = obs(config.FindConfig(x.arg))
			so.RegalDir, so.RegalErr = obs(config.FindRegalDirectory(x.arg))
			so.YamlFile, so.YamlErr = obs(config.FindRegalConfigFile(x.arg))
			o.Spelled = append(o.Spelled, so)
			if x.cwd != "" {
				must(os.Chdir("/"))
			}
		}
	}

	if spec.CLI && regalBin != "" {
		home := filepath.Join(base, "home")
		makeHome(home, spec.Home)
		cmd := exec.Command(regalBin, "lint", "--format", "json", "--debug", start)
		cmd.Dir = base
		cmd.Env = append(os.Environ(), "HOME="+home, "XDG_CONFIG_HOME=", "REGAL_DISABLE_VERSION_CHECK=1")
		var stdout, stderr bytes.Buffer
		cmd.Stdin = strings.NewReader("") // (no /dev/null inside the jail)
		cmd.Stdout, cmd.Stderr = &stdout, &stderr
		err := cmd.Run()
		if ee, ok := err.(*exec.ExitError); ok {
			o.CLIExit = ee.ExitCode()
		} else if err != nil {
			o.CLIChoice = "undecodable:" + err.Error()
			return o
		}
		for _, line := range strings.Split(stderr.String(), "\n") {
			if i := strings.Index(line, "found user config file: "); i >= 0 {
				o.CLIDebug = strings.TrimSpace(line[i+len("found user config file: "):])
			}
		}
		var rep struct {
			Violations []struct {
				Title string `json:"title"`
			} `json:"violations"`
		}
		if err := json.Unmarshal(stdout.Bytes(), &rep); err != nil {
			if o.CLIExit != 0 && o.CLIExit != 3 {
				o.CLIChoice = "fatal"
			} else {
				o.CLIChoice = "undecodable:" + strings.TrimSpace(stderr.String())
			}
			return o
		}
		fired := map[string]bool{}
		for _, v := range rep.Violations {
			fired[v.Title] = true
		}
		idSeen := 0
		for bit, r := range probeRules {
			if fired[r] {
				o.CLIFired = append(o.CLIFired, r)
			} else {
				idSeen |= 1 << bit
			}
		}
		switch {
		case idSeen == 0:
			o.CLIChoice = "defaults"
		case idSeen == globalID:
			o.CLIChoice = "global"
		default:
			if p, ok := idToPath[idSeen]; ok {
				o.CLIChoice = "file:" + p
			} else {
				o.CLIChoice = fmt.Sprintf("undecodable:id %d", idSeen)
			}
		}
		// implementation-side predicate: the applied file is the one the --debug line names
		if strings.HasPrefix(o.CLIChoice, "file:") && o.CLIDebug != "" && o.CLIDebug != o.CLIChoice[5:] {
			o.PredBroken = "debug line names " + o.CLIDebug + " but the report shows " + o.CLIChoice
		}
	}
	return o
}

var regalKinds = []string{"none", "cfg", "empty", "file"}
var yamlKinds = []string{"none", "file", "dir"}

func genTrees(rng *hutil.Rng, tier string) []treeSpec {
	var specs []treeSpec
	// exhaustive over {none, cfg} x {none, file} per directory, every depth 0..4, start at the deepest
	// directory (starting higher up in a deeper tree is the same search as a shallower tree)
	var rec func(d int, cur []dirSpec, rk []string, yk []string, f func([]dirSpec))
	rec = func(d int, cur []dirSpec, rk []string, yk []string, f func([]dirSpec)) {
		if d == 0 {
			f(append([]dirSpec(nil), cur...))
			return
		}
		for _, r := range rk {
			for _, y := range yk {
				rec(d-1, append(cur, dirSpec{r, y}), rk, yk, f)
			}
		}
	}
	maxDepth := 4
	for depth := 0; depth <= maxDepth; depth++ {
		rec(depth+1, nil, []string{"none", "cfg"}, []string{"none", "file"}, func(ds []dirSpec) {
			specs = append(specs, treeSpec{Kind: "tree", Dirs: ds, Home: "none"})
		})
	}
	// with .regal/ directories lacking config.yaml: exhaustive to depth 2 (quick) / 4 (thorough)
	d3 := 2
	if tier == "thorough" {
		d3 = 4
	}
	for depth := 0; depth <= d3; depth++ {
		rec(depth+1, nil, []string{"none", "cfg", "empty"}, []string{"none", "file"}, func(ds []dirSpec) {
			hasEmpty := false
			for _, d := range ds {
				hasEmpty = hasEmpty || d.Regal == "empty"
			}
			if hasEmpty {
				specs = append(specs, treeSpec{Kind: "tree", Dirs: ds, Home: "none"})
			}
		})
	}
	// random: wrong-kind entries, start from a file, deeper chains
	nExhaustive := len(specs)
	n := 300
	if tier == "thorough" {
		n = 4000
	}
	for i := 0; i < n; i++ {
		depth := rng.Below(6)
		var ds []dirSpec
		for j := 0; j <= depth; j++ {
			d := dirSpec{"none", "none"}
			if rng.Below(3) > 0 {
				d.Regal = hutil.Choice(rng, regalKinds)
			}
			if rng.Below(3) > 0 {
				d.Yaml = hutil.Choice(rng, yamlKinds)
			}
			ds = append(ds, d)
		}
		specs = append(specs, treeSpec{Kind: "tree", Dirs: ds, StartFile: rng.Bool(), Home: "none"})
	}
	// which of them also go through the real binary
	homes := []string{"none", "dir", "cfg"}
	for i := range specs {
		s := &specs[i]
		s.Spell = i%5 == 0
		cli := false
		switch {
		case tier == "thorough":
			cli = (len(s.Dirs) <= 3 && i < nExhaustive) || rng.Below(12) == 0
		case len(s.Dirs) <= 2 && i < nExhaustive:
			cli = true
		default:
			cli = rng.Below(25) == 0
		}
		if cli {
			s.CLI = true
			s.Home = homes[rng.Below(3)]
		}
	}
	return specs
}

func treeMain(outPath, work, tier, regalBin, specsFile string) {
	out := hutil.NewOut(outPath)
	defer out.Close()
	rng := hutil.NewRng(hutil.SeedFromEnv())

	// the search continues above the work directory up to "/": it must be clean there
	if f, err := config.FindConfig(work); err == nil && f != nil {
		out.Emit(map[string]any{"kind": "env-error", "what": "a regal configuration exists above the work directory: " + f.Name()})
		return
	}

	var specs []treeSpec
	if specsFile != "" {
		bs, err := os.ReadFile(specsFile)
		must(err)
		for _, line := range bytes.Split(bs, []byte("\n")) {
			if len(bytes.TrimSpace(line)) == 0 {
				continue
			}
			var s treeSpec
			must(json.Unmarshal(line, &s))
			specs = append(specs, s)
		}
	} else {
		specs = genTrees(rng, tier)
	}

	res := make([]treeObs, len(specs))
	var wg sync.WaitGroup
	sem := make(chan struct{}, 16)
	for i := range specs {
		wg.Add(1)
		sem <- struct{}{}
		go func(i int) {
			defer wg.Done()
			defer func() { <-sem }()
			res[i] = runTree(i, work, regalBin, specs[i], false)
		}(i)
	}
	wg.Wait()
	for _, o := range res {
		m := map[string]any{}
		bs, _ := json.Marshal(o)
		must(json.Unmarshal(bs, &m))
		m["kind"] = "tree"
		out.Emit(m)
	}
}

// trees whose top directory is the file system root: run one after the other inside a chroot jail
func rootTreeMain(outPath, tier, regalBin, specsFile string) {
	if os.Getenv("C18_JAIL") != "1" {
		fmt.Fprintln(os.Stderr, "roottree writes to /: refusing to run outside the jail (C18_JAIL=1)")
		os.Exit(2)
	}
	out := hutil.NewOut(outPath)
	defer out.Close()
	rng := hutil.NewRng(hutil.SeedFromEnv() ^ 0x7007)
	var specs []treeSpec
	if specsFile != "" {
		bs, err := os.ReadFile(specsFile)
		must(err)
		for _, line := range bytes.Split(bs, []byte("\n")) {
			if len(bytes.TrimSpace(line)) == 0 {
				continue
			}
			var s treeSpec
			must(json.Unmarshal(line, &s))
			specs = append(specs, s)
		}
	} else {
		maxDepth := 2
		if tier == "thorough" {
			maxDepth = 3
		}
		var rec func(d int, cur []dirSpec)
		rec = func(d int, cur []dirSpec) {
			if d == 0 {
				specs = append(specs, treeSpec{Kind: "tree", Dirs: append([]dirSpec(nil), cur...), Home: "none", StartFile: rng.Below(4) == 0})
				return
			}
			for _, r := range []string{"none", "cfg", "empty"} {
				for _, y := range []string{"none", "file"} {
					rec(d-1, append(cur, dirSpec{r, y}))
				}
			}
		}
		for depth := 0; depth <= maxDepth; depth++ {
			rec(depth+1, nil)
		}
		homes := []string{"none", "dir", "cfg"}
		for i := range specs {
			specs[i].Spell = i%3 == 0
			if len(specs[i].Dirs) == 1 || rng.Below(20) == 0 {
				specs[i].CLI = true
				specs[i].Home = homes[rng.Below(3)]
			}
		}
	}
	for i, s := range specs {
		o := runTree(i, "/", regalBin, s, true)
		m := map[string]any{}
		bs, _ := json.Marshal(o)
		must(json.Unmarshal(bs, &m))
		m["kind"] = "tree"
		m["at_root"] = true
		out.Emit(m)
	}
}

// ------------------------------------------------------------------------------------------
// configurations
// ------------------------------------------------------------------------------------------

// observable form of a config.Config (struct fields, not ToMap: Rule.Ignore nil vs empty matters)
type obsRule struct {
	Level  string         `json:"level"`
	Ignore *[]string      `json:"ignore"`
	Extra  map[string]any `json:"extra"`
}

type obsRoot struct {
	Path string `json:"path"`
	Ver  *int   `json:"ver"`
}

type obsProject struct {
	Roots *[]obsRoot `json:"roots"`
	Ver   *int       `json:"ver"`
}

type obsFeatures struct {
	Remote *bool `json:"remote"`
}

type obsConfig struct {
	Global   string                        `json:"global"`
	Cats     map[string]string             `json:"cats"`
	Rules    map[string]map[string]obsRule `json:"rules"`
	Caps     [][2]string                   `json:"caps"` // nil when the config has no capabilities
	HasCaps  bool                          `json:"has_caps"`
	Features *obsFeatures                  `json:"features"`
	Project  *obsProject                   `json:"project"`
	CapsURL  string                        `json:"caps_url"`
	Ignore   []string                      `json:"ignore"`
}

func renderDecl(args []string, result string) string {
	return strings.Join(args, ",") + "->" + result
}

func obsCaps(c *config.Capabilities) [][2]string {
	if c == nil {
		return nil
	}
	out := make([][2]string, 0, len(c.Builtins))
	for name, b := range c.Builtins {
		out = append(out, [2]string{name, renderDecl(b.Decl.Args, b.Decl.Result)})
	}
	sort.Slice(out, func(i, j int) bool { return out[i][0] < out[j][0] })
	return out
}

// oracle: what OPA itself says the capabilities of a source are, rendered by OPA's printers
func renderOPACaps(c *ast.Capabilities) [][2]string {
	out := make([][2]string, 0, len(c.Builtins))
	for _, b := range c.Builtins {
		out = append(out, [2]string{b.Name, renderBuiltin(b)})
	}
	sort.Slice(out, func(i, j int) bool { return out[i][0] < out[j][0] })
	return out
}

func renderBuiltin(b *ast.Builtin) string {
	fa := b.Decl.FuncArgs().Args
	args := make([]string, len(fa))
	for i, a := range fa {
		args[i] = a.String()
	}
	res := ""
	if b.Decl != nil && b.Decl.Result() != nil {
		res = b.Decl.Result().String()
	}
	return renderDecl(args, res)
}

func normJSON(v any) any {
	bs, err := json.Marshal(v)
	must(err)
	var out any
	must(json.Unmarshal(bs, &out))
	return out
}

func observe(c *config.Config) obsConfig {
	o := obsConfig{Global: c.Defaults.Global.Level, Cats: map[string]string{}, Rules: map[string]map[string]obsRule{},
		CapsURL: c.CapabilitiesURL, Ignore: append([]string{}, c.Ignore.Files...)}
	for k, v := range c.Defaults.Categories {
		o.Cats[k] = v.Level
	}
	for cat, rules := range c.Rules {
		o.Rules[cat] = map[string]obsRule{}
		for name, r := range rules {
			or := obsRule{Level: r.Level, Extra: map[string]any{}}
			if r.Ignore != nil {
				fs := append([]string{}, r.Ignore.Files...)
				or.Ignore = &fs
			}
			for k, v := range r.Extra {
				or.Extra[k] = normJSON(v)
			}
			o.Rules[cat][name] = or
		}
	}
	if c.Capabilities != nil {
		o.HasCaps = true
		o.Caps = obsCaps(c.Capabilities)
	}
	if c.Features != nil {
		o.Features = &obsFeatures{}
		if c.Features.Remote != nil {
			b := c.Features.Remote.CheckVersion
			o.Features.Remote = &b
		}
	}
	if c.Project != nil {
		o.Project = &obsProject{Ver: c.Project.RegoVersion}
		if c.Project.Roots != nil {
			rs := []obsRoot{}
			for _, r := range *c.Project.Roots {
				rs = append(rs, obsRoot{Path: r.Path, Ver: r.RegoVersion})
			}
			o.Project.Roots = &rs
		}
	}
	return o
}

func unmarshalErrClass(err error) string {
	s := err.Error()
	switch {
	case strings.Contains(s, "were not a map"), strings.Contains(s, "was not a map"):
		return "notamap"
	case strings.Contains(s, "unmarshalling rule ignore failed"):
		return "ignoreshape"
	case strings.Contains(s, "mutually exclusive"):
		return "capsexclusive"
	case strings.Contains(s, "please set the version"), strings.Contains(s, "must be a string"),
		strings.Contains(s, "valid OPA version"):
		return "capsversion"
	case strings.Contains(s, "failed to load capabilities"):
		return "capslookup"
	case strings.Contains(s, "unmarshalling config failed"), strings.Contains(s, "unmarshalling project failed"),
		strings.Contains(s, "yaml:"), strings.Contains(s, "cannot unmarshal"):
		return "decode"
	}
	return "other:" + s
}

// ---- generators ----

type provRule struct {
	cat, name string
	level     string
	opts      map[string]any
	ignore    []string
}

var synthCats = map[string][]string{
	"style":   {"rule-length", "line-length", "todo-comment", "opa-fmt"},
	"bugs":    {"constant-condition", "not-equals-in-loop", "rule-shadows-builtin"},
	"custom":  {"naming-convention", "one-liner-rule"},
	"imports": {"use-rego-v1"},
}
var catOrder = []string{"style", "bugs", "custom", "imports"}
var optNames = []string{"max-length", "count-comments", "except-functions", "pattern", "nested", "limit"}
var levels = []string{"error", "warning", "ignore"}

func genValue(rng *hutil.Rng, opt string) any {
	switch opt {
	case "max-length", "limit":
		return rng.Below(200)
	case "count-comments":
		return rng.Bool()
	case "except-functions":
		n := rng.Below(3)
		l := []any{}
		for i := 0; i < n; i++ {
			l = append(l, hutil.Choice(rng, []string{"walk", "print", "f"}))
		}
		return l
	case "pattern":
		return hutil.Choice(rng, []string{"^mock_", "", "^[a-z_]+$"})
	case "nested":
		return map[string]any{"k": rng.Below(5), "on": rng.Bool()}
	}
	return hutil.Choice(rng, []any{1, "x", true, nil, []any{1, "a"}})
}

func genProvided(rng *hutil.Rng) map[string]any {
	rules := map[string]any{}
	for _, cat := range catOrder {
		if rng.Below(5) == 0 {
			continue
		}
		cm := map[string]any{}
		for _, name := range synthCats[cat] {
			if rng.Below(6) == 0 {
				continue
			}
			r := map[string]any{"level": hutil.Choice(rng, levels)}
			for _, o := range optNames {
				if rng.Below(3) == 0 {
					r[o] = genValue(rng, o)
				}
			}
			if rng.Below(8) == 0 {
				r["ignore"] = map[string]any{"files": []any{"gen/**"}}
			}
			cm[name] = r
		}
		rules[cat] = cm
	}
	doc := map[string]any{"rules": rules}
	if rng.Below(4) > 0 {
		doc["features"] = map[string]any{"remote": map[string]any{"check-version": true}}
	}
	if rng.Below(8) == 0 {
		doc["ignore"] = map[string]any{"files": []any{"vendor/**"}}
	}
	if rng.Below(10) == 0 {
		doc["project"] = map[string]any{"rego-version": 1, "roots": []any{map[string]any{"Path": "lib"}}}
	}
	if rng.Below(10) == 0 {
		doc["capabilities_url"] = "regal:///capabilities/default"
	}
	return doc
}

func bundleOf(provided map[string]any) *bundle.Bundle {
	return &bundle.Bundle{Data: map[string]any{"regal": map[string]any{"config": map[string]any{"provided": provided}}}}
}

type capsSource struct {
	url  string
	caps [][2]string
}

type genCtx struct {
	mu        sync.Mutex
	rng       *hutil.Rng
	work      string
	capsFiles []string          // absolute paths of small capabilities files
	lookup    map[string]string // url -> caps table id
	tables    map[string][][2]string
	byContent map[string]string
}

func smallCaps(names []string) *ast.Capabilities {
	all := ast.CapabilitiesForThisVersion()
	c := &ast.Capabilities{}
	for _, n := range names {
		for _, b := range all.Builtins {
			if b.Name == n {
				c.Builtins = append(c.Builtins, b)
			}
		}
	}
	return c
}

func (g *genCtx) init() {
	g.lookup = map[string]string{}
	g.tables = map[string][][2]string{}
	sets := [][]string{{"count", "concat", "http.send", "print"}, {"count", "startswith", "walk"}, {"sum"}}
	for i, names := range sets {
		p := filepath.Join(g.work, fmt.Sprintf("caps%d.json", i))
		c := smallCaps(names)
		bs, err := json.Marshal(c)
		must(err)
		must(os.WriteFile(p, bs, 0o644))
		g.capsFiles = append(g.capsFiles, p)
		id := fmt.Sprintf("file%d", i)
		g.tables[id] = renderOPACaps(c)
		g.lookup["file://"+p] = id
	}
	g.tables["default"] = renderOPACaps(ast.CapabilitiesForThisVersion())
	g.lookup["regal:///capabilities/default"] = "default"
	for _, v := range []string{"v0.60.0", "v1.0.0"} {
		c, err := ast.LoadCapabilitiesVersion(v)
		must(err)
		g.tables["opa-"+v] = renderOPACaps(c)
		g.lookup["regal:///capabilities/opa/"+v] = "opa-" + v
	}
}

var plusDecls = []map[string]any{
	{"type": "function", "args": []any{map[string]any{"type": "string"}}, "result": map[string]any{"type": "boolean"}},
	{"type": "function", "args": []any{map[string]any{"type": "number"}, map[string]any{"type": "any"}}, "result": map[string]any{"type": "string"}},
	{"type": "function", "args": []any{}, "result": map[string]any{"type": "number"}},
}

// oracle for a plus entry: OPA's own JSON decoding of {name, decl} into ast.Builtin, rendered with
// OPA's type printer (the code under test reads the declaration since commit bda07f4)
func renderPlus(decl map[string]any, name string) string {
	bs, err := json.Marshal(map[string]any{"name": name, "decl": decl})
	must(err)
	var b ast.Builtin
	must(json.Unmarshal(bs, &b))
	return renderBuiltin(&b)
}

// genUser returns the document written as yaml and the document handed to the model (plus
// declarations replaced by their rendering)
func (g *genCtx) genUser(provided obsConfig, malformed bool) (map[string]any, map[string]any) {
	rng := g.rng
	doc := map[string]any{}
	rules := map[string]any{}
	if rng.Below(5) < 2 {
		switch rng.Below(6) {
		case 0:
			rules["default"] = map[string]any{}
		case 1:
			rules["default"] = map[string]any{"level": ""}
		default:
			rules["default"] = map[string]any{"level": hutil.Choice(rng, levels)}
		}
	}
	pcats := []string{}
	for c := range provided.Rules {
		pcats = append(pcats, c)
	}
	sort.Strings(pcats)
	ncat := rng.Below(4)
	for i := 0; i < ncat; i++ {
		cat := "mycat"
		if len(pcats) > 0 && rng.Below(6) > 0 {
			cat = hutil.Choice(rng, pcats)
		}
		cm, _ := rules[cat].(map[string]any)
		if cm == nil {
			cm = map[string]any{}
		}
		if rng.Below(10) < 3 {
			switch rng.Below(6) {
			case 0:
				cm["default"] = map[string]any{}
			default:
				cm["default"] = map[string]any{"level": hutil.Choice(rng, levels)}
			}
		}
		pnames := []string{}
		for n := range provided.Rules[cat] {
			pnames = append(pnames, n)
		}
		sort.Strings(pnames)
		nr := rng.Below(4)
		for j := 0; j < nr; j++ {
			name := hutil.Choice(rng, []string{"my-rule", "other-rule"})
			if len(pnames) > 0 && rng.Below(6) > 0 {
				name = hutil.Choice(rng, pnames)
			} else if rng.Below(4) == 0 {
				// a provided rule name under another category
				for _, c2 := range pcats {
					for _, n := range sortedKeys(provided.Rules[c2]) {
						name = n
					}
				}
			}
			r := map[string]any{}
			if rng.Bool() {
				r["level"] = hutil.Choice(rng, levels)
			}
			switch rng.Below(10) {
			case 0:
				r["ignore"] = map[string]any{}
			case 1:
				r["ignore"] = map[string]any{"files": []any{}}
			case 2, 3:
				r["ignore"] = map[string]any{"files": []any{"a/*", "b.rego"}[:1+rng.Below(2)]}
			}
			if pr, ok := provided.Rules[cat][name]; ok {
				for _, o := range sortedKeys(pr.Extra) {
					if rng.Below(3) == 0 {
						r[o] = genValue(rng, o)
					}
				}
			}
			if rng.Below(4) == 0 {
				o := hutil.Choice(rng, optNames)
				r[o] = genValue(rng, o)
			}
			if rng.Below(10) == 0 {
				r["new-option"] = genValue(rng, "?")
			}
			cm[name] = r
		}
		rules[cat] = cm
	}
	if len(rules) > 0 || rng.Bool() {
		doc["rules"] = rules
	}
	if rng.Below(10) < 3 {
		doc["ignore"] = map[string]any{"files": []any{"x/**", "*_test.rego"}[:1+rng.Below(2)]}
	}
	if rng.Below(10) < 3 {
		p := map[string]any{}
		if rng.Bool() {
			p["rego-version"] = rng.Below(2)
		}
		if rng.Below(3) > 0 {
			rs := []any{}
			n := rng.Below(3)
			for i := 0; i < n; i++ {
				path := hutil.Choice(rng, []string{"foo", "bar/baz", "lib"})
				switch rng.Below(3) {
				case 0:
					rs = append(rs, path)
				case 1:
					rs = append(rs, map[string]any{"path": path})
				default:
					rs = append(rs, map[string]any{"path": path, "rego-version": rng.Below(2)})
				}
			}
			p["roots"] = rs
		}
		doc["project"] = p
	}
	if rng.Below(10) < 2 {
		key := hutil.Choice(rng, []string{"check-version", "check_version"})
		doc["features"] = map[string]any{"remote": map[string]any{key: rng.Below(3) > 0}}
	}

	model := cloneAny(doc).(map[string]any)

	if rng.Below(10) < 3 {
		caps := map[string]any{}
		mcaps := map[string]any{}
		base := "default"
		switch rng.Below(8) {
		case 0:
			v := hutil.Choice(rng, []string{"v0.60.0", "v1.0.0"})
			caps["from"] = map[string]any{"engine": "opa", "version": v}
			base = "opa-" + v
		case 1:
		default:
			i := rng.Below(len(g.capsFiles))
			caps["from"] = map[string]any{"file": g.capsFiles[i]}
			base = fmt.Sprintf("file%d", i)
		}
		if caps["from"] != nil {
			mcaps["from"] = cloneAny(caps["from"])
		}
		names := []string{}
		for _, nd := range g.tables[base] {
			names = append(names, nd[0])
		}
		if rng.Bool() {
			ms := []any{}
			n := 1 + rng.Below(2)
			for i := 0; i < n; i++ {
				nm := "no.such.builtin"
				if rng.Below(4) > 0 {
					nm = hutil.Choice(rng, names)
				}
				ms = append(ms, map[string]any{"name": nm})
			}
			caps["minus"] = map[string]any{"builtins": ms}
			mcaps["minus"] = map[string]any{"builtins": cloneAny(ms)}
		}
		if rng.Bool() {
			ps, mps := []any{}, []any{}
			n := 1 + rng.Below(2)
			for i := 0; i < n; i++ {
				nm := hutil.Choice(rng, []string{"my.fn", "custom_check"})
				if rng.Below(4) == 0 {
					nm = hutil.Choice(rng, names)
				}
				d := hutil.Choice(rng, plusDecls)
				ps = append(ps, map[string]any{"name": nm, "decl": d})
				mps = append(mps, map[string]any{"name": nm, "decl": renderPlus(d, nm)})
			}
			caps["plus"] = map[string]any{"builtins": ps}
			mcaps["plus"] = map[string]any{"builtins": mps}
		}
		doc["capabilities"] = caps
		model["capabilities"] = mcaps
	}

	if malformed {
		g.breakDoc(doc, model)
	}
	return doc, model
}

func (g *genCtx) breakDoc(doc, model map[string]any) {
	rng := g.rng
	set := func(f func(m map[string]any)) { f(doc); f(model) }
	ensureRules := func(m map[string]any) map[string]any {
		r, _ := m["rules"].(map[string]any)
		if r == nil {
			r = map[string]any{}
			m["rules"] = r
		}
		return r
	}
	switch rng.Below(9) {
	case 0:
		set(func(m map[string]any) { ensureRules(m)["style"] = "oops" })
	case 1:
		set(func(m map[string]any) { ensureRules(m)["style"] = map[string]any{"todo-comment": "error"} })
	case 2:
		set(func(m map[string]any) { ensureRules(m)["default"] = "error" })
	case 3:
		set(func(m map[string]any) { ensureRules(m)["style"] = map[string]any{"default": 3} })
	case 4:
		set(func(m map[string]any) {
			ensureRules(m)["style"] = map[string]any{"todo-comment": map[string]any{"ignore": "a/*"}}
		})
	case 5:
		set(func(m map[string]any) {
			m["capabilities"] = map[string]any{"from": map[string]any{"engine": "opa", "url": "http://localhost:1/x"}}
		})
	case 6:
		set(func(m map[string]any) { m["capabilities"] = map[string]any{"from": map[string]any{"engine": "opa"}} })
	case 7:
		set(func(m map[string]any) {
			m["capabilities"] = map[string]any{"from": map[string]any{"engine": "opa", "version": "0.60.0"}}
		})
	case 8:
		set(func(m map[string]any) {
			m["capabilities"] = map[string]any{"from": map[string]any{"engine": "opa", "version": "v9.99.9"}}
		})
	}
}

func sortedKeys[V any](m map[string]V) []string {
	ks := make([]string, 0, len(m))
	for k := range m {
		ks = append(ks, k)
	}
	sort.Strings(ks)
	return ks
}

func cloneAny(v any) any {
	switch t := v.(type) {
	case map[string]any:
		m := map[string]any{}
		for k, x := range t {
			m[k] = cloneAny(x)
		}
		return m
	case []any:
		l := make([]any, len(t))
		for i, x := range t {
			l[i] = cloneAny(x)
		}
		return l
	}
	return v
}

// ---- implementation-side predicates ----

func jsonEq(a, b any) bool {
	return reflect.DeepEqual(normJSON(a), normJSON(b))
}

// every setting the user did not write keeps its provided value
func predOnlyOverrides(p, u, m obsConfig) []string {
	var bad []string
	for cat, rules := range p.Rules {
		for name, pr := range rules {
			mr, ok := m.Rules[cat][name]
			if !ok {
				bad = append(bad, fmt.Sprintf("rule %s/%s missing from the merged configuration", cat, name))
				continue
			}
			ur, inUser := u.Rules[cat][name]
			for o, pv := range pr.Extra {
				if _, set := ur.Extra[o]; inUser && set {
					continue
				}
				mv, ok := mr.Extra[o]
				if !ok {
					bad = append(bad, fmt.Sprintf("option %s/%s/%s lost (user did not set it)", cat, name, o))
				} else if !jsonEq(pv, mv) {
					bad = append(bad, fmt.Sprintf("option %s/%s/%s changed (user did not set it)", cat, name, o))
				}
			}
			if !(inUser && ur.Ignore != nil) && !jsonEq(pr.Ignore, mr.Ignore) {
				bad = append(bad, fmt.Sprintf("ignore of %s/%s changed (user did not set it)", cat, name))
			}
			if !(inUser && ur.Level != "") && u.Cats[cat] == "" && u.Global == "" && mr.Level != pr.Level {
				bad = append(bad, fmt.Sprintf("level of %s/%s changed to %q (no user level or default)", cat, name, mr.Level))
			}
		}
	}
	if len(u.Ignore) == 0 && !jsonEq(p.Ignore, m.Ignore) {
		bad = append(bad, "top-level ignore changed")
	}
	if u.Project == nil && !jsonEq(p.Project, m.Project) {
		bad = append(bad, "project changed")
	}
	if u.Features == nil && !jsonEq(p.Features, m.Features) {
		bad = append(bad, "features changed")
	}
	if u.CapsURL == "" && p.CapsURL != m.CapsURL {
		bad = append(bad, "capabilities_url changed")
	}
	sort.Strings(bad)
	return bad
}

// what the user wrote is what the merged configuration says
func predUserWins(u, m obsConfig) []string {
	var bad []string
	for cat, rules := range u.Rules {
		for name, ur := range rules {
			mr, ok := m.Rules[cat][name]
			if !ok {
				bad = append(bad, fmt.Sprintf("user rule %s/%s missing", cat, name))
				continue
			}
			for o, uv := range ur.Extra {
				if !jsonEq(uv, mr.Extra[o]) {
					bad = append(bad, fmt.Sprintf("user option %s/%s/%s not applied", cat, name, o))
				}
			}
			if ur.Level != "" && mr.Level != ur.Level {
				bad = append(bad, fmt.Sprintf("user level %s/%s not applied", cat, name))
			}
			if ur.Ignore != nil && !jsonEq(ur.Ignore, mr.Ignore) {
				bad = append(bad, fmt.Sprintf("user ignore %s/%s not applied", cat, name))
			}
		}
	}
	sort.Strings(bad)
	return bad
}

// the levels and default levels written in the user's DOCUMENT are the levels of the merged
// configuration: rule level, else category default, else global default
func predDocLevels(doc map[string]any, m obsConfig) []string {
	var bad []string
	rules, _ := doc["rules"].(map[string]any)
	str := func(v any, keys ...string) string {
		for _, k := range keys {
			mm, ok := v.(map[string]any)
			if !ok {
				return ""
			}
			v = mm[k]
		}
		s, _ := v.(string)
		return s
	}
	global := str(rules, "default", "level")
	for cat, rs := range m.Rules {
		catDefault := str(rules, cat, "default", "level")
		for name, mr := range rs {
			want := str(rules, cat, name, "level")
			if want == "" {
				want = catDefault
			}
			if want == "" {
				want = global
			}
			if want != "" && mr.Level != want {
				bad = append(bad, fmt.Sprintf("level of %s/%s is %q, the document asks for %q", cat, name, mr.Level, want))
			}
		}
	}
	sort.Strings(bad)
	return bad
}

func normIgnore(o obsConfig) obsConfig {
	bs, _ := json.Marshal(o)
	var c obsConfig
	must(json.Unmarshal(bs, &c))
	for cat, rules := range c.Rules {
		for name, r := range rules {
			if r.Ignore != nil && len(*r.Ignore) == 0 {
				r.Ignore = nil
				c.Rules[cat][name] = r
			}
		}
	}
	return c
}

// which parts of the configuration differ after yaml.Marshal + yaml.Unmarshal
func roundtripDiff(a, b obsConfig) []string {
	a, b = normIgnore(a), normIgnore(b)
	var d []string
	if !jsonEq(a.Rules, b.Rules) {
		d = append(d, "rules")
	}
	if a.Global != b.Global || !jsonEq(a.Cats, b.Cats) {
		d = append(d, "defaults")
	}
	if !jsonEq(a.Ignore, b.Ignore) {
		d = append(d, "ignore")
	}
	if !jsonEq(a.Project, b.Project) {
		d = append(d, "project")
	}
	if !jsonEq(a.Features, b.Features) {
		d = append(d, "features")
	}
	if a.CapsURL != b.CapsURL {
		d = append(d, "caps_url")
	}
	if !jsonEq(a.Caps, b.Caps) {
		d = append(d, "caps")
	}
	return d
}

type mergeSpec struct {
	Kind      string         `json:"kind"`
	Provided  map[string]any `json:"provided"` // nil = the real bundle
	YamlDoc   map[string]any `json:"yaml_doc"`
	ModelDoc  map[string]any `json:"model_doc"`
	Malformed bool           `json:"malformed"`
	RtMerged  bool           `json:"rt_merged"` // also round-trip the merged configuration
}

func (g *genCtx) capsID(c [][2]string) string {
	bs, _ := json.Marshal(c)
	key := string(bs)
	g.mu.Lock()
	defer g.mu.Unlock()
	if g.byContent == nil {
		g.byContent = map[string]string{}
		ids := []string{}
		for id := range g.tables {
			ids = append(ids, id)
		}
		sort.Strings(ids)
		for _, id := range ids {
			tb, _ := json.Marshal(g.tables[id])
			if _, ok := g.byContent[string(tb)]; !ok {
				g.byContent[string(tb)] = id
			}
		}
	}
	if id, ok := g.byContent[key]; ok {
		return id
	}
	// content-addressed so that the name does not depend on the order in which workers finish
	h := fnv.New64a()
	h.Write(bs)
	id := fmt.Sprintf("obs%016x", h.Sum64())
	g.tables[id] = c
	g.byContent[key] = id
	return id
}

// replace the (large) capability lists by references into the table section
func (g *genCtx) slim(o obsConfig) map[string]any {
	bs, _ := json.Marshal(o)
	m := map[string]any{}
	must(json.Unmarshal(bs, &m))
	delete(m, "caps")
	if o.HasCaps {
		m["caps_ref"] = g.capsID(o.Caps)
	}
	return m
}

// withCaps: write the resolved capabilities too (large; the reloader ignores them either way)
func (g *genCtx) roundtrip(c *config.Config, withCaps bool) map[string]any {
	res := map[string]any{}
	cc := *c
	if !withCaps {
		cc.Capabilities = nil
	}
	out, err := yaml.Marshal(cc)
	if err != nil {
		res["marshal_err"] = err.Error()
		return res
	}
	var generic map[string]any
	must(yaml.Unmarshal(out, &generic))
	delete(generic, "capabilities")
	res["doc"] = normJSON(generic)
	var c2 config.Config
	if err := yaml.Unmarshal(out, &c2); err != nil {
		res["reload_err"] = unmarshalErrClass(err)
		return res
	}
	o2 := observe(&c2)
	res["reloaded"] = g.slim(o2)
	res["diff"] = roundtripDiff(observe(c), o2)
	return res
}

func (g *genCtx) runMerge(spec mergeSpec, realProvided obsConfig) map[string]any {
	var bndl *bundle.Bundle
	var provided obsConfig
	if spec.Provided == nil {
		bndl = &rbundle.LoadedBundle
		provided = realProvided
	} else {
		bndl = bundleOf(cloneAny(spec.Provided).(map[string]any))
		pc, err := config.LoadConfigWithDefaultsFromBundle(bndl, nil)
		must(err)
		pc.Capabilities = nil
		provided = observe(&pc)
	}
	rec := map[string]any{"kind": "merge", "spec": spec}
	if spec.Provided == nil {
		rec["provided_ref"] = "real"
	} else {
		rec["provided"] = g.slim(provided)
	}
	ybs, err := yaml.Marshal(spec.YamlDoc)
	must(err)
	var u config.Config
	if err := yaml.Unmarshal(ybs, &u); err != nil {
		rec["user_err"] = unmarshalErrClass(err)
		return rec
	}
	uobs := observe(&u)
	rec["user"] = g.slim(uobs)
	if _, ok := spec.YamlDoc["capabilities"]; !ok && !jsonEq(uobs.Caps, g.tables["default"]) {
		rec["pred_default_caps_wrong"] = true
	}
	// (before the merge: LoadConfigWithDefaultsFromBundle may write levels into the user's own maps)
	_, hasCapsSection := spec.YamlDoc["capabilities"]
	rec["rt_user"] = g.roundtrip(&u, hasCapsSection)
	merged, err := config.LoadConfigWithDefaultsFromBundle(bndl, &u)
	if err != nil {
		rec["merge_err"] = err.Error()
		return rec
	}
	mobs := observe(&merged)
	rec["merged"] = g.slim(mobs)
	if !jsonEq(mobs.Caps, uobs.Caps) {
		rec["pred_merged_caps_not_users"] = true
	}
	if after := observe(&u); !jsonEq(after, uobs) {
		rec["pred_user_mutated"] = true
	}
	// a second load from the same inputs gives the same result (defaults are re-extracted)
	merged2, err := config.LoadConfigWithDefaultsFromBundle(bndl, &u)
	if err != nil || !jsonEq(observe(&merged2), mobs) {
		rec["pred_reload_differs"] = true
	}
	rec["pred_only_overrides"] = predOnlyOverrides(provided, uobs, mobs)
	rec["pred_user_wins"] = append(predUserWins(uobs, mobs), predDocLevels(spec.YamlDoc, mobs)...)
	if spec.Provided == nil || spec.RtMerged {
		rec["rt_merged"] = g.roundtrip(&merged, false)
	}
	return rec
}

func mergeMain(outPath, work, tier, specsFile string) {
	out := hutil.NewOut(outPath)
	defer out.Close()
	g := &genCtx{rng: hutil.NewRng(hutil.SeedFromEnv() ^ 0xC18), work: work}
	must(os.MkdirAll(work, 0o755))
	g.init()

	rp, err := config.LoadConfigWithDefaultsFromBundle(&rbundle.LoadedBundle, nil)
	must(err)
	dcaps := observe(&rp).Caps
	g.tables["dcaps"] = dcaps
	rp.Capabilities = nil
	realProvided := observe(&rp)

	var specs []mergeSpec
	if specsFile != "" {
		bs, err := os.ReadFile(specsFile)
		must(err)
		for _, line := range bytes.Split(bs, []byte("\n")) {
			if len(bytes.TrimSpace(line)) == 0 {
				continue
			}
			var s mergeSpec
			must(json.Unmarshal(line, &s))
			specs = append(specs, s)
		}
	} else {
		nSynth, nReal, nBad := 300, 30, 100
		if tier == "thorough" {
			nSynth, nReal, nBad = 3000, 200, 600
		}
		for i := 0; i < nSynth; i++ {
			pd := genProvided(g.rng)
			pc, err := config.LoadConfigWithDefaultsFromBundle(bundleOf(cloneAny(pd).(map[string]any)), nil)
			must(err)
			pc.Capabilities = nil
			y, m := g.genUser(observe(&pc), false)
			specs = append(specs, mergeSpec{Kind: "merge", Provided: pd, YamlDoc: y, ModelDoc: m, RtMerged: i%3 == 0})
		}
		for i := 0; i < nReal; i++ {
			y, m := g.genUser(realProvided, false)
			specs = append(specs, mergeSpec{Kind: "merge", YamlDoc: y, ModelDoc: m})
		}
		for i := 0; i < nBad; i++ {
			pd := genProvided(g.rng)
			pc, err := config.LoadConfigWithDefaultsFromBundle(bundleOf(cloneAny(pd).(map[string]any)), nil)
			must(err)
			pc.Capabilities = nil
			y, m := g.genUser(observe(&pc), true)
			specs = append(specs, mergeSpec{Kind: "merge", Provided: pd, YamlDoc: y, ModelDoc: m, Malformed: true})
		}
	}

	fmt.Fprintf(os.Stderr, "c18 merge: %d specs generated\n", len(specs))
	out.Emit(map[string]any{"kind": "provided-real", "config": g.slim(realProvided)})
	recs := make([]map[string]any, len(specs))
	var wg sync.WaitGroup
	sem := make(chan struct{}, 16)
	for i := range specs {
		wg.Add(1)
		sem <- struct{}{}
		go func(i int) {
			defer wg.Done()
			defer func() { <-sem }()
			recs[i] = g.runMerge(specs[i], realProvided)
		}(i)
	}
	wg.Wait()
	for _, r := range recs {
		out.Emit(r)
	}
	out.Emit(map[string]any{"kind": "tables", "lookup": g.lookup, "tables": g.tables})
}

func main() {
	if len(os.Args) < 5 {
		fmt.Fprintln(os.Stderr, "usage: c18 tree OUT WORKDIR TIER REGALBIN [SPECS] | c18 merge OUT WORKDIR TIER [SPECS]")
		os.Exit(2)
	}
	arg := func(i int) string {
		if len(os.Args) > i {
			return os.Args[i]
		}
		return ""
	}
	switch os.Args[1] {
	case "tree":
		treeMain(os.Args[2], os.Args[3], os.Args[4], arg(5), arg(6))
	case "roottree":
		rootTreeMain(os.Args[2], os.Args[3], os.Args[4], arg(5))
	case "merge":
		mergeMain(os.Args[2], os.Args[3], os.Args[4], arg(5))
	default:
		os.Exit(2)
	}
}
