// Package probe: shared pieces of the C01/C02 harnesses: workspace generation, construction of
// the real linter, canonical (order-free) form of a report, and an independent per-file
// evaluation of the lint query (the "rule oracle" of the Coq model: what ONE file yields before
// the Go aggregation layer of pkg/linter touches it).
package probe

import (
	"context"
	"crypto/sha1"
	"encoding/hex"
	"encoding/json"
	"fmt"
	"os"
	"path/filepath"
	"sort"
	"strings"
	"sync/atomic"
	"testing/fstest"

	"gopkg.in/yaml.v3"

	"github.com/open-policy-agent/opa/v1/ast"
	"github.com/open-policy-agent/opa/v1/bundle"
	"github.com/open-policy-agent/opa/v1/metrics"
	"github.com/open-policy-agent/opa/v1/rego"
	"github.com/open-policy-agent/opa/v1/topdown/print"

	rbundle "github.com/styrainc/regal/bundle"
	"github.com/styrainc/regal/pkg/builtins"
	"github.com/styrainc/regal/pkg/config"
	"github.com/styrainc/regal/pkg/linter"
	"github.com/styrainc/regal/pkg/report"
	"github.com/styrainc/regal/pkg/rules"

	"github.com/styrainc/roast/pkg/encoding"
	"github.com/styrainc/roast/pkg/transform"

	"verifharness/hutil"
)

// ---------------------------------------------------------------- workspaces

// File of a generated workspace; Name is relative to the workspace root.
type File struct {
	Name    string `json:"name"`
	Content string `json:"content"`
}

// Workspace: files + which linter configuration is used.
type Workspace struct {
	ID     int    `json:"id"`
	Files  []File `json:"files"`
	Config string `json:"config"` // "default" | "enable-all" | "old-caps" | "few-rules" | "only:<rule title>,..."
	Custom bool   `json:"custom"` // custom aggregate rules loaded
	// RuleIgnore: "category/title" -> the rule's ignore.files patterns (user configuration): per-file results then
	// differ in which rules ran at all, i.e. also in the NOTICES a file comes back with (capability-gated rules)
	RuleIgnore map[string][]string `json:"rule_ignore,omitempty"`
	// CapsVersion: with Config "old-caps" the OPA version of capabilities.from ("" = v0.46.0)
	CapsVersion string `json:"caps_version,omitempty"`
	// Args: the path arguments (files and directories, relative to the workspace root) the workspace is linted
	// with, in all their orders; empty = every file of the workspace
	Args []string `json:"args,omitempty"`
	// MaxVariants: cap on the number of argument orders that are run (0 = no cap); for workspaces with big files
	MaxVariants int `json:"max_variants,omitempty"`
	// round 3 (all optional) ------------------------------------------------------------------------------------
	// Opts: optional features of the linter that change how the evaluation is set up, not what is linted:
	// "metrics" "instrument" "profile" "basecache" "printhook" "debug" "export-aggregates" "collect-query"
	Opts []string `json:"opts,omitempty"`
	// Manifests: directory (relative to the workspace root, "" = the root) -> rego_version of a .manifest file there
	Manifests map[string]int `json:"manifests,omitempty"`
	// Roots: project.roots of the user configuration, paths spelled as given (legacy/, ./legacy, legacy/nested ...)
	Roots []Root `json:"roots,omitempty"`
	// ProjectVersion: project.rego-version of the user configuration (nil = absent)
	ProjectVersion *int `json:"project_version,omitempty"`
	// Ignore: ignore.files of the user configuration
	Ignore []string `json:"ignore,omitempty"`
	// RuleLevels: "category/title" -> level of the user configuration (a map of maps on the Go side)
	RuleLevels map[string]string `json:"rule_levels,omitempty"`
	// Repeat: at least this many identical Lint calls (same argument list) per process (0 = the usual few)
	Repeat int `json:"repeat,omitempty"`
	// Family: free text naming the generator the workspace comes from (evidence)
	Family string `json:"family,omitempty"`
}

// Root: one entry of project.roots
type Root struct {
	Path    string `json:"path"`
	Version int    `json:"version"`
}

// OnlyRules: Config "only:<title>,<title>" = every rule disabled but these (cheap evaluations: many files and many
// repetitions for little CPU, and per-file evaluations that finish close to one another)
func (ws Workspace) OnlyRules() []string {
	if r, ok := strings.CutPrefix(ws.Config, "only:"); ok {
		return strings.Split(r, ",")
	}
	return nil
}

// Versioned: the workspace declares Rego versions per directory (the linter then needs the path prefix)
func (ws Workspace) Versioned() bool {
	return len(ws.Manifests) > 0 || len(ws.Roots) > 0 || ws.ProjectVersion != nil
}

const CustomAggRule = `# METADATA
# description: verif custom aggregate rule, data only from files defining camelCase rules
package custom.regal.rules.verif["camel-count"]

import data.regal.result

aggregate contains entry if {
	some rule in input.rules
	name := rule.head.ref[0].value
	startswith(name, "camel")
	entry := result.aggregate(rego.metadata.chain(), {"name": name})
}

aggregate_report contains violation if {
	count(input.aggregate) != 1
	violation := result.fail(rego.metadata.chain(), {})
}

aggregate_report contains violation if {
	some entry in input.aggregate
	violation := result.fail(rego.metadata.chain(), {"location": {
		"file": entry.aggregate_source.file, "row": 1, "col": 1, "text": "package",
	}})
}
`

const CustomEmptyAggRule = `# METADATA
# description: verif custom aggregate rule that never aggregates anything
package custom.regal.rules.verif["never-any"]

import data.regal.result

aggregate contains result.aggregate(rego.metadata.chain(), {}) if {
	input.nope
}

aggregate_report contains violation if {
	count(input.aggregate) == 0
	violation := result.fail(rego.metadata.chain(), {})
}
`

func CustomFS() fstest.MapFS {
	return fstest.MapFS{
		"camel.rego": &fstest.MapFile{Data: []byte(CustomAggRule)},
		"never.rego": &fstest.MapFile{Data: []byte(CustomEmptyAggRule)},
	}
}

var pkgs = []string{"p0", "p1", "p2", "p3", "q.r", "q.s"}

// GenContent writes one parseable module; the features are chosen so that the six bundled
// aggregate rules and the custom ones have something to say about the workspace.
func GenContent(rng *hutil.Rng, self int, npk int) string {
	var b strings.Builder
	pk := pkgs[self%npk]
	if rng.Below(4) == 0 {
		b.WriteString("# METADATA\n# description: generated\n")
		if rng.Below(2) == 0 {
			b.WriteString("# entrypoint: true\n")
		}
	}
	fmt.Fprintf(&b, "package ws.%s\n\n", pk)
	nimp := rng.Below(4)
	seen := map[string]bool{}
	for i := 0; i < nimp; i++ {
		var imp string
		switch rng.Below(5) {
		case 0:
			imp = fmt.Sprintf("data.nowhere.n%d", rng.Below(3))
		case 1:
			imp = fmt.Sprintf("data.ws.%s.partial", pkgs[rng.Below(npk)])
		default:
			imp = "data.ws." + pkgs[rng.Below(npk)]
		}
		if seen[imp] {
			continue
		}
		seen[imp] = true
		if rng.Below(5) == 0 {
			b.WriteString("# regal ignore:unresolved-import,circular-import\n")
		}
		fmt.Fprintf(&b, "import %s\n", imp)
	}
	b.WriteString("\n")
	nr := 1 + rng.Below(4)
	for i := 0; i < nr; i++ {
		switch rng.Below(7) {
		case 0:
			fmt.Fprintf(&b, "camelCase%d := %d\n\n", rng.Below(3), rng.Below(5))
		case 1:
			b.WriteString("partial contains 1\n\n")
		case 2:
			fmt.Fprintf(&b, "deny contains \"x%d\" if {\n\tnot data.ws.%s.partial\n}\n\n", i, pkgs[rng.Below(npk)])
		case 3:
			fmt.Fprintf(&b, "allow if {\n\tinput.x == %d\n}\n\n", rng.Below(3))
		case 4:
			fmt.Fprintf(&b, "# regal ignore:prefer-snake-case\ncamelIgnored%d := 1\n\n", i)
		case 5:
			fmt.Fprintf(&b, "r%d := x if {\n\tx := input.y[_]\n}\n\n", i)
		default:
			fmt.Fprintf(&b, "s%d := {\"a\": 1}\n\n", i)
		}
	}
	return b.String()
}

var dirPool = []string{"", "a", "a/b", "c", "a/b/d"}

// GenWorkspace: n files with distinct names in a few directories.
func GenWorkspace(rng *hutil.Rng, id, n int) Workspace {
	ws := Workspace{ID: id}
	switch rng.Below(6) {
	case 0:
		ws.Config = "enable-all"
	case 1:
		ws.Config = "old-caps"
	case 2:
		ws.Config = "few-rules"
	default:
		ws.Config = "default"
	}
	ws.Custom = rng.Below(3) != 0
	npk := 1 + rng.Below(len(pkgs))
	if npk > n+1 {
		npk = n + 1
	}
	for i := 0; i < n; i++ {
		d := dirPool[rng.Below(len(dirPool))]
		name := filepath.Join(d, fmt.Sprintf("f%d.rego", i))
		ws.Files = append(ws.Files, File{Name: name, Content: GenContent(rng, rng.Below(npk), npk)})
	}
	return ws
}

// Write materialises the workspace under root.
func (ws Workspace) Write(root string) error {
	for _, f := range ws.Files {
		p := filepath.Join(root, f.Name)
		if err := os.MkdirAll(filepath.Dir(p), 0o755); err != nil {
			return err
		}
		if err := os.WriteFile(p, []byte(f.Content), 0o644); err != nil {
			return err
		}
	}
	for d, v := range ws.Manifests {
		p := filepath.Join(root, d, ".manifest")
		if err := os.MkdirAll(filepath.Dir(p), 0o755); err != nil {
			return err
		}
		rt := d
		if rt == "" {
			rt = "."
		}
		if err := os.WriteFile(p, []byte(fmt.Sprintf(`{"roots": [%q], "rego_version": %d}`, rt, v)), 0o644); err != nil {
			return err
		}
	}
	return nil
}

// FewRules: the rules enabled by the "few-rules" configuration.
var FewRules = []string{"prefer-snake-case", "no-defined-entrypoint"}

const oldCapsYAML = "capabilities:\n  from:\n    engine: opa\n    version: v0.46.0\n"

// UserConfigYAML: the user configuration as text ("" for the defaults).
func (ws Workspace) UserConfigYAML() string {
	var b strings.Builder
	if ws.Config == "old-caps" {
		if ws.CapsVersion == "" {
			b.WriteString(oldCapsYAML)
		} else {
			b.WriteString("capabilities:\n  from:\n    engine: opa\n    version: " + ws.CapsVersion + "\n")
		}
	}
	if len(ws.RuleIgnore) > 0 || len(ws.RuleLevels) > 0 {
		byCat := map[string][]string{}
		for k := range ws.RuleIgnore {
			cat, title, _ := strings.Cut(k, "/")
			byCat[cat] = append(byCat[cat], title)
		}
		for k := range ws.RuleLevels {
			if _, dup := ws.RuleIgnore[k]; dup {
				continue
			}
			cat, title, _ := strings.Cut(k, "/")
			byCat[cat] = append(byCat[cat], title)
		}
		cats := make([]string, 0, len(byCat))
		for c := range byCat {
			cats = append(cats, c)
		}
		sort.Strings(cats)
		b.WriteString("rules:\n")
		for _, c := range cats {
			b.WriteString("  " + c + ":\n")
			sort.Strings(byCat[c])
			for _, t := range byCat[c] {
				b.WriteString("    " + t + ":\n")
				if lv, ok := ws.RuleLevels[c+"/"+t]; ok {
					b.WriteString("      level: " + lv + "\n")
				}
				if pats, ok := ws.RuleIgnore[c+"/"+t]; ok {
					b.WriteString("      ignore:\n        files:\n")
					for _, pat := range pats {
						b.WriteString("          - \"" + pat + "\"\n")
					}
				}
			}
		}
	}
	return b.String()
}

// UserConfig of a workspace (nil for the defaults).
func (ws Workspace) UserConfig() (*config.Config, error) {
	y := ws.UserConfigYAML()
	if y == "" && !ws.Versioned() && len(ws.Ignore) == 0 {
		return nil, nil
	}
	var c config.Config
	if y != "" {
		if err := yaml.Unmarshal([]byte(y), &c); err != nil {
			return nil, err
		}
	}
	if len(ws.Roots) > 0 || ws.ProjectVersion != nil {
		pr := &config.Project{}
		if ws.ProjectVersion != nil {
			v := *ws.ProjectVersion
			pr.RegoVersion = &v
		}
		if len(ws.Roots) > 0 {
			roots := []config.Root{}
			for _, r := range ws.Roots {
				v := r.Version
				roots = append(roots, config.Root{Path: r.Path, RegoVersion: &v})
			}
			pr.Roots = &roots
		}
		c.Project = pr
	}
	if len(ws.Ignore) > 0 {
		c.Ignore.Files = append([]string{}, ws.Ignore...)
	}
	return &c, nil
}

// NewLinter builds the real linter for the workspace (no input yet).
func (ws Workspace) NewLinter() (linter.Linter, error) { return ws.NewLinterAt("") }

// DiscardHook: a print hook that only counts
type DiscardHook struct{ n atomic.Int64 }

func (h *DiscardHook) Print(print.Context, string) error { h.n.Add(1); return nil }

// AllOpts: the optional features NewLinterAt knows
var AllOpts = []string{"metrics", "instrument", "profile", "basecache", "printhook", "debug", "export-aggregates", "collect-query"}

// NewLinterAt: the same for a workspace written under root (needed when directories carry Rego versions: the
// versions map is only consulted with a path prefix, as `regal lint` sets it when it finds a .regal directory)
func (ws Workspace) NewLinterAt(root string) (linter.Linter, error) {
	l := linter.NewLinter()
	if ws.Versioned() && root != "" {
		abs, err := filepath.Abs(root)
		if err != nil {
			return l, err
		}
		l = l.WithPathPrefix(abs)
	}
	for _, o := range ws.Opts {
		switch o {
		case "metrics":
			l = l.WithMetrics(metrics.New())
		case "instrument":
			l = l.WithInstrumentation(true)
		case "profile":
			l = l.WithProfiling(true)
		case "basecache":
			l = l.WithBaseCache(NewBaseCache())
		case "printhook":
			l = l.WithPrintHook(&DiscardHook{})
		case "debug":
			l = l.WithDebugMode(true)
		case "export-aggregates":
			l = l.WithExportAggregates(true)
		case "collect-query":
			l = l.WithCollectQuery(true)
		default:
			return l, fmt.Errorf("unknown linter option %q", o)
		}
	}
	uc, err := ws.UserConfig()
	if err != nil {
		return l, err
	}
	if uc != nil {
		l = l.WithUserConfig(*uc)
	}
	if ws.Config == "enable-all" {
		l = l.WithEnableAll(true)
	}
	if ws.Config == "few-rules" {
		// only one per-file rule and one aggregate rule that reports on the ABSENCE of aggregates
		l = l.WithDisableAll(true).WithEnabledRules(FewRules...)
	}
	if only := ws.OnlyRules(); only != nil {
		l = l.WithDisableAll(true).WithEnabledRules(only...)
	}
	if ws.Custom {
		l = l.WithCustomRulesFromFS(CustomFS(), ".")
	}
	return l, nil
}

// ---------------------------------------------------------------- canonical reports

// Viol is the canonical form of one violation: File + a key that identifies everything else.
type Viol struct {
	File string `json:"file"`
	Key  string `json:"key"`
	Agg  bool   `json:"agg"`
}

type Notice struct {
	Key string `json:"key"`
	Sev string `json:"sev"`
}

type AggKey struct {
	Key  string   `json:"key"`
	Aggs []string `json:"aggs"` // digests, sorted; "" never appears (markers are not stored)
}

// Canon: a report with every order-free part sorted.
type Canon struct {
	Viol    []Viol     `json:"viol"`
	Notices []Notice   `json:"notices"`
	Aggs    []AggKey   `json:"aggs"` // exported aggregates (only when requested)
	Dirs    [][]string `json:"dirs"` // exported ignore directives: (file, digest), sorted
	Scanned int        `json:"scanned"`
	Failed  int        `json:"failed"`
	Skipped int        `json:"skipped"`
	Num     int        `json:"num"`
}

func digest(v any) string {
	b, err := json.Marshal(v) // maps are marshalled with sorted keys
	if err != nil {
		panic(err)
	}
	h := sha1.Sum(b)
	return hex.EncodeToString(h[:6])
}

// Rel replaces the workspace root in file names so that reports do not mention temp paths.
type Rel func(string) string

func CanonViol(v report.Violation, rel Rel) Viol {
	vv := v
	vv.Location.File = rel(v.Location.File)
	return Viol{
		File: vv.Location.File,
		Key:  fmt.Sprintf("%s/%s@%d:%d:%s#%s", v.Category, v.Title, v.Location.Row, v.Location.Column, v.Level, digest(vv)),
		Agg:  v.IsAggregate,
	}
}

func CanonNotice(n report.Notice) Notice {
	return Notice{Key: fmt.Sprintf("%s/%s:%s#%s", n.Category, n.Title, n.Level, digest(n)), Sev: n.Severity}
}

func relAgg(a report.Aggregate, rel Rel) any {
	// the only place a file name occurs is aggregate_source.file
	var cp map[string]any
	b, _ := json.Marshal(a)
	_ = json.Unmarshal(b, &cp)
	if src, ok := cp["aggregate_source"].(map[string]any); ok {
		if f, ok := src["file"].(string); ok {
			src["file"] = rel(f)
		}
	}
	return cp
}

func CanonAggs(m map[string][]report.Aggregate, rel Rel) []AggKey {
	out := []AggKey{}
	for k, l := range m {
		ak := AggKey{Key: k, Aggs: []string{}}
		for _, a := range l {
			ak.Aggs = append(ak.Aggs, digest(relAgg(a, rel)))
		}
		sort.Strings(ak.Aggs)
		out = append(out, ak)
	}
	sort.Slice(out, func(i, j int) bool { return out[i].Key < out[j].Key })
	return out
}

func SortViol(vs []Viol) {
	sort.Slice(vs, func(i, j int) bool {
		if vs[i].File != vs[j].File {
			return vs[i].File < vs[j].File
		}
		if vs[i].Key != vs[j].Key {
			return vs[i].Key < vs[j].Key
		}
		return !vs[i].Agg && vs[j].Agg
	})
}

func SortNotices(ns []Notice) {
	sort.Slice(ns, func(i, j int) bool {
		if ns[i].Key != ns[j].Key {
			return ns[i].Key < ns[j].Key
		}
		return ns[i].Sev < ns[j].Sev
	})
}

func CanonReport(r report.Report, rel Rel) Canon {
	c := Canon{Viol: []Viol{}, Notices: []Notice{}, Aggs: []AggKey{}, Dirs: [][]string{},
		Scanned: r.Summary.FilesScanned, Failed: r.Summary.FilesFailed, Skipped: r.Summary.RulesSkipped, Num: r.Summary.NumViolations}
	for _, v := range r.Violations {
		c.Viol = append(c.Viol, CanonViol(v, rel))
	}
	SortViol(c.Viol)
	for _, n := range r.Notices {
		c.Notices = append(c.Notices, CanonNotice(n))
	}
	SortNotices(c.Notices)
	if r.Aggregates != nil {
		c.Aggs = CanonAggs(r.Aggregates, rel)
	}
	for k, d := range r.IgnoreDirectives {
		c.Dirs = append(c.Dirs, []string{rel(k), digest(d)})
	}
	sort.Slice(c.Dirs, func(i, j int) bool { return c.Dirs[i][0] < c.Dirs[j][0] })
	return c
}

func (c Canon) String() string {
	b, _ := json.Marshal(c)
	return string(b)
}

// ---------------------------------------------------------------- per-file oracle

// FileRes: what the lint query yields for ONE file, in the encoding of the Coq model.
type FileRes struct {
	Name    string     `json:"name"`
	Viol    []Viol     `json:"viol"`
	Notices []Notice   `json:"notices"` // in the order of the result (not de-duplicated)
	Aggs    []AggKey   `json:"aggs"`    // per key the digests in result order; "" is the empty marker
	Dirs    [][]string `json:"dirs"`    // (file, digest of its directives)
	raw     report.Report
}

// Oracle evaluates `lint := data.regal.main.lint` the way pkg/linter prepares it, but one file
// at a time and without any of the Go-side merging.
type Oracle struct {
	pq rego.PreparedEvalQuery
}

func jsonMap(v any) map[string]any {
	var m map[string]any
	encoding.MustJSONRoundTrip(v, &m)
	return m
}

func nz(s []string) []string {
	if s == nil {
		return []string{}
	}
	return s
}

func NewOracle(ctx context.Context, ws Workspace) (*Oracle, error) {
	l, err := ws.NewLinter()
	if err != nil {
		return nil, err
	}
	conf, err := l.GetConfig()
	if err != nil {
		return nil, err
	}
	enable := []string{}
	if ws.Config == "few-rules" {
		enable = FewRules
	}
	if only := ws.OnlyRules(); only != nil {
		enable = only
	}
	params := map[string]any{
		"disable_all": ws.Config == "few-rules" || ws.OnlyRules() != nil, "disable_category": []string{}, "disable": []string{},
		"enable_all": ws.Config == "enable-all", "enable_category": []string{}, "enable": enable,
		"ignore_files": []string{},
	}
	data := &bundle.Bundle{
		Manifest: bundle.Manifest{Roots: &[]string{"internal", "eval"}, Metadata: map[string]any{"name": "internal"}},
		Data: map[string]any{
			"eval": map[string]any{"params": params},
			"internal": map[string]any{
				"combined_config": config.ToMap(*conf),
				"capabilities":    jsonMap(config.CapabilitiesForThisVersion()),
				"path_prefix":     "",
			},
		},
	}
	args := append([]func(*rego.Rego){
		rego.StoreReadAST(true),
		rego.ParsedQuery(ast.MustParseBody("lint := data.regal.main.lint")),
	}, builtins.RegalBuiltinRegoFuncs...)
	args = append(args, rego.ParsedBundle("internal", data))
	if ws.Custom {
		for name, f := range CustomFS() {
			m, err := ast.ParseModule(name, string(f.Data))
			if err != nil {
				return nil, err
			}
			args = append(args, rego.ParsedModule(m))
		}
	}
	args = append(args, rego.ParsedBundle("regal", &rbundle.LoadedBundle))
	pq, err := rego.New(args...).PrepareForEval(ctx)
	if err != nil {
		return nil, err
	}
	return &Oracle{pq: pq}, nil
}

// EvalFile: result of the lint query for one file (named as the linter would name it).
func (o *Oracle) EvalFile(ctx context.Context, name string, collect bool, rel Rel) (FileRes, error) {
	in, err := rules.InputFromPaths([]string{name}, "", nil)
	if err != nil {
		return FileRes{}, err
	}
	if len(in.FileNames) != 1 {
		return FileRes{}, fmt.Errorf("expected one file, got %v", in.FileNames)
	}
	n := in.FileNames[0]
	iv, err := transform.ToAST(n, in.FileContent[n], in.Modules[n], collect)
	if err != nil {
		return FileRes{}, err
	}
	rs, err := o.pq.Eval(ctx, rego.EvalParsedInput(iv))
	if err != nil {
		return FileRes{}, err
	}
	if len(rs) != 1 {
		return FileRes{}, fmt.Errorf("expected 1 result, got %d", len(rs))
	}
	var r report.Report
	if b, ok := rs[0].Bindings["lint"]; ok {
		if err := encoding.JSONRoundTrip(b, &r); err != nil {
			return FileRes{}, err
		}
	}
	fr := FileRes{Name: rel(n), Viol: []Viol{}, Notices: []Notice{}, Aggs: []AggKey{}, Dirs: [][]string{}, raw: r}
	for _, v := range r.Violations {
		fr.Viol = append(fr.Viol, CanonViol(v, rel))
	}
	for _, nt := range r.Notices {
		fr.Notices = append(fr.Notices, CanonNotice(nt))
	}
	keys := make([]string, 0, len(r.Aggregates))
	for k := range r.Aggregates {
		keys = append(keys, k)
	}
	sort.Strings(keys)
	for _, k := range keys {
		ak := AggKey{Key: k, Aggs: []string{}}
		for _, a := range r.Aggregates[k] {
			if len(a) == 0 {
				ak.Aggs = append(ak.Aggs, "")
			} else {
				ak.Aggs = append(ak.Aggs, digest(relAgg(a, rel)))
			}
		}
		fr.Aggs = append(fr.Aggs, ak)
	}
	dk := make([]string, 0, len(r.IgnoreDirectives))
	for k := range r.IgnoreDirectives {
		dk = append(dk, k)
	}
	sort.Strings(dk)
	for _, k := range dk {
		fr.Dirs = append(fr.Dirs, []string{rel(k), digest(r.IgnoreDirectives[k])})
	}
	return fr, nil
}

// Raw gives access to the undigested per-file result (aggregate phase input).
func (f FileRes) Raw() report.Report { return f.raw }

// EvalAggregate runs the aggregate phase of the lint query on the given merged aggregates and
// directives (the oracle R_aggreport of the model).
func (o *Oracle) EvalAggregate(ctx context.Context, aggs map[string][]report.Aggregate,
	dirs map[string]map[string][]string, rel Rel) ([]Viol, error) {
	input := map[string]any{
		"aggregates_internal": aggs,
		"ignore_directives":   dirs,
		"regal": map[string]any{
			"operations": []string{"aggregate"},
			"file":       map[string]any{"name": "__aggregate_report__", "lines": []string{}},
		},
	}
	iv, err := transform.ToOPAInputValue(input)
	if err != nil {
		return nil, err
	}
	rs, err := o.pq.Eval(ctx, rego.EvalParsedInput(iv))
	if err != nil {
		return nil, err
	}
	if len(rs) != 1 {
		return nil, fmt.Errorf("expected 1 result, got %d", len(rs))
	}
	var r report.Report
	if b, ok := rs[0].Bindings["lint"].(map[string]any); ok {
		if ab, ok := b["aggregate"]; ok {
			if err := encoding.JSONRoundTrip(ab, &r); err != nil {
				return nil, err
			}
		}
	}
	out := []Viol{}
	for _, v := range r.Violations {
		v.IsAggregate = true
		out = append(out, CanonViol(v, rel))
	}
	SortViol(out)
	return out, nil
}
