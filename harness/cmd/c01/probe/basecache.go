package probe

import (
	"sync"

	"github.com/open-policy-agent/opa/v1/ast"
)

// A base cache for WithBaseCache: the harness module cannot import regal's internal/cache, so this is the same trie
// (values stored at the reference they were put under, a Get below a stored value descends into it) behind a RWMutex.
// `regal lint` always sets one; the API leaves it to the caller.
type baseCache struct {
	root *bcElem
	rwm  sync.RWMutex
}

type bcElem struct {
	value    ast.Value
	children map[ast.Value]*bcElem
}

func newBcElem() *bcElem { return &bcElem{children: map[ast.Value]*bcElem{}} }

func NewBaseCache() *baseCache { return &baseCache{root: newBcElem()} }

func (c *baseCache) Get(ref ast.Ref) ast.Value {
	c.rwm.RLock()
	defer c.rwm.RUnlock()
	node := c.root
	for i := range ref {
		node = node.children[ref[i].Value]
		if node == nil {
			return nil
		} else if node.value != nil {
			result, err := node.value.Find(ref[i+1:])
			if err != nil {
				return nil
			}
			return result
		}
	}
	return nil
}

func (c *baseCache) Put(ref ast.Ref, value ast.Value) {
	c.rwm.Lock()
	defer c.rwm.Unlock()
	node := c.root
	for i := range ref {
		child, ok := node.children[ref[i].Value]
		if !ok {
			child = newBcElem()
			node.children[ref[i].Value] = child
		}
		node = child
	}
	node.value = value
}
