// Third family of C01 workspaces (seeded round 3).
//
//	aggtrig   trigger workspaces for EVERY rule that defines `aggregate_report`: the rules are enumerated from the
//	          embedded bundle of the tree under test at run time (aggReportRules), every rule is enabled whatever its
//	          default level (enable-all), and the files are written so that two or more files contribute entries that
//	          the rule puts under one key (the same package spread over two files of equal size, the same unresolved
//	          import in two files, two packages importing each other from two files each, the same rule imported and
//	          negated from two files, two entrypoints).  The aggregate phase is evaluated directly (OPA, no pkg/linter)
//	          on many orders of input.aggregate -- H_aggperm rule by rule --, and the workspace goes through the usual
//	          Lint runs (argument orders x repetitions x concurrent calls x GOMAXPROCS 16/2/1).  A rule of the list
//	          that no workspace triggers is reported in the evidence as untested.
//	versions  configuration shapes whose Go-side processing ranges over MAPS: Rego versions per directory declared
//	          by .manifest files AND by project.roots entries spelled in several ways (legacy/, ./legacy, ./legacy/,
//	          /legacy, nested directories) with different versions, a project-wide version, rule levels in several
//	          categories, ignore lists; files that lint differently as v0 and v1.  Identical Lint calls, >= 8 per
//	          process, in every process: all reports identical.  rules.RegoVersionFromVersionsMap is also called
//	          directly, many times with freshly built maps, for every file.
package main

import (
	"fmt"
	"path/filepath"
	"sort"
	"strings"

	"github.com/open-policy-agent/opa/v1/ast"

	rbundle "github.com/styrainc/regal/bundle"
	"github.com/styrainc/regal/pkg/config"
	"github.com/styrainc/regal/pkg/rules"

	"verifharness/cmd/c01/probe"
	"verifharness/hutil"
)

// aggReportRules: "category/title" of every rule package of the embedded bundle that defines aggregate_report
func aggReportRules() []string {
	set := map[string]bool{}
	for _, mf := range rbundle.LoadedBundle.Modules {
		if mf.Parsed == nil {
			continue
		}
		p := mf.Parsed.Package.Path
		if len(p) != 5 || p[1].Value.String() != `"regal"` || p[2].Value.String() != `"rules"` {
			continue
		}
		title := strings.Trim(p[4].Value.String(), `"`)
		if strings.HasSuffix(title, "_test") {
			continue
		}
		for _, r := range mf.Parsed.Rules {
			ref := r.Head.Ref()
			if len(ref) > 0 && strings.Trim(ref[0].Value.String(), `"`) == "aggregate_report" {
				set[strings.Trim(p[3].Value.String(), `"`)+"/"+title] = true
			}
		}
	}
	out := []string{}
	for k := range set {
		out = append(out, k)
	}
	sort.Strings(out)
	return out
}

// GenAggTrig: variant 0 = no entrypoint anywhere; variant 1 = two entrypoints, packages in other directories;
// further variants: random sizes.  Twins (equal size, same package) so that their workers finish in either order.
func GenAggTrig(rng *hutil.Rng, id, variant int) probe.Workspace {
	ws := probe.Workspace{ID: id, Config: "enable-all", Custom: variant%2 == 1, Family: "aggtrig", MaxVariants: 6}
	add := func(name, content string) {
		ws.Files = append(ws.Files, probe.File{Name: name, Content: content})
	}
	pad := func(k int) string {
		var b strings.Builder
		for i := 0; i < k; i++ {
			fmt.Fprintf(&b, "pad%d := %d\n\n", i, i)
		}
		return b.String()
	}
	cross := func(self, other, tag string, k int) string {
		return fmt.Sprintf("package ws.%s\n\nimport data.ws.%s\nimport data.ws.%s.partial as other_partial\nimport data.nowhere.n%d\n\n"+
			"partial contains %d\n\ndeny contains \"%s\" if {\n\tnot data.ws.%s.partial\n}\n\nuses if {\n\t%s.uses\n\tother_partial[1]\n}\n\ncamelCase%s := 1\n\n%s",
			self, other, other, variant%2, k, tag, other, other, strings.ToUpper(tag[:1]), pad(variant/2))
	}
	d1, d2 := "alpha", "beta"
	if variant%2 == 1 {
		d1, d2 = "x/alpha", "x/y/beta"
	}
	// two packages importing each other, each spread over two files of equal size
	add(d1+"/a1.rego", cross("alpha", "beta", "a1", 1))
	add(d1+"/a2.rego", cross("alpha", "beta", "a2", 2))
	add(d2+"/b1.rego", cross("beta", "alpha", "b1", 3))
	add(d2+"/b2.rego", cross("beta", "alpha", "b2", 4))
	// one package without metadata in two (three) files of different sizes
	add("gamma/g1.rego", "package ws.gamma\n\nimport data.nowhere.n0\n\nfirst := 1\n")
	add("gamma/g2.rego", "package ws.gamma\n\nimport data.nowhere.n0\n\nsecond := 2\n\n"+pad(3+rng.Below(4)))
	if variant >= 1 {
		add("g3.rego", "package ws.gamma\n\nthird := 3\n\n# regal ignore:unresolved-import\nimport data.nowhere.n0\n")
	}
	if variant%2 == 1 {
		add("delta/d1.rego", "# METADATA\n# entrypoint: true\npackage ws.delta\n\nimport data.ws.alpha\n\nmain1 := alpha.deny\n")
		add("delta/d2.rego", "# METADATA\n# entrypoint: true\npackage ws.delta\n\nimport data.ws.alpha\n\nmain2 := alpha.deny\n")
	}
	return ws
}

// ---- versions -----------------------------------------------------------------------------------------------------

var versionDirs = []string{"legacy", "legacy/nested", "modern", "modern/sub"}

func versionFiles(rng *hutil.Rng) []probe.File {
	// every module parses as v0 and as v1, and is linted differently (use-rego-v1 and friends run for v0 only)
	mod := func(pkg string, k int) string {
		return fmt.Sprintf("package %s\n\nimport future.keywords.if\nimport future.keywords.in\n\nallow if input.x == %d\n\ndeny if {\n\tsome y in input.ys\n\ty == %d\n}\n\ncamelCase%d := %d\n", pkg, k, k, k, k)
	}
	fs := []probe.File{{Name: "top.rego", Content: mod("top", rng.Below(5))}}
	k := 0
	for _, d := range versionDirs {
		for j := 0; j < 2; j++ {
			k++
			fs = append(fs, probe.File{Name: fmt.Sprintf("%s/p%d.rego", d, k), Content: mod(strings.ReplaceAll(d, "/", ".")+fmt.Sprintf(".p%d", k), k)})
		}
	}
	fs = append(fs, probe.File{Name: "modern/sub/skip_me.rego", Content: mod("modern.sub.skip_me", 99)})
	return fs
}

// GenVersions: shape 0 = the minimal conflict (.manifest in legacy, root "legacy/" with the other version);
// shape 1 = nested roots, ./-spellings, a project-wide version and a .manifest at the workspace root;
// shape 2.. = random: per directory a random subset of the spellings, random versions.
//
// Two keys that name the same directory get different raw lengths (d, d/ or /d, ./d, ./d/): which of two entries of
// EQUAL length for one directory with contradicting versions wins is not defined by anything (see notes).
func GenVersions(rng *hutil.Rng, id, shape int) probe.Workspace {
	ws := probe.Workspace{ID: id, Config: "default", Family: "versions", Files: versionFiles(rng), Args: []string{""}, Repeat: 8,
		Manifests: map[string]int{},
		RuleLevels: map[string]string{"style/prefer-snake-case": "warning", "bugs/constant-condition": "ignore", "imports/use-rego-v1": "error",
			"idiomatic/directory-package-mismatch": "ignore", "custom/missing-metadata": "warning", "style/opa-fmt": "ignore"},
		Ignore: []string{"modern/sub/skip_*.rego", "*.txt", "nothing/**"}}
	switch shape {
	case 0:
		ws.Manifests["legacy"] = 1
		ws.Roots = []probe.Root{{Path: "legacy/", Version: 0}}
	case 1:
		one := 1
		ws.ProjectVersion = &one
		ws.Manifests[""] = 0
		ws.Manifests["legacy"] = 0
		ws.Manifests["modern/sub"] = 1
		ws.Roots = []probe.Root{{Path: "./legacy/", Version: 1}, {Path: "legacy/nested", Version: 0}, {Path: "./modern/sub/", Version: 0},
			{Path: "./modern", Version: 0}, {Path: "modern/", Version: 1}}
	default:
		if rng.Below(2) == 0 {
			v := rng.Below(2)
			ws.ProjectVersion = &v
		}
		for _, d := range versionDirs {
			v := rng.Below(2)
			if rng.Below(2) == 0 {
				ws.Manifests[d] = v
				v = 1 - v
			}
			var sp []string
			if rng.Below(2) == 0 {
				sp = append(sp, d+"/")
			} else {
				sp = append(sp, "/"+d)
			}
			sp = append(sp, "./"+d, "./"+d+"/")
			for _, s := range sp {
				if rng.Below(2) == 0 {
					ws.Roots = append(ws.Roots, probe.Root{Path: s, Version: v})
					v = 1 - v
				}
			}
		}
		hutil.Shuffle(rng, ws.Roots)
	}
	return ws
}

// VersionLookup: what rules.RegoVersionFromVersionsMap selects for every file of a versioned workspace over many
// calls, each with a map freshly built by config.AllRegoVersions (as every Lint call builds one)
type VersionLookup struct {
	File     string   `json:"file"`
	Versions []string `json:"versions"` // distinct answers (one on a deterministic implementation)
	Calls    int      `json:"calls"`
}

func versionLookups(ws probe.Workspace, root string, names []string, calls int) (out []VersionLookup, keys []string, err error) {
	abs, err := filepath.Abs(root)
	if err != nil {
		return nil, nil, err
	}
	conf, err := ws.UserConfig()
	if err != nil {
		return nil, nil, err
	}
	seen := make([]map[string]bool, len(names))
	for i := range seen {
		seen[i] = map[string]bool{}
	}
	for c := 0; c < calls; c++ {
		vm, err := config.AllRegoVersions(abs, conf)
		if err != nil {
			return nil, nil, err
		}
		if c == 0 {
			for k := range vm {
				keys = append(keys, fmt.Sprintf("%q=%s", k, vm[k]))
			}
			sort.Strings(keys)
		}
		for i, nm := range names {
			relName := "/" + strings.TrimPrefix(nm, root+"/")
			seen[i][rules.RegoVersionFromVersionsMap(vm, relName, ast.RegoUndefined).String()] = true
		}
	}
	for i, nm := range names {
		vl := VersionLookup{File: strings.TrimPrefix(nm, root+"/"), Calls: calls, Versions: []string{}}
		for v := range seen[i] {
			vl.Versions = append(vl.Versions, v)
		}
		sort.Strings(vl.Versions)
		out = append(out, vl)
	}
	return out, keys, nil
}
