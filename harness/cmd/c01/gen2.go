// Second family of C01 workspaces (seeded round 2).
//
//	skew     per-file results that differ in EVERY component the merge of lintWithRegoRules handles -- notices
//	         (capability-gated rules x per-rule ignore.files on a subset of the files), violations, aggregates
//	         (entries / only the empty marker / nothing at all), ignore directives -- in files of very different
//	         sizes (one file with hundreds of rules, sorted first or last, next to tiny files and to twins of equal
//	         size), so that the order in which the workers reach the merge differs between GOMAXPROCS 1 / 2 / 16 and
//	         from run to run, and is skewed both ways
//	prefix   argument LISTS of directories and files whose names share string prefixes (authz, authz-extra,
//	         authz.rego, authz/sub), nested, overlapping and duplicated arguments: every order of a list must give
//	         the same report (and files_scanned)
package main

import (
	"fmt"
	"os"
	"path/filepath"
	"sort"
	"strings"

	"verifharness/cmd/c01/probe"
	"verifharness/hutil"
)

// skewIgnores: which rule ignores which class of files (the class is the suffix of the file name)
//
//	_n   nothing ignored: all notices, all rules
//	_x   no use-strings-count (notice), no prefer-snake-case (violations)
//	_y   no use-rego-v1 (notice), no camel-count (custom aggregate rule: the file contributes NOTHING, not even a marker)
//	_xy  no use-strings-count, no use-rego-v1, no unresolved-import (bundled aggregate rule)
func skewIgnores() map[string][]string {
	return map[string][]string{
		"idiomatic/use-strings-count": {"*_x.rego", "*_xy.rego"},
		"imports/use-rego-v1":         {"*_y.rego", "*_xy.rego"},
		"style/prefer-snake-case":     {"*_x.rego"},
		"verif/camel-count":           {"*_y.rego"},
		"imports/unresolved-import":   {"*_xy.rego"},
	}
}

// bigContent: a module with nrules rules (every seventh camelCase: violations and aggregate entries)
func bigContent(rng *hutil.Rng, pkg string, nrules int) string {
	var b strings.Builder
	fmt.Fprintf(&b, "package ws.%s\n\nimport data.ws.p0\nimport data.nowhere.n%d\n\n", pkg, rng.Below(3))
	for i := 0; i < nrules; i++ {
		switch {
		case i%7 == 3:
			fmt.Fprintf(&b, "camelBig%d := %d\n\n", i, i)
		case i%11 == 5:
			fmt.Fprintf(&b, "# regal ignore:prefer-snake-case\ncamelIgnoredBig%d := %d\n\n", i, i)
		case i%5 == 0:
			fmt.Fprintf(&b, "big%d := x if {\n\tx := input.y[%d]\n}\n\n", i, i%4)
		default:
			fmt.Fprintf(&b, "big%d := %d\n\n", i, i)
		}
	}
	return b.String()
}

// tinyContent: a module of a few lines; twin = true gives a fixed shape (equal size for every twin)
func tinyContent(rng *hutil.Rng, pkg string, k int, twin bool) string {
	if twin {
		return fmt.Sprintf("package ws.%s\n\nimport data.ws.p0\n\ncamelTwin%d := %d\n\npartial contains %d\n", pkg, k, k, k)
	}
	switch rng.Below(3) {
	case 0:
		return fmt.Sprintf("package ws.%s\n\nallow if {\n\tinput.x == %d\n}\n", pkg, k)
	case 1:
		return fmt.Sprintf("# METADATA\n# entrypoint: true\npackage ws.%s\n\nimport data.ws.big\n# regal ignore:unresolved-import\nimport data.nowhere.n%d\n\ncamelTiny%d := 1\n", pkg, k, k)
	}
	return fmt.Sprintf("package ws.%s\n\n# regal ignore:prefer-snake-case\ncamelIgnored%d := 1\n\ns%d := {\"a\": 1}\n", pkg, k, k)
}

// GenSkew: shape 0 = the big file sorts first and ignores nothing, tiny files of the other classes;
// shape 1 = the big file sorts last and is of class _x, twins of equal size of classes _n and _y before it;
// shape 2.. = random: 3-5 files, the big one anywhere and of any class, a pair of twins
func GenSkew(rng *hutil.Rng, id, shape, nbig int) probe.Workspace {
	ws := probe.Workspace{ID: id, Config: "old-caps", Custom: true, RuleIgnore: skewIgnores(), MaxVariants: 4}
	if rng.Below(3) == 0 {
		ws.CapsVersion = "v0.40.0"
	}
	classes := []string{"n", "x", "y", "xy"}
	add := func(name, content string) {
		ws.Files = append(ws.Files, probe.File{Name: name, Content: content})
	}
	switch shape {
	case 0:
		add("a_big_n.rego", bigContent(rng, "big", nbig))
		add("d/m1_x.rego", tinyContent(rng, "p0", 1, false))
		add("d/m2_y.rego", tinyContent(rng, "p1", 2, false))
		add("m3_xy.rego", tinyContent(rng, "p2", 3, false))
	case 1:
		add("b1_n.rego", tinyContent(rng, "p0", 1, true))
		add("b2_y.rego", tinyContent(rng, "p1", 2, true))
		add("d/z_big_x.rego", bigContent(rng, "big", nbig))
	default:
		n := 3 + rng.Below(3)
		bigAt := rng.Below(n)
		for i := 0; i < n; i++ {
			cl := classes[rng.Below(len(classes))]
			dir := []string{"", "d/", "d/e/"}[rng.Below(3)]
			switch {
			case i == bigAt:
				add(fmt.Sprintf("%sf%d_big_%s.rego", dir, i, cl), bigContent(rng, "big", nbig/2+rng.Below(nbig)))
			case i == (bigAt+1)%n || i == (bigAt+2)%n: // twins: same shape, different classes
				cl = classes[(i+shape)%len(classes)]
				add(fmt.Sprintf("%sf%d_twin_%s.rego", dir, i, cl), tinyContent(rng, fmt.Sprintf("p%d", i%3), i, true))
			default:
				add(fmt.Sprintf("%sf%d_%s.rego", dir, i, cl), tinyContent(rng, fmt.Sprintf("p%d", i%3), i, false))
			}
		}
	}
	return ws
}

// ---- argument lists over names that share prefixes --------------------------------------------------------------

func prefixFiles(rng *hutil.Rng) []probe.File {
	return []probe.File{
		{Name: "authz/main.rego", Content: "package ws.authz\n\nimport data.ws.extra\nimport data.ws.top\n\nallow if {\n\textra.ok\n\tinput.x == " + fmt.Sprint(rng.Below(3)) + "\n}\n"},
		{Name: "authz/sub/deep.rego", Content: "package ws.authz.sub\n\nimport data.ws.authz\n\ncamelDeep := authz.allow\n"},
		{Name: "authz-extra/extra.rego", Content: "# METADATA\n# entrypoint: true\npackage ws.extra\n\nimport data.ws.authz.sub\n\nok if sub.camelDeep\n\ncamelExtra := 1\n"},
		{Name: "authz.rego", Content: "package ws.top\n\n# regal ignore:prefer-snake-case\ncamelTop := 1\n\npartial contains 1\n"},
		{Name: "authz_test/t.rego", Content: "package ws.authz_test\n\nimport data.ws.authz\n\ntest_allow if authz.allow with input.x as 1\n"},
	}
}

// the pool from which argument lists are drawn: directories and files, prefixes of one another as strings
// (authz < authz-extra, authz.rego, authz/sub, authz_test) and as paths (authz > authz/sub > authz/sub/deep.rego)
var prefixPool = []string{"authz", "authz-extra", "authz.rego", "authz/sub", "authz/main.rego", "authz_test", "authz/sub/deep.rego", "authz-extra/extra.rego", ""}

// PrefixLists: the fixed argument lists of the quick tier (+ random ones, thorough: more)
func PrefixLists(rng *hutil.Rng, tier string) [][]string {
	lists := [][]string{
		{"authz", "authz-extra"},
		{"authz", "authz-extra", "authz.rego"},
		{"authz/sub", "authz", "authz-extra", "authz.rego"},
		{"authz", "authz/main.rego", "authz"},
		{"authz.rego", "authz-extra/extra.rego", "authz/sub"},
	}
	nrand := 1
	if tier != "quick" {
		nrand = 8
		lists = append(lists, []string{"authz_test", "authz", "authz-extra", ""}, []string{"authz", "authz_test"}, []string{"authz/sub", "authz/sub/deep.rego", "authz"})
	}
	for i := 0; i < nrand; i++ {
		k := 2 + rng.Below(3)
		var l []string
		for len(l) < k {
			l = append(l, prefixPool[rng.Below(len(prefixPool))]) // duplicates allowed
		}
		lists = append(lists, l)
	}
	return lists
}

func GenPrefix(rng *hutil.Rng, id int, args []string) probe.Workspace {
	ws := probe.Workspace{ID: id, Config: []string{"default", "enable-all", "default", "few-rules"}[id%4], Custom: rng.Below(2) == 0,
		Files: prefixFiles(rng), Args: args}
	return ws
}

// expandArgs: the .rego files below the arguments (relative to root), each once, sorted: component-wise containment,
// computed here independently of pkg/config's walk
func expandArgs(root string, args []string) []string {
	seen := map[string]bool{}
	for _, a := range args {
		_ = filepath.Walk(filepath.Join(root, a), func(p string, info os.FileInfo, err error) error {
			if err == nil && !info.IsDir() && strings.HasSuffix(p, ".rego") {
				seen[filepath.Clean(p)] = true
			}
			return nil
		})
	}
	out := make([]string, 0, len(seen))
	for p := range seen {
		out = append(out, p)
	}
	sort.Strings(out)
	return out
}

// distinctPerms: the distinct orders of a list that may hold duplicates
func distinctPerms(xs []string) [][]string {
	seen := map[string]bool{}
	var out [][]string
	for _, p := range perms(xs) {
		k := strings.Join(p, "\x00")
		if !seen[k] {
			seen[k] = true
			out = append(out, p)
		}
	}
	return out
}
