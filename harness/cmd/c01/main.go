// C01 harness: lints generated workspaces with the real linter under permutations of the argument
// list, repetition and concurrent Lint calls (GOMAXPROCS is fixed per process by the driver, which
// starts one process per value), canonicalises every report and records the distinct ones; it
// also evaluates the lint query one file at a time WITHOUT pkg/linter's aggregation layer (the
// rule oracle of the Coq model) and drives rules.InputFromPaths directly on respelled paths.
//
// usage: c01 <out.jsonl> <tier> <workdir> <gomaxprocs> <oracle:0|1> [fixed-workspaces.json [only]]
// env:   VERIF_SEED; VERIF_SHARD=i/k (run every k-th workspace starting with the i-th)
package main

import (
	"context"
	"encoding/json"
	"fmt"
	"os"
	"path/filepath"
	"runtime"
	"sort"
	"strconv"
	"strings"
	"sync"
	"time"

	"github.com/styrainc/regal/pkg/report"
	"github.com/styrainc/regal/pkg/rules"

	"verifharness/cmd/c01/probe"
	"verifharness/hutil"
)

type Run struct {
	Variant int  `json:"variant"`
	Rep     int  `json:"rep"`
	Conc    bool `json:"conc"`
	Canon   int  `json:"canon"` // index into Canons, -1 on error
	Order   int  `json:"order"` // index of the observed merge order signature
}

type OracleOut struct {
	Files     []probe.FileRes `json:"files"`
	Merged    []probe.AggKey  `json:"merged"`
	Dirs      [][]string      `json:"dirs"`
	AggViol   []probe.Viol    `json:"aggviol"`
	AggPermOK bool            `json:"aggperm_ok"`
	AggPermN  int             `json:"aggperm_n"`
	AggRules  []AggRuleCov    `json:"agg_rules"` // H_aggperm rule by rule (round 3)
	AggDiff   *AggOrderDiff   `json:"agg_diff,omitempty"`
}

// AggRuleCov: what the H_aggperm test of this workspace amounts to for one rule defining aggregate_report
type AggRuleCov struct {
	Rule       string `json:"rule"`
	Entries    int    `json:"entries"`    // entries of input.aggregate for the rule
	Files      int    `json:"files"`      // distinct files that contributed them
	Violations int    `json:"violations"` // aggregate violations of the rule (first order)
	Orders     int    `json:"orders"`     // distinct orders of its entries the aggregate phase was evaluated on
	Dependent  bool   `json:"dependent"`  // some order gave other violations
}

// AggOrderDiff: the first pair of orders of input.aggregate on which the aggregate phase disagreed
type AggOrderDiff struct {
	Rules  []string            `json:"rules"`
	OrderA map[string][]string `json:"order_a"` // rule -> source files of its entries, in order
	OrderB map[string][]string `json:"order_b"`
	OnlyA  []probe.Viol        `json:"only_a"`
	OnlyB  []probe.Viol        `json:"only_b"`
}

func aggRuleOfKey(k string) string {
	if i := strings.Index(k, "@"); i >= 0 {
		return k[:i]
	}
	return k
}

func sourceFiles(l []report.Aggregate, rel probe.Rel) []string {
	out := []string{}
	for _, a := range l {
		out = append(out, rel(a.SourceFile()))
	}
	return out
}

type InputCase struct {
	Paths  []string `json:"paths"`
	OK     []bool   `json:"ok"`
	Got    []string `json:"got"` // FileNames (workspace-relative spelling kept as is)
	Err    bool     `json:"err"`
	Stable bool     `json:"stable"` // identical over repetitions
}

type WsOut struct {
	Kind     string          `json:"kind"`
	Procs    int             `json:"procs"`
	WS       probe.Workspace `json:"ws"`
	N        int             `json:"n"`
	Oracle   *OracleOut      `json:"oracle,omitempty"`
	Variants [][]string      `json:"variants"`
	Runs     []Run           `json:"runs"`
	Canons   []probe.Canon   `json:"canons"`
	Orders   int             `json:"orders"`
	Errors   []string        `json:"errors"`
	Inputs   []InputCase     `json:"inputs"`
	Seconds  float64         `json:"seconds"` // wall time spent on this workspace (evidence only)
	// versioned workspaces: the Rego version selected for every file over many calls, and the keys of the versions map
	Lookups     []VersionLookup `json:"lookups,omitempty"`
	VersionKeys []string        `json:"version_keys,omitempty"`
	AggRuleList []string        `json:"agg_rule_list,omitempty"` // rules of the bundle under test defining aggregate_report
}

func perms(xs []string) [][]string {
	if len(xs) <= 1 {
		return [][]string{append([]string{}, xs...)}
	}
	var out [][]string
	for i := range xs {
		rest := append(append([]string{}, xs[:i]...), xs[i+1:]...)
		for _, p := range perms(rest) {
			out = append(out, append([]string{xs[i]}, p...))
		}
	}
	return out
}

// orderSig: the order in which the per-file results were merged, as far as the exported
// aggregates show it (entries are appended under the mutex)
func orderSig(r report.Report) string {
	best := ""
	bestN := -1
	keys := make([]string, 0, len(r.Aggregates))
	for k := range r.Aggregates {
		keys = append(keys, k)
	}
	sort.Strings(keys)
	for _, k := range keys {
		if len(r.Aggregates[k]) > bestN {
			bestN = len(r.Aggregates[k])
			best = k
		}
	}
	if bestN <= 0 {
		return ""
	}
	var fs []string
	for _, a := range r.Aggregates[best] {
		fs = append(fs, a.SourceFile())
	}
	return best + ":" + strings.Join(fs, ",")
}

type job struct {
	variant, rep int
	conc         bool
}

func runWorkspace(ctx context.Context, rng *hutil.Rng, ws probe.Workspace, procs int, tier string, withOracle, full bool) (out WsOut) {
	wsStart := time.Now()
	defer func() { out.Seconds = time.Since(wsStart).Seconds() }()
	out = WsOut{Kind: "ws", Procs: procs, WS: ws, N: len(ws.Files), Errors: []string{}, Variants: [][]string{}, Runs: []Run{}, Canons: []probe.Canon{}, Inputs: []InputCase{}}
	root := fmt.Sprintf("w%d", ws.ID)
	if err := os.RemoveAll(root); err != nil {
		panic(err)
	}
	if err := ws.Write(root); err != nil {
		panic(err)
	}
	absRoot, err := filepath.Abs(root)
	if err != nil {
		panic(err)
	}
	rel := func(s string) string { return strings.TrimPrefix(strings.TrimPrefix(s, absRoot+"/"), root+"/") }
	names := []string{}
	for _, f := range ws.Files {
		names = append(names, filepath.Join(root, f.Name))
	}
	sort.Strings(names)
	if len(ws.Args) > 0 {
		// an explicit argument list: the files are those below the arguments
		names = expandArgs(root, ws.Args)
	}
	n := len(names)
	out.N = n

	// ---- rule oracle -----------------------------------------------------------------------
	// (not for workspaces with Rego versions per directory: the oracle parses every file on its own, without a map)
	if ws.Versioned() {
		withOracle = false
		if procs >= 16 {
			calls := 64
			if tier != "quick" {
				calls = 256
			}
			lk, keys, err := versionLookups(ws, root, names, calls)
			if err != nil {
				out.Errors = append(out.Errors, "version lookups: "+err.Error())
			}
			out.Lookups, out.VersionKeys = lk, keys
		}
	}
	if withOracle {
		out.AggRuleList = aggReportRules()
		o, err := probe.NewOracle(ctx, ws)
		if err != nil {
			panic(err)
		}
		oo := &OracleOut{Files: []probe.FileRes{}, Merged: []probe.AggKey{}, Dirs: [][]string{}, AggViol: []probe.Viol{}, AggPermOK: true}
		merged := map[string][]report.Aggregate{}
		dirs := map[string]map[string][]string{}
		for _, nm := range names {
			fr, err := o.EvalFile(ctx, nm, n > 1, rel)
			if err != nil {
				panic(err)
			}
			oo.Files = append(oo.Files, fr)
			raw := fr.Raw()
			for k, l := range raw.Aggregates {
				for _, a := range l {
					if len(a) == 0 {
						if _, ok := merged[k]; !ok {
							merged[k] = nil
						}
					} else {
						merged[k] = append(merged[k], a)
					}
				}
			}
			for k, d := range raw.IgnoreDirectives {
				dirs[k] = d
			}
			oo.Dirs = append(oo.Dirs, fr.Dirs...)
		}
		if n > 1 {
			// the aggregate phase runs whenever more than one file was linted
			oo.Merged = probe.CanonAggs(merged, rel)
			av, err := o.EvalAggregate(ctx, merged, dirs, rel)
			if err != nil {
				panic(err)
			}
			oo.AggViol = av
			// H_aggperm: the aggregate phase must not care about the order of the entries
			want, _ := json.Marshal(av)
			nsh := 2
			if tier != "quick" {
				nsh = 5
			}
			if ws.Family == "aggtrig" {
				nsh = 4 * nsh // the trigger workspaces: reverse, sorted by file both ways, rotated, shuffles
			}
			// rule by rule: the rules of the bundle that define aggregate_report + whatever else has entries (custom rules)
			ruleSet := map[string]bool{}
			for _, r := range out.AggRuleList {
				ruleSet[r] = true
			}
			for k := range merged {
				ruleSet[k] = true
			}
			cov := map[string]*AggRuleCov{}
			ordersSeen := map[string]map[string]bool{}
			for r := range ruleSet {
				fs := map[string]bool{}
				for _, f := range sourceFiles(merged[r], rel) {
					fs[f] = true
				}
				cov[r] = &AggRuleCov{Rule: r, Entries: len(merged[r]), Files: len(fs)}
				ordersSeen[r] = map[string]bool{strings.Join(sourceFiles(merged[r], rel), ",") + fmt.Sprint(len(merged[r])): true}
			}
			byRule := func(vs []probe.Viol) map[string][]probe.Viol {
				m := map[string][]probe.Viol{}
				for _, v := range vs {
					m[aggRuleOfKey(v.Key)] = append(m[aggRuleOfKey(v.Key)], v)
				}
				return m
			}
			wantBy := byRule(av)
			for r, vs := range wantBy {
				if cov[r] == nil {
					cov[r] = &AggRuleCov{Rule: r}
					ordersSeen[r] = map[string]bool{}
				}
				cov[r].Violations = len(vs)
			}
			for s := 0; s < nsh; s++ {
				sh := map[string][]report.Aggregate{}
				for k, l := range merged {
					if l == nil {
						sh[k] = nil
						continue
					}
					c := append([]report.Aggregate{}, l...)
					switch s {
					case 0:
						for i, j := 0, len(c)-1; i < j; i, j = i+1, j-1 {
							c[i], c[j] = c[j], c[i]
						}
					case 2:
						sort.SliceStable(c, func(i, j int) bool { return c[i].SourceFile() < c[j].SourceFile() })
					case 3:
						sort.SliceStable(c, func(i, j int) bool { return c[i].SourceFile() > c[j].SourceFile() })
					case 4:
						c = append(c[1:], c[0])
					default:
						hutil.Shuffle(rng, c)
					}
					sh[k] = c
					if ordersSeen[k] != nil {
						ordersSeen[k][strings.Join(sourceFiles(c, rel), ",")+fmt.Sprint(len(c))] = true
					}
				}
				av2, err := o.EvalAggregate(ctx, sh, dirs, rel)
				if err != nil {
					panic(err)
				}
				got, _ := json.Marshal(av2)
				oo.AggPermN++
				if string(got) != string(want) {
					oo.AggPermOK = false
					gotBy := byRule(av2)
					diff := &AggOrderDiff{OrderA: map[string][]string{}, OrderB: map[string][]string{}, OnlyA: []probe.Viol{}, OnlyB: []probe.Viol{}}
					for r := range cov {
						a, _ := json.Marshal(wantBy[r])
						b, _ := json.Marshal(gotBy[r])
						if string(a) == string(b) {
							continue
						}
						cov[r].Dependent = true
						diff.Rules = append(diff.Rules, r)
						diff.OrderA[r] = sourceFiles(merged[r], rel)
						diff.OrderB[r] = sourceFiles(sh[r], rel)
						inB := map[string]int{}
						for _, v := range gotBy[r] {
							inB[v.File+"|"+v.Key]++
						}
						for _, v := range wantBy[r] {
							if inB[v.File+"|"+v.Key] > 0 {
								inB[v.File+"|"+v.Key]--
							} else {
								diff.OnlyA = append(diff.OnlyA, v)
							}
						}
						inA := map[string]int{}
						for _, v := range wantBy[r] {
							inA[v.File+"|"+v.Key]++
						}
						for _, v := range gotBy[r] {
							if inA[v.File+"|"+v.Key] > 0 {
								inA[v.File+"|"+v.Key]--
							} else {
								diff.OnlyB = append(diff.OnlyB, v)
							}
						}
					}
					sort.Strings(diff.Rules)
					if oo.AggDiff == nil {
						oo.AggDiff = diff
					}
				}
			}
			rs := make([]string, 0, len(cov))
			for r := range cov {
				rs = append(rs, r)
			}
			sort.Strings(rs)
			for _, r := range rs {
				cov[r].Orders = len(ordersSeen[r])
				oo.AggRules = append(oo.AggRules, *cov[r])
			}
		}
		out.Oracle = oo
	}

	// ---- argument variants -------------------------------------------------------------------
	maxExh := 4
	nsample := 6
	if tier != "quick" {
		nsample = 16
	}
	var variants [][]string
	if len(ws.Args) > 0 {
		// every distinct order of the argument list (directories and files, maybe overlapping or repeated)
		var as []string
		for _, a := range ws.Args {
			as = append(as, filepath.Join(root, a))
		}
		variants = distinctPerms(as)
	} else if n <= maxExh {
		variants = perms(names)
		mv := ws.MaxVariants
		if mv > 2 && procs == 1 && tier == "quick" && !full {
			mv = 2
		}
		if mv > 1 && len(variants) > mv { // evenly spaced, first and last included
			var keep [][]string
			for i := 0; i < mv; i++ {
				keep = append(keep, variants[i*(len(variants)-1)/(mv-1)])
			}
			variants = keep
		}
	} else {
		variants = append(variants, append([]string{}, names...))
		rv := append([]string{}, names...)
		for i, j := 0, len(rv)-1; i < j; i, j = i+1, j-1 {
			rv[i], rv[j] = rv[j], rv[i]
		}
		variants = append(variants, rv)
		for len(variants) < nsample {
			c := append([]string{}, names...)
			hutil.Shuffle(rng, c)
			variants = append(variants, c)
		}
	}
	nperm := len(variants)
	if len(ws.Args) == 0 {
		variants = append(variants, []string{root})                                   // the directory
		variants = append(variants, append(append([]string{}, names...), names[n-1])) // a duplicate
		variants = append(variants, append([]string{names[n-1], root}, names[0]))     // overlap
	}
	if !full && procs < 16 {
		// the slow processes run a sample: identity, reverse-ish, one more, and the three extras
		keep := [][]string{variants[0]}
		if nperm > 1 {
			keep = append(keep, variants[nperm-1])
		}
		if nperm > 2 {
			keep = append(keep, variants[1+rng.Below(nperm-2)])
		}
		if len(variants) > nperm {
			keep = append(keep, variants[nperm]) // the directory argument
		}
		variants = keep
	}
	out.Variants = variants

	// ---- jobs ------------------------------------------------------------------------------
	reps := 3
	if !full && procs < 16 && tier == "quick" {
		reps = 2
	}
	// argument lists are about the order of the arguments: the slow processes run each order they sampled once
	light := len(ws.Args) > 0 && !full && procs < 16 && tier == "quick" && ws.Repeat == 0
	if light {
		reps = 1
	}
	if ws.Repeat > reps {
		// identical calls, one after (and beside) the other in this process
		reps = ws.Repeat
		if procs == 1 && tier == "quick" && !full {
			reps = (ws.Repeat + 1) / 2
		}
	}
	var jobs []job
	for v := range variants {
		jobs = append(jobs, job{v, 0, false})
	}
	for r := 1; r < reps; r++ {
		jobs = append(jobs, job{0, r, false})
	}
	nconc := 3
	if tier != "quick" {
		nconc = 4
	} else if procs < 16 {
		nconc = 2
	}
	if light {
		nconc = 0
	} else if ws.MaxVariants > 0 && procs < 16 && tier == "quick" {
		nconc = 1
	}
	for r := 0; r < nconc; r++ {
		jobs = append(jobs, job{rng.Below(len(variants)), reps + r, true})
	}
	conc := 1
	if procs >= 16 {
		conc = 6
	} else if procs >= 2 {
		conc = 2
	}

	canonIdx := map[string]int{}
	orderIdx := map[string]int{}
	var mu sync.Mutex
	lintOnce := func(j job) {
		l, err := ws.NewLinterAt(root)
		var rep report.Report
		if err == nil {
			rep, err = l.WithInputPaths(variants[j.variant]).WithExportAggregates(true).Lint(ctx)
		}
		mu.Lock()
		defer mu.Unlock()
		if err != nil {
			out.Errors = append(out.Errors, fmt.Sprintf("variant %d rep %d: %v", j.variant, j.rep, err))
			out.Runs = append(out.Runs, Run{j.variant, j.rep, j.conc, -1, -1})
			return
		}
		c := probe.CanonReport(rep, rel)
		s := c.String()
		ci, ok := canonIdx[s]
		if !ok {
			ci = len(out.Canons)
			canonIdx[s] = ci
			out.Canons = append(out.Canons, c)
		}
		sig := orderSig(rep)
		oi, ok := orderIdx[sig]
		if !ok {
			oi = len(orderIdx)
			orderIdx[sig] = oi
		}
		out.Runs = append(out.Runs, Run{j.variant, j.rep, j.conc, ci, oi})
	}
	// sequential jobs through a pool of `conc` goroutines; the explicitly concurrent ones all at once
	var seq, par []job
	for _, j := range jobs {
		if j.conc {
			par = append(par, j)
		} else {
			seq = append(seq, j)
		}
	}
	ch := make(chan job)
	var wg sync.WaitGroup
	for w := 0; w < conc; w++ {
		wg.Add(1)
		go func() {
			defer wg.Done()
			for j := range ch {
				lintOnce(j)
			}
		}()
	}
	for _, j := range seq {
		ch <- j
	}
	close(ch)
	wg.Wait()
	for _, j := range par {
		wg.Add(1)
		go func(j job) {
			defer wg.Done()
			lintOnce(j)
		}(j)
	}
	wg.Wait()
	sort.Slice(out.Runs, func(a, b int) bool {
		if out.Runs[a].Rep != out.Runs[b].Rep {
			return out.Runs[a].Rep < out.Runs[b].Rep
		}
		return out.Runs[a].Variant < out.Runs[b].Variant
	})
	out.Orders = len(orderIdx)

	// ---- InputFromPaths directly -------------------------------------------------------------
	if withOracle {
		bad := root + "_bad"
		_ = os.MkdirAll(bad, 0o755)
		_ = os.WriteFile(filepath.Join(bad, "bad.rego"), []byte("package p\n\nallow if {\n"), 0o644)
		respell := func(p string) string {
			switch rng.Below(5) {
			case 0:
				return "./" + p
			case 1:
				return strings.Replace(p, "/", "//", 1)
			case 2:
				return strings.Replace(p, "/", "/./", 1)
			case 3:
				return filepath.Dir(p) + "/../" + filepath.Base(filepath.Dir(p)) + "/" + filepath.Base(p)
			}
			return p
		}
		ncases := 4
		for c := 0; c < ncases; c++ {
			var ps []string
			for _, nm := range names {
				ps = append(ps, respell(nm))
				if rng.Below(3) == 0 {
					ps = append(ps, respell(nm)) // the same file twice, maybe spelled differently
				}
			}
			switch c {
			case 2:
				ps = append(ps, filepath.Join(bad, "bad.rego"))
			case 3:
				ps = append(ps, filepath.Join(root, "missing.rego"))
			}
			hutil.Shuffle(rng, ps)
			ic := InputCase{Paths: ps, Stable: true}
			for _, p := range ps {
				_, err := rules.InputFromPaths([]string{p}, "", nil)
				ic.OK = append(ic.OK, err == nil)
			}
			var first string
			for r := 0; r < 4; r++ {
				q := append([]string{}, ps...)
				if r > 0 {
					hutil.Shuffle(rng, q)
				}
				in, err := rules.InputFromPaths(q, "", nil)
				var cur string
				if err != nil {
					cur = "error"
				} else {
					cur = strings.Join(in.FileNames, "\x00")
				}
				if r == 0 {
					first = cur
					ic.Err = err != nil
					if err == nil {
						ic.Got = in.FileNames
					}
				} else if cur != first {
					ic.Stable = false
				}
			}
			out.Inputs = append(out.Inputs, ic)
		}
	}
	return out
}

func sizes(tier string, rng *hutil.Rng) []int {
	if tier == "quick" {
		return []int{1, 2, 3, 4, 5, 8}
	}
	s := []int{1, 2, 2, 3, 3, 3, 4, 4, 5, 5, 6, 7, 8}
	for len(s) < 20 {
		s = append(s, 2+rng.Below(7))
	}
	return s
}

func main() {
	if len(os.Args) < 6 {
		fmt.Fprintln(os.Stderr, "usage: c01 <out.jsonl> <tier> <workdir> <gomaxprocs> <oracle:0|1> [fixed-workspaces.json [only]]")
		os.Exit(2)
	}
	outPath, tier, wd := os.Args[1], os.Args[2], os.Args[3]
	procs, _ := strconv.Atoi(os.Args[4])
	withOracle := os.Args[5] == "1"
	runtime.GOMAXPROCS(procs)
	if err := os.MkdirAll(wd, 0o755); err != nil {
		panic(err)
	}
	if err := os.Chdir(wd); err != nil {
		panic(err)
	}
	out := hutil.NewOut(outPath)
	defer out.Close()
	start := time.Now()
	defer func() {
		out.Emit(map[string]any{"kind": "timing", "procs": procs, "seconds": time.Since(start).Seconds()})
	}()
	ctx := context.Background()
	rng := hutil.NewRng(hutil.SeedFromEnv())
	// VERIF_SHARD=i/k: this process runs every k-th workspace, starting with the i-th (the driver starts several
	// single-threaded processes side by side); all workspaces are generated in every process
	shardI, shardK, wsNo := 0, 1, 0
	if sh := os.Getenv("VERIF_SHARD"); sh != "" {
		if a, b, ok := strings.Cut(sh, "/"); ok {
			shardI, _ = strconv.Atoi(a)
			shardK, _ = strconv.Atoi(b)
		}
		if shardK < 1 || shardI < 0 || shardI >= shardK {
			panic("bad VERIF_SHARD: " + sh)
		}
	}
	mine := func() bool {
		wsNo++
		return (wsNo-1)%shardK == shardI
	}
	// optional: a JSON list of fixed workspaces (corpus / replay) run first; "only" skips the generated ones
	if len(os.Args) > 6 && os.Args[6] != "" {
		b, err := os.ReadFile(os.Args[6])
		if err != nil {
			panic(err)
		}
		var wss []probe.Workspace
		if err := json.Unmarshal(b, &wss); err != nil {
			panic(err)
		}
		for i, ws := range wss {
			ws.ID = 1000 + i
			if mine() {
				out.Emit(runWorkspace(ctx, rng, ws, procs, tier, withOracle, true))
			}
		}
		if len(os.Args) > 7 && os.Args[7] == "only" {
			return
		}
	}
	// the workspaces are generated from their own generator so that every process of a run
	// (one per GOMAXPROCS value) sees the same ones
	gen := hutil.NewRng(hutil.SeedFromEnv() ^ 0x5eed)
	for i, n := range sizes(tier, gen) {
		ws := probe.GenWorkspace(gen, i, n)
		if mine() {
			out.Emit(runWorkspace(ctx, rng, ws, procs, tier, withOracle, false))
		}
	}
	// second family (own generator: the workspaces above stay what they were)
	gen2 := hutil.NewRng(hutil.SeedFromEnv() ^ 0x5eed2)
	nskew, nbig := 2, 120
	if tier != "quick" {
		nskew, nbig = 6, 240
	}
	id := 100
	for shape := 0; shape < nskew; shape++ {
		ws := GenSkew(gen2, id, shape, nbig)
		id++
		if mine() {
			out.Emit(runWorkspace(ctx, rng, ws, procs, tier, withOracle, false))
		}
	}
	// third family (round 3; own generator again): trigger workspaces for every aggregate_report rule, and
	// configuration shapes that are maps on the Go side (Rego versions per directory in several spellings)
	gen3 := hutil.NewRng(hutil.SeedFromEnv() ^ 0x5eed3)
	ntrig, nver := 2, 3
	if tier != "quick" {
		ntrig, nver = 6, 10
	}
	id3 := 200
	for v := 0; v < ntrig; v++ {
		ws := GenAggTrig(gen3, id3, v)
		id3++
		if mine() {
			out.Emit(runWorkspace(ctx, rng, ws, procs, tier, withOracle, false))
		}
	}
	for sh := 0; sh < nver; sh++ {
		ws := GenVersions(gen3, id3, sh)
		id3++
		if mine() {
			out.Emit(runWorkspace(ctx, rng, ws, procs, tier, withOracle, false))
		}
	}
	for i, l := range PrefixLists(gen2, tier) {
		ws := GenPrefix(gen2, id, l)
		id++
		// quick: argument lists are not about the schedule; the GOMAXPROCS=1 process (the slowest) leaves them to the
		// other two (GOMAXPROCS=16: every order; GOMAXPROCS=2: first, last and one more order)
		if tier == "quick" && procs == 1 {
			continue
		}
		_ = i
		if mine() {
			out.Emit(runWorkspace(ctx, rng, ws, procs, tier, withOracle, false))
		}
	}
}
