package main

import (
	"context"
	"fmt"
	"os"
	"path/filepath"
	"strings"
	"time"

	"verifharness/cmd/c01/probe"
	"verifharness/hutil"
)

func main() {
	wd := os.Args[1]
	rng := hutil.NewRng(hutil.SeedFromEnv())
	ctx := context.Background()
	os.MkdirAll(wd, 0o755)
	os.Chdir(wd)
	for i := 0; i < 6; i++ {
		n := 1 + i
		ws := probe.GenWorkspace(rng, i, n)
		root := fmt.Sprintf("w%d", i)
		if err := ws.Write(root); err != nil {
			panic(err)
		}
		rel := func(s string) string { return strings.TrimPrefix(s, root+"/") }
		t0 := time.Now()
		o, err := probe.NewOracle(ctx, ws)
		if err != nil {
			panic(err)
		}
		t1 := time.Now()
		var names []string
		for _, f := range ws.Files {
			names = append(names, filepath.Join(root, f.Name))
		}
		for _, nm := range names {
			fr, err := o.EvalFile(ctx, nm, n > 1, rel)
			if err != nil {
				panic(err)
			}
			fmt.Printf("  file %s: %d viol %d notices aggs=%v dirs=%v\n", fr.Name, len(fr.Viol), len(fr.Notices), fr.Aggs, fr.Dirs)
		}
		t2 := time.Now()
		l, _ := ws.NewLinter()
		rep, err := l.WithInputPaths(names).WithExportAggregates(true).Lint(ctx)
		if err != nil {
			panic(err)
		}
		t3 := time.Now()
		c := probe.CanonReport(rep, rel)
		fmt.Printf("ws %d cfg=%s custom=%v n=%d: prep %v evalfiles %v lint %v\n", i, ws.Config, ws.Custom, n, t1.Sub(t0), t2.Sub(t1), t3.Sub(t2))
		fmt.Println(c.String())
	}
}
