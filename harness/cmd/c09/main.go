// C09 harness: two-phase (collect, then report) aggregate linting versus one-shot linting.
//
//	oracle   : data.regal.rules[c][t].aggregate / data.custom.regal.rules[c][t].aggregate per file and
//	           .aggregate_report per list of entries, evaluated by OPA directly on the real embedded bundle
//	           (main.rego and linter.go are bypassed) -> kinds "ws", "oracle", "hperm"
//	observed : linter.Lint one-shot over file sets; collect runs (WithCollectQuery + WithExportAggregates) over every
//	           part of every partition; WithAggregates(+WithIgnoreDirectives) over the merged exports in every order;
//	           sequences of single-file replacements / additions / deletions -> kinds "collect", "run"
//	predicate: two-phase == one-shot on the implementation's own outputs -> kind "pred" on failure
//
// usage: c09 <out.jsonl> <tier> <workdir> [replay.json]
package main

import (
	"context"
	"encoding/json"
	"fmt"
	"os"
	"path/filepath"
	"runtime"
	"sort"
	"strings"
	"sync"
	"time"

	"github.com/open-policy-agent/opa/v1/ast"
	"github.com/open-policy-agent/opa/v1/bundle"
	"github.com/open-policy-agent/opa/v1/rego"

	rbundle "github.com/styrainc/regal/bundle"
	"github.com/styrainc/regal/pkg/builtins"
	"github.com/styrainc/regal/pkg/config"
	"github.com/styrainc/regal/pkg/linter"
	"github.com/styrainc/regal/pkg/report"
	"github.com/styrainc/regal/pkg/rules"

	"github.com/styrainc/roast/pkg/transform"

	"verifharness/hutil"
)

// ---------------------------------------------------------------- custom rules

const ruleDup = `# METADATA
# description: rule name defined in several files
package custom.regal.rules.verif["dup-rule"]

import data.regal.ast
import data.regal.result

aggregate contains entry if {
	defs := [d |
		some rule in input.rules
		d := {"name": ast.ref_to_string(rule.head.ref), "location": result.location(rule.head).location}
	]
	count(defs) > 0
	entry := result.aggregate(rego.metadata.chain(), {"defs": defs})
}

aggregate_report contains violation if {
	some e1 in input.aggregate
	some d1 in e1.aggregate_data.defs
	some e2 in input.aggregate
	e2.aggregate_source.file != e1.aggregate_source.file
	some d2 in e2.aggregate_data.defs
	d2.name == d1.name
	violation := result.fail(rego.metadata.chain(), {"location": d1.location})
}
`

// never aggregates anything: only the empty marker tells the report phase that the rule was run
const ruleMarker = `# METADATA
# description: reports when nothing was aggregated
package custom.regal.rules.verif["nothing-aggregated"]

import data.regal.result

aggregate contains result.aggregate(rego.metadata.chain(), {}) if {
	input.nope
}

aggregate_report contains violation if {
	count(input.aggregate) == 0
	violation := result.fail(rego.metadata.chain(), {})
}
`

// one entry per file; the report exposes how many entries it was handed (as the row of its violation)
const ruleCount = `# METADATA
# description: reports the number of aggregate entries it received
package custom.regal.rules.verif["entry-count"]

import data.regal.result

aggregate contains result.aggregate(rego.metadata.chain(), {"n": count(input.rules)})

aggregate_report contains violation if {
	n := count(input.aggregate)
	total := sum([e.aggregate_data.n | some e in input.aggregate])
	violation := result.fail(rego.metadata.chain(), {"location": {"file": "", "row": n, "col": total + 1, "text": ""}})
}
`

// SEVERAL entries per file (one per rule head); the report relates individual entries of different files (a name
// defined in more than one file: one violation at every such definition) and exposes how many entries it was handed
// and the sum of their rows (one violation without a file), so that dropping, merging or duplicating entries of one
// file changes the result of the report phase.
const ruleClash = `# METADATA
# description: rule name defined in more than one file (one aggregate entry per rule)
package custom.regal.rules.verif["name-clash"]

import data.regal.ast
import data.regal.result

aggregate contains entry if {
	some rule in input.rules
	entry := result.aggregate(rego.metadata.chain(), {
		"name": ast.ref_to_string(rule.head.ref),
		"location": result.location(rule.head).location,
	})
}

aggregate_report contains violation if {
	some e1 in input.aggregate
	some e2 in input.aggregate
	e2.aggregate_source.file != e1.aggregate_source.file
	e2.aggregate_data.name == e1.aggregate_data.name
	violation := result.fail(rego.metadata.chain(), {"location": e1.aggregate_data.location})
}

aggregate_report contains violation if {
	n := count(input.aggregate)
	n > 0
	total := sum([e.aggregate_data.location.row | some e in input.aggregate])
	violation := result.fail(rego.metadata.chain(), {"location": {"file": "", "row": n, "col": total + 1, "text": ""}})
}
`

var customSrc = map[string]string{"dup_rule.rego": ruleDup, "nothing_aggregated.rego": ruleMarker, "entry_count.rego": ruleCount,
	"name_clash.rego": ruleClash}

var builtinAgg = []string{"imports/unresolved-import", "imports/circular-import", "imports/prefer-package-imports",
	"bugs/impossible-not", "custom/missing-metadata", "idiomatic/no-defined-entrypoint"}
var customAgg = []string{"verif/dup-rule", "verif/nothing-aggregated", "verif/entry-count", "verif/name-clash"}

func titles(keys []string) []string {
	var ts []string
	for _, k := range keys {
		ts = append(ts, k[strings.Index(k, "/")+1:])
	}
	return ts
}

// ---------------------------------------------------------------- environment

type env struct {
	rulesDir string
	mu       sync.Mutex
	pq       map[string]*rego.PreparedEvalQuery
	mods     []*ast.Module
	data     *bundle.Bundle
	collects map[string]*collected
	aggIDs   map[string]int
	aggs     []AggInfo
	nextID   int
	bKeys    []string // bundled aggregate rules enabled in this environment
	cKeys    []string // custom aggregate rules enabled
}

type AggInfo struct {
	Kind string `json:"kind"` // "agg"
	ID   int    `json:"id"`
	Src  string `json:"src"`
	IKey string `json:"ikey"`
	JSON string `json:"json"`
}

func must(err error) {
	if err != nil {
		panic(err)
	}
}

func (e *env) baseLinter() linter.Linter {
	return linter.NewLinter().WithDisableAll(true).
		WithEnabledRules(append(titles(e.bKeys), titles(e.cKeys)...)...).
		WithCustomRules([]string{e.rulesDir})
}

func setupEnv(wd string, bKeys, cKeys []string) *env {
	d := filepath.Join(wd, "rules", "custom", "regal", "rules", "verif")
	must(os.MkdirAll(d, 0o755))
	e := &env{rulesDir: filepath.Join(wd, "rules"), pq: map[string]*rego.PreparedEvalQuery{},
		collects: map[string]*collected{}, aggIDs: map[string]int{}, bKeys: bKeys, cKeys: cKeys}
	names := make([]string, 0, len(customSrc))
	for n := range customSrc {
		names = append(names, n)
	}
	sort.Strings(names)
	for _, n := range names {
		must(os.WriteFile(filepath.Join(d, n), []byte(customSrc[n]), 0o644))
		m, err := ast.ParseModuleWithOpts(n, customSrc[n], ast.ParserOptions{ProcessAnnotation: true})
		must(err)
		e.mods = append(e.mods, m)
	}
	conf, err := e.baseLinter().GetConfig()
	must(err)
	var caps map[string]any
	b, err := json.Marshal(config.CapabilitiesForThisVersion())
	must(err)
	must(json.Unmarshal(b, &caps))
	e.data = &bundle.Bundle{
		Manifest: bundle.Manifest{Roots: &[]string{"internal", "eval"}, Metadata: map[string]any{"name": "internal"}},
		Data: map[string]any{
			"eval": map[string]any{"params": map[string]any{
				"disable_all": true, "disable_category": []any{}, "disable": []any{}, "enable_all": false,
				"enable_category": []any{}, "enable": toAny(append(titles(bKeys), titles(cKeys)...)), "ignore_files": []any{},
			}},
			"internal": map[string]any{"combined_config": config.ToMap(*conf), "capabilities": caps, "path_prefix": ""},
		},
	}
	return e
}

func toAny(xs []string) []any {
	out := make([]any, len(xs))
	for i, x := range xs {
		out[i] = x
	}
	return out
}

func (e *env) prepared(q string) *rego.PreparedEvalQuery {
	e.mu.Lock()
	defer e.mu.Unlock()
	if p, ok := e.pq[q]; ok {
		return p
	}
	args := append([]func(*rego.Rego){
		rego.ParsedBundle("regal", &rbundle.LoadedBundle),
		rego.ParsedBundle("internal", e.data),
		rego.Query(q),
	}, builtins.RegalBuiltinRegoFuncs...)
	for _, m := range e.mods {
		args = append(args, rego.ParsedModule(m))
	}
	p, err := rego.New(args...).PrepareForEval(context.Background())
	if err != nil {
		panic(fmt.Sprintf("prepare %q: %v", q, err))
	}
	e.pq[q] = &p
	return &p
}

func ruleRef(key string, custom bool) string {
	i := strings.Index(key, "/")
	root := "data.regal.rules"
	if custom {
		root = "data.custom.regal.rules"
	}
	return fmt.Sprintf("%s[%q][%q]", root, key[:i], key[i+1:])
}

// ---------------------------------------------------------------- canonical values

func canon(v any) string {
	b, err := json.Marshal(v)
	must(err)
	var x any
	must(json.Unmarshal(b, &x))
	b, err = json.Marshal(x)
	must(err)
	return string(b)
}

func (e *env) aggID(a map[string]any) int {
	c := canon(a)
	e.mu.Lock()
	defer e.mu.Unlock()
	if id, ok := e.aggIDs[c]; ok {
		return id
	}
	id := len(e.aggs)
	e.aggIDs[c] = id
	ra := report.Aggregate(a)
	e.aggs = append(e.aggs, AggInfo{Kind: "agg", ID: id, Src: ra.SourceFile(), IKey: ra.IndexKey(), JSON: c})
	return id
}

type Comment struct {
	Row  int   `json:"row"`
	Text []int `json:"text"`
}

type Viol struct {
	Cat   string `json:"cat"`
	Title string `json:"title"`
	File  string `json:"file"`
	Row   int    `json:"row"`
	Col   int    `json:"col"`
}

func sortViols(vs []Viol) {
	sort.Slice(vs, func(i, j int) bool { return violKey(vs[i]) < violKey(vs[j]) })
}

func violKey(v Viol) string {
	return fmt.Sprintf("%s|%06d|%06d|%s|%s", v.File, v.Row, v.Col, v.Cat, v.Title)
}

func sameViols(a, b []Viol) bool {
	if len(a) != len(b) {
		return false
	}
	x := map[string]int{}
	for _, v := range a {
		x[violKey(v)]++
	}
	for _, v := range b {
		x[violKey(v)]--
	}
	for _, n := range x {
		if n != 0 {
			return false
		}
	}
	return true
}

func violsOfReport(rep report.Report) []Viol {
	vs := []Viol{}
	for _, v := range rep.Violations {
		if !v.IsAggregate {
			continue
		}
		vs = append(vs, Viol{Cat: v.Category, Title: v.Title, File: v.Location.File, Row: v.Location.Row, Col: v.Location.Column})
	}
	sortViols(vs)
	return vs
}

func num(x any) int {
	switch n := x.(type) {
	case json.Number:
		i, _ := n.Int64()
		return int(i)
	case float64:
		return int(n)
	case int:
		return n
	}
	return 0
}

// ---------------------------------------------------------------- workspace files and the oracle

type File struct {
	ID       int              `json:"id"`
	Name     string           `json:"name"`
	Text     string           `json:"text"`
	Comments []Comment        `json:"comments"`
	BAggs    map[string][]int `json:"baggs"` // bundled rule key -> entries (direct evaluation of the rule)
	CAggs    map[string][]int `json:"caggs"` // custom rule key -> entries
	CRan     map[string]bool  `json:"cran"`  // custom rule key -> `aggregate` defined for this file
	entries  map[int]map[string]any
	parsed   rules.Input
	inputVal ast.Value
}

func (e *env) mkFile(id int, name, text string) *File {
	in, err := rules.InputFromMap(map[string]string{name: text}, nil)
	if err != nil {
		panic(fmt.Sprintf("file %s does not parse: %v\n%s", name, err, text))
	}
	f := &File{ID: id, Name: name, Text: text, BAggs: map[string][]int{}, CAggs: map[string][]int{}, CRan: map[string]bool{},
		entries: map[int]map[string]any{}, parsed: in, Comments: []Comment{}}
	for _, c := range in.Modules[name].Comments {
		bs := []byte(c.Text)
		t := make([]int, len(bs))
		for i := range bs {
			t[i] = int(bs[i])
		}
		f.Comments = append(f.Comments, Comment{Row: c.Location.Row, Text: t})
	}
	val, err := transform.ToAST(name, text, in.Modules[name], true)
	must(err)
	f.inputVal = val
	evalAgg := func(key string, custom bool) ([]int, bool) {
		p := e.prepared("x := " + ruleRef(key, custom) + ".aggregate")
		rs, err := p.Eval(context.Background(), rego.EvalParsedInput(val))
		if err != nil {
			panic(fmt.Sprintf("aggregate of %s on %s: %v", key, name, err))
		}
		if len(rs) == 0 {
			return nil, false
		}
		arr, _ := rs[0].Bindings["x"].([]any)
		ids := []int{}
		for _, a := range arr {
			m, ok := a.(map[string]any)
			if !ok {
				panic("aggregate entry is not an object")
			}
			id := e.aggID(m)
			f.entries[id] = m
			ids = append(ids, id)
		}
		sort.Ints(ids)
		return ids, true
	}
	for _, k := range e.bKeys {
		ids, _ := evalAgg(k, false)
		if ids == nil {
			ids = []int{}
		}
		f.BAggs[k] = ids
	}
	for _, k := range e.cKeys {
		ids, ran := evalAgg(k, true)
		if ids == nil {
			ids = []int{}
		}
		f.CAggs[k] = ids
		f.CRan[k] = ran
	}
	return f
}

type Oracle struct {
	Kind   string `json:"kind"` // "oracle"
	Rule   string `json:"rule"`
	Custom bool   `json:"custom"`
	IDs    []int  `json:"ids"`
	Viols  []Viol `json:"viols"`
	HPerm  bool   `json:"h_perm"` // the same violations for two shuffled orders of the entries
}

type oracleTable struct {
	mu   sync.Mutex
	seen map[string]*Oracle
}

func (e *env) evalReport(key string, custom bool, entries []any) []Viol {
	p := e.prepared("x := " + ruleRef(key, custom) + ".aggregate_report")
	input := map[string]any{
		"aggregate":         entries,
		"ignore_directives": map[string]any{},
		"regal": map[string]any{"operations": []any{"aggregate"},
			"file": map[string]any{"name": "__aggregate_report__", "lines": []any{}}},
	}
	rs, err := p.Eval(context.Background(), rego.EvalInput(input))
	if err != nil {
		panic(fmt.Sprintf("aggregate_report of %s: %v", key, err))
	}
	vs := []Viol{}
	if len(rs) == 0 {
		return vs
	}
	arr, _ := rs[0].Bindings["x"].([]any)
	for _, a := range arr {
		m := a.(map[string]any)
		v := Viol{}
		v.Cat, _ = m["category"].(string)
		v.Title, _ = m["title"].(string)
		if loc, ok := m["location"].(map[string]any); ok {
			v.File, _ = loc["file"].(string)
			v.Row, v.Col = num(loc["row"]), num(loc["col"])
		}
		vs = append(vs, v)
	}
	sortViols(vs)
	return vs
}

// oracleFor: the violations of every rule for the entries of the given files (any order: ids are sorted)
func (e *env) oracleFor(t *oracleTable, r *hutil.Rng, files []*File, out *hutil.Out) {
	do := func(key string, custom bool) {
		var ids []int
		byID := map[int]map[string]any{}
		for _, f := range files {
			src := f.BAggs[key]
			if custom {
				src = f.CAggs[key]
			}
			for _, id := range src {
				ids = append(ids, id)
				byID[id] = f.entries[id]
			}
		}
		sort.Ints(ids)
		k := fmt.Sprintf("%s|%v", key, ids)
		t.mu.Lock()
		_, done := t.seen[k]
		if !done {
			t.seen[k] = nil
		}
		t.mu.Unlock()
		if done {
			return
		}
		entries := make([]any, len(ids))
		for i, id := range ids {
			entries[i] = byID[id]
		}
		o := &Oracle{Kind: "oracle", Rule: key, Custom: custom, IDs: ids, HPerm: true}
		if o.IDs == nil {
			o.IDs = []int{}
		}
		o.Viols = e.evalReport(key, custom, entries)
		// H_aggperm on the implementation: two more orders
		for i := 0; i < 2 && len(entries) > 1; i++ {
			sh := append([]any{}, entries...)
			hutil.Shuffle(r, sh)
			if !sameViols(o.Viols, e.evalReport(key, custom, sh)) {
				o.HPerm = false
			}
		}
		t.mu.Lock()
		t.seen[k] = o
		t.mu.Unlock()
		out.Emit(o)
	}
	for _, k := range e.bKeys {
		do(k, false)
	}
	for _, k := range e.cKeys {
		do(k, true)
	}
}

// ---------------------------------------------------------------- the real pipeline

type collected struct {
	once  sync.Once
	aggs  map[string][]report.Aggregate
	dirs  map[string]map[string][]string
	viols []Viol // the aggregate violations the collect run itself reported
	err   error
}

func filesKey(fs []*File) string {
	var sb strings.Builder
	for _, f := range fs {
		fmt.Fprintf(&sb, "%d,", f.ID)
	}
	return sb.String()
}

func inputOf(fs []*File) rules.Input {
	m := map[string]string{}
	for _, f := range fs {
		m[f.Name] = f.Text
	}
	in, err := rules.InputFromMap(m, nil)
	must(err)
	return in
}

func (e *env) collect(part []*File, useCollect bool) *collected {
	key := fmt.Sprintf("%v|%s", useCollect, filesKey(part))
	e.mu.Lock()
	c, ok := e.collects[key]
	if !ok {
		c = &collected{}
		e.collects[key] = c
	}
	e.mu.Unlock()
	c.once.Do(func() {
		in := inputOf(part)
		rep, err := e.baseLinter().WithCollectQuery(useCollect).WithExportAggregates(true).WithInputModules(&in).Lint(context.Background())
		c.aggs, c.dirs, c.err = rep.Aggregates, rep.IgnoreDirectives, err
		if err == nil {
			c.viols = violsOfReport(rep)
		}
	})
	return c
}

func (e *env) oneShot(fs []*File) ([]Viol, error) {
	in := inputOf(fs)
	rep, err := e.baseLinter().WithInputModules(&in).Lint(context.Background())
	if err != nil {
		return nil, err
	}
	return violsOfReport(rep), nil
}

func (e *env) twoPhase(parts [][]*File, withDirs bool) ([]Viol, error) {
	merged := map[string][]report.Aggregate{}
	dirs := map[string]map[string][]string{}
	for _, p := range parts {
		c := e.collect(p, true)
		if c.err != nil {
			return nil, c.err
		}
		for k, a := range c.aggs {
			merged[k] = append(merged[k], a...)
		}
		for f, d := range c.dirs {
			dirs[f] = d
		}
	}
	l := e.baseLinter().WithAggregates(merged)
	if withDirs {
		l = l.WithIgnoreDirectives(dirs)
	}
	rep, err := l.Lint(context.Background())
	if err != nil {
		return nil, err
	}
	return violsOfReport(rep), nil
}

// ---------------------------------------------------------------- a client along a history

// Op: one thing a client (or the language server) does between two states of a history
type Op struct {
	Op   string `json:"op"` // setfile | delete
	ID   int    `json:"id,omitempty"`
	Name string `json:"name,omitempty"`
}

// opsOf: the operations that lead through the states (initially: every file linted on its own, in order; then per
// state: removals in name order, then the new or changed files in the order of the state)
func opsOf(states [][]*File) [][]Op {
	var out [][]Op
	var ops []Op
	cur := map[string]int{}
	for si, st := range states {
		next := map[string]int{}
		for _, f := range st {
			next[f.Name] = f.ID
		}
		if si > 0 {
			var gone []string
			for n := range cur {
				if _, ok := next[n]; !ok {
					gone = append(gone, n)
				}
			}
			sort.Strings(gone)
			for _, n := range gone {
				ops = append(ops, Op{Op: "delete", Name: n})
			}
		}
		for _, f := range st {
			if old, ok := cur[f.Name]; ok && old == f.ID {
				continue
			}
			ops = append(ops, Op{Op: "setfile", ID: f.ID, Name: f.Name})
		}
		cur = next
		out = append(out, append([]Op{}, ops...))
	}
	return out
}

// client: per-file collects (memoised: only a changed file is re-collected) and ONE directive map that is updated
// from the Report.IgnoreDirectives of every run, in the order of the operations; then the report-only run over the
// merged exports of the current files.  mixed: the file of the last operation is linted by the reporting run
// itself, which is handed the directive map of before that operation.
func (e *env) client(ops []Op, byID map[int]*File, snapshot []*File, mixed bool) ([]Viol, error) {
	dirs := map[string]map[string][]string{}
	for i, op := range ops {
		if mixed && i == len(ops)-1 {
			break
		}
		switch op.Op {
		case "setfile":
			c := e.collect([]*File{byID[op.ID]}, true)
			if c.err != nil {
				return nil, c.err
			}
			for f, d := range c.dirs {
				dirs[f] = d
			}
		case "delete":
			delete(dirs, op.Name)
		}
	}
	merged := map[string][]report.Aggregate{}
	for _, f := range snapshot {
		c := e.collect([]*File{f}, true)
		if c.err != nil {
			return nil, c.err
		}
		for k, a := range c.aggs {
			merged[k] = append(merged[k], a...)
		}
	}
	l := e.baseLinter().WithAggregates(merged).WithIgnoreDirectives(dirs)
	if mixed {
		in := inputOf([]*File{byID[ops[len(ops)-1].ID]})
		l = l.WithInputModules(&in)
	}
	rep, err := l.Lint(context.Background())
	if err != nil {
		return nil, err
	}
	return violsOfReport(rep), nil
}

// ---------------------------------------------------------------- versions of a file that differ in their directives

func stripDirectives(text string) string {
	ls := strings.Split(strings.TrimSuffix(text, "\n"), "\n")
	for i, l := range ls {
		idx := strings.Index(l, "regal ignore:")
		if idx < 0 {
			continue
		}
		h := strings.LastIndex(l[:idx], "#")
		if h < 0 {
			continue
		}
		if strings.TrimSpace(l[:h]) == "" {
			ls[i] = l[:h] + "# plain comment"
		} else {
			ls[i] = strings.TrimRight(l[:h], " \t")
		}
	}
	return strings.Join(ls, "\n") + "\n"
}

// versionOf: the directive-free text with one directive put in; ok=false when that version does not exist
func versionOf(stripped string, kind string, row int, title, other string) (string, bool) {
	ls := strings.Split(strings.TrimSuffix(stripped, "\n"), "\n")
	if row < 1 || row > len(ls) || strings.Contains(ls[row-1], "#") {
		return "", false
	}
	switch kind {
	case "none":
	case "rule-same":
		ls[row-1] += " # regal ignore:" + title
	case "rule-list":
		ls[row-1] += " # regal ignore: " + other + " ,\t" + title
	case "other":
		ls[row-1] += " # regal ignore:" + other
	case "rule-above":
		if row < 2 {
			return "", false
		}
		ls = append(append(append([]string{}, ls[:row-1]...), "# regal ignore:"+title), ls[row-1:]...)
	case "other-row":
		u := 0
		for i := range ls {
			if i+1 != row && i+2 != row && !strings.Contains(ls[i], "#") && strings.TrimSpace(ls[i]) != "" {
				u = i + 1
				break
			}
		}
		if u == 0 {
			return "", false
		}
		ls[u-1] += " # regal ignore:" + title
	default:
		return "", false
	}
	return strings.Join(ls, "\n") + "\n", true
}

// ---------------------------------------------------------------- records

type Run struct {
	Kind  string  `json:"kind"` // "run"
	WS    string  `json:"ws"`
	Mode  string  `json:"mode"` // oneshot | twophase | twophase-nodirs | client | client-mixed
	Ops   []Op    `json:"ops,omitempty"`   // client modes: what the client did so far (re-lint of one file / removal)
	Mixed int     `json:"mixed,omitempty"` // client-mixed: id of the file the reporting run lints itself
	Parts [][]int `json:"parts"`
	Src   string  `json:"src"` // partition | order | history
	Obs   []Viol  `json:"obs"`
	Err   string  `json:"err,omitempty"`
	// for the predicate: the one-shot result over the same files
	OneShot []Viol `json:"oneshot,omitempty"`
	PredOK  bool   `json:"pred_ok"`
}

type CollectRec struct {
	Kind       string           `json:"kind"` // "collect"
	WS         string           `json:"ws"`
	Part       []int            `json:"part"`
	UseCollect bool             `json:"use_collect"`
	Keys       map[string][]int `json:"keys"` // exported key -> entry ids (sorted); a key with no entries is the marker
	DirFiles   []string         `json:"dir_files"`
	Dirs       map[string]map[string][]string `json:"dirs"` // Report.IgnoreDirectives: file -> row key -> rule names
	Obs        []Viol           `json:"obs"` // aggregate violations reported by the collect run itself
	Err        string           `json:"err,omitempty"`
}

type WS struct {
	Kind   string   `json:"kind"` // "ws"
	WS     string   `json:"ws"`
	Files  []*File  `json:"files"`
	BRules []string `json:"brules"`
	CKeys  []string `json:"ckeys"`
}

func ids(fs []*File) []int {
	out := make([]int, len(fs))
	for i, f := range fs {
		out[i] = f.ID
	}
	return out
}

func idParts(ps [][]*File) [][]int {
	out := make([][]int, len(ps))
	for i, p := range ps {
		out[i] = ids(p)
	}
	return out
}

func (e *env) collectRec(ws string, part []*File, useCollect bool) CollectRec {
	c := e.collect(part, useCollect)
	rec := CollectRec{Kind: "collect", WS: ws, Part: ids(part), UseCollect: useCollect, Keys: map[string][]int{}, DirFiles: []string{}, Obs: []Viol{}}
	if c.err != nil {
		rec.Err = c.err.Error()
		return rec
	}
	for k, as := range c.aggs {
		l := []int{}
		for _, a := range as {
			l = append(l, e.aggID(a))
		}
		sort.Ints(l)
		rec.Keys[k] = l
	}
	rec.Dirs = map[string]map[string][]string{}
	for f, d := range c.dirs {
		rec.DirFiles = append(rec.DirFiles, f)
		if d == nil {
			d = map[string][]string{}
		}
		rec.Dirs[f] = d
	}
	rec.Obs = append(rec.Obs, c.viols...)
	sort.Strings(rec.DirFiles)
	return rec
}

// ---------------------------------------------------------------- partitions and orders

func partitions[T any](xs []T) [][][]T {
	if len(xs) == 0 {
		return [][][]T{{}}
	}
	var out [][][]T
	for _, p := range partitions(xs[1:]) {
		// xs[0] in a block of its own
		np := append([][]T{{xs[0]}}, clone2(p)...)
		out = append(out, np)
		for i := range p {
			q := clone2(p)
			q[i] = append([]T{xs[0]}, q[i]...)
			out = append(out, q)
		}
	}
	return out
}

func clone2[T any](p [][]T) [][]T {
	q := make([][]T, len(p))
	for i := range p {
		q[i] = append([]T{}, p[i]...)
	}
	return q
}

func perms[T any](xs []T) [][]T {
	if len(xs) <= 1 {
		return [][]T{append([]T{}, xs...)}
	}
	var out [][]T
	for i := range xs {
		rest := append(append([]T{}, xs[:i]...), xs[i+1:]...)
		for _, p := range perms(rest) {
			out = append(out, append([]T{xs[i]}, p...))
		}
	}
	return out
}

// ---------------------------------------------------------------- workspaces

type wsDef struct {
	name  string
	files [][2]string // name, text (initial versions)
	alts  [][2]string // replacement versions / additional files for the histories
}

func lines(ls ...string) string { return strings.Join(ls, "\n") + "\n" }

func fixedWorkspaces() []wsDef {
	return []wsDef{
		{"core", [][2]string{
			{"a.rego", lines("package a", "", "import data.b.x", "import data.nope.y", "import data.c", "", "dup := 1", "",
				"r if not data.b.multi", "", "# regal ignore:unresolved-import", "import data.nope.z")},
			{"b.rego", lines("package b", "", "x := 1", "", "multi contains 1", "", "dup := 2 # regal ignore:dup-rule")},
			{"c.rego", lines("package c", "", "import data.a", "", "z := a.dup", "", "# regal ignore:missing-metadata", "w := 1")},
			{"d.rego", lines("# METADATA", "# title: package d", "package d", "", "# METADATA", "# title: annotated", "ok := 1", "", "dup := 3")},
		}, [][2]string{
			{"a.rego", lines("package a", "", "import data.b", "", "# METADATA", "# entrypoint: true", "main := b.x", "", "dup := 1")},
			{"b.rego", lines("package b", "", "x := 1", "", "single := 2")},
			{"c.rego", lines("package c", "", "z := 1", "", "# regal ignore:dup-rule", "dup := 9")},
			{"e.rego", lines("package a", "", "import data.d.ok", "", "other := 5", "", "# regal ignore:impossible-not", "s if not data.b.multi")},
		}},
		{"quiet", [][2]string{
			{"p/one.rego", lines("package p.one", "", "v := 1")},
			{"p/two.rego", lines("package p.two", "", "import data.p.one", "", "w := one.v")},
			{"q.rego", lines("package q", "", "u := 2")},
		}, [][2]string{
			{"p/one.rego", lines("package p.one", "", "import data.p.two", "", "v := two.w")},
			{"q.rego", lines("package q", "", "# METADATA", "# entrypoint: true", "u := 2")},
			{"r.rego", lines("package p.two", "", "w := 3")},
		}},
	}
}

func genWorkspace(r *hutil.Rng, idx int, n int) wsDef {
	pk := []string{"ga", "gb", "gc", "gd", "ge"}
	mk := func(i int) string {
		ls := []string{}
		if r.Below(4) == 0 {
			ls = append(ls, "# METADATA", "# title: pkg")
		}
		ls = append(ls, "package "+pk[i%len(pk)], "")
		for j := 0; j < n; j++ {
			if j != i && r.Below(3) == 0 {
				ls = append(ls, "import data."+pk[j])
			}
		}
		if r.Below(3) == 0 {
			if r.Below(2) == 0 {
				ls = append(ls, "# regal ignore:prefer-package-imports,unresolved-import")
			}
			ls = append(ls, "import data."+pk[(i+1)%n]+".val")
		}
		if r.Below(3) == 0 {
			ls = append(ls, fmt.Sprintf("import data.unknown%d", r.Below(2)))
		}
		ls = append(ls, "")
		if r.Below(4) == 0 {
			ls = append(ls, "# METADATA", "# entrypoint: true")
		} else if r.Below(4) == 0 {
			ls = append(ls, "# regal ignore:dup-rule, missing-metadata")
		}
		ls = append(ls, fmt.Sprintf("val := %d", i), "")
		if r.Below(2) == 0 {
			ls = append(ls, fmt.Sprintf("set contains %d", i), "")
		}
		if r.Below(2) == 0 {
			l := "neg if not data." + pk[(i+1)%n] + ".set"
			if r.Below(3) == 0 {
				l += " # regal ignore:impossible-not"
			}
			ls = append(ls, l, "")
		}
		return strings.Join(ls, "\n") + "\n"
	}
	w := wsDef{name: fmt.Sprintf("gen%d", idx)}
	for i := 0; i < n; i++ {
		w.files = append(w.files, [2]string{pk[i] + ".rego", mk(i)})
	}
	for i := 0; i < n; i++ {
		w.alts = append(w.alts, [2]string{pk[i] + ".rego", mk(i)})
	}
	w.alts = append(w.alts, [2]string{"extra.rego", mk(0)})
	return w
}

// ---------------------------------------------------------------- histories over directive versions

// dirHistories: for up to n aggregate violations of the workspace (found by linting the directive-free files), a
// history of single-file replacements in which the violation's file walks through its versions {no directive at
// all, directive naming the rule on the same line / the line above / in a list, directive naming another rule,
// directive naming the rule on another row}: first add, remove, add again, then a random walk that keeps coming
// back to "none"; now and then another file is replaced in between.
func dirHistories(e *env, r *hutil.Rng, mk func([2]string) *File, files, alts []*File, n, length int) ([]*File, [][][]*File) {
	var versions []*File
	stripped := map[string]*File{}
	var sfiles []*File
	for _, f := range files {
		t := stripDirectives(f.Text)
		if t == f.Text {
			stripped[f.Name] = f
		} else {
			nf := mk([2]string{f.Name, t})
			versions = append(versions, nf)
			stripped[f.Name] = nf
		}
		sfiles = append(sfiles, stripped[f.Name])
	}
	if len(files) < 2 {
		return versions, nil
	}
	raw0, err := e.oneShot(sfiles)
	must(err)
	var targets []Viol
	var titles []string
	seen := map[string]bool{}
	for _, v := range raw0 {
		known := false
		for _, t := range titles {
			known = known || t == v.Title
		}
		if !known {
			titles = append(titles, v.Title)
		}
		sf, ok := stripped[v.File]
		k := fmt.Sprintf("%s|%d|%s", v.File, v.Row, v.Title)
		if !ok || v.Row == 0 || seen[k] {
			continue
		}
		if _, ok := versionOf(sf.Text, "rule-same", v.Row, v.Title, "x"); !ok {
			continue
		}
		seen[k] = true
		targets = append(targets, v)
	}
	hutil.Shuffle(r, targets)
	var spread, rest []Viol
	seenTitle := map[string]bool{}
	for _, t := range targets {
		if seenTitle[t.Title] {
			rest = append(rest, t)
		} else {
			seenTitle[t.Title] = true
			spread = append(spread, t)
		}
	}
	targets = append(spread, rest...)
	if len(targets) > n {
		targets = targets[:n]
	}
	var hists [][][]*File
	for _, tv := range targets {
		other := "some-other-rule"
		for _, t := range titles {
			if t != tv.Title && r.Below(2) == 0 {
				other = t
				break
			}
		}
		memo := map[string]*File{"none": stripped[tv.File]}
		version := func(kind string) *File {
			if f, ok := memo[kind]; ok {
				return f
			}
			var f *File
			if text, ok := versionOf(stripped[tv.File].Text, kind, tv.Row, tv.Title, other); ok {
				if _, err := rules.InputFromMap(map[string]string{tv.File: text}, nil); err == nil {
					f = mk([2]string{tv.File, text})
					versions = append(versions, f)
				}
			}
			memo[kind] = f
			return f
		}
		cur := append([]*File{}, files...)
		states := [][]*File{append([]*File{}, cur...)}
		curKind := ""
		put := func(f *File) {
			changed := false
			for i, g := range cur {
				if g.Name == f.Name && g.ID != f.ID {
					cur[i] = f
					changed = true
				}
			}
			if changed {
				states = append(states, append([]*File{}, cur...))
			}
		}
		push := func(kind string) {
			if f := version(kind); f != nil {
				put(f)
				curKind = kind
			}
		}
		kinds := []string{"none", "rule-same", "rule-above", "rule-list", "other", "other-row"}
		push("rule-same")
		push("none")
		push(hutil.Choice(r, []string{"rule-same", "rule-above", "rule-list"}))
		for guard := 0; len(states) <= length && guard < 4*length; guard++ {
			if r.Below(4) == 0 { // another file: its directive-free version, its original, or an alternate of the same name
				var cands []*File
				for _, f := range files {
					if f.Name != tv.File {
						cands = append(cands, f, stripped[f.Name])
					}
				}
				for _, a := range alts {
					if a.Name != tv.File && stripped[a.Name] != nil {
						cands = append(cands, a)
					}
				}
				if len(cands) > 0 {
					put(hutil.Choice(r, cands))
				}
				continue
			}
			k := hutil.Choice(r, kinds)
			if k == curKind || (curKind != "none" && k != "none" && r.Below(2) == 0) {
				if curKind == "none" {
					continue
				}
				k = "none"
			}
			push(k)
		}
		hists = append(hists, states)
	}
	return versions, hists
}

// ---------------------------------------------------------------- driver

type job func()

func runJobs(jobs []job) {
	var wg sync.WaitGroup
	sem := make(chan struct{}, runtime.NumCPU())
	for _, j := range jobs {
		wg.Add(1)
		go func(j job) {
			defer wg.Done()
			sem <- struct{}{}
			defer func() { <-sem }()
			j()
		}(j)
	}
	wg.Wait()
}

func main() {
	if len(os.Args) < 4 {
		fmt.Fprintln(os.Stderr, "usage: c09 <out.jsonl> <tier> <workdir> [replay.json]")
		os.Exit(2)
	}
	outPath, tier, wd := os.Args[1], os.Args[2], os.Args[3]
	out := hutil.NewOut(outPath)
	defer out.Close()
	r := hutil.NewRng(hutil.SeedFromEnv())
	e := setupEnv(wd, builtinAgg, customAgg)
	t0 := time.Now()
	lap := func(what string) { fmt.Fprintf(os.Stderr, "c09: %s done at %.1fs\n", what, time.Since(t0).Seconds()) }

	if len(os.Args) > 4 {
		replay(e, r, out, os.Args[4])
		flushAggs(e, out)
		return
	}

	thorough := tier == "thorough"
	defs := fixedWorkspaces()
	nGen, genSize := 1, 3
	if thorough {
		nGen, genSize = 6, 4
	}
	for i := 0; i < nGen; i++ {
		defs = append(defs, genWorkspace(r, i, genSize))
	}
	if thorough {
		defs = append(defs, genWorkspace(r, 99, 5))
	}
	var emitMu sync.Mutex
	emit := func(v any) {
		emitMu.Lock()
		out.Emit(v)
		emitMu.Unlock()
	}
	_ = emit
	for _, d := range defs {
		runWorkspace(e, r, out, d, thorough)
		lap("workspace " + d.name)
	}
	// a rule set under which nobody aggregates anything: only no-defined-entrypoint, which reports on the absence
	// of entries (the aggregate-only run over an empty map of aggregates; /repo 42020a4)
	e2 := setupEnv(wd, []string{"idiomatic/no-defined-entrypoint"}, []string{})
	e2.nextID, e2.aggIDs, e2.aggs = e.nextID, e.aggIDs, e.aggs
	runWorkspace(e2, r, out, wsDef{name: "nothing-aggregated", files: [][2]string{
		{"x.rego", lines("package x", "", "a := 1")}, {"y.rego", lines("package y", "", "b := 2")}},
		alts: [][2]string{{"y.rego", lines("package y", "", "# METADATA", "# entrypoint: true", "b := 2")}}}, false)
	e.aggs = e2.aggs
	lap("workspace nothing-aggregated")
	flushAggs(e, out)
}

func flushAggs(e *env, out *hutil.Out) {
	for _, a := range e.aggs {
		out.Emit(a)
	}
}

func runWorkspace(e *env, r *hutil.Rng, out *hutil.Out, d wsDef, thorough bool) {
	mk := func(nt [2]string) *File { // ids are unique over the whole run (the collect memo is keyed by them)
		f := e.mkFile(e.nextID, nt[0], nt[1])
		e.nextID++
		return f
	}
	var files, alts []*File
	for _, nt := range d.files {
		files = append(files, mk(nt))
	}
	for _, nt := range d.alts {
		alts = append(alts, mk(nt))
	}
	// histories in which a file goes from some directives to none and back (the versions are files of their own)
	nDirHist, lenDirHist := 1, 6
	if thorough {
		nDirHist, lenDirHist = 3, 10
	}
	versions, dirHists := dirHistories(e, r, mk, files, alts, nDirHist, lenDirHist)
	out.Emit(WS{Kind: "ws", WS: d.name, Files: append(append(append([]*File{}, files...), alts...), versions...), BRules: e.bKeys, CKeys: e.cKeys})
	byID := map[int]*File{}
	for _, f := range append(append(append([]*File{}, files...), alts...), versions...) {
		byID[f.ID] = f
	}
	table := &oracleTable{seen: map[string]*Oracle{}}
	var mu sync.Mutex
	var recs []any
	add := func(v any) {
		mu.Lock()
		recs = append(recs, v)
		mu.Unlock()
	}
	var jobs []job

	// every partition of the file set; for the partitions with few parts every merge order
	maxOrderParts := 2
	if len(files) <= 3 {
		maxOrderParts = 3
	}
	if thorough {
		maxOrderParts = 4
	}
	oneShotOf := map[string][]Viol{}
	var osMu sync.Mutex
	getOneShot := func(fs []*File) ([]Viol, error) {
		sorted := append([]*File{}, fs...)
		sort.Slice(sorted, func(i, j int) bool { return sorted[i].ID < sorted[j].ID })
		k := filesKey(sorted)
		osMu.Lock()
		v, ok := oneShotOf[k]
		osMu.Unlock()
		if ok {
			return v, nil
		}
		v, err := e.oneShot(sorted)
		if err != nil {
			return nil, err
		}
		osMu.Lock()
		oneShotOf[k] = v
		osMu.Unlock()
		return v, nil
	}
	twoPhaseJob := func(parts [][]*File, src string, withDirs bool) job {
		return func() {
			var all []*File
			for _, p := range parts {
				all = append(all, p...)
			}
			rec := Run{Kind: "run", WS: d.name, Mode: "twophase", Parts: idParts(parts), Src: src}
			if !withDirs {
				rec.Mode = "twophase-nodirs"
			}
			obs, err := e.twoPhase(parts, withDirs)
			if err != nil {
				rec.Err = err.Error()
				rec.Obs = []Viol{}
				add(rec)
				return
			}
			rec.Obs = obs
			if len(all) > 1 && withDirs {
				one, err := getOneShot(all)
				if err != nil {
					rec.Err = "one-shot: " + err.Error()
				} else {
					rec.OneShot = one
					rec.PredOK = sameViols(one, obs)
				}
			} else {
				rec.PredOK = true
			}
			add(rec)
		}
	}
	clientJob := func(ops []Op, snapshot []*File, src string, mixed bool) job {
		return func() {
			var parts [][]*File
			for _, f := range snapshot {
				parts = append(parts, []*File{f})
			}
			rec := Run{Kind: "run", WS: d.name, Mode: "client", Parts: idParts(parts), Src: src, Ops: ops}
			if mixed {
				rec.Mode, rec.Mixed = "client-mixed", ops[len(ops)-1].ID
			}
			obs, err := e.client(ops, byID, snapshot, mixed)
			if err != nil {
				rec.Err = err.Error()
				rec.Obs = []Viol{}
				add(rec)
				return
			}
			rec.Obs = obs
			rec.PredOK = true
			if len(snapshot) > 1 {
				one, err := getOneShot(snapshot)
				if err != nil {
					rec.Err = "one-shot: " + err.Error()
				} else {
					rec.OneShot = one
					rec.PredOK = sameViols(one, obs)
				}
			}
			add(rec)
		}
	}
	oneShotJob := func(fs []*File, src string) job {
		return func() {
			rec := Run{Kind: "run", WS: d.name, Mode: "oneshot", Parts: [][]int{ids(fs)}, Src: src, PredOK: true}
			obs, err := e.oneShot(fs)
			if err != nil {
				rec.Err = err.Error()
				obs = []Viol{}
			}
			rec.Obs = obs
			add(rec)
		}
	}
	collectJob := func(part []*File, useCollect bool) job {
		return func() { add(e.collectRec(d.name, part, useCollect)) }
	}

	seenCollect := map[string]bool{}
	needCollect := func(part []*File) {
		k := filesKey(part)
		if !seenCollect[k] {
			seenCollect[k] = true
			jobs = append(jobs, collectJob(part, true))
			e.oracleFor(table, r, part, out) // the collect run reports on its own part when it has several files
		}
	}
	// one-shot over the full set in two list orders, and over every subset of size >= 1 (small: also singletons,
	// where the one-shot run does not report)
	jobs = append(jobs, oneShotJob(files, "full"))
	rev := append([]*File{}, files...)
	for i, j := 0, len(rev)-1; i < j; i, j = i+1, j-1 {
		rev[i], rev[j] = rev[j], rev[i]
	}
	jobs = append(jobs, oneShotJob(rev, "full-reversed"))
	jobs = append(jobs, oneShotJob(files[:1], "single"))
	jobs = append(jobs, collectJob(files[:1], false)) // single file without the collect query: nothing exported
	e.oracleFor(table, r, files, out)
	e.oracleFor(table, r, files[:1], out)
	e.oracleFor(table, r, nil, out)

	for _, p := range partitions(files) {
		for _, part := range p {
			needCollect(part)
		}
		if len(p) <= maxOrderParts {
			for _, o := range perms(p) {
				jobs = append(jobs, twoPhaseJob(o, "order", true))
			}
		} else if !thorough && len(p) == 3 { // quick: the partition as listed plus two other orders
			jobs = append(jobs, twoPhaseJob(p, "partition", true))
			for i := 0; i < 2; i++ {
				o := clone2(p)
				hutil.Shuffle(r, o)
				jobs = append(jobs, twoPhaseJob(o, "order", true))
			}
		} else {
			jobs = append(jobs, twoPhaseJob(p, "partition", true))
			for i := 0; i < 3; i++ {
				o := clone2(p)
				hutil.Shuffle(r, o)
				jobs = append(jobs, twoPhaseJob(o, "order", true))
			}
		}
	}
	// the finest partition without handing the directives on (what every client did before WithIgnoreDirectives)
	var finest [][]*File
	for _, f := range files {
		finest = append(finest, []*File{f})
	}
	jobs = append(jobs, twoPhaseJob(finest, "partition", false))
	// a single-file workspace through the two-phase pipeline (differs from one-shot by design of Lint)
	jobs = append(jobs, twoPhaseJob([][]*File{{files[0]}}, "single", true))

	// histories: replace / add / delete one file at a time; after every step the two-phase result over
	// per-file collects (only the changed file is re-collected) against a fresh one-shot run
	nHist, lenHist := 1, 4
	if len(files) >= 4 {
		nHist = 2
	}
	if thorough {
		nHist, lenHist = 6, 8
	}
	for h := 0; h < nHist; h++ {
		cur := append([]*File{}, files...)
		states := [][]int{ids(files)}
		fstates := [][]*File{append([]*File{}, files...)}
		for s := 0; s < lenHist; s++ {
			switch op := r.Below(5); {
			case op <= 2 && len(alts) > 0: // replace or add
				a := hutil.Choice(r, append(append([]*File{}, alts...), files...))
				replaced := false
				for i, f := range cur {
					if f.Name == a.Name {
						cur[i] = a
						replaced = true
					}
				}
				if !replaced {
					cur = append(cur, a)
				}
			case op == 3 && len(cur) > 2:
				i := r.Below(len(cur))
				cur = append(append([]*File{}, cur[:i]...), cur[i+1:]...)
			default:
				hutil.Shuffle(r, cur)
			}
			snapshot := append([]*File{}, cur...)
			states = append(states, ids(snapshot))
			fstates = append(fstates, snapshot)
		}
		allOps := opsOf(fstates)
		for s := 1; s < len(fstates); s++ {
			snapshot := fstates[s]
			e.oracleFor(table, r, snapshot, out)
			for _, f := range snapshot {
				needCollect([]*File{f})
			}
			// a client that keeps ONE directive map along the history (not a map rebuilt from the current files)
			jobs = append(jobs, clientJob(allOps[s], snapshot, fmt.Sprintf("history%d.%d", h, s-1), false))
			jobs = append(jobs, oneShotJob(snapshot, fmt.Sprintf("history%d.%d", h, s-1)))
		}
		out.Emit(map[string]any{"kind": "history", "ws": d.name, "h": h, "states": states, "lsp": h == 0 || thorough, "src": "general"})
	}
	for h, fstates := range dirHists {
		var states [][]int
		for _, st := range fstates {
			states = append(states, ids(st))
		}
		allOps := opsOf(fstates)
		for _, f := range fstates[0] {
			needCollect([]*File{f})
		}
		for s := 1; s < len(fstates); s++ {
			snapshot := fstates[s]
			e.oracleFor(table, r, snapshot, out)
			for _, f := range snapshot {
				needCollect([]*File{f})
			}
			src := fmt.Sprintf("dirhistory%d.%d", h, s-1)
			jobs = append(jobs, clientJob(allOps[s], snapshot, src, false))
			if len(allOps[s]) == len(allOps[s-1])+1 && allOps[s][len(allOps[s])-1].Op == "setfile" {
				jobs = append(jobs, clientJob(allOps[s], snapshot, src, true))
			}
			jobs = append(jobs, oneShotJob(snapshot, src))
		}
		out.Emit(map[string]any{"kind": "history", "ws": d.name, "h": nHist + h, "states": states, "lsp": true, "src": "directives"})
	}
	runJobs(jobs)
	// deterministic output order
	sort.SliceStable(recs, func(i, j int) bool { return canon(recs[i]) < canon(recs[j]) })
	for _, rec := range recs {
		out.Emit(rec)
	}
}

// replay re-runs one stored "run" record: the replay file carries the workspace files
func replay(e *env, r *hutil.Rng, out *hutil.Out, path string) {
	b, err := os.ReadFile(path)
	must(err)
	var rp struct {
		Case struct {
			Run   Run `json:"run"`
			Files []struct {
				ID   int    `json:"id"`
				Name string `json:"name"`
				Text string `json:"text"`
			} `json:"files"`
		} `json:"case"`
	}
	must(json.Unmarshal(b, &rp))
	if rp.Case.Run.WS == "nothing-aggregated" { // the workspace that runs under its own rule set
		e.bKeys, e.cKeys = []string{"idiomatic/no-defined-entrypoint"}, []string{}
		*e = *setupEnv(filepath.Dir(e.rulesDir), e.bKeys, e.cKeys)
	}
	byID := map[int]*File{}
	var all []*File
	for _, f := range rp.Case.Files {
		nf := e.mkFile(f.ID, f.Name, f.Text)
		byID[f.ID] = nf
		all = append(all, nf)
	}
	out.Emit(WS{Kind: "ws", WS: rp.Case.Run.WS, Files: all, BRules: e.bKeys, CKeys: e.cKeys})
	table := &oracleTable{seen: map[string]*Oracle{}}
	var parts [][]*File
	var flat []*File
	for _, p := range rp.Case.Run.Parts {
		var pf []*File
		for _, id := range p {
			pf = append(pf, byID[id])
			flat = append(flat, byID[id])
		}
		parts = append(parts, pf)
		out.Emit(e.collectRec(rp.Case.Run.WS, pf, true))
	}
	e.oracleFor(table, r, flat, out)
	rec := rp.Case.Run
	rec.Err, rec.OneShot = "", nil
	switch rec.Mode {
	case "oneshot":
		obs, err := e.oneShot(flat)
		must(err)
		rec.Obs, rec.PredOK = obs, true
	case "client", "client-mixed":
		for _, op := range rec.Ops {
			if op.Op == "setfile" {
				out.Emit(e.collectRec(rp.Case.Run.WS, []*File{byID[op.ID]}, true))
			}
		}
		obs, err := e.client(rec.Ops, byID, flat, rec.Mode == "client-mixed")
		must(err)
		rec.Obs = obs
		one, err := e.oneShot(flat)
		must(err)
		rec.OneShot = one
		rec.PredOK = len(flat) < 2 || sameViols(one, obs)
		out.Emit(Run{Kind: "run", WS: rec.WS, Mode: "oneshot", Parts: [][]int{ids(flat)}, Src: "replay", Obs: one, PredOK: true})
	default:
		obs, err := e.twoPhase(parts, rec.Mode == "twophase")
		must(err)
		rec.Obs = obs
		one, err := e.oneShot(flat)
		must(err)
		rec.OneShot = one
		rec.PredOK = len(flat) < 2 || rec.Mode != "twophase" || sameViols(one, obs)
		out.Emit(Run{Kind: "run", WS: rec.WS, Mode: "oneshot", Parts: [][]int{ids(flat)}, Src: "replay", Obs: one, PredOK: true})
	}
	out.Emit(rec)
}
