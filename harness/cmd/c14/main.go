// C14 harness: workspaces under git in all states, run through the real `regal fix` WITHOUT --force.
//
//	c14 prepare <prepared.jsonl> <tier> <workdir> <corpus-dir>     materialise the scenarios (kept on disk)
//	c14 run     <prepared.jsonl> <out.jsonl> <regal-binary>        run the binary on each, snapshot, clean up
//	c14 replay  <prepared.jsonl> <case.json> <workdir>             materialise one stored scenario
//
// Between the two steps tools/props/c14.py runs an overlay test inside /repo/internal/git that records what
// FindGitRepo and GetChangedFiles (go-git) say about every prepared workspace.
package main

import (
	"bufio"
	"encoding/json"
	"fmt"
	"os"
	"path/filepath"
	"runtime"
	"sort"
	"strconv"
	"strings"
	"sync"

	. "verifharness/cmd/c13/ws"
	"verifharness/hutil"
)

var states = []string{"clean", "modified", "staged", "untracked", "ignored"}

// one target file in a given state needing a given kind of fix, plus clean bystanders
func scenario(n int, state, kind, layout, spelling string) *WS {
	ws := &WS{Name: fmt.Sprintf("%s/%s/%s/%s", state, kind, layout, spelling), Policy: "error", NoForce: true,
		Git: &GitSpec{States: map[string]string{}, IgnoreDirs: []string{"ign/"}}}
	dir := "pol"
	if state == "ignored" {
		dir = "ign"
	}
	target := WFile{Path: dir + "/t.rego", Pkg: dir, ID: 1}
	if kind == "content" {
		target.Dirty = true
	} else {
		target.Pkg = "moved." + dir // directory-package-mismatch: will be moved to moved/<dir>/t.rego
	}
	by := WFile{Path: "pol/clean.rego", Pkg: "pol", ID: 2}
	ws.Files = []WFile{target, by}
	ws.Git.States[target.Path] = state
	ws.RegalDirs = []string{""}
	prefix := ""
	switch layout {
	case "root": // the workspace root is the work tree
		ws.Git.RepoDirs = []string{""}
	case "norepo":
		ws.Git.RepoDirs = nil
		ws.Git.States = map[string]string{}
	case "nested": // the files live in a repository nested inside another one
		prefix = "inner/"
		ws.Git.RepoDirs = []string{"", "inner"}
	case "nested-outer-arg": // as nested, but the argument is the outer work tree
		prefix = "inner/"
		ws.Git.RepoDirs = []string{"", "inner"}
	case "deeper": // the work tree root is two levels above the files
		prefix = "x/y/"
		ws.Git.RepoDirs = []string{""}
	case "gitfile":
		ws.Git.RepoDirs = []string{""}
		ws.Git.GitFile = "wt"
		prefix = "wt/"
	case "outside-plus-inside": // the target lies outside of every repository, a second argument lies inside one
		ws.Git.RepoDirs = []string{"in"}
		ws.Git.States = map[string]string{}
		ws.Files[0].Path = "out/" + target.Path
		ws.Files[1].Path = "in/" + by.Path
		ws.RegalDirs = []string{"out", "in"}
		ws.Args, ws.AbsArgs = []string{"out/" + dir, "in/pol"}, spelling != "rel-from-root"
		if spelling == "two-args" { // the argument inside the repository first
			ws.Args = []string{"in/pol", "out/" + dir}
		}
		return ws
	}
	if prefix != "" {
		ws.RegalDirs = []string{prefix[:len(prefix)-1]}
		st := map[string]string{}
		for i := range ws.Files {
			old := ws.Files[i].Path
			ws.Files[i].Path = prefix + old
			if s, ok := ws.Git.States[old]; ok {
				st[prefix+old] = s
			}
		}
		ws.Git.States = st
	}
	argdir := prefix + dir
	if layout == "nested-outer-arg" {
		argdir = ""
	}
	switch spelling {
	case "abs":
		ws.Args, ws.AbsArgs = []string{argdir}, true
	case "rel-from-root":
		ws.Args = []string{argdir}
	case "rel-from-subdir": // run from inside the directory: argument "."
		ws.Args, ws.Cwd = []string{argdir}, argdir
	case "rel-parent": // run from a sibling directory: argument "../<dir>"
		ws.Args, ws.Cwd = []string{argdir}, prefix+"other"
		ws.EmptyDirs = append(ws.EmptyDirs, prefix+"other")
	case "two-args": // the directory and the bystander's directory
		ws.Args, ws.AbsArgs = []string{argdir, prefix + "pol"}, true
	case "abs-root-arg":
		ws.Args, ws.AbsArgs = []string{prefix}, true
		if prefix != "" {
			ws.Args = []string{prefix[:len(prefix)-1]}
		}
	}
	_ = n
	return ws
}

// via: the same scenario, but the invocation reaches the workspace through a symbolic link (ws.Via): the repository
// itself is the link's target ("link": an argument naming the workspace root names the link), or a parent directory of
// the repository is a link ("link-parent")
func via(ws *WS, how string) *WS {
	ws.Via = how
	ws.Name += "/via-" + how
	return ws
}

// symlinkInside: the work tree is reached by its real path, but the argument goes through a symbolic link INSIDE the
// work tree (l -> a, tracked): git names the file a/sub/t.rego, the command l/sub/t.rego
func symlinkInside(state, kind string) *WS {
	ws := &WS{Name: fmt.Sprintf("%s/%s/symlink-inside", state, kind), Policy: "error", NoForce: true, AbsArgs: true,
		Git:       &GitSpec{States: map[string]string{}, IgnoreDirs: []string{"ign/"}, RepoDirs: []string{""}},
		RegalDirs: []string{""}, Symlinks: map[string]string{"l": "a"}, Args: []string{"l/sub"}}
	target := WFile{Path: "a/sub/t.rego", Pkg: "l.sub", ID: 1, Dirty: kind == "content"}
	if kind != "content" {
		target.Pkg = "moved.l.sub"
	}
	ws.Files = []WFile{target, {Path: "pol/clean.rego", Pkg: "pol", ID: 2}}
	ws.Git.States[target.Path] = state
	return ws
}

// symlinkLeaving: a tracked, unmodified symbolic link to a FILE that lies outside of the work tree (in no repository, or
// in another repository where it has the given state): the command reads and writes THROUGH the link, git's status of the
// work tree knows the link only (predicate only: the model has one name per file)
func symlinkLeaving(where, state, kind string) *WS {
	ws := &WS{Name: fmt.Sprintf("%s/%s/symlink-leaving-%s", state, kind, where), Policy: "error", NoForce: true, AbsArgs: true,
		Git:       &GitSpec{States: map[string]string{}, IgnoreDirs: []string{"ign/"}, RepoDirs: []string{"in"}},
		RegalDirs: []string{"in"}, Symlinks: map[string]string{"in/pol/link.rego": "../../" + where + "/t.rego"}, Args: []string{"in/pol"}}
	target := WFile{Path: where + "/t.rego", Pkg: "pol", ID: 1, Dirty: kind == "content"}
	if kind != "content" {
		target.Pkg = "moved.pol"
	}
	ws.Files = []WFile{target, {Path: "in/pol/clean.rego", Pkg: "pol", ID: 2}}
	if where == "other" { // the link's target lies in another repository
		ws.Git.RepoDirs = append(ws.Git.RepoDirs, "other")
		ws.Git.States[target.Path] = state
	}
	return ws
}

// ---- several arguments in several places ---------------------------------------------------------------------------
//
// A command line with two or three directory arguments, each of which lies in repository A (work tree <ws>/pol), in
// another repository B, or in no repository at all; the names share string prefixes (pol, pol/sub, pol-draft, pol2) or
// do not (drafts, zeta).  Every place holds one file the command would change; what declares a project root (nothing,
// .manifest, .regal/, .regal.yaml, project.roots) is chosen per place.  `regal fix` without --force may touch the
// files only if ALL arguments lie in one repository (and the files touched are clean there).
type place struct {
	Dir  string // the directory given as the argument (relative to the workspace)
	Repo string // work tree root around it; "-" = no repository
}

var (
	plA     = place{"pol", "pol"}
	plAsub  = place{"pol/sub", "pol"}
	plN     = place{"pol-draft", "-"}
	plB     = place{"pol2", "pol2"}
	plNu    = place{"drafts", "-"}
	plBu    = place{"zeta", "zeta"}
	markers = []string{"none", "manifest", "regal", "regal-yaml", "cfg-roots", "regal-above"}
)

// argument sets; every order of each is run
var placeSets = [][]place{
	{plA, plN}, {plAsub, plN}, {plA, plB}, {plAsub, plB}, {plA, plNu}, {plA, plBu}, {plA, plAsub}, {plN, plB},
	{plA, plN, plB}, {plA, plAsub, plN}, {plAsub, plNu, plB},
}

func permPlaces(xs []place) [][]place {
	if len(xs) <= 1 {
		return [][]place{append([]place{}, xs...)}
	}
	var out [][]place
	for i := range xs {
		rest := append(append([]place{}, xs[:i]...), xs[i+1:]...)
		for _, p := range permPlaces(rest) {
			out = append(out, append([]place{xs[i]}, p...))
		}
	}
	return out
}

// multi: places in command line order; marks[i] / states[i] belong to places[i] (state of a place in no repository is
// ignored); spelling: abs | rel-from-root | rel-from-first (the working directory is the first argument: ".", "../x")
func multi(name string, places []place, marks, states []string, kind, spelling string) *WS {
	ws := &WS{Name: name, Policy: "error", NoForce: true, Git: &GitSpec{States: map[string]string{}, IgnoreDirs: []string{"ign/"}},
		Extra: map[string]string{}}
	repos := map[string]bool{}
	for i, pl := range places {
		f := WFile{Path: fmt.Sprintf("%s/p/t%d.rego", pl.Dir, i), Pkg: "p", ID: i + 1, Dirty: kind == "content"}
		if kind != "content" {
			f.Pkg = "moved.p"
		}
		ws.Files = append(ws.Files, f)
		if pl.Repo != "-" {
			if !repos[pl.Repo] {
				repos[pl.Repo] = true
				ws.Git.RepoDirs = append(ws.Git.RepoDirs, pl.Repo)
			}
			ws.Git.States[f.Path] = states[i]
		}
		at := pl.Dir
		switch marks[i] {
		case "manifest":
			ws.Manifests = append(ws.Manifests, at)
		case "regal-above": // the declaration lies above the argument (at the work tree root) when there is an above
			if pl.Repo != "-" {
				at = pl.Repo
			}
			fallthrough
		case "regal":
			if !contains(ws.RegalDirs, at) {
				ws.RegalDirs = append(ws.RegalDirs, at)
			}
		case "regal-yaml":
			ws.Extra[at+"/.regal.yaml"] = "rules: {}\n"
		case "cfg-roots":
			ws.Extra[at+"/.regal/config.yaml"] = "project:\n  roots:\n    - q\n"
			ws.EmptyDirs = append(ws.EmptyDirs, at+"/q")
		}
		ws.Args = append(ws.Args, pl.Dir)
	}
	ws.Files = append(ws.Files, WFile{Path: "pol/p/clean.rego", Pkg: "p", ID: 9})
	if !repos["pol"] {
		ws.Git.RepoDirs = append(ws.Git.RepoDirs, "pol")
	}
	switch spelling {
	case "abs":
		ws.AbsArgs = true
	case "rel-from-first":
		ws.Cwd = places[0].Dir
	}
	return ws
}

func contains(xs []string, x string) bool {
	for _, y := range xs {
		if x == y {
			return true
		}
	}
	return false
}

// multiScenarios: quick = every order of every argument set twice (absolute arguments and a content fix; relative
// arguments and alternately a move), the declaration of the first place in a repository rotating through all kinds,
// the state of the file in the other repository through all states, + the working directory inside the first
// argument for every third; thorough = every declaration (spelling and state by rotation), + declarations on every place
func multiScenarios(tier string) []*WS {
	var out []*WS
	bstates := []string{"modified", "staged", "untracked", "clean"}
	n := 0
	for _, set := range placeSets {
		for _, order := range permPlaces(set) {
			n++
			tag := ""
			for _, pl := range order {
				tag += "+" + pl.Dir
			}
			mk := func(mark, bstate, astate, kind, spelling string, all bool) *WS {
				marks, states := make([]string, len(order)), make([]string, len(order))
				seenA := false
				for i, pl := range order {
					marks[i], states[i] = "none", bstate
					if pl.Repo == "pol" {
						states[i] = astate
						if !seenA {
							marks[i], seenA = mark, true
						}
					}
					if all {
						marks[i] = mark
					}
				}
				if !seenA && !all { // no argument in repository A: the declaration goes to the first place
					marks[0] = mark
				}
				nm := fmt.Sprintf("multi/%s/%s/%s/%s/%s/%s", tag[1:], mark, bstate, astate, kind, spelling)
				if all {
					nm += "/all"
				}
				return multi(nm, order, marks, states, kind, spelling)
			}
			if tier != "thorough" {
				out = append(out, mk(markers[n%len(markers)], bstates[n%len(bstates)], "clean", "content", "abs", false))
				k2 := "content"
				if n%2 == 0 {
					k2 = "move"
				}
				out = append(out, mk(markers[(n+3)%len(markers)], bstates[(n+1)%len(bstates)], "clean", k2, "rel-from-root", false))
				if n%3 == 0 {
					out = append(out, mk(markers[(n/3)%len(markers)], bstates[(n+2)%len(bstates)], "clean", "content", "rel-from-first", false))
				}
				if n%7 == 0 { // control: the file in repository A itself has uncommitted changes
					out = append(out, mk(markers[(n+1)%len(markers)], "clean", "modified", "content", "abs", false))
				}
				continue
			}
			// thorough: every declaration with a spelling and a state by rotation (content fix), a move for every second
			// declaration, + one with the declaration on every place, + one control with a dirty file in repository A
			sps := []string{"abs", "rel-from-root", "rel-from-first"}
			for mi, mark := range markers {
				out = append(out, mk(mark, bstates[(n+mi)%len(bstates)], "clean", "content", sps[(n+mi)%len(sps)], false))
				if (mi+n)%2 == 0 {
					out = append(out, mk(mark, bstates[(n+mi+1)%len(bstates)], "clean", "move", sps[(n+mi+1)%len(sps)], false))
				}
			}
			out = append(out, mk(markers[n%len(markers)], bstates[n%len(bstates)], "clean", "content", "abs", true))
			out = append(out, mk(markers[(n+2)%len(markers)], "clean", "modified", "content", "rel-from-root", false))
		}
	}
	return out
}

// relOutside: the working directory lies inside repository A (or inside nothing) and a relative argument leads out of
// it: cd pol && regal fix ../pol-draft (in no repository), cd pol/sub && regal fix ../../drafts ., cd drafts && regal fix ../pol
func relOutside() []*WS {
	var out []*WS
	for i, c := range []struct {
		cwd    string
		places []place
	}{
		{"pol", []place{plN}}, {"pol", []place{plNu}}, {"pol/sub", []place{plNu}}, {"pol", []place{plN, plA}}, {"pol/sub", []place{plAsub, plN}},
		{"pol", []place{plB}}, {"drafts", []place{plA}}, {"pol2", []place{plA, plAsub}}, {"pol/sub", []place{plA}}, {"pol", []place{plAsub}},
	} {
		for _, kind := range []string{"content", "move"} {
			if kind == "move" && i%3 != 0 {
				continue
			}
			marks, states := make([]string, len(c.places)), make([]string, len(c.places))
			tag := ""
			for j, pl := range c.places {
				marks[j], states[j] = "none", "clean"
				if pl.Repo == "pol2" {
					states[j] = "modified"
				}
				tag += "+" + pl.Dir
			}
			ws := multi(fmt.Sprintf("rel-outside/cwd=%s/%s/%s", c.cwd, tag[1:], kind), c.places, marks, states, kind, "rel")
			ws.Cwd = c.cwd
			ws.EmptyDirs = append(ws.EmptyDirs, c.cwd)
			if c.cwd == "pol2" {
				ws.Git.RepoDirs = append(ws.Git.RepoDirs, "pol2")
			}
			out = append(out, ws)
		}
	}
	return out
}

// submodules: the work tree <ws> holds the submodule <ws>/sub (registered with git submodule add; its .git a
// directory, or absorbed into the superproject: a .git file); the file to change lies inside the submodule
func submoduleScenarios(tier string) []*WS {
	var out []*WS
	n := 0
	for _, mode := range []string{"file", "dir"} {
		for _, st := range []string{"modified", "clean", "staged", "untracked"} {
			for _, kind := range []string{"content", "move"} {
				for ai, args := range [][]string{{""}, {"sub/pol"}, {"pol", "sub/pol"}, {"sub"}} {
					n++
					// quick: the superproject as the argument in every state (absorbed submodule; three states for a submodule
					// that keeps its .git directory, which only goes through the predicate), the other argument lists by rotation
					if tier != "thorough" && !(ai == 0 && (kind == "content" || st == "modified") && (mode == "file" || st != "untracked")) &&
						!(mode == "file" && n%7 == 0) {
						continue
					}
					ws := &WS{Name: fmt.Sprintf("submodule-%s/%s/%s/args=%v", mode, st, kind, args), Policy: "error", NoForce: true, AbsArgs: n%2 == 0,
						RegalDirs: []string{""}, Args: args,
						Git: &GitSpec{States: map[string]string{}, IgnoreDirs: []string{"ign/"}, RepoDirs: []string{"", "sub"}, Submodules: map[string]string{"sub": mode}}}
					t := WFile{Path: "sub/pol/t.rego", Pkg: "sub.pol", ID: 1, Dirty: kind == "content"}
					if kind != "content" {
						t.Pkg = "moved.sub.pol"
					}
					ws.Files = []WFile{t, {Path: "pol/clean.rego", Pkg: "pol", ID: 2}}
					ws.Git.States[t.Path] = st
					out = append(out, ws)
				}
			}
		}
	}
	return out
}

// ---- submodules whose NAME is not their path, nested, not checked out ------------------------------------------------
//
// A submodule has a name (the key of its section in .gitmodules / .git/config, and of its directory under .git/modules) and a
// path (where it is checked out).  The two are equal only by default: `git submodule add --name X url path` chooses the
// name, `git mv old new` keeps the name `old` and changes the path.  Submodules nest (each level with its own status),
// and a registered submodule need not be checked out (an empty directory).  Whatever the layout: a file with uncommitted
// changes inside ANY checked-out submodule below the argument must not be touched.
type subLayout struct {
	tag      string
	repoDirs []string          // besides the superproject ""
	opts     map[string]SubOpt // per submodule directory
	targets  []string          // directories (one file to change in each); the first carries the state under test
}

var subLayouts = []subLayout{
	{"named", []string{"policies/lib"}, map[string]SubOpt{"policies/lib": {Name: "shared-lib"}}, []string{"policies/lib/x"}},
	{"moved", []string{"policies/lib"}, map[string]SubOpt{"policies/lib": {MovedFrom: "vendor/lib"}}, []string{"policies/lib/x"}},
	{"moved-up", []string{"lib"}, map[string]SubOpt{"lib": {MovedFrom: "third_party/deep/lib"}}, []string{"lib"}},
	{"named-like-other-dir", []string{"lib"}, map[string]SubOpt{"lib": {Name: "pol"}}, []string{"lib/x"}},
	{"nested", []string{"sub", "sub/inner"}, nil, []string{"sub/inner/pol"}},
	{"nested-outer-dirty", []string{"sub", "sub/inner"}, nil, []string{"sub/pol", "sub/inner/pol"}},
	{"nested-named-inner", []string{"sub", "sub/inner"}, map[string]SubOpt{"sub/inner": {Name: "core"}}, []string{"sub/inner/pol"}},
	{"nested-in-named", []string{"sub", "sub/inner"}, map[string]SubOpt{"sub": {Name: "outer-name"}}, []string{"sub/inner/pol"}},
	{"nested-in-moved", []string{"sub", "sub/inner"}, map[string]SubOpt{"sub": {MovedFrom: "old/place"}}, []string{"sub/inner/pol"}},
	{"two-plain+named", []string{"policies/plain", "policies/lib"}, map[string]SubOpt{"policies/lib": {Name: "shared-lib"}}, []string{"policies/lib/x", "policies/plain/x"}},
	{"two-swapped-names", []string{"a", "b"}, map[string]SubOpt{"a": {Name: "b"}, "b": {Name: "a"}}, []string{"a/x", "b/x"}},
	{"uninit-sibling", []string{"sub", "lib"}, map[string]SubOpt{"lib": {Deinit: true}}, []string{"sub/pol"}},
	{"uninit-only", []string{"lib"}, map[string]SubOpt{"lib": {Deinit: true}}, []string{"pol/x"}},
	{"uninit-named+named", []string{"sub", "lib"}, map[string]SubOpt{"lib": {Deinit: true, Name: "gone"}, "sub": {Name: "kept"}}, []string{"sub/pol"}},
}

func subLayoutWS(l subLayout, st, kind string, args []string, abs bool) *WS {
	ws := &WS{Name: fmt.Sprintf("submodule-%s/%s/%s/args=%v", l.tag, st, kind, args), Policy: "error", NoForce: true, AbsArgs: abs,
		RegalDirs: []string{""}, Args: args,
		Git: &GitSpec{States: map[string]string{}, IgnoreDirs: []string{"ign/"}, RepoDirs: append([]string{""}, l.repoDirs...),
			Submodules: map[string]string{}, SubOpts: l.opts}}
	for _, d := range l.repoDirs {
		ws.Git.Submodules[d] = "file"
	}
	for i, d := range l.targets {
		pkg := ""
		for _, c := range d {
			if c == '/' {
				pkg += "."
			} else if c == '-' {
				pkg += "_"
			} else {
				pkg += string(c)
			}
		}
		t := WFile{Path: d + "/t.rego", Pkg: pkg, ID: i + 1, Dirty: kind == "content"}
		if kind != "content" {
			t.Pkg = "moved." + pkg
		}
		ws.Files = append(ws.Files, t)
		ws.Git.States[t.Path] = st
	}
	ws.Files = append(ws.Files, WFile{Path: "pol/clean.rego", Pkg: "pol", ID: 9})
	for _, a := range args {
		if a != "" {
			ws.EmptyDirs = append(ws.EmptyDirs, a)
		}
	}
	return ws
}

func submoduleNameScenarios(tier string) []*WS {
	var out []*WS
	sts := []string{"modified", "staged", "untracked", "clean"}
	n := 0
	for li, l := range subLayouts {
		parent := filepath.Dir(l.repoDirs[0])
		if parent == "." {
			parent = ""
		}
		argsets := [][]string{{""}, {parent}, {"pol", l.repoDirs[0]}}
		if parent == "" {
			argsets = argsets[:1]
		}
		for si, st := range sts {
			for ki, kind := range []string{"content", "move"} {
				for ai, args := range argsets {
					n++
					// quick: every layout with a modified file and a content fix from the superproject, + one more state x kind x
					// argument list by rotation; thorough: the product (the argument list with the submodule itself: content only)
					if tier != "thorough" && !(ai == 0 && st == "modified" && kind == "content") && !(si == (li+1)%len(sts) && ki == li%2 && ai == li%len(argsets)) {
						continue
					}
					if ai == 2 && kind == "move" {
						continue
					}
					out = append(out, subLayoutWS(l, st, kind, args, n%2 == 0))
				}
			}
		}
	}
	return out
}

// ---- somebody else writes while the command runs ---------------------------------------------------------------------
//
// The property speaks about the files as they are when the command replaces them: a file saved (by an editor, a
// formatter, another tool) while `regal fix` is reading and linting has uncommitted changes at the moment of the write.
// The moment of the concurrent write is pinned down by the command itself (see ws.ConcSpec): "fifo" = while the input
// files are being read (a.rego was read before, z.rego is read after the edit), "debug" = in the middle of the first
// lint run (everything was read before).
func concurrentScenarios(tier string) []*WS {
	var out []*WS
	n := 0
	for _, mode := range []string{"fifo", "debug"} {
		for _, which := range []string{"before", "after", "both"} { // which target (relative to the pipe, in reading order) is edited
			for _, kind := range []string{"content", "move"} {
				for _, how := range []string{"append-dirty", "rewrite-clean", "create-move-target", "bystander"} {
					for _, sp := range []string{"abs", "rel-from-root", "rel-from-subdir"} {
						n++
						if how == "create-move-target" && kind != "move" {
							continue
						}
						if mode == "debug" && which != "before" { // everything was read when the lint runs: one position
							continue
						}
						if tier != "thorough" {
							// quick: every (mode, which, kind, how) once, the spelling by rotation
							if sp != []string{"abs", "rel-from-root", "rel-from-subdir"}[(n/3)%3] {
								continue
							}
						}
						prefix := ""
						if n%4 == 1 {
							prefix = "x/y/"
						}
						ws := &WS{Name: fmt.Sprintf("concurrent-%s/%s/%s/%s/%s", mode, which, kind, how, sp), Policy: "error", NoForce: true,
							RegalDirs: []string{strings.TrimSuffix(prefix, "/")}, Git: &GitSpec{States: map[string]string{}, RepoDirs: []string{""}},
							Concurrent: &ConcSpec{Mode: mode, Edits: map[string]string{}}}
						a := WFile{Path: prefix + "pol/a.rego", Pkg: "pol", ID: 1, Dirty: kind == "content"}
						z := WFile{Path: prefix + "pol/z.rego", Pkg: "pol", ID: 2, Dirty: kind == "content"}
						if kind == "move" {
							a.Pkg, z.Pkg = "moved.pol", "moved.pol"
						}
						by := WFile{Path: prefix + "pol/by.rego", Pkg: "pol", ID: 3}
						ws.Files = []WFile{a, by, z}
						if mode == "fifo" {
							ws.Concurrent.Fifo, ws.Concurrent.FifoContent = prefix+"pol/m.rego", "package pol\n\nfrompipe := 1\n"
						} else {
							ws.Concurrent.Trigger = "merged provided and user config"
						}
						var targets []WFile
						switch which {
						case "before":
							targets = []WFile{a}
						case "after":
							targets = []WFile{z}
						default:
							targets = []WFile{a, z}
						}
						for _, t := range targets {
							switch how {
							case "append-dirty": // the user adds a rule (and another comment the fixer would touch)
								ws.Concurrent.Edits[t.Path] = Content(t) + fmt.Sprintf("\n#bad\nedit%d := %d\n", t.ID, t.ID)
							case "rewrite-clean": // the user repairs the file by hand and adds a rule
								u := t
								u.Dirty = false
								if kind == "move" {
									u.Pkg = "pol"
								}
								ws.Concurrent.Edits[t.Path] = Content(u) + fmt.Sprintf("\nedit%d := %d\n", t.ID, t.ID)
							case "create-move-target": // a new file appears where the command is about to put the moved one
								ws.Concurrent.Edits[prefix+"moved/pol/"+filepath.Base(t.Path)] = fmt.Sprintf("package moved.pol\n\nnew%d := %d\n", t.ID, t.ID)
							case "bystander": // a file the command has nothing to fix in
								ws.Concurrent.Edits[by.Path] = Content(by) + "\nedit3 := 3\n"
							}
						}
						argdir := prefix + "pol"
						switch sp {
						case "abs":
							ws.Args, ws.AbsArgs = []string{argdir}, true
						case "rel-from-root":
							ws.Args = []string{argdir}
						case "rel-from-subdir":
							ws.Args, ws.Cwd = []string{argdir}, argdir
						}
						out = append(out, ws)
					}
				}
			}
		}
	}
	return out
}

func genRandomMulti(r *hutil.Rng, n int) *WS {
	pool := []place{plA, plAsub, plN, plB, plNu, plBu, plA, plN}
	k := 2 + r.Below(2)
	var places []place
	seen := map[string]bool{}
	for len(places) < k {
		pl := hutil.Choice(r, pool)
		if seen[pl.Dir] {
			continue
		}
		seen[pl.Dir] = true
		places = append(places, pl)
	}
	marks, states := make([]string, k), make([]string, k)
	for i := range places {
		marks[i] = hutil.Choice(r, markers)
		if r.Below(2) == 0 {
			marks[i] = "none"
		}
		states[i] = hutil.Choice(r, []string{"clean", "clean", "modified", "staged", "untracked"})
	}
	kind := hutil.Choice(r, []string{"content", "content", "move"})
	ws := multi("rand-multi"+strconv.Itoa(n), places, marks, states, kind, hutil.Choice(r, []string{"abs", "rel-from-root", "rel-from-first"}))
	if r.Below(6) == 0 {
		ws.Cwd = hutil.Choice(r, []string{"pol", "pol/sub", "drafts"})
		ws.EmptyDirs = append(ws.EmptyDirs, ws.Cwd)
		ws.AbsArgs = false
	}
	ws.NoForce = r.Below(10) != 0
	ws.DryRun = r.Below(12) == 0
	return ws
}

func genRandom(r *hutil.Rng, n int) *WS {
	ws := &WS{Name: "rand" + strconv.Itoa(n), Policy: hutil.Choice(r, []string{"error", "rename"}), NoForce: r.Below(8) != 0,
		DryRun: r.Below(10) == 0, RegalDirs: []string{""}, Git: &GitSpec{States: map[string]string{}, IgnoreDirs: []string{"ign/"}}}
	dirs := []string{"pol", "pol", "a", "b", "ign", "a/b"}
	pkgs := []string{"pol", "a", "b", "a.b", "ign"}
	used := map[string]bool{}
	nf := 1 + r.Below(4)
	for i := 0; i < nf; i++ {
		f := WFile{Path: hutil.Choice(r, dirs) + "/" + hutil.Choice(r, []string{"x.rego", "y.rego"}), Pkg: hutil.Choice(r, pkgs), Dirty: r.Below(3) == 0, ID: i + 1}
		if used[f.Path] {
			continue
		}
		used[f.Path] = true
		ws.Files = append(ws.Files, f)
		st := hutil.Choice(r, []string{"clean", "clean", "clean", "modified", "staged", "untracked"})
		if filepath.Dir(f.Path) == "ign" {
			st = "ignored"
		}
		ws.Git.States[f.Path] = st
	}
	switch r.Below(6) {
	case 0:
		ws.Git.RepoDirs = nil
		ws.Git.States = map[string]string{}
	case 1:
		ws.Git.RepoDirs = []string{"", "a"}
	default:
		ws.Git.RepoDirs = []string{""}
	}
	ws.Args = []string{""}
	switch r.Below(5) {
	case 0:
		ws.Args = []string{"pol"}
		ws.EmptyDirs = append(ws.EmptyDirs, "pol")
	case 1:
		ws.Cwd = "pol"
		ws.EmptyDirs = append(ws.EmptyDirs, "pol")
	case 2:
		ws.Args = []string{"a", "pol"}
		ws.EmptyDirs = append(ws.EmptyDirs, "pol", "a")
	}
	ws.AbsArgs = r.Bool()
	if r.Below(4) == 0 {
		via(ws, hutil.Choice(r, []string{"link", "link-parent"}))
	}
	return ws
}

func readPrepared(path string) []*Prepared {
	f, err := os.Open(path)
	if err != nil {
		panic(err)
	}
	defer f.Close()
	var out []*Prepared
	sc := bufio.NewScanner(f)
	sc.Buffer(make([]byte, 1<<20), 1<<26)
	for sc.Scan() {
		var p Prepared
		if err := json.Unmarshal(sc.Bytes(), &p); err != nil {
			panic(err)
		}
		out = append(out, &p)
	}
	return out
}

func main() {
	if len(os.Args) < 5 {
		fmt.Fprintln(os.Stderr, "usage: c14 prepare|run|replay ...")
		os.Exit(2)
	}
	switch os.Args[1] {
	case "prepare", "replay":
		outPath, workdir := os.Args[2], os.Args[4]
		var cases []*WS
		if os.Args[1] == "replay" {
			b, err := os.ReadFile(os.Args[3])
			if err != nil {
				panic(err)
			}
			var w WS
			if err := json.Unmarshal(b, &w); err != nil {
				panic(err)
			}
			cases = append(cases, &w)
		} else {
			tier := os.Args[3]
			if len(os.Args) > 5 {
				ents, _ := filepath.Glob(filepath.Join(os.Args[5], "*.json"))
				sort.Strings(ents)
				for _, e := range ents {
					b, _ := os.ReadFile(e)
					var list []WS
					if err := json.Unmarshal(b, &list); err != nil {
						panic(fmt.Sprintf("%s: %v", e, err))
					}
					for i := range list {
						cases = append(cases, &list[i])
					}
				}
			}
			n := 0
			layouts := []string{"root", "norepo", "nested", "nested-outer-arg", "deeper", "gitfile", "outside-plus-inside"}
			spellings := []string{"abs", "rel-from-root", "rel-from-subdir", "rel-parent", "two-args", "abs-root-arg"}
			for _, st := range states {
				for _, kind := range []string{"content", "move"} {
					for _, lay := range layouts {
						for _, sp := range spellings {
							// quick tier: every state x kind x layout with two spellings chosen by position, every spelling on
							// the plain layout; thorough: the full product
							n++
							if tier != "thorough" && lay != "root" && lay != "outside-plus-inside" && sp != spellings[(n/7)%len(spellings)] && sp != spellings[(n/7+3)%len(spellings)] {
								continue
							}
							if (lay == "norepo" || lay == "outside-plus-inside") && st != "clean" {
								continue
							}
							if lay == "outside-plus-inside" && sp != "abs" && sp != "rel-from-root" && sp != "two-args" {
								continue
							}
							cases = append(cases, scenario(n, st, kind, lay, sp))
						}
					}
				}
			}
			// the same through symbolic links: the repository (or a parent directory, or the argument itself) is a link
			for si, st := range states {
				for ki, kind := range []string{"content", "move"} {
					for vi, how := range []string{"link", "link-parent"} {
						for li, lay := range []string{"root", "deeper", "nested", "gitfile"} {
							for pi, sp := range spellings {
								n++
								if tier != "thorough" {
									// quick: the plain layout with absolute arguments and one more spelling, the deeper layout with
									// one spelling, for every state x kind x kind of link; ignored files once
									rot := si + ki + vi
									keep := (lay == "root" && (sp == "abs" || pi == 1+rot%(len(spellings)-1))) ||
										(lay == "deeper" && pi == (rot+2)%len(spellings))
									if !keep || (st == "ignored" && !(lay == "root" && sp == "abs" && vi == 0)) {
										continue
									}
								}
								_ = li
								cases = append(cases, via(scenario(n, st, kind, lay, sp), how))
							}
						}
					}
				}
			}
			// a link inside the work tree (predicate only, see tools/props/c14.py)
			for _, st := range []string{"clean", "modified", "staged", "untracked"} {
				for _, kind := range []string{"content", "move"} {
					if tier != "thorough" && kind == "move" && st != "modified" {
						continue
					}
					cases = append(cases, symlinkInside(st, kind))
				}
			}
			// a link to a file outside of the work tree (predicate only)
			for _, c := range [][3]string{{"out", "clean", "content"}, {"other", "modified", "content"}, {"other", "clean", "content"},
				{"out", "clean", "move"}, {"other", "untracked", "content"}, {"other", "staged", "move"}} {
				if tier != "thorough" && c[2] == "move" && c[0] == "other" {
					continue
				}
				cases = append(cases, symlinkLeaving(c[0], c[1], c[2]))
			}
			// several arguments in several repositories / in none; relative arguments leading out of the working
			// directory's repository; submodules
			cases = append(cases, multiScenarios(tier)...)
			cases = append(cases, relOutside()...)
			cases = append(cases, submoduleScenarios(tier)...)
			cases = append(cases, submoduleNameScenarios(tier)...)
			cases = append(cases, concurrentScenarios(tier)...)
			rng := hutil.NewRng(hutil.SeedFromEnv() ^ 0xC14)
			nr, nm := 30, 10
			if tier == "thorough" {
				nr, nm = 1500, 300
			}
			for i := 0; i < nr; i++ {
				cases = append(cases, genRandom(rng, i))
			}
			for i := 0; i < nm; i++ {
				cases = append(cases, genRandomMulti(rng, i))
			}
		}
		out := hutil.NewOut(outPath)
		defer out.Close()
		prepared := make([]*Prepared, len(cases))
		var wg sync.WaitGroup
		sem := make(chan struct{}, max(2, runtime.NumCPU()/2))
		for i := range cases {
			wg.Add(1)
			sem <- struct{}{}
			go func(i int) {
				defer wg.Done()
				defer func() { <-sem }()
				prepared[i] = Prepare(cases[i], workdir, i)
			}(i)
		}
		wg.Wait()
		for _, p := range prepared {
			out.Emit(p)
		}
	case "run":
		prepared := readPrepared(os.Args[2])
		out := hutil.NewOut(os.Args[3])
		defer out.Close()
		regal := os.Args[4]
		results := make([]Result, len(prepared))
		var wg sync.WaitGroup
		sem := make(chan struct{}, max(2, runtime.NumCPU()*3/4))
		for i := range prepared {
			wg.Add(1)
			sem <- struct{}{}
			go func(i int) {
				defer wg.Done()
				defer func() { <-sem }()
				results[i] = prepared[i].Execute(regal)
			}(i)
		}
		wg.Wait()
		for i := range results {
			out.Emit(results[i])
		}
	}
}
