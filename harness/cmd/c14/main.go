// C14 harness: workspaces under git in all states, run through the real `regal fix` WITHOUT --force.
//
//	c14 prepare <prepared.jsonl> <tier> <workdir> <corpus-dir>     materialise the scenarios (kept on disk)
//	c14 run     <prepared.jsonl> <out.jsonl> <regal-binary>        run the binary on each, snapshot, clean up
//	c14 replay  <prepared.jsonl> <case.json> <workdir>             materialise one stored scenario
//
// Between the two steps tools/props/c14.py runs an overlay test inside /repo/internal/git that records what
// FindGitRepo and GetChangedFiles (go-git) say about every prepared workspace.
package main

import (
	"bufio"
	"encoding/json"
	"fmt"
	"os"
	"path/filepath"
	"runtime"
	"sort"
	"strconv"
	"sync"

	. "verifharness/cmd/c13/ws"
	"verifharness/hutil"
)

var states = []string{"clean", "modified", "staged", "untracked", "ignored"}

// one target file in a given state needing a given kind of fix, plus clean bystanders
func scenario(n int, state, kind, layout, spelling string) *WS {
	ws := &WS{Name: fmt.Sprintf("%s/%s/%s/%s", state, kind, layout, spelling), Policy: "error", NoForce: true,
		Git: &GitSpec{States: map[string]string{}, IgnoreDirs: []string{"ign/"}}}
	dir := "pol"
	if state == "ignored" {
		dir = "ign"
	}
	target := WFile{Path: dir + "/t.rego", Pkg: dir, ID: 1}
	if kind == "content" {
		target.Dirty = true
	} else {
		target.Pkg = "moved." + dir // directory-package-mismatch: will be moved to moved/<dir>/t.rego
	}
	by := WFile{Path: "pol/clean.rego", Pkg: "pol", ID: 2}
	ws.Files = []WFile{target, by}
	ws.Git.States[target.Path] = state
	ws.RegalDirs = []string{""}
	prefix := ""
	switch layout {
	case "root": // the workspace root is the work tree
		ws.Git.RepoDirs = []string{""}
	case "norepo":
		ws.Git.RepoDirs = nil
		ws.Git.States = map[string]string{}
	case "nested": // the files live in a repository nested inside another one
		prefix = "inner/"
		ws.Git.RepoDirs = []string{"", "inner"}
	case "nested-outer-arg": // as nested, but the argument is the outer work tree
		prefix = "inner/"
		ws.Git.RepoDirs = []string{"", "inner"}
	case "deeper": // the work tree root is two levels above the files
		prefix = "x/y/"
		ws.Git.RepoDirs = []string{""}
	case "gitfile":
		ws.Git.RepoDirs = []string{""}
		ws.Git.GitFile = "wt"
		prefix = "wt/"
	case "outside-plus-inside": // the target lies outside of every repository, a second argument lies inside one
		ws.Git.RepoDirs = []string{"in"}
		ws.Git.States = map[string]string{}
		ws.Files[0].Path = "out/" + target.Path
		ws.Files[1].Path = "in/" + by.Path
		ws.RegalDirs = []string{"out", "in"}
		ws.Args, ws.AbsArgs = []string{"out/" + dir, "in/pol"}, spelling != "rel-from-root"
		if spelling == "two-args" { // the argument inside the repository first
			ws.Args = []string{"in/pol", "out/" + dir}
		}
		return ws
	}
	if prefix != "" {
		ws.RegalDirs = []string{prefix[:len(prefix)-1]}
		st := map[string]string{}
		for i := range ws.Files {
			old := ws.Files[i].Path
			ws.Files[i].Path = prefix + old
			if s, ok := ws.Git.States[old]; ok {
				st[prefix+old] = s
			}
		}
		ws.Git.States = st
	}
	argdir := prefix + dir
	if layout == "nested-outer-arg" {
		argdir = ""
	}
	switch spelling {
	case "abs":
		ws.Args, ws.AbsArgs = []string{argdir}, true
	case "rel-from-root":
		ws.Args = []string{argdir}
	case "rel-from-subdir": // run from inside the directory: argument "."
		ws.Args, ws.Cwd = []string{argdir}, argdir
	case "rel-parent": // run from a sibling directory: argument "../<dir>"
		ws.Args, ws.Cwd = []string{argdir}, prefix+"other"
		ws.EmptyDirs = append(ws.EmptyDirs, prefix+"other")
	case "two-args": // the directory and the bystander's directory
		ws.Args, ws.AbsArgs = []string{argdir, prefix + "pol"}, true
	case "abs-root-arg":
		ws.Args, ws.AbsArgs = []string{prefix}, true
		if prefix != "" {
			ws.Args = []string{prefix[:len(prefix)-1]}
		}
	}
	_ = n
	return ws
}

// via: the same scenario, but the invocation reaches the workspace through a symbolic link (ws.Via): the repository
// itself is the link's target ("link": an argument naming the workspace root names the link), or a parent directory of
// the repository is a link ("link-parent")
func via(ws *WS, how string) *WS {
	ws.Via = how
	ws.Name += "/via-" + how
	return ws
}

// symlinkInside: the work tree is reached by its real path, but the argument goes through a symbolic link INSIDE the
// work tree (l -> a, tracked): git names the file a/sub/t.rego, the command l/sub/t.rego
func symlinkInside(state, kind string) *WS {
	ws := &WS{Name: fmt.Sprintf("%s/%s/symlink-inside", state, kind), Policy: "error", NoForce: true, AbsArgs: true,
		Git:       &GitSpec{States: map[string]string{}, IgnoreDirs: []string{"ign/"}, RepoDirs: []string{""}},
		RegalDirs: []string{""}, Symlinks: map[string]string{"l": "a"}, Args: []string{"l/sub"}}
	target := WFile{Path: "a/sub/t.rego", Pkg: "l.sub", ID: 1, Dirty: kind == "content"}
	if kind != "content" {
		target.Pkg = "moved.l.sub"
	}
	ws.Files = []WFile{target, {Path: "pol/clean.rego", Pkg: "pol", ID: 2}}
	ws.Git.States[target.Path] = state
	return ws
}

func genRandom(r *hutil.Rng, n int) *WS {
	ws := &WS{Name: "rand" + strconv.Itoa(n), Policy: hutil.Choice(r, []string{"error", "rename"}), NoForce: r.Below(8) != 0,
		DryRun: r.Below(10) == 0, RegalDirs: []string{""}, Git: &GitSpec{States: map[string]string{}, IgnoreDirs: []string{"ign/"}}}
	dirs := []string{"pol", "pol", "a", "b", "ign", "a/b"}
	pkgs := []string{"pol", "a", "b", "a.b", "ign"}
	used := map[string]bool{}
	nf := 1 + r.Below(4)
	for i := 0; i < nf; i++ {
		f := WFile{Path: hutil.Choice(r, dirs) + "/" + hutil.Choice(r, []string{"x.rego", "y.rego"}), Pkg: hutil.Choice(r, pkgs), Dirty: r.Below(3) == 0, ID: i + 1}
		if used[f.Path] {
			continue
		}
		used[f.Path] = true
		ws.Files = append(ws.Files, f)
		st := hutil.Choice(r, []string{"clean", "clean", "clean", "modified", "staged", "untracked"})
		if filepath.Dir(f.Path) == "ign" {
			st = "ignored"
		}
		ws.Git.States[f.Path] = st
	}
	switch r.Below(6) {
	case 0:
		ws.Git.RepoDirs = nil
		ws.Git.States = map[string]string{}
	case 1:
		ws.Git.RepoDirs = []string{"", "a"}
	default:
		ws.Git.RepoDirs = []string{""}
	}
	ws.Args = []string{""}
	switch r.Below(5) {
	case 0:
		ws.Args = []string{"pol"}
		ws.EmptyDirs = append(ws.EmptyDirs, "pol")
	case 1:
		ws.Cwd = "pol"
		ws.EmptyDirs = append(ws.EmptyDirs, "pol")
	case 2:
		ws.Args = []string{"a", "pol"}
		ws.EmptyDirs = append(ws.EmptyDirs, "pol", "a")
	}
	ws.AbsArgs = r.Bool()
	if r.Below(4) == 0 {
		via(ws, hutil.Choice(r, []string{"link", "link-parent"}))
	}
	return ws
}

func readPrepared(path string) []*Prepared {
	f, err := os.Open(path)
	if err != nil {
		panic(err)
	}
	defer f.Close()
	var out []*Prepared
	sc := bufio.NewScanner(f)
	sc.Buffer(make([]byte, 1<<20), 1<<26)
	for sc.Scan() {
		var p Prepared
		if err := json.Unmarshal(sc.Bytes(), &p); err != nil {
			panic(err)
		}
		out = append(out, &p)
	}
	return out
}

func main() {
	if len(os.Args) < 5 {
		fmt.Fprintln(os.Stderr, "usage: c14 prepare|run|replay ...")
		os.Exit(2)
	}
	switch os.Args[1] {
	case "prepare", "replay":
		outPath, workdir := os.Args[2], os.Args[4]
		var cases []*WS
		if os.Args[1] == "replay" {
			b, err := os.ReadFile(os.Args[3])
			if err != nil {
				panic(err)
			}
			var w WS
			if err := json.Unmarshal(b, &w); err != nil {
				panic(err)
			}
			cases = append(cases, &w)
		} else {
			tier := os.Args[3]
			if len(os.Args) > 5 {
				ents, _ := filepath.Glob(filepath.Join(os.Args[5], "*.json"))
				sort.Strings(ents)
				for _, e := range ents {
					b, _ := os.ReadFile(e)
					var list []WS
					if err := json.Unmarshal(b, &list); err != nil {
						panic(fmt.Sprintf("%s: %v", e, err))
					}
					for i := range list {
						cases = append(cases, &list[i])
					}
				}
			}
			n := 0
			layouts := []string{"root", "norepo", "nested", "nested-outer-arg", "deeper", "gitfile", "outside-plus-inside"}
			spellings := []string{"abs", "rel-from-root", "rel-from-subdir", "rel-parent", "two-args", "abs-root-arg"}
			for _, st := range states {
				for _, kind := range []string{"content", "move"} {
					for _, lay := range layouts {
						for _, sp := range spellings {
							// quick tier: every state x kind x layout with two spellings chosen by position, every spelling on
							// the plain layout; thorough: the full product
							n++
							if tier != "thorough" && lay != "root" && lay != "outside-plus-inside" && sp != spellings[(n/7)%len(spellings)] && sp != spellings[(n/7+3)%len(spellings)] {
								continue
							}
							if (lay == "norepo" || lay == "outside-plus-inside") && st != "clean" {
								continue
							}
							if lay == "outside-plus-inside" && sp != "abs" && sp != "rel-from-root" && sp != "two-args" {
								continue
							}
							cases = append(cases, scenario(n, st, kind, lay, sp))
						}
					}
				}
			}
			// the same through symbolic links: the repository (or a parent directory, or the argument itself) is a link
			for si, st := range states {
				for ki, kind := range []string{"content", "move"} {
					for vi, how := range []string{"link", "link-parent"} {
						for li, lay := range []string{"root", "deeper", "nested", "gitfile"} {
							for pi, sp := range spellings {
								n++
								if tier != "thorough" {
									// quick: the plain layout with absolute arguments and one more spelling, the deeper layout with
									// one spelling, for every state x kind x kind of link; ignored files once
									rot := si + ki + vi
									keep := (lay == "root" && (sp == "abs" || pi == 1+rot%(len(spellings)-1))) ||
										(lay == "deeper" && pi == (rot+2)%len(spellings))
									if !keep || (st == "ignored" && !(lay == "root" && sp == "abs" && vi == 0)) {
										continue
									}
								}
								_ = li
								cases = append(cases, via(scenario(n, st, kind, lay, sp), how))
							}
						}
					}
				}
			}
			// a link inside the work tree (predicate only, see tools/props/c14.py)
			for _, st := range []string{"clean", "modified", "staged", "untracked"} {
				for _, kind := range []string{"content", "move"} {
					if tier != "thorough" && kind == "move" && st != "modified" {
						continue
					}
					cases = append(cases, symlinkInside(st, kind))
				}
			}
			rng := hutil.NewRng(hutil.SeedFromEnv() ^ 0xC14)
			nr := 30
			if tier == "thorough" {
				nr = 1500
			}
			for i := 0; i < nr; i++ {
				cases = append(cases, genRandom(rng, i))
			}
		}
		out := hutil.NewOut(outPath)
		defer out.Close()
		prepared := make([]*Prepared, len(cases))
		var wg sync.WaitGroup
		sem := make(chan struct{}, max(2, runtime.NumCPU()/2))
		for i := range cases {
			wg.Add(1)
			sem <- struct{}{}
			go func(i int) {
				defer wg.Done()
				defer func() { <-sem }()
				prepared[i] = Prepare(cases[i], workdir, i)
			}(i)
		}
		wg.Wait()
		for _, p := range prepared {
			out.Emit(p)
		}
	case "run":
		prepared := readPrepared(os.Args[2])
		out := hutil.NewOut(os.Args[3])
		defer out.Close()
		regal := os.Args[4]
		results := make([]Result, len(prepared))
		var wg sync.WaitGroup
		sem := make(chan struct{}, max(2, runtime.NumCPU()*3/4))
		for i := range prepared {
			wg.Add(1)
			sem <- struct{}{}
			go func(i int) {
				defer wg.Done()
				defer func() { <-sem }()
				results[i] = prepared[i].Execute(regal)
			}(i)
		}
		wg.Wait()
		for i := range results {
			out.Emit(results[i])
		}
	}
}
