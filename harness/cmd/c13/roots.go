// Root discovery (round 3): workspaces whose project roots are declared in every way regal knows (a `.manifest`
// file, a `.regal/` directory, a `.regal.yaml` file, `project.roots` of either config, `.regal/rules`) and stand in
// every nesting relation to each other (nested both ways, siblings, siblings one of whose names is a string prefix of
// the other, a root below a directory that is no root), with and without a regal config at or above the argument,
// the argument of `regal fix` being above, at or below the outermost root.
//
// The generator only DESCRIBES the workspace (ws.WS); which directories are roots according to that description is
// worked out by tools/props/c13.py, independently of regal's own discovery, and held against (a) what
// config.FindBundleRootDirectories / config.GetPotentialRoots answer on the materialised tree and (b) where the real
// binary puts the files.
package main

import (
	"os"
	"path/filepath"
	"sort"
	"strconv"
	"strings"

	. "verifharness/cmd/c13/ws"
	"verifharness/hutil"

	"github.com/styrainc/regal/pkg/config"
)

// Out is one line of the output: the run (or, kind "disc", just the prepared tree) plus what
// config.FindBundleRootDirectories says for every argument directory.
type Out struct {
	Result
	Fbrd map[string][]string `json:"fbrd,omitempty"` // argument (relative to the workspace root) -> roots, relative ("" = root, "^…" = outside)
}

func relTo(root, p string) string {
	rel, err := filepath.Rel(root, p)
	switch {
	case err != nil || strings.HasPrefix(rel, ".."):
		return "^" + p
	case rel == ".":
		return ""
	}
	return rel
}

func fbrdOf(p *Prepared) map[string][]string {
	m := map[string][]string{}
	for i, a := range p.AbsArgs {
		if st, err := os.Stat(a); err != nil || !st.IsDir() {
			a = filepath.Dir(a) // what GetPotentialRoots does with a file argument
		}
		roots, err := config.FindBundleRootDirectories(a)
		out := []string{}
		if err != nil {
			out = append(out, "!error")
		}
		for _, r := range roots {
			out = append(out, relTo(p.Root, r))
		}
		sort.Strings(out)
		m[p.WS.Args[i]] = out
	}
	return m
}

// nestings: sets of root directories by the relation they stand in
var nestings = [][]string{
	{"pol", "pol/inner"},                   // nested
	{"pol", "pol/inner", "pol/inner/deep"}, // nested twice
	{"pol", "pol-draft"},                   // siblings, one name a string prefix of the other
	{"pol", "pol/inner", "pol-draft"},
	{"pol/inner", "pol/lib"}, // siblings below a directory that is no root
	{"pol", "lib"},           // plain siblings
	{"", "pol"},              // the workspace root itself and a nested one
	{"", "pol", "pol/inner"},
	{"pol/inner"},               // a single root, not at the top
	{"pol", "pol/inner", "lib"}, // nested + sibling
	{"pol", "pol/lib", "pol/inner"},
}

var rootKinds = []string{"manifest", "manifest", "regal", "yaml", "cfgroot"}

func cfgText(roots []string) string {
	if len(roots) == 0 {
		return "rules: {}\n"
	}
	var sb strings.Builder
	sb.WriteString("project:\n  roots:\n")
	for _, r := range roots {
		sb.WriteString("    - " + r + "\n")
	}
	return sb.String()
}

func join(d, x string) string {
	if d == "" {
		return x
	}
	return d + "/" + x
}

func isUnder(dir, p string) bool { return dir == "" || p == dir || strings.HasPrefix(p, dir+"/") }

// genRoots: wild = also things only the discovery (not a fix run) is asked about: skipped directory names, a
// directory called .manifest, .regal/rules, a config.yaml whose roots are spelled uncleanly
func genRoots(r *hutil.Rng, n int, wild bool) *WS {
	ws := &WS{Name: "roots" + strconv.Itoa(n), Policy: hutil.Choice(r, []string{"error", "rename", "rename"}), AbsArgs: r.Bool(),
		Extra: map[string]string{}}
	set := hutil.Choice(r, nestings)
	kinds := map[string]string{}
	cfgRoots := map[string][]string{} // config holder -> project.roots (relative to it)
	holderKind := map[string]string{} // "" or dir -> regal | yaml
	for _, d := range set {
		k := hutil.Choice(r, rootKinds)
		if k == "cfgroot" {
			// declared by project.roots of the closest enclosing config; when there is none: of a config at the top
			h, found := "", false
			for _, e := range set {
				if e != d && isUnder(e, d) && (kinds[e] == "regal" || kinds[e] == "yaml") && (!found || len(e) > len(h)) {
					h, found = e, true
				}
			}
			if !found {
				if _, ok := holderKind[""]; !ok {
					holderKind[""] = hutil.Choice(r, []string{"regal", "yaml"})
				}
				h = ""
			}
			rel, _ := filepath.Rel(filepath.Join("/", h), filepath.Join("/", d))
			if wild && r.Below(3) == 0 {
				rel = hutil.Choice(r, []string{"./" + rel, rel + "/", "x/../" + rel})
			}
			cfgRoots[h] = append(cfgRoots[h], rel)
		}
		if k == "regal" || k == "yaml" {
			if hk, ok := holderKind[d]; ok { // (the top may already hold a config of the other kind)
				k = hk
			}
			holderKind[d] = k
		}
		kinds[d] = k
	}
	// a regal config at the top although the top is no declared root (the "config at/above the argument" axis)
	if _, ok := holderKind[""]; !ok && r.Below(3) == 0 {
		holderKind[""] = hutil.Choice(r, []string{"regal", "yaml"})
	}
	for _, d := range set {
		if kinds[d] == "manifest" {
			ws.Manifests = append(ws.Manifests, d)
		}
	}
	holders := make([]string, 0, len(holderKind))
	for h := range holderKind {
		holders = append(holders, h)
	}
	sort.Strings(holders)
	for _, h := range holders {
		switch {
		case holderKind[h] == "yaml":
			ws.Extra[join(h, ".regal.yaml")] = cfgText(cfgRoots[h])
		case h == "" && !wild:
			ws.RegalDirs = append(ws.RegalDirs, "")
			ws.CfgRoots = cfgRoots[h]
		case len(cfgRoots[h]) == 0 && r.Bool():
			ws.RegalDirs = append(ws.RegalDirs, h) // an empty .regal directory
		default:
			ws.Extra[join(h, ".regal/config.yaml")] = cfgText(cfgRoots[h])
		}
	}
	// files: one misplaced file per root (same base name and, mostly, same package: if a root is not honoured the
	// files of different projects meet), sometimes one that is where it belongs, one below no root
	pkg := hutil.Choice(r, []string{"foo", "foo", "foo.bar", "a"})
	id := 0
	add := func(path, p string) {
		id++
		ws.Files = append(ws.Files, WFile{Path: path, Pkg: p, ID: id, Dirty: !wild && r.Below(6) == 0})
	}
	for _, d := range set {
		p := pkg
		if r.Below(5) == 0 {
			p = hutil.Choice(r, []string{"foo", "b", "foo.bar"})
		}
		add(join(d, hutil.Choice(r, []string{"x", "x", "y", "src/x"})+"/p.rego"), p)
	}
	if r.Below(3) == 0 {
		d := hutil.Choice(r, set)
		add(join(d, strings.ReplaceAll(pkg, ".", "/")+"/q.rego"), pkg)
	}
	if r.Below(3) == 0 {
		add(hutil.Choice(r, []string{"misc/y/p.rego", "pol/z/p.rego", "pol-draft/z/p.rego"}), pkg)
	}
	seen := map[string]bool{}
	files := ws.Files[:0]
	for _, f := range ws.Files {
		if !seen[f.Path] {
			seen[f.Path] = true
			files = append(files, f)
		}
	}
	ws.Files = files
	// the argument: above / at / below the outermost root, or two arguments
	outer := set[0]
	switch r.Below(7) {
	case 0, 1:
		ws.Args = []string{""}
	case 2, 3:
		ws.Args = []string{outer}
	case 4:
		ws.Args = []string{set[len(set)-1]}
	case 5:
		ws.Args = []string{filepath.Dir(ws.Files[r.Below(len(ws.Files))].Path)}
	default:
		ws.Args = []string{set[0], set[len(set)-1]}
		if len(set) == 1 {
			ws.Args = []string{set[0], "misc"}
		}
	}
	for _, a := range ws.Args {
		if a != "" {
			ws.EmptyDirs = append(ws.EmptyDirs, a)
		}
	}
	if r.Below(5) == 0 && ws.Args[0] != "" {
		ws.Cwd = ws.Args[0]
	}
	if wild {
		for i := 0; i < 1+r.Below(3); i++ {
			d := hutil.Choice(r, append([]string{"misc", "pol/z"}, set...))
			switch r.Below(6) {
			case 0: // FindManifestLocations (config present) skips these, the plain downward walk does not
				ws.Manifests = append(ws.Manifests, join(d, hutil.Choice(r, []string{"node_modules/m", ".idea/m", ".idea", "vendor/m"})))
			case 1: // a DIRECTORY called .manifest marks nothing
				ws.EmptyDirs = append(ws.EmptyDirs, join(d, "dm/.manifest"))
			case 2:
				ws.EmptyDirs = append(ws.EmptyDirs, join(d, ".regal/rules"))
			case 3: // a FILE called .regal marks nothing
				ws.Others = append(ws.Others, join(d, "fr/.regal"))
			case 4: // a .regal.yaml below the argument
				if _, ok := ws.Extra[join(d, "sub/.regal/config.yaml")]; !ok {
					ws.Extra[join(d, "sub/.regal.yaml")] = cfgText(nil)
				}
			case 5:
				ws.Manifests = append(ws.Manifests, join(d, "m2"))
			}
		}
	}
	if len(ws.Extra) == 0 {
		ws.Extra = nil
	}
	return ws
}
