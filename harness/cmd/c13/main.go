// C13 harness: builds small workspaces, runs the real `regal fix --force` binary on them and records the
// directory tree before and after, the exit status and what config.GetPotentialRoots says, one JSON object per line.
//
//	c13 gen    <out.jsonl> <tier> <workdir> <regal-binary> <corpus-dir>
//	c13 replay <out.jsonl> <case.json> <workdir> <regal-binary>
package main

import (
	"encoding/json"
	"fmt"
	"os"
	"path/filepath"
	"runtime"
	"sort"
	"strconv"
	"strings"
	"sync"

	. "verifharness/cmd/c13/ws"
	"verifharness/hutil"
)

// ---- generator -----------------------------------------------------------------------------------

var dirU = []string{"", "a", "b", "a/b", "p", "q", "foo", "foobar", "foo/a", "p/a"}
var pkgU = []string{"a", "b", "a.b", "p", "q", "foo.a", "a_test", "b.a", "foobar", "p.a"}
var baseU = []string{"x.rego", "x.rego", "x.rego", "y.rego", "x_test.rego", "x_1.rego", "x_1_test.rego"}

// genChainCollision: a file moves AWAY from a path P while two (or three) other files both want P, possibly with a
// further link of the chain behind it and a bystander; which of them the fixer handles first is up to the order of the
// linter's violations, so the caller runs the workspace several times.
func genChainCollision(r *hutil.Rng, n int) *WS {
	ws := &WS{Name: "chaincoll" + strconv.Itoa(n), Policy: hutil.Choice(r, []string{"error", "rename"}), Args: []string{""}, AbsArgs: r.Bool(),
		RegalDirs: []string{""}}
	dirs := []string{"a", "b", "p", "q", "foo"}
	hutil.Shuffle(r, dirs)
	dp, dq, d1, d2, d3 := dirs[0], dirs[1], dirs[2], dirs[3], dirs[4]
	base := hutil.Choice(r, []string{"x.rego", "y.rego", "x_test.rego", "x_1.rego"})
	ws.Files = []WFile{
		{Path: dp + "/" + base, Pkg: dq, ID: 1},                   // vacates P = dp/base
		{Path: d1 + "/" + base, Pkg: dp, ID: 2, Dirty: r.Below(4) == 0}, // wants P
		{Path: d2 + "/" + base, Pkg: dp, ID: 3},                   // wants P too
	}
	switch r.Below(4) {
	case 0: // a third contender
		ws.Files = append(ws.Files, WFile{Path: d3 + "/" + base, Pkg: dp, ID: 4})
	case 1: // the chain goes on: the target of the vacating file is taken by a file that stays
		ws.Files = append(ws.Files, WFile{Path: dq + "/" + base, Pkg: dq, ID: 4})
	case 2: // ... or by one that moves away as well
		ws.Files = append(ws.Files, WFile{Path: dq + "/" + base, Pkg: d3, ID: 4})
	}
	hutil.Shuffle(r, ws.Files)
	addBystanders(r, ws)
	return ws
}

func genWS(r *hutil.Rng, n int) *WS {
	ws := &WS{Name: "rand" + strconv.Itoa(n), Policy: hutil.Choice(r, []string{"error", "rename", "rename"}), Args: []string{""}, AbsArgs: r.Bool()}
	nf := 1 + r.Below(6)
	used := map[string]bool{}
	// bias: a few directories and packages per workspace so that collisions are frequent
	nd := 2 + r.Below(3)
	var ds, ps []string
	for i := 0; i < nd; i++ {
		ds = append(ds, hutil.Choice(r, dirU))
		ps = append(ps, hutil.Choice(r, pkgU))
	}
	for i := 0; i < nf; i++ {
		f := WFile{Path: filepath.Join(hutil.Choice(r, ds), hutil.Choice(r, baseU)), Pkg: hutil.Choice(r, ps), Dirty: r.Below(4) == 0, ID: i + 1}
		if used[f.Path] {
			continue
		}
		used[f.Path] = true
		ws.Files = append(ws.Files, f)
	}
	occupied := func(p string) bool { // p is a file, or an ancestor directory of one
		for u := range used {
			if u == p || strings.HasPrefix(u, p+"/") {
				return true
			}
		}
		return false
	}
	switch r.Below(8) {
	case 0: // no configuration at all: the argument directories are the roots
	case 1, 2:
		ws.RegalDirs = []string{""}
	case 3, 4:
		ws.RegalDirs = []string{""}
		for i := 0; i < 1+r.Below(2); i++ {
			ws.CfgRoots = append(ws.CfgRoots, hutil.Choice(r, dirU[1:]))
		}
	case 5, 6:
		for i := 0; i < 1+r.Below(2); i++ {
			ws.Manifests = append(ws.Manifests, hutil.Choice(r, dirU))
		}
		if r.Bool() {
			ws.RegalDirs = []string{""}
		}
	case 7:
		ws.RegalDirs = []string{hutil.Choice(r, dirU[1:])}
	}
	if r.Below(5) == 0 {
		ws.EmptyDirs = append(ws.EmptyDirs, hutil.Choice(r, dirU[1:]))
	}
	if r.Below(6) == 0 { // a regular file where a package directory would have to be created
		c := hutil.Choice(r, []string{"a", "b", "p", "foo", "a/b"})
		if !occupied(c) {
			ws.Others = append(ws.Others, c)
		}
	}
	if r.Below(6) == 0 {
		ws.Others = append(ws.Others, filepath.Join(hutil.Choice(r, ds), "README.md"))
	}
	addBystanders(r, ws)
	switch r.Below(6) {
	case 0: // only a sub-directory is given
		ws.Args = []string{hutil.Choice(r, ds)}
	case 1:
		ws.Args = []string{ds[0], ds[len(ds)-1]}
	case 2:
		ws.Cwd = hutil.Choice(r, ds)
	}
	for _, a := range ws.Args {
		if a != "" {
			ws.EmptyDirs = append(ws.EmptyDirs, a)
		}
	}
	if ws.Cwd != "" {
		ws.EmptyDirs = append(ws.EmptyDirs, ws.Cwd)
	}
	if r.Below(7) == 0 {
		ws.Ignore = hutil.Choice(r, []string{"q/", "a/", "foo/"})
	}
	if ws.Ignore != "" {
		// a file moved below an ignored directory is not linted any more: whether its pending content fix was
		// applied before the move is schedule dependent, so workspaces with an ignore pattern have clean files only
		for i := range ws.Files {
			ws.Files[i].Dirty = false
		}
	}
	ws.DryRun = r.Below(6) == 0
	// a path must not be both a file and a directory
	var dirsNeeded []string
	addDir := func(d string) {
		for d != "" && d != "." {
			dirsNeeded = append(dirsNeeded, d)
			d = filepath.Dir(d)
		}
	}
	for _, f := range ws.Files {
		addDir(filepath.Dir(f.Path))
	}
	for _, d := range ws.EmptyDirs {
		addDir(d)
	}
	for _, d := range ws.Manifests {
		addDir(d)
	}
	for _, d := range ws.RegalDirs {
		addDir(d)
	}
	var others []string
	for _, o := range ws.Others {
		addDir(filepath.Dir(o))
	}
	for l := range ws.Symlinks {
		addDir(filepath.Dir(l))
	}
	seenOther := map[string]bool{}
	for _, o := range ws.Others {
		bad := occupied(o) || seenOther[o]
		seenOther[o] = true
		for _, d := range dirsNeeded {
			bad = bad || d == o
		}
		if !bad {
			others = append(others, o)
		}
	}
	ws.Others = others
	return ws
}

// addBystanders puts entries that the fix must neither touch nor count as "nothing" next to, above and below the
// files that may move: hidden files, non-rego files, sub-directories (empty, with content, hidden) and symbolic links.
// Their names are disjoint from the directory / package / rego names of the generator.
func addBystanders(r *hutil.Rng, ws *WS) {
	if len(ws.Files) == 0 || r.Below(5) < 2 {
		return
	}
	n := 1 + r.Below(3)
	for i := 0; i < n; i++ {
		f := hutil.Choice(r, ws.Files)
		d := filepath.Dir(f.Path)
		if d != "." && r.Below(4) == 0 {
			d = filepath.Dir(d) // one level up: the parent of the directory that may become empty
		}
		in := func(name string) string { return filepath.Join(d, name) }
		switch r.Below(9) {
		case 0, 1:
			ws.Others = append(ws.Others, in(hutil.Choice(r, []string{".gitkeep", ".DS_Store", ".gitignore"})))
		case 2:
			ws.Others = append(ws.Others, in(hutil.Choice(r, []string{"data.json", "README", "notes.txt"})))
		case 3:
			ws.EmptyDirs = append(ws.EmptyDirs, in(hutil.Choice(r, []string{"sub", ".cache"})))
		case 4:
			ws.Others = append(ws.Others, in(hutil.Choice(r, []string{"sub/data.json", ".cache/.keep", "sub/.gitkeep", ".cache/blob"})))
		case 5, 6:
			if ws.Symlinks == nil {
				ws.Symlinks = map[string]string{}
			}
			// links to files: to the rego file next to it (dangling once that file has moved), to a file that does
			// not exist, out of the directory
			ws.Symlinks[in(hutil.Choice(r, []string{"latest", ".current", "link.txt"}))] =
				hutil.Choice(r, []string{filepath.Base(f.Path), "data.json", "../" + filepath.Base(f.Path)})
		case 7:
			if ws.Symlinks == nil {
				ws.Symlinks = map[string]string{}
			}
			ws.Symlinks[in(hutil.Choice(r, []string{"up", ".here"}))] = hutil.Choice(r, []string{"..", "."}) // links to directories
		case 8: // a hidden file below AND one next to the file
			ws.Others = append(ws.Others, in(".gitkeep"), in("sub/.gitkeep"))
		}
	}
}

func main() {
	if len(os.Args) < 6 {
		fmt.Fprintln(os.Stderr, "usage: c13 gen|replay <out> <tier|case.json> <workdir> <regal> [corpus]")
		os.Exit(2)
	}
	mode, outPath, workdir, regal := os.Args[1], os.Args[2], os.Args[4], os.Args[5]
	out := hutil.NewOut(outPath)
	defer out.Close()
	var cases []*WS
	discOnly := map[int]bool{}
	if mode == "replay" {
		b, err := os.ReadFile(os.Args[3])
		if err != nil {
			panic(err)
		}
		var ws WS
		if err := json.Unmarshal(b, &ws); err != nil {
			panic(err)
		}
		// the outcome may depend on the order in which the linter reports the violations: a stored workspace is run
		// several times
		for k := 0; k < 8; k++ {
			w := ws
			cases = append(cases, &w)
		}
	} else {
		tier := os.Args[3]
		if len(os.Args) > 6 {
			ents, _ := filepath.Glob(filepath.Join(os.Args[6], "*.json"))
			sort.Strings(ents)
			for _, e := range ents {
				b, _ := os.ReadFile(e)
				var list []WS
				if err := json.Unmarshal(b, &list); err != nil {
					panic(fmt.Sprintf("%s: %v", e, err))
				}
				for i := range list {
					// every corpus workspace runs under both policies, and once as a dry run; workspaces whose outcome depends
					// on the order of the linter's violations ("repeat": n) run n times per policy
					for _, pol := range []string{"error", "rename"} {
						for k := 0; k < max(1, list[i].Repeat); k++ {
							w := list[i]
							w.Policy = pol
							w.Name = list[i].Name + "/" + pol
							if k > 0 {
								w.Name += "#" + strconv.Itoa(k)
							}
							cases = append(cases, &w)
						}
					}
					w := list[i]
					w.Policy, w.DryRun, w.Name = "rename", true, list[i].Name+"/dry"
					cases = append(cases, &w)
				}
			}
		}
		rng := hutil.NewRng(hutil.SeedFromEnv())
		n, nshape, repeat := 64, 4, 5
		if tier == "thorough" {
			n, nshape, repeat = 1500, 40, 6
		}
		for i := 0; i < n; i++ {
			cases = append(cases, genWS(rng, i))
		}
		// chain-plus-collision shapes: the outcome depends on the order in which the linter reports the violations,
		// so every such workspace (and the corpus ones marked "repeat") is run several times
		for i := 0; i < nshape; i++ {
			w := genChainCollision(rng, i)
			for k := 0; k < repeat; k++ {
				c := *w
				c.Name = w.Name + "#" + strconv.Itoa(k)
				cases = append(cases, &c)
			}
		}
		// root discovery (round 3): roots of every kind in every nesting relation, run through the binary ...
		nroots, ndisc := 30, 200
		if tier == "thorough" {
			nroots, ndisc = 700, 3000
		}
		rrng := hutil.NewRng(hutil.SeedFromEnv() ^ 0x5eed0c13)
		for i := 0; i < nroots; i++ {
			cases = append(cases, genRoots(rrng, i, false))
		}
		// ... and many more (with odd entries) whose tree is only shown to the discovery functions
		for i := 0; i < ndisc; i++ {
			w := genRoots(rrng, i, i%3 != 0)
			w.Name = "disc" + strconv.Itoa(i)
			discOnly[len(cases)] = true
			cases = append(cases, w)
		}
	}
	results := make([]Out, len(cases))
	var wg sync.WaitGroup
	sem := make(chan struct{}, max(2, runtime.NumCPU()*3/4))
	for i := range cases {
		wg.Add(1)
		sem <- struct{}{}
		go func(i int) {
			defer wg.Done()
			defer func() { <-sem }()
			p := Prepare(cases[i], workdir, i)
			fb := fbrdOf(p)
			if discOnly[i] {
				results[i] = Out{Result: Result{Kind: "disc", WS: p.WS, Roots: p.Roots, Before: p.Before, After: p.Before}, Fbrd: fb}
				os.RemoveAll(p.Base)
				return
			}
			results[i] = Out{Result: p.Execute(regal), Fbrd: fb}
		}(i)
	}
	wg.Wait()
	for i := range results {
		out.Emit(results[i])
	}
}
