// Package ws: workspaces for the C13/C14 harnesses: description, materialisation (optionally with git
// repositories in given states), tree snapshots and one run of the real regal binary.
package ws

import (
	"bytes"
	"context"
	"fmt"
	"os"
	"os/exec"
	"path/filepath"
	"sort"
	"strconv"
	"strings"
	"syscall"
	"time"

	"github.com/styrainc/regal/pkg/config"
)

// WFile is a rego file of the workspace before the run.
type WFile struct {
	Path  string `json:"path"`  // relative to the workspace root
	Pkg   string `json:"pkg"`   // dotted package path, e.g. "a.b"
	Dirty bool   `json:"dirty"` // carries a no-whitespace-comment violation
	ID    int    `json:"id"`    // unique token inside the content
}

// GitSpec puts (parts of) the workspace under git.
type GitSpec struct {
	RepoDirs   []string          `json:"repo_dirs"`   // work tree roots relative to the workspace ("" = workspace root)
	States     map[string]string `json:"states"`      // rego file -> clean | modified | staged | untracked | ignored (default clean)
	IgnoreDirs []string          `json:"ignore_dirs"` // lines of the .gitignore of every repository, e.g. "ign/"
	GitFile    string            `json:"git_file"`    // "" = none; directory ("." = workspace root) in which .git is a regular file (as in a linked work tree)
	// Submodules: repository directories (also listed in RepoDirs) that are registered as a submodule of the repository
	// around them (git submodule add): "dir" = the submodule keeps its .git directory, "file" = it is absorbed into the
	// superproject (git submodule absorbgitdirs: .git is a file, the layout a clone with submodules has)
	Submodules map[string]string `json:"submodules,omitempty"`
	// SubOpts: how a submodule of Submodules got where it is (all optional; default: added at its path under that name)
	SubOpts map[string]SubOpt `json:"sub_opts,omitempty"`
}

// SubOpt: the NAME of a submodule (the key of its sections in .gitmodules and .git/config, and of its directory under
// .git/modules) is only by default the path it was first added at.
type SubOpt struct {
	Name      string `json:"name,omitempty"`       // git submodule add --name <Name>
	MovedFrom string `json:"moved_from,omitempty"` // added at this path (which stays its name), then `git mv`ed to where it is
	// Deinit: registered in .gitmodules but not checked out (git submodule deinit: what a clone without
	// --recurse-submodules leaves): an empty directory; no file of the workspace may lie in it
	Deinit bool `json:"deinit,omitempty"`
}

// WS describes a workspace and one invocation.
type WS struct {
	Name      string   `json:"name"`
	Files     []WFile  `json:"files"`
	Others    []string `json:"others"`     // non-rego regular files (relative paths)
	EmptyDirs []string `json:"empty_dirs"` // directories that exist without content
	RegalDirs []string `json:"regal_dirs"` // directories that get an (empty) .regal directory; "" = workspace root
	CfgRoots  []string `json:"cfg_roots"`  // project.roots of <root>/.regal/config.yaml (only with "" in RegalDirs)
	Manifests []string `json:"manifests"`  // directories that get a .manifest file
	// Extra: further files (path -> content) written before the repositories are committed, e.g. a .regal.yaml or
	// a .regal/config.yaml with project.roots in a sub-directory
	Extra   map[string]string `json:"extra,omitempty"`
	Args    []string          `json:"args"` // path arguments, relative to the workspace root ("" = the root itself)
	AbsArgs bool              `json:"abs_args"`
	Cwd     string            `json:"cwd"`    // working directory relative to the workspace root
	Ignore  string            `json:"ignore"` // --ignore-files pattern ("" = none)
	Policy  string            `json:"policy"` // error | rename
	DryRun  bool              `json:"dry_run"`
	NoForce bool              `json:"no_force"` // C14: run without --force
	Git     *GitSpec          `json:"git,omitempty"`
	// Via: how the invocation reaches the workspace.  "" = by its real path.  Otherwise the workspace is materialised
	// next to a symbolic link, and the working directory and every argument are spelled through that link (as a
	// shell that was cd'ed through the link would: PWD is the spelled path):
	//   "link"         <base>/link -> real (relative target); the workspace root is <base>/link, i.e. the root itself
	//                  (an argument "" names the link itself)
	//   "link-parent"  <base>/link -> <base>/real (absolute target); the workspace root is <base>/link/mid: a parent
	//                  directory of everything is the link
	Via string `json:"via,omitempty"`
	// Symlinks inside the workspace: path -> target (as given to symlink(2): relative to the link's directory, or absolute)
	Symlinks map[string]string `json:"symlinks,omitempty"`
	// Repeat: corpus only; run the workspace this many times per policy (the order in which the linter reports
	// violations, and with it the order of the moves, differs from run to run)
	Repeat int `json:"repeat,omitempty"`
	// Concurrent (C14): somebody else writes to the workspace WHILE the command runs, see ConcSpec
	Concurrent *ConcSpec `json:"concurrent,omitempty"`
}

// ConcSpec: a writer that changes files of the workspace while `regal fix` is running, at a moment that is pinned
// down by something the command itself does (no sleeping, no guessing):
//
//	Mode "fifo":  Fifo names a .rego path that is a named pipe.  The command blocks when it opens it for reading (it
//	              reads its input files one after the other, in sorted order); at that moment -- the writer's own open
//	              of the pipe returns exactly then -- the writer applies Edits, then feeds FifoContent into the pipe and
//	              closes it, and the command goes on.  Files sorted before Fifo were read BEFORE the edit (the command
//	              holds stale content), files sorted after it are read after the edit.
//	Mode "debug": the command is run with --debug and its stderr is the smallest pipe there is (4 KiB).  With --debug
//	              the linter logs "merged provided and user config:" followed by the whole merged configuration
//	              (tens of KiB, one write) from Linter.GetConfig, i.e. after the input files were read and before
//	              anything is written.  The writer reads stderr in small pieces and STOPS reading when Trigger shows up:
//	              the rest of the message does not fit into the pipe, so the command waits inside write(2), in the
//	              middle of its first lint run, while Edits are applied; then reading goes on.  Should the message ever
//	              get short enough to fit, the moment is only as exact as the scheduler lets the writer be -- "the edit
//	              must survive" stays a robust expectation (an edit landing after the command's write survives trivially).
type ConcSpec struct {
	Mode        string            `json:"mode"`
	Fifo        string            `json:"fifo,omitempty"`
	FifoContent string            `json:"fifo_content,omitempty"`
	Trigger     string            `json:"trigger,omitempty"`
	Edits       map[string]string `json:"edits"`             // path -> new content (written by the concurrent writer)
	Deletes     []string          `json:"deletes,omitempty"` // paths removed by the concurrent writer
}

func Content(f WFile) string {
	c := ""
	if f.Dirty {
		c = "#bad\n"
	}
	return fmt.Sprintf("package %s\n\n%sf%d := %d\n", f.Pkg, c, f.ID, f.ID)
}

type Snap struct {
	Files map[string]string `json:"files"` // relative path -> content
	Dirs  []string          `json:"dirs"`  // relative paths, "" = root
}

// Snapshot lists the tree; the inside of .git directories is not part of it (the .git entry itself is).
// Symbolic links are not followed: a link is listed as a file whose content names its target.
func Snapshot(root string) Snap {
	s := Snap{Files: map[string]string{}, Dirs: []string{}}
	filepath.Walk(root, func(p string, info os.FileInfo, err error) error {
		if err != nil {
			return nil
		}
		rel, _ := filepath.Rel(root, p)
		if rel == "." {
			rel = ""
		}
		if info.IsDir() {
			s.Dirs = append(s.Dirs, rel)
			if info.Name() == ".git" {
				return filepath.SkipDir
			}
		} else if info.Name() == ".git" {
			s.Files[rel] = "gitfile\n"
		} else if info.Mode()&os.ModeSymlink != 0 {
			t, _ := os.Readlink(p)
			s.Files[rel] = "symlink -> " + t + "\n"
		} else if info.Mode()&os.ModeNamedPipe != 0 {
			s.Files[rel] = "fifo\n"
		} else {
			b, _ := os.ReadFile(p)
			s.Files[rel] = string(b)
		}
		return nil
	})
	sort.Strings(s.Dirs)
	return s
}

func must(err error) {
	if err != nil {
		panic(err)
	}
}

func git(dir string, args ...string) string {
	cmd := exec.Command("git", args...)
	cmd.Dir = dir
	cmd.Env = append(os.Environ(), "GIT_CONFIG_GLOBAL=/dev/null", "GIT_CONFIG_SYSTEM=/dev/null",
		"GIT_AUTHOR_NAME=v", "GIT_AUTHOR_EMAIL=v@example.invalid", "GIT_COMMITTER_NAME=v", "GIT_COMMITTER_EMAIL=v@example.invalid",
		"GIT_AUTHOR_DATE=2024-01-01T00:00:00Z", "GIT_COMMITTER_DATE=2024-01-01T00:00:00Z")
	out, err := cmd.CombinedOutput()
	if err != nil {
		panic(fmt.Sprintf("git %v in %s: %v\n%s", args, dir, err, out))
	}
	return string(out)
}

func under(dir, p string) bool { return dir == "" || p == dir || strings.HasPrefix(p, dir+"/") }

// repoOf: the deepest repository directory containing p ("", false when none)
func repoOf(g *GitSpec, p string) (string, bool) {
	best, ok := "", false
	if g == nil {
		return best, ok
	}
	for _, d := range g.RepoDirs {
		if under(d, p) && (!ok || len(d) > len(best)) {
			best, ok = d, true
		}
	}
	return best, ok
}

func Materialise(ws *WS, root string) {
	must(os.MkdirAll(root, 0o755))
	for _, d := range ws.EmptyDirs {
		must(os.MkdirAll(filepath.Join(root, d), 0o755))
	}
	write := func(rel, txt string) {
		p := filepath.Join(root, rel)
		must(os.MkdirAll(filepath.Dir(p), 0o755))
		must(os.WriteFile(p, []byte(txt), 0o644))
	}
	state := func(f WFile) string {
		if ws.Git != nil {
			if s, ok := ws.Git.States[f.Path]; ok {
				return s
			}
		}
		return "clean"
	}
	for _, o := range ws.Others {
		write(o, "other "+o+"\n")
	}
	links := make([]string, 0, len(ws.Symlinks))
	for l := range ws.Symlinks {
		links = append(links, l)
	}
	sort.Strings(links)
	for _, l := range links { // before the repositories are committed: the links are tracked
		must(os.MkdirAll(filepath.Dir(filepath.Join(root, l)), 0o755))
		must(os.Symlink(ws.Symlinks[l], filepath.Join(root, l)))
	}
	for _, d := range ws.RegalDirs {
		must(os.MkdirAll(filepath.Join(root, d, ".regal"), 0o755))
		if d == "" && len(ws.CfgRoots) > 0 {
			var sb strings.Builder
			sb.WriteString("project:\n  roots:\n")
			for _, r := range ws.CfgRoots {
				sb.WriteString("    - " + r + "\n")
			}
			write(".regal/config.yaml", sb.String())
		}
	}
	for _, d := range ws.Manifests {
		write(filepath.Join(d, ".manifest"), "{}\n")
	}
	extra := make([]string, 0, len(ws.Extra))
	for e := range ws.Extra {
		extra = append(extra, e)
	}
	sort.Strings(extra)
	for _, e := range extra {
		write(e, ws.Extra[e])
	}
	if ws.Git == nil {
		for _, f := range ws.Files {
			write(f.Path, Content(f))
		}
		return
	}
	// committed versions first: outer repositories before inner ones, so that an inner repository shows up as
	// untracked content of the outer one (it is not a registered submodule)
	repos := append([]string{}, ws.Git.RepoDirs...)
	sort.Slice(repos, func(i, j int) bool { return len(repos[i]) < len(repos[j]) })
	for _, rd := range repos {
		rp := filepath.Join(root, rd)
		must(os.MkdirAll(rp, 0o755))
		var ign strings.Builder
		for _, l := range ws.Git.IgnoreDirs {
			ign.WriteString(l + "\n")
		}
		if ign.Len() > 0 {
			write(filepath.Join(rd, ".gitignore"), ign.String())
		}
		for _, f := range ws.Files {
			if r, ok := repoOf(ws.Git, f.Path); !ok || r != rd {
				continue
			}
			switch state(f) {
			case "clean":
				write(f.Path, Content(f))
			case "modified", "staged":
				g := f
				g.ID += 1000
				write(f.Path, Content(g))
			}
		}
		git(rp, "init", "-q", ".")
		git(rp, "add", "-A")
		git(rp, "commit", "-q", "--allow-empty", "-m", "init")
	}
	// submodules, innermost first: registered in (and committed to) the repository around them
	subs := make([]string, 0, len(ws.Git.Submodules))
	for sd := range ws.Git.Submodules {
		subs = append(subs, sd)
	}
	sort.Slice(subs, func(i, j int) bool {
		if len(subs[i]) != len(subs[j]) {
			return len(subs[i]) > len(subs[j])
		}
		return subs[i] < subs[j]
	})
	for _, sd := range subs {
		outer, ok := "", false
		for _, d := range ws.Git.RepoDirs {
			if d != sd && under(d, sd) && (!ok || len(d) > len(outer)) {
				outer, ok = d, true
			}
		}
		if !ok {
			panic("submodule without a repository around it: " + sd)
		}
		op := filepath.Join(root, outer)
		rel, _ := filepath.Rel(op, filepath.Join(root, sd))
		opt := ws.Git.SubOpts[sd]
		addAt := rel
		if opt.MovedFrom != "" { // the repository is added at another path first (plain rename: nothing is registered yet)
			addAt = opt.MovedFrom
			must(os.MkdirAll(filepath.Dir(filepath.Join(op, addAt)), 0o755))
			must(os.Rename(filepath.Join(op, rel), filepath.Join(op, addAt)))
		}
		addArgs := []string{"-c", "protocol.file.allow=always", "submodule", "--quiet", "add"}
		if opt.Name != "" {
			addArgs = append(addArgs, "--name", opt.Name)
		}
		git(op, append(addArgs, "./"+addAt, addAt)...)
		git(op, "commit", "-q", "-m", "submodule "+addAt)
		if ws.Git.Submodules[sd] == "file" || opt.MovedFrom != "" || opt.Deinit {
			git(op, "submodule", "--quiet", "absorbgitdirs", addAt)
		}
		if opt.MovedFrom != "" { // git keeps the name (the old path), changes the path
			must(os.MkdirAll(filepath.Dir(filepath.Join(op, rel)), 0o755))
			git(op, "mv", addAt, rel)
			git(op, "commit", "-q", "-m", "move submodule "+addAt+" to "+rel)
		}
		if opt.Deinit {
			git(op, "submodule", "--quiet", "deinit", "-f", rel)
		}
	}
	for _, f := range ws.Files {
		switch state(f) {
		case "modified", "untracked", "ignored":
			write(f.Path, Content(f))
		case "staged":
			write(f.Path, Content(f))
			if r, ok := repoOf(ws.Git, f.Path); ok {
				rel, _ := filepath.Rel(filepath.Join(root, r), filepath.Join(root, f.Path))
				git(filepath.Join(root, r), "add", rel)
			}
		default:
			if _, ok := repoOf(ws.Git, f.Path); !ok {
				write(f.Path, Content(f)) // outside of every repository
			}
		}
	}
	if ws.Git.GitFile != "" {
		write(filepath.Join(ws.Git.GitFile, ".git"), "gitdir: /nonexistent\n")
	}
}

// Prepared is a materialised workspace ready for one invocation.
type Prepared struct {
	Idx        int             `json:"idx"`
	WS         *WS             `json:"ws"`
	Root       string          `json:"root"`     // the workspace root as the invocation spells it (through the link, with ws.Via)
	Real       string          `json:"real"`     // the same directory without symbolic links
	Base       string          `json:"base"`     // the directory created for this workspace (removed after the run)
	Cwd        string          `json:"cwd"`      // absolute
	Args       []string        `json:"args"`     // as they will be spelled on the command line
	AbsArgs    []string        `json:"abs_args"` // the same, absolute
	Roots      []string        `json:"roots"`    // config.GetPotentialRoots, relative to the workspace root ("" = root; "^..." = outside)
	Before     Snap            `json:"before"`
	Repos      []string        `json:"repos"`      // absolute work tree roots
	Restorable map[string]bool `json:"restorable"` // file (relative) -> its bytes equal the blob of HEAD in the enclosing repository
	Porcelain  []string        `json:"porcelain"`  // `git status --porcelain --ignored` of every repository (for the evidence)
}

func Prepare(ws *WS, workdir string, idx int) *Prepared {
	base := filepath.Join(workdir, "w"+strconv.Itoa(idx))
	os.RemoveAll(base)
	must(os.MkdirAll(base, 0o755))
	if r, err := filepath.EvalSymlinks(base); err == nil {
		base = r
	}
	root, real := base, base
	switch ws.Via {
	case "":
	case "link":
		root, real = filepath.Join(base, "link"), filepath.Join(base, "real")
	case "link-parent":
		root, real = filepath.Join(base, "link", "mid"), filepath.Join(base, "real", "mid")
	default:
		panic("unknown via: " + ws.Via)
	}
	Materialise(ws, real)
	switch ws.Via {
	case "link":
		must(os.Symlink("real", filepath.Join(base, "link")))
	case "link-parent":
		must(os.Symlink(filepath.Join(base, "real"), filepath.Join(base, "link")))
	}
	p := &Prepared{Idx: idx, WS: ws, Root: root, Real: real, Base: base, Restorable: map[string]bool{}}
	p.Before = Snapshot(real)
	p.Cwd = filepath.Join(root, ws.Cwd)
	for _, a := range ws.Args {
		ap := filepath.Join(root, a)
		p.AbsArgs = append(p.AbsArgs, ap)
		if ws.AbsArgs {
			p.Args = append(p.Args, ap)
		} else {
			rel, _ := filepath.Rel(p.Cwd, ap)
			p.Args = append(p.Args, rel)
		}
	}
	roots, err := config.GetPotentialRoots(p.AbsArgs...)
	if err != nil {
		p.Roots = []string{"!error"}
	}
	for _, r := range roots {
		rel, err := filepath.Rel(root, r)
		switch {
		case err != nil || strings.HasPrefix(rel, ".."):
			p.Roots = append(p.Roots, "^"+r)
		case rel == ".":
			p.Roots = append(p.Roots, "")
		default:
			p.Roots = append(p.Roots, rel)
		}
	}
	sort.Strings(p.Roots)
	if ws.Git != nil {
		for _, rd := range ws.Git.RepoDirs {
			rp := filepath.Join(real, rd)
			p.Repos = append(p.Repos, filepath.Join(root, rd)) // as the invocation spells them
			p.Porcelain = append(p.Porcelain, rd+": "+strings.ReplaceAll(strings.TrimSpace(git(rp, "status", "--porcelain", "--ignored")), "\n", " | "))
		}
		for rel, txt := range p.Before.Files {
			rd, ok := repoOf(ws.Git, rel)
			if !ok {
				p.Restorable[rel] = false
				continue
			}
			rp := filepath.Join(real, rd)
			inrepo, _ := filepath.Rel(rp, filepath.Join(real, rel))
			cmd := exec.Command("git", "show", "HEAD:"+inrepo)
			cmd.Dir = rp
			out, err := cmd.Output()
			want := txt
			if strings.HasPrefix(txt, "symlink -> ") { // the blob of a link is its target
				want = strings.TrimSuffix(strings.TrimPrefix(txt, "symlink -> "), "\n")
			}
			p.Restorable[rel] = err == nil && string(out) == want
		}
	}
	return p
}

type Result struct {
	Kind       string          `json:"kind"`
	WS         *WS             `json:"ws"`
	Roots      []string        `json:"roots"`
	Before     Snap            `json:"before"`
	After      Snap            `json:"after"`
	Exit       int             `json:"exit"`
	Stderr     string          `json:"stderr"`
	Stdout     string          `json:"stdout"`
	Cmd        []string        `json:"cmd"`
	Cwd        string          `json:"cwd"`  // relative to the workspace root
	Args       []string        `json:"args"` // as spelled; absolute ones start with /R
	Repos      []string        `json:"repos,omitempty"`
	Restorable map[string]bool `json:"restorable,omitempty"`
	Porcelain  []string        `json:"porcelain,omitempty"`
	// with ws.Concurrent: Before is the tree right after the concurrent writer's edits (the last tree the command can
	// have looked at before it decided), PreEdit the tree the command was started on; Applied: the moment was reached
	PreEdit *Snap `json:"pre_edit,omitempty"`
	Applied bool  `json:"applied,omitempty"`
}

// runWithWriter runs the command with the concurrent writer of ws.Concurrent (see ConcSpec).
func (p *Prepared) runWithWriter(cmd *exec.Cmd, se *bytes.Buffer, real string, res *Result) error {
	c := p.WS.Concurrent
	apply := func() {
		for _, d := range c.Deletes {
			os.Remove(filepath.Join(real, d))
		}
		paths := make([]string, 0, len(c.Edits))
		for e := range c.Edits {
			paths = append(paths, e)
		}
		sort.Strings(paths)
		for _, e := range paths {
			fp := filepath.Join(real, e)
			must(os.MkdirAll(filepath.Dir(fp), 0o755))
			must(os.WriteFile(fp, []byte(c.Edits[e]), 0o644))
		}
		mid := Snapshot(real)
		if c.Fifo != "" {
			delete(mid.Files, c.Fifo)
		}
		pre := res.Before
		res.PreEdit, res.Before, res.Applied = &pre, mid, true
		// what the writer wrote is in no commit
		rest := map[string]bool{}
		for k, v := range res.Restorable {
			rest[k] = v
		}
		for _, e := range paths {
			rest[e] = false
		}
		res.Restorable = rest
	}
	switch c.Mode {
	case "fifo":
		fifo := filepath.Join(real, c.Fifo)
		must(os.MkdirAll(filepath.Dir(fifo), 0o755))
		must(syscall.Mkfifo(fifo, 0o644))
		defer os.Remove(fifo)
		if err := cmd.Start(); err != nil {
			return err
		}
		done := make(chan error, 1)
		go func() { done <- cmd.Wait() }()
		for {
			// succeeds as soon as (and only when) somebody has the pipe open for reading: the command, which stays
			// blocked in that read until this end is closed
			fd, e := syscall.Open(fifo, syscall.O_WRONLY|syscall.O_NONBLOCK, 0)
			if e == nil {
				apply()
				syscall.Write(fd, []byte(c.FifoContent))
				syscall.Close(fd)
				return <-done
			}
			select {
			case err := <-done: // the command ended without ever opening the pipe
				return err
			case <-time.After(200 * time.Microsecond):
			}
		}
	case "debug":
		pr, pw, err := os.Pipe()
		must(err)
		// the smallest pipe there is: the command blocks in the write of its (long) debug output whenever this side
		// does not read
		syscall.Syscall(syscall.SYS_FCNTL, pw.Fd(), 1031 /* F_SETPIPE_SZ */, 4096)
		cmd.Stderr = pw
		cmd.Args = append([]string{cmd.Args[0], cmd.Args[1], "--debug"}, cmd.Args[2:]...)
		if err := cmd.Start(); err != nil {
			pw.Close()
			pr.Close()
			return err
		}
		pw.Close()
		buf := make([]byte, 512)
		applied := false
		for {
			n, e := pr.Read(buf)
			se.Write(buf[:n])
			if !applied && bytes.Contains(se.Bytes(), []byte(c.Trigger)) {
				// the rest of the message does not fit into the pipe: the command waits in write(2), in the middle
				// of its first lint run, until reading goes on below
				applied = true
				apply()
			}
			if e != nil {
				break
			}
		}
		pr.Close()
		return cmd.Wait()
	}
	panic("unknown concurrent mode: " + c.Mode)
}

// Execute runs the binary once and removes the workspace.
func (p *Prepared) Execute(regal string) Result {
	ws, root, real, base := p.WS, p.Root, p.Real, p.Base
	if real == "" {
		real = root
	}
	if base == "" {
		base = root
	}
	// spelled paths become /R..., resolved ones (only a program that resolves links prints them) /R.real...
	norm := func(s string) string {
		s = strings.ReplaceAll(s, root, "/R")
		if real != root {
			s = strings.ReplaceAll(s, real, "/R.real")
		}
		return s
	}
	res := Result{Kind: "ws", WS: ws, Roots: p.Roots, Before: p.Before, Cwd: ws.Cwd, Restorable: p.Restorable, Porcelain: p.Porcelain}
	for _, a := range p.Args {
		res.Args = append(res.Args, norm(a))
	}
	for _, r := range p.Repos {
		res.Repos = append(res.Repos, norm(r))
	}
	cmdArgs := []string{"fix"}
	if !ws.NoForce {
		cmdArgs = append(cmdArgs, "--force")
	}
	if ws.Policy == "rename" {
		cmdArgs = append(cmdArgs, "--on-conflict", "rename")
	}
	if ws.DryRun {
		cmdArgs = append(cmdArgs, "--dry-run")
	}
	if ws.Ignore != "" {
		cmdArgs = append(cmdArgs, "--ignore-files", ws.Ignore)
	}
	cmdArgs = append(cmdArgs, p.Args...)
	res.Cmd = cmdArgs
	// a run that does not come back (e.g. a rename loop that never finds a free name) is killed and reported
	cctx, cancel := context.WithTimeout(context.Background(), 90*time.Second)
	defer cancel()
	cmd := exec.CommandContext(cctx, regal, cmdArgs...)
	cmd.Dir = p.Cwd
	// PWD as a shell sets it: the working directory as spelled (os.Getwd trusts it when it names the same directory)
	cmd.Env = append(os.Environ(), "PWD="+p.Cwd)
	if p.Idx%4 != 0 { // most runs with two OS threads (cheaper when many run at once), every fourth with the default
		cmd.Env = append(cmd.Env, "GOMAXPROCS=2")
	}
	var so, se bytes.Buffer
	cmd.Stdout, cmd.Stderr = &so, &se
	var err error
	if ws.Concurrent != nil {
		err = p.runWithWriter(cmd, &se, real, &res)
	} else {
		err = cmd.Run()
	}
	if err != nil {
		if ee, ok := err.(*exec.ExitError); ok {
			res.Exit = ee.ExitCode()
		} else {
			res.Exit = -1
		}
	}
	if cctx.Err() != nil {
		res.Exit = -2
		se.WriteString("\nverif: killed after 90s without an answer")
	}
	if ws.Concurrent != nil && ws.Concurrent.Mode == "debug" && se.Len() > 1500 {
		// --debug prints the merged configuration first: the verdict is at the end
		res.Stderr = norm(se.String()[se.Len()-1500:])
	} else {
		res.Stderr = norm(trunc(se.String()))
	}
	res.Stdout = norm(trunc(so.String()))
	res.After = Snapshot(real)
	os.RemoveAll(base)
	return res
}

func RunCase(ws *WS, workdir, regal string, idx int) Result {
	return Prepare(ws, workdir, idx).Execute(regal)
}

func trunc(s string) string {
	if len(s) > 1500 {
		return s[:1500]
	}
	return s
}
