// C05 harness: drives the two ignore-pattern matchers of /repo on the same inputs and prints what
// each did, one JSON object per line.
//
//	Go side  : config.FilterIgnoredPaths (public API; excludeFile/filterPaths behind it)
//	Rego side: data.regal.config._pattern_compiler / _exclude / excluded_file and
//	           data.regal.main._file_name_relative_to_root, evaluated by OPA on the real embedded bundle
//	oracle   : gobwas/glob compiled with separator '/' directly from the library (independent of /repo)
//	end2end  : linter.Lint with global / per-rule ignores for a built-in, a custom and a custom aggregate rule
//
// usage: c05 <out.jsonl> <tier> <workdir> [replay.json]
package main

import (
	"context"
	"encoding/hex"
	"encoding/json"
	"fmt"
	"math/big"
	"os"
	"path/filepath"
	"runtime"
	"sort"
	"strings"
	"sync"

	"github.com/gobwas/glob"

	"github.com/open-policy-agent/opa/v1/rego"

	rbundle "github.com/styrainc/regal/bundle"
	"github.com/styrainc/regal/pkg/builtins"
	"github.com/styrainc/regal/pkg/config"
	"github.com/styrainc/regal/pkg/linter"

	"verifharness/hutil"
)

// ---------------------------------------------------------------- generators

var tokens = []string{"a", "b.rego", "*", "**", "?", "/", "[ab]"}
var comps = []string{"a", "b", "a.rego", "b.rego"}

func tokenPatterns(maxTok int) [][]string {
	// result[k] = distinct patterns first reachable with exactly k+1 tokens
	seen := map[string]bool{}
	var res [][]string
	cur := []string{""}
	for k := 0; k < maxTok; k++ {
		var next, fresh []string
		for _, c := range cur {
			for _, t := range tokens {
				next = append(next, c+t)
			}
		}
		for _, p := range next {
			if !seen[p] {
				seen[p] = true
				fresh = append(fresh, p)
			}
		}
		// cur must keep duplicates out too: the set of strings of k+1 tokens
		uniq := map[string]bool{}
		cur = cur[:0]
		for _, p := range next {
			if !uniq[p] {
				uniq[p] = true
				cur = append(cur, p)
			}
		}
		res = append(res, fresh)
	}
	return res
}

func relPaths(maxDepth int) []string {
	var res []string
	cur := []string{""}
	for d := 0; d < maxDepth; d++ {
		var next []string
		for _, c := range cur {
			for _, k := range comps {
				if c == "" {
					next = append(next, k)
				} else {
					next = append(next, c+"/"+k)
				}
			}
		}
		res = append(res, next...)
		cur = next
	}
	return res
}

// Shape is one way a file reaches the two matchers: a path prefix and a spelling of the file names.
type Shape struct {
	Name   string   `json:"name"`
	Prefix string   `json:"prefix"`
	Lead   string   `json:"lead"` // file name = Lead + relative path
	Full   bool     `json:"full"` // all relative paths or the small subset
	Files  []string `json:"files"`
	Rel    []string `json:"rel"`      // the relative paths the names were built from
	RegoRel []string `json:"rego_rel"` // data.regal.main._file_name_relative_to_root(file, prefix), observed
}

func shapes(all, small []string) []*Shape {
	mk := func(name, prefix, lead string, full bool) *Shape {
		s := &Shape{Name: name, Prefix: prefix, Lead: lead, Full: full}
		src := small
		if full {
			src = all
		}
		for _, r := range src {
			s.Files = append(s.Files, lead+r)
			s.Rel = append(s.Rel, r)
		}
		return s
	}
	return []*Shape{
		mk("noprefix-relative", "", "", true),
		mk("absdir", "/w", "/w/", true),
		mk("uri", "file:///w", "file:///w/", true),
		mk("absdir-slash", "/w/", "/w/", false),
		mk("noprefix-absolute", "", "/w/", false),
		mk("rootdir", "/", "/", false),
		mk("absdir-relative-names", "/w", "", false),
		mk("foreign-prefix", "/x", "/w/", false),
		mk("uri-slash", "file:///w/", "file:///w/", false),
	}
}

// closure: every string either expansion could conceivably hand to the glob engine for pattern p
func closure(p string) []string {
	seen := map[string]bool{}
	var res []string
	add := func(s string) {
		if !seen[s] {
			seen[s] = true
			res = append(res, s)
		}
	}
	for _, b := range []string{p, "**/" + p} {
		for _, b1 := range []string{b, strings.TrimPrefix(b, "/")} {
			for _, b2 := range []string{b1, strings.TrimPrefix(b1, "**/")} {
				add(b2)
				add(b2 + "/**")
				add(b2 + "**")
			}
		}
	}
	return res
}

// ---------------------------------------------------------------- bit masks

func maskHex(bits []bool) string {
	z := new(big.Int)
	for i, b := range bits {
		if b {
			z.SetBit(z, i, 1)
		}
	}
	return z.Text(16)
}

// ---------------------------------------------------------------- OPA on the real bundle

type opa struct {
	mu sync.Mutex
	pq map[string]*rego.PreparedEvalQuery
}

func newOpa() *opa { return &opa{pq: map[string]*rego.PreparedEvalQuery{}} }

func (o *opa) prepared(q string) *rego.PreparedEvalQuery {
	o.mu.Lock()
	defer o.mu.Unlock()
	if p, ok := o.pq[q]; ok {
		return p
	}
	args := append([]func(*rego.Rego){
		rego.ParsedBundle("regal", &rbundle.LoadedBundle),
		rego.Query(q),
	}, builtins.RegalBuiltinRegoFuncs...)
	p, err := rego.New(args...).PrepareForEval(context.Background())
	if err != nil {
		panic(fmt.Sprintf("prepare %q: %v", q, err))
	}
	o.pq[q] = &p
	return &p
}

func (o *opa) eval(q string, input any) any {
	p := o.prepared(q)
	rs, err := p.Eval(context.Background(), rego.EvalInput(input))
	if err != nil {
		panic(fmt.Sprintf("eval %q: %v", q, err))
	}
	if len(rs) == 0 {
		return nil
	}
	return rs[0].Bindings["x"]
}

const qCompiler = `x := [ [e | some e in data.regal.config._pattern_compiler(p)] | some p in input.patterns ]`

// per pattern, per shape: indices of excluded files
const qExclude = `x := [ [ [j | some j, f in sh.files
                              data.regal.config._exclude(p, data.regal.main._file_name_relative_to_root(f, sh.prefix))]
                         | some sh in input.shapes ]
                       | some p in input.patterns ]`

const qRel = `x := [ [data.regal.main._file_name_relative_to_root(f, sh.prefix) | some f in sh.files] | some sh in input.shapes ]`

// excluded_file with CLI list, config list and the rule's own list
const qExcludedFile = `x := [ j | some j, f in input.files
          data.regal.config.excluded_file("cat", "rule", f)
            with data.eval.params as {"ignore_files": input.cli}
            with data.internal.combined_config as input.cfg ]`

const qGlobal = `x := data.regal.config._global_ignore_patterns
            with data.eval.params as {"ignore_files": input.cli}
            with data.internal.combined_config as input.cfg`

func toInts(v any) []int {
	var res []int
	for _, x := range v.([]any) {
		n, _ := x.(json.Number).Int64()
		res = append(res, int(n))
	}
	return res
}

func toStrings(v any) []string {
	res := []string{}
	for _, x := range v.([]any) {
		res = append(res, x.(string))
	}
	sort.Strings(res)
	return res
}

// ---------------------------------------------------------------- function level, bulk

type Row struct {
	E    string `json:"e"`
	OK   bool   `json:"ok"`
	Mask string `json:"mask"` // hex bit set over the column universe
}

type PatCase struct {
	Kind     string   `json:"kind"`
	P        string   `json:"p"`
	Src      string   `json:"src"`
	Compiler []string `json:"compiler"`
	Rows     []Row    `json:"rows"`
	Go       []string `json:"go"`   // per shape: hex mask of excluded files, or "error"
	Rego     []string `json:"rego"` // per shape: hex mask of excluded files
	GoErr    string   `json:"go_err,omitempty"`
}

func indicesToMask(idx []int, n int) string {
	bits := make([]bool, n)
	for _, i := range idx {
		bits[i] = true
	}
	return maskHex(bits)
}

func goExcludedMask(files []string, pattern, prefix string) (string, string) {
	kept, err := config.FilterIgnoredPaths(files, []string{pattern}, false, prefix)
	if err != nil {
		return "error", err.Error()
	}
	// kept must be an order-preserving sublist; anything else is reported as-is by the caller
	bits := make([]bool, len(files))
	k := 0
	for i, f := range files {
		if k < len(kept) && kept[k] == f {
			k++
		} else {
			bits[i] = true
		}
	}
	if k != len(kept) {
		return "notsublist", fmt.Sprintf("%v", kept)
	}
	return maskHex(bits), ""
}

func bulk(out *hutil.Out, o *opa, pats []string, srcs map[string]string, shs []*Shape, universe []string) {
	type shIn struct {
		Prefix string   `json:"prefix"`
		Files  []string `json:"files"`
	}
	var shIns []shIn
	for _, s := range shs {
		shIns = append(shIns, shIn{s.Prefix, s.Files})
	}
	res := make([]PatCase, len(pats))
	const chunk = 24
	var wg sync.WaitGroup
	sem := make(chan struct{}, runtime.NumCPU())
	for lo := 0; lo < len(pats); lo += chunk {
		hi := lo + chunk
		if hi > len(pats) {
			hi = len(pats)
		}
		wg.Add(1)
		sem <- struct{}{}
		go func(lo, hi int) {
			defer wg.Done()
			defer func() { <-sem }()
			ps := pats[lo:hi]
			comp := o.eval(qCompiler, map[string]any{"patterns": ps}).([]any)
			excl := o.eval(qExclude, map[string]any{"patterns": ps, "shapes": shIns}).([]any)
			for i, p := range ps {
				c := PatCase{Kind: "pat", P: p, Src: srcs[p], Compiler: toStrings(comp[i])}
				for si, s := range shs {
					c.Rego = append(c.Rego, indicesToMask(toInts(excl[i].([]any)[si]), len(s.Files)))
					m, e := goExcludedMask(s.Files, p, s.Prefix)
					c.Go = append(c.Go, m)
					if e != "" && c.GoErr == "" {
						c.GoErr = e
					}
				}
				for _, e := range closure(p) {
					g, err := glob.Compile(e, '/')
					r := Row{E: e, OK: err == nil}
					if err == nil {
						bits := make([]bool, len(universe))
						for k, u := range universe {
							bits[k] = g.Match(u)
						}
						r.Mask = maskHex(bits)
					} else {
						r.Mask = "0"
					}
					c.Rows = append(c.Rows, r)
				}
				res[lo+i] = c
			}
		}(lo, hi)
	}
	wg.Wait()
	for _, c := range res {
		out.Emit(c)
	}
}

// ---------------------------------------------------------------- function level, small self-contained cases

// SmallCase: several patterns at once (filterPaths), CLI/config/rule lists (excluded_file), odd bytes.
type SmallCase struct {
	Kind   string     `json:"kind"` // "small"
	Src    string     `json:"src"`
	Prefix string     `json:"prefix"`
	Files  []string   `json:"files"`
	Cli    []string   `json:"cli"`
	Cfg    []string   `json:"cfg"`
	CfgSet bool       `json:"cfg_set"` // config has an ignore.files key at all
	Rule   []string   `json:"rule"`
	Table  [][]string `json:"table"` // [pattern, "ok"/"bad", matching column strings...]
	// observed
	GoSelected []string `json:"go_selected"`         // the list linter.Lint hands to FilterIgnoredPaths (mirrored here, see note)
	GoKept     []string `json:"go_kept"`             // FilterIgnoredPaths(files, selected, false, prefix)
	GoErr      bool     `json:"go_err"`              // ... returned an error
	RegoGlobal []string `json:"rego_global"`         // _global_ignore_patterns (nil if undefined)
	RegoGlobalDefined bool `json:"rego_global_defined"`
	RegoRel    []string `json:"rego_rel"`            // _file_name_relative_to_root per file
	RegoExcl   []int    `json:"rego_excl"`           // indices j with excluded_file(cat, rule, rel_j)
	RegoExclGlobalOnly []int `json:"rego_excl_global"` // same with the rule list removed
}

func smallCase(o *opa, src, prefix string, files, cli, cfg []string, cfgSet bool, rule []string) SmallCase {
	c := SmallCase{Kind: "small", Src: src, Prefix: prefix, Files: files, Cli: cli, Cfg: cfg, CfgSet: cfgSet, Rule: rule}
	if c.Cli == nil {
		c.Cli = []string{}
	}
	if c.Cfg == nil {
		c.Cfg = []string{}
	}
	if c.Rule == nil {
		c.Rule = []string{}
	}
	// --- Go: the selection is two lines of linter.Lint (not callable in isolation); the Lint-level
	// cases observe it for real, here it is mirrored so that FilterIgnoredPaths gets the same list
	sel := c.Cfg
	if len(c.Cli) > 0 {
		sel = c.Cli
	}
	c.GoSelected = sel
	kept, err := config.FilterIgnoredPaths(files, sel, false, prefix)
	c.GoErr = err != nil
	c.GoKept = kept
	if c.GoKept == nil {
		c.GoKept = []string{}
	}
	// --- Rego
	rel := o.eval(qRel, map[string]any{"shapes": []any{map[string]any{"prefix": prefix, "files": files}}}).([]any)[0].([]any)
	for _, r := range rel {
		c.RegoRel = append(c.RegoRel, r.(string))
	}
	mkcfg := func(rule []string) map[string]any {
		m := map[string]any{"rules": map[string]any{"cat": map[string]any{"rule": map[string]any{
			"level": "error", "ignore": map[string]any{"files": rule}}}}}
		if cfgSet {
			m["ignore"] = map[string]any{"files": c.Cfg}
		}
		return m
	}
	g := o.eval(qGlobal, map[string]any{"cli": c.Cli, "cfg": mkcfg(c.Rule)})
	if g != nil {
		c.RegoGlobalDefined = true
		for _, x := range g.([]any) {
			c.RegoGlobal = append(c.RegoGlobal, x.(string))
		}
	}
	if c.RegoGlobal == nil {
		c.RegoGlobal = []string{}
	}
	c.RegoExcl = toInts(o.eval(qExcludedFile, map[string]any{"files": c.RegoRel, "cli": c.Cli, "cfg": mkcfg(c.Rule)}))
	c.RegoExclGlobalOnly = toInts(o.eval(qExcludedFile, map[string]any{"files": c.RegoRel, "cli": c.Cli, "cfg": mkcfg([]string{})}))
	if c.RegoExcl == nil {
		c.RegoExcl = []int{}
	}
	if c.RegoExclGlobalOnly == nil {
		c.RegoExclGlobalOnly = []int{}
	}
	// --- oracle table over every string either side could pass to the engine
	colSet := map[string]bool{}
	var cols []string
	addc := func(s string) {
		if !colSet[s] {
			colSet[s] = true
			cols = append(cols, s)
		}
	}
	for i, f := range files {
		addc(f)
		addc(strings.TrimPrefix(f, "/"))
		addc(c.RegoRel[i])
		for _, pre := range []string{prefix, prefix + "/", strings.TrimSuffix(prefix, "/")} {
			if pre != "" {
				addc(strings.TrimPrefix(f, pre))
			}
		}
	}
	patSet := map[string]bool{}
	for _, l := range [][]string{c.Cli, c.Cfg, c.Rule} {
		for _, p := range l {
			if patSet[p] {
				continue
			}
			patSet[p] = true
			for _, e := range closure(p) {
				row := []string{e}
				g, err := glob.Compile(e, '/')
				if err != nil {
					row = append(row, "bad")
				} else {
					row = append(row, "ok")
					for _, u := range cols {
						if g.Match(u) {
							row = append(row, u)
						}
					}
				}
				c.Table = append(c.Table, row)
			}
		}
	}
	return c
}

// ---------------------------------------------------------------- main

func main() {
	if len(os.Args) < 4 {
		fmt.Fprintln(os.Stderr, "usage: c05 <out.jsonl> <tier> <workdir> [replay.json]")
		os.Exit(2)
	}
	out := hutil.NewOut(os.Args[1])
	defer out.Close()
	tier := os.Args[2]
	work := os.Args[3]
	rng := hutil.NewRng(hutil.SeedFromEnv())
	o := newOpa()

	if len(os.Args) > 4 {
		replay(out, o, os.Args[4], work)
		return
	}

	all := relPaths(4)
	var small []string
	for _, r := range relPaths(2) {
		small = append(small, r)
	}
	// a few deeper ones in the small set
	for i := 0; i < 12; i++ {
		small = append(small, all[20+rng.Below(len(all)-20)])
	}
	shs := shapes(all, small)
	universe := buildUniverse(o, shs, all)
	out.Emit(map[string]any{"kind": "universe", "cols": universe})
	for _, s := range shs {
		out.Emit(map[string]any{"kind": "shape", "shape": s})
	}

	pats, srcs := patternSet(rng, tier, filepath.Join(work, "..", "corpus_c05"))
	bulk(out, o, pats, srcs, shs, universe)
	smallCases(out, o, rng, tier, all)
	lintCases(out, rng, tier, work)
	_ = hex.EncodeToString
}
